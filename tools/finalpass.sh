#!/bin/bash
# tools/finalpass.sh : thorough then quick tier of every registered check on the unchanged /repo; keeps the thorough evidence
# under evidence/thorough/ and leaves the quick-tier evidence in evidence/ (what `vp check` regenerates).  Logs under /tmp/wt.
cd "$(dirname "$0")/.."
mkdir -p evidence/thorough
run_stream() {  # $1 = tier, rest = ids
  tier=$1; shift
  for id in "$@"; do
    VERIF_JOBS=${VERIF_JOBS:-5} ./check $id --tier $tier > /tmp/wt/final.$tier.$id.log 2>&1
    echo "$id $tier exit=$? $(grep -E "^$id tier=" /tmp/wt/final.$tier.$id.log | cut -c1-200)"
    grep -E "^VIOLATION|^HARNESS" /tmp/wt/final.$tier.$id.log | head -3
    [ "$tier" = thorough ] && cp evidence/$id.json evidence/thorough/$id.json
  done
}
for tier in thorough quick; do
  run_stream $tier C01 C02 C03 C04 C05 C06 C07 &
  run_stream $tier C08 C09 C10 C11 C12 C13 C14 &
  run_stream $tier C15 C16 C17 C18 C19 C20 &
  wait
done
