#!/usr/bin/env python3
"""tools/seedtest.py <seed-dir> [--checks C07,C01] [--tier quick] [--keep-as <name>]

Validate a seeded change (patch.diff + demo.py + meta.json) in a scratch worktree of /repo and run checks against it:
  1. fresh worktree of /repo HEAD under /tmp/wt/validate.<pid>
  2. demo passes on the unchanged tree; patch applies; test-suite passes with it; demo fails with it
  3. each requested check is run with KNEE_REPO=<worktree> (quick tier by default) and its verdict recorded
  4. with --keep-as, the seed is copied to /verif/seeded/<name>/ with meta.json extended by what was run and seen
The worktree is removed at the end."""
import sys, os, json, subprocess, shutil, argparse, time

VERIF = os.path.dirname(os.path.dirname(os.path.abspath(__file__)))


def sh(cmd, cwd=None, env=None, timeout=3600):
    p = subprocess.run(cmd, shell=True, cwd=cwd, env=env, stdout=subprocess.PIPE, stderr=subprocess.STDOUT, text=True, timeout=timeout)
    return p.returncode, p.stdout


def main():
    ap = argparse.ArgumentParser()
    ap.add_argument('seed')
    ap.add_argument('--checks', default='')
    ap.add_argument('--tier', default='quick')
    ap.add_argument('--keep-as', default=None)
    ap.add_argument('--jobs', default='6')
    ap.add_argument('--repo', default=None, help='apply to this tree instead of a scratch worktree (e.g. /repo); undone afterwards')
    a = ap.parse_args()
    seed = os.path.abspath(a.seed)
    meta = json.load(open(os.path.join(seed, 'meta.json')))
    prop = meta.get('property')
    checks = [c for c in a.checks.split(',') if c] or [prop]
    wt = '/tmp/wt/validate.%d' % os.getpid()
    res = {'seed': seed, 'property': prop, 'checks': {}}
    if a.repo:
        wt = a.repo
    else:
        rc, out = sh('git -C /repo worktree add -q --detach %s HEAD' % wt)
        if rc != 0:
            print(out)
            sys.exit(2)
    try:
        env = dict(os.environ, PYTHONPATH=wt + '/src', PYTHONDONTWRITEBYTECODE='1', PYTHONHASHSEED='0')
        demo = os.path.join(seed, 'demo.py')
        rc0, out0 = sh('timeout 600 /venv/bin/python %s' % demo, cwd=wt, env=env)
        res['demo_without_change'] = rc0
        rc, out = sh('git apply %s' % os.path.join(seed, 'patch.diff'), cwd=wt)
        res['patch_applies'] = (rc == 0)
        if rc != 0:
            print(out)
        rc, out = sh('timeout 900 /venv/bin/python -m pytest -q -p no:cacheprovider test 2>&1 | tail -3', cwd=wt, env=env)
        res['tests_with_change'] = out.strip().split('\n')[-1]
        rc1, out1 = sh('timeout 600 /venv/bin/python %s' % demo, cwd=wt, env=env)
        res['demo_with_change'] = rc1
        res['demo_tail'] = out1[-600:]
        res['valid'] = bool(rc0 == 0 and res['patch_applies'] and ' passed' in res['tests_with_change'] and 'failed' not in res['tests_with_change'] and rc1 != 0)
        for c in checks:
            t0 = time.time()
            env2 = dict(os.environ, KNEE_REPO=wt, VERIF_JOBS=a.jobs)
            rc, out = sh('./check %s --tier %s' % (c, a.tier), cwd=VERIF, env=env2, timeout=7200)
            lines = [l for l in out.split('\n') if l.startswith('VIOLATION') or l.startswith('KNOWN-FINDING') or l.startswith(c + ' tier=') or l.startswith('HARNESS')]
            res['checks'][c] = {'exit': rc, 'lines': lines[:6], 'wall_s': round(time.time() - t0, 1), 'detected': rc == 1 and any(l.startswith('VIOLATION') for l in lines)}
        print(json.dumps(res, indent=1))
        if a.keep_as:
            dst = os.path.join(VERIF, 'seeded', a.keep_as)
            os.makedirs(dst, exist_ok=True)
            for f in ('patch.diff', 'demo.py'):
                if os.path.abspath(os.path.join(seed, f)) != os.path.abspath(os.path.join(dst, f)):   # re-validating a kept seed in place
                    shutil.copy(os.path.join(seed, f), os.path.join(dst, f))
            meta['confirmed'] = {'demo_without_change_exit': rc0, 'demo_with_change_exit': rc1, 'tests_with_change': res['tests_with_change'],
                                 'valid': res['valid'],
                                 'ran': 'tools/seedtest.py: demo on clean tree; git apply patch.diff; pytest test; demo again; then ./check <id> --tier %s with KNEE_REPO=<patched tree>' % a.tier}
            for c in res['checks'].values():
                c['tier'] = a.tier
            meta['checks_run'] = res['checks']
            old = os.path.join(dst, 'meta.json')
            if os.path.exists(old):
                try:
                    om = json.load(open(old))
                    if om.get('coordinator_note'):
                        meta['coordinator_note'] = om['coordinator_note']
                    for k, v in om.get('checks_run', {}).items():      # keep the latest verdict of checks not re-run now
                        meta['checks_run'].setdefault(k, v)
                except Exception:
                    pass
            json.dump(meta, open(os.path.join(dst, 'meta.json'), 'w'), indent=1)
    finally:
        if a.repo:
            sh('git checkout -- .', cwd=wt)
        else:
            sh('git -C /repo worktree remove --force %s' % wt)
            shutil.rmtree(wt, ignore_errors=True)


if __name__ == '__main__':
    main()
