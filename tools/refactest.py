#!/usr/bin/env python3
"""tools/refactest.py <refactor-dir> [--escalate] : apply a behaviour-preserving refactoring (patch.diff + equiv.py) in a scratch worktree,
confirm tests + equiv.py, then run every check whose property is anchored in a touched file; every check must exit 0 (no false alarm)."""
import sys, os, json, subprocess, shutil, argparse, time, re
VERIF = os.path.dirname(os.path.dirname(os.path.abspath(__file__)))


def sh(cmd, cwd=None, env=None, timeout=7200):
    p = subprocess.run(cmd, shell=True, cwd=cwd, env=env, stdout=subprocess.PIPE, stderr=subprocess.STDOUT, text=True, timeout=timeout)
    return p.returncode, p.stdout


ap = argparse.ArgumentParser()
ap.add_argument('dir')
ap.add_argument('--escalate', action='store_true')
ap.add_argument('--jobs', default='5')
ap.add_argument('--checks', default='')
a = ap.parse_args()
d = os.path.abspath(a.dir)
patch = os.path.join(d, 'patch.diff')
touched = set(re.findall(r'^\+\+\+ b/(\S+)', open(patch).read(), flags=re.M))
props = []
for l in open(os.path.join(VERIF, 'properties.jsonl')):
    p = json.loads(l)
    if touched & set(p.get('anchors', {}).get('files', [])):
        props.append(p['id'])
if a.checks:
    props = a.checks.split(',')
wt = '/tmp/wt/refac.%d' % os.getpid()
rc, out = sh('git -C /repo worktree add -q --detach %s HEAD' % wt)
res = {'dir': d, 'touched': sorted(touched), 'checks': {}}
try:
    env = dict(os.environ, PYTHONPATH=wt + '/src', PYTHONDONTWRITEBYTECODE='1', PYTHONHASHSEED='0')
    rc, out = sh('git apply %s' % patch, cwd=wt)
    res['patch_applies'] = rc == 0
    rc, out = sh('timeout 900 /venv/bin/python -m pytest -q -p no:cacheprovider test 2>&1 | tail -1', cwd=wt, env=env)
    res['tests'] = out.strip()
    rc, out = sh('timeout 1800 /venv/bin/python %s 2>&1 | tail -3' % os.path.join(d, 'equiv.py'), cwd=wt, env=env)
    res['equiv_exit'] = rc
    for c in props:
        t0 = time.time()
        env2 = dict(os.environ, KNEE_REPO=wt, VERIF_JOBS=a.jobs)
        if not a.escalate:
            env2['VERIF_NO_ESCALATE'] = '1'
        rc, out = sh('./check %s --tier quick' % c, cwd=VERIF, env=env2)
        lines = [l[:300] for l in out.split('\n') if l.startswith('VIOLATION') or l.startswith(c + ' tier=') or l.startswith('HARNESS')]
        res['checks'][c] = {'exit': rc, 'lines': lines[:4], 'wall_s': round(time.time() - t0, 1)}
    res['false_alarms'] = [c for c, v in res['checks'].items() if v['exit'] != 0]
    print(json.dumps(res, indent=1))
finally:
    sh('git -C /repo worktree remove --force %s' % wt)
    shutil.rmtree(wt, ignore_errors=True)
