#!/usr/bin/env python3
# writes seeded/RESULTS.md: one row per kept seeded change — what it breaks, what it needs, which checks were run against it and what they said
import json, os, glob
here = os.path.dirname(os.path.dirname(os.path.abspath(__file__)))
rows = []
for d in sorted(glob.glob(os.path.join(here, 'seeded', '*'))):
    mp = os.path.join(d, 'meta.json')
    if not os.path.exists(mp):
        continue
    m = json.load(open(mp))
    name = os.path.basename(d)
    cr = m.get('checks_run', {})
    det = ', '.join('%s: %s (%s tier, %.0fs)' % (c, 'VIOLATION' if v.get('detected') else 'not detected (exit %s)' % v.get('exit'), v.get('tier', 'quick'), v.get('wall_s', 0)) for c, v in cr.items())
    rows.append('| %s | %s | %s | %s | %s |' % (name, m.get('property'), (m.get('what_it_breaks') or '').replace('|', '/').replace('\n', ' ')[:260],
                                             (m.get('needs_to_manifest') or '').replace('|', '/').replace('\n', ' ')[:260], det))
out = ['# Seeded changes kept under /verif/seeded and what the checks say about them', '',
       'Each change was written by a fresh sub-agent that saw only the property text and a scratch worktree of /repo; each was confirmed',
       '(demo passes on the clean tree, patch applies, the 98 tests pass with it, demo fails with it) by tools/seedtest.py before being kept.', '',
       '| seed | property | what it breaks | what it needs to manifest | checks run (latest) |', '|---|---|---|---|---|'] + rows
open(os.path.join(here, 'seeded', 'RESULTS.md'), 'w').write('\n'.join(out) + '\n')
print(len(rows), 'seeds')
