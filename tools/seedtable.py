#!/usr/bin/env python3
# writes seeded/RESULTS.md: one row per kept seeded change — what it breaks, what it needs, which checks were run against it and what they said
import json, os, glob
here = os.path.dirname(os.path.dirname(os.path.abspath(__file__)))
rows = []
for d in sorted(glob.glob(os.path.join(here, 'seeded', '*'))):
    mp = os.path.join(d, 'meta.json')
    if not os.path.exists(mp):
        continue
    m = json.load(open(mp))
    name = os.path.basename(d)
    cr = m.get('checks_run', {})
    det = ', '.join('%s: %s (%s tier, %.0fs)' % (c, 'VIOLATION' if v.get('detected') else 'not detected (exit %s)' % v.get('exit'), v.get('tier', 'quick'), v.get('wall_s', 0)) for c, v in cr.items())
    rows.append('| %s | %s | %s | %s | %s |' % (name, m.get('property'), (m.get('what_it_breaks') or '').replace('|', '/').replace('\n', ' ')[:260],
                                             (m.get('needs_to_manifest') or '').replace('|', '/').replace('\n', ' ')[:260], det))
out = ['# Seeded changes kept under /verif/seeded and what the checks say about them', '',
       'Each change was written by a fresh sub-agent that saw only the property text and a scratch worktree of /repo; each was confirmed',
       '(demo passes on the clean tree, patch applies, the 98 tests pass with it, demo fails with it) by tools/seedtest.py before being kept.', '',
       '| seed | property | what it breaks | what it needs to manifest | checks run (latest) |', '|---|---|---|---|---|'] + rows
open(os.path.join(here, 'seeded', 'RESULTS.md'), 'w').write('\n'.join(out) + '\n')
print(len(rows), 'seeds')

# compact summary into DESIGN.md between the markers
import re
comp = ['| seed | property | needs | result |', '|---|---|---|---|']
for d in sorted(glob.glob(os.path.join(here, 'seeded', '*'))):
    mp = os.path.join(d, 'meta.json')
    if not os.path.exists(mp):
        continue
    m = json.load(open(mp))
    cr = m.get('checks_run', {})
    res = '; '.join('%s %s' % (c, '✔' if v.get('detected') else '✘ (exit %s)' % v.get('exit')) for c, v in cr.items())
    note = m.get('coordinator_note', '')
    comp.append('| %s | %s | %s | %s%s |' % (os.path.basename(d), m.get('property'), (m.get('needs_to_manifest') or '').replace('|', '/').replace('\n', ' ')[:150], res, (' — ' + note) if note else ''))
dp = os.path.join(here, 'DESIGN.md')
t = open(dp).read()
t = re.sub(r'<!-- SEEDTABLE:BEGIN -->.*?<!-- SEEDTABLE:END -->', lambda _: '<!-- SEEDTABLE:BEGIN -->\n' + '\n'.join(comp) + '\n<!-- SEEDTABLE:END -->', t, flags=re.S)
open(dp, 'w').write(t)
