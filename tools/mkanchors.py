#!/venv/bin/python
# records the AST hash of every anchored source file of /repo's current tree in /verif/anchors.json (run after validating the checks on it)
import json, os, sys
here = os.path.dirname(os.path.dirname(os.path.abspath(__file__)))
sys.path.insert(0, os.path.join(here, 'harness'))
import core
files = set()
for l in open(os.path.join(here, 'properties.jsonl')):
    files.update(f for f in json.loads(l).get('anchors', {}).get('files', []) if f.endswith('.py'))
out = {f: core.ast_hash(os.path.join('/repo', f)) for f in sorted(files)}
json.dump(out, open(os.path.join(here, 'anchors.json'), 'w'), indent=1)
print(len(out), 'files fingerprinted')
