#!/bin/bash
# tools/seedall.sh C01 C04 ... : validate every seed of the given properties and run that property's quick check against it
cd "$(dirname "$0")/.."
for id in "$@"; do
  for d in ${SEED_ROOT:-/root/seeds_backup}/$id/m*; do
    [ -d "$d" ] || continue
    k=$(basename $d)
    python3 tools/seedtest.py $d --keep-as $id-${SEED_TAG:-}$k ${SEED_ARGS:-} 2>&1 | python3 -c "
import sys,json
t=sys.stdin.read()
try:
    r=json.loads(t[t.index('{'):]); print('$id-${SEED_TAG:-}$k', 'valid', r['valid'], {c:(v['detected'], v['exit'], v['lines'][:1], v['wall_s']) for c,v in r['checks'].items()})
except Exception as e:
    print('$id-${SEED_TAG:-}$k', 'ERROR', t[-1500:])"
  done
done
