#!/usr/bin/env python3
# regenerates /verif/MANIFEST.json from the table below (run after adding a check)
import json, os
here = os.path.dirname(os.path.dirname(os.path.abspath(__file__)))
props = [json.loads(l) for l in open(os.path.join(here, 'properties.jsonl'))]

# id -> (level text, level_note, technique, design_ref)
CLAIMED = {
 'C07': ('Theorems (Coq, closed under the global context, unbounded n / index sets / position lists / row orders): mapping on the table of a well-formed reduction returns reduced[I]; any row permutation sorted by ANY sorting function gives the same table; compute_removed_points derives that table; retained + dropped = n. Tie to the code: rdp.mapping / compute_removed_points / all five simplifiers are run on every generated case and judged inside Coq by the theorem\'s own predicate and against the model.',
         'Trusted: Coq kernel + vm_compute; hand-written model of rdp.mapping/compute_removed_points (integers only) validated by the correspondence run; harness. Counts in removed tables must be integral (checked).',
         'Coq proof (induction over index lists, lia) + in-Coq differential correspondence', '4/C07'),
}
# further claims come from the workers' reports/<id>.manifest.json
import glob
for f in sorted(glob.glob(os.path.join(here, 'reports', 'C*.manifest.json'))):
    pid = os.path.basename(f).split('.')[0]
    try:
        r = json.load(open(f))
        CLAIMED[pid] = (r['text'], r['note'], r['technique'], '4/' + pid)
    except Exception as e:
        print('bad report', f, e)
NOT_READY = set(json.load(open(os.path.join(here, 'tools', 'not_ready.json')))) if os.path.exists(os.path.join(here, 'tools', 'not_ready.json')) else set()
PENDING_REASON = 'check not built yet in this round (model and theorem planned in DESIGN.md section 4); not claimed until its check exists'

checks = []
na = []
for p in props:
    pid = p['id']
    if pid in CLAIMED and pid not in NOT_READY and os.path.exists(os.path.join(here, 'harness', pid.lower() + '.py')) and os.path.exists(os.path.join(here, 'coq', 'Props', pid + '.v')):
        text, note, tech, ref = CLAIMED[pid]
        checks.append({
            'property_id': pid,
            'quick_cmd': './check %s --tier quick' % pid,
            'thorough_cmd': './check %s --tier thorough' % pid,
            'evidence_file': 'evidence/%s.json' % pid,
            'replay_cmd_template': './check %s --replay {path}' % pid,
            'engine': 'coq-knee',
            'level_claimed': {'category': 'proof', 'text': text, 'design_ref': 'DESIGN.md ' + ref},
            'level_note': note,
            'technique': tech,
        })
    else:
        na.append({'property_id': pid, 'reason': PENDING_REASON})
m = {
 'version': 1,
 'setup_cmd': './setup.sh',
 'hooks': {'guard': 'KNEE_VERIF', 'enable': 'none needed: no source hooks; all observation is through return values, caller-supplied caches and monkey-patched pass-through wrappers installed by the harness', 'baseline_off_cmd': 'cd /repo && /venv/bin/python -m pytest -q -p no:cacheprovider test', 'source_commits': [], 'add_only': True},
 'engines': [{'name': 'coq-knee', 'path': 'coq/', 'serves_properties': [c['property_id'] for c in checks],
              'kind_free_text': 'Coq 8.16.1 development (-Q coq Knee): generic Num-parametric Gallina models, proofs, Props/<id>.v theorem files; Python harness (harness/) generates cases, runs /repo, and has coqc judge them'}],
 'checks': checks,
 'not_applicable': na,
 'notes': 'See DESIGN.md. Every check: (1) full .vo build + Props/<id>.v compiled with Print Assumptions audited + source hygiene grep; (2) correspondence of the hand-written model with /repo on generated inputs, judged inside Coq; (3) VIOLATION with a concrete replay, or no-failing-input-found when only a proof/correspondence broke.',
}
json.dump(m, open(os.path.join(here, 'MANIFEST.json'), 'w'), indent=1)
print('claimed:', [c['property_id'] for c in checks])
