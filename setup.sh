#!/bin/bash
# MANIFEST.setup_cmd: build the whole Coq development (full .vo build) and smoke-run the harness.
set -e
here=$(cd "$(dirname "$0")" && pwd)
cd "$here"
export PYTHONPATH=/repo/src:$here/harness PYTHONHASHSEED=0 PYTHONDONTWRITEBYTECODE=1
/venv/bin/python - <<'PY'
import sys
sys.path.insert(0, 'harness')
import core
ok, out = core.build(clean=False)
print(out[-3000:])
if not ok:
    sys.exit(1)
core.import_impl()
import numpy as np, kneeliverse.metrics as m
m.smape(np.array([1.0, 2.0]), np.array([1.0, 3.0]))   # numba's first-call compilation surfaces here
print('setup ok')
PY
