#!/bin/bash
# MANIFEST.setup_cmd: build the Coq development (full .vo build) and smoke-run the harness.
set -e
here=$(cd "$(dirname "$0")" && pwd)
cd "$here"
export PYTHONPATH=/repo/src:$here/harness PYTHONHASHSEED=0 PYTHONDONTWRITEBYTECODE=1
/venv/bin/python - <<'PY'
import sys, json, os
sys.path.insert(0, 'harness')
import core
# 1. everything the registered checks need (fatal if it does not build)
m = json.load(open('MANIFEST.json'))
targets = []
for c in m['checks']:
    pid = c['property_id']
    targets += ['Props/%s.v' % pid, 'Run/Judge%s.v' % pid]
targets = [t for t in targets if os.path.exists(os.path.join(core.COQ, t))]
ok, out = core.build(clean=False, targets=targets)
print(out[-3000:])
if not ok:
    sys.exit(1)
# 2. the rest of the development (legacy models, work in progress): built too, reported, not fatal for setup
ok2, out2 = core.build(clean=False)
if not ok2:
    print('NOTE: full build reported problems outside the registered checks:\n' + out2[-1500:])
core.import_impl()
import numpy as np, kneeliverse.metrics as m
m.smape(np.array([1.0, 2.0]), np.array([1.0, 3.0]))   # numba's first-call compilation surfaces here
print('setup ok')
PY
