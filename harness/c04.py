# C04 — threshold RDP keeps a segment only if it fits, splits only where it must (rdp.rdp)
import math, random
from core import *
import gen

DISTS = ['shortest', 'perpendicular']
COSTS = ['smape', 'rpd', 'rmspe', 'rmsle', 'r2']
CONFIGS = [(d, c) for d in DISTS for c in COSTS]
METRIC_CTOR = {'smape': 'MSmape', 'rpd': 'MRpd', 'rmspe': 'MRmspe', 'rmsle': 'MRmsle', 'r2': 'MR2'}
T_MODES = ['obs', 'obs', 'obs_up', 'obs_dn', 'grid']
GRID = {False: [0.5, 0.1, 0.05, 0.01, 0.001, 1e-6, 1.0, 2.0], True: [1.0, 0.999, 0.99, 0.9, 0.5, 0.1]}


def zero_run_curve(rng, n):
    """piecewise-linear curve whose runs end exactly at y = 0 (collinear runs that touch zero: the shape on which a
    perfect end-point fit has a large relative cost because the fitted value at the zero is rounding noise)"""
    xs = gen.xs_increasing(rng, n, rng.choice(['unit', 'int', 'int']))
    nb = rng.randint(0, max(0, min(3, n - 2)))
    bps = [0] + sorted(rng.sample(range(1, n - 1), nb)) + [n - 1] if n > 2 else [0, n - 1]
    z = rng.random() < 0.5
    vals = []
    for _ in bps:
        vals.append(0.0 if z else float(rng.choice([1, 2, 3, 6, 9, 12, 27])))
        z = not z
    if rng.random() < 0.5:   # integer slopes where possible: peak = slope * gap
        for j in range(len(bps)):
            if vals[j] != 0.0:
                k = j - 1 if j > 0 else j + 1
                vals[j] = float(rng.choice([1, 2, 3, 9])) * abs(xs[bps[j]] - xs[bps[k]])
    ys = []
    for i in range(n):
        j = max(k for k in range(len(bps)) if bps[k] <= i)
        if bps[j] == i or j == len(bps) - 1:
            ys.append(vals[j])
        else:
            x0, x1 = xs[bps[j]], xs[bps[j + 1]]
            ys.append(vals[j] + (vals[j + 1] - vals[j]) * (xs[i] - x0) / (x1 - x0))
    return 'zero_run', [[float(x), float(max(0.0, y))] for x, y in zip(xs, ys)]


def jagged_curve(rng, n):
    """non-monotone small-integer curve with large swings on unit x: interior points project past the chord ends, so the
    shortest (segment) distance and the perpendicular (line) distance rank the points differently (added by the coordinator
    after seeded change C04-m1: a split taken under the wrong distance is only visible on such shapes)"""
    hi = rng.choice([6, 10, 25])
    xs = [float(i) for i in range(n)]
    ys = [float(rng.randint(0, hi)) for _ in range(n)]
    if rng.random() < 0.5 and n >= 4:          # a rise followed by a collapse: the far point lies beyond the chord end
        k = rng.randint(1, n - 2)
        ys = sorted(ys[:k + 1]) + sorted(ys[k + 1:], reverse=True)
    return 'jagged', [[x, y] for x, y in zip(xs, ys)]


def make_curve(rng, n):
    u = rng.random()
    if u < 0.15:
        return zero_run_curve(rng, n)
    if u < 0.40:
        return jagged_curve(rng, n)
    return gen.curve(rng, n)


# ---------------------------------------------------------------------------------------------
# the library's own primitives on sub-arrays (the oracles of DESIGN 2.3), and pass-through recorders

class Oracles:
    """dist(l, r), cost(l, r) of points[l:r] through the package's public primitives (un-patched originals)"""

    def __init__(self, points, dist, cost):
        import numpy as np
        import kneeliverse.rdp as rdp
        import kneeliverse.linear_fit as lf
        import kneeliverse.metrics as metrics
        self.np = np
        self.points = np.ascontiguousarray(np.array(points, dtype=float))
        self.n = len(self.points)
        orig = _originals()
        self.dfun = orig['shortest'] if dist == 'shortest' else orig['perpendicular']
        self.cfun = orig['cost']
        self.fit = lf.linear_fit_points
        self.metric = metrics.Metrics[cost]
        self.r2 = cost == 'r2'
        self.dt = {}
        self.ct = {}

    def dist(self, l, r):
        k = (l, r)
        if k not in self.dt:
            pt = self.points[l:r]
            st, d = call(self.dfun, pt, pt[0], pt[-1])
            self.dt[k] = [float(x) for x in d] if st == 'ok' else None
        return self.dt[k]

    def cost(self, l, r):
        k = (l, r)
        if k not in self.ct:
            pt = self.points[l:r]
            st, v = call(lambda: self.cfun(pt, self.fit(pt), self.metric))
            self.ct[k] = float(v) if st == 'ok' else None
        return self.ct[k]

    def curved(self, c, t):
        return (c < t) if self.r2 else (c >= t)

    def closure(self, t):
        """the keys the recursion visits (a transcription of the loop used ONLY to decide which table entries to
        evaluate; a mistake here shows as result code 4 = missing key, never as a verdict)"""
        np = self.np
        stack = [(0, self.n)]
        guard = 0
        while stack and guard < 4 * self.n + 8:
            guard += 1
            l, r = stack.pop()
            if r - l <= 2:
                continue
            c = self.cost(l, r)
            if c is None or not self.curved(c, t):
                continue
            d = self.dist(l, r)
            if d is None or len(d) != r - l:
                continue
            i = int(np.argmax(np.array(d)[1:-1])) + 1
            stack.append((l + i, r))
            stack.append((l, l + i + 1))

    def complete(self):
        for l in range(self.n):
            for r in range(l + 3, self.n + 1):
                self.cost(l, r)
                self.dist(l, r)

    def tables(self):
        dt = [[l, r, d] for (l, r), d in sorted(self.dt.items()) if d is not None]
        ct = [[l, r, c] for (l, r), c in sorted(self.ct.items()) if c is not None]
        return dt, ct


_ORIG = None
_REC = {'on': False, 'base': None, 'dist': {}, 'cost': {}}


def _originals():
    """install (once per process) pass-through wrappers around the distance / cost primitives; they record the
    absolute (l, r) key of the view they are given (from its byte offset against the case's array) and the value
    they return, and change nothing"""
    global _ORIG
    if _ORIG is not None:
        return _ORIG
    import kneeliverse.rdp as rdp
    import kneeliverse.linear_fit as lf
    o = {'shortest': lf.shortest_distance_points, 'perpendicular': lf.perpendicular_distance_points, 'cost': rdp.compute_cost_coef}

    def key(pt):
        base = _REC['base']
        try:
            off = pt.__array_interface__['data'][0] - base.__array_interface__['data'][0]
            l = off // base.strides[0]
            if off % base.strides[0] == 0 and 0 <= l <= len(base):
                return (int(l), int(l) + len(pt))
        except Timeout:
            raise
        except Exception:
            pass
        return None

    def wrap_d(f):
        def w(pt, a, b):
            d = f(pt, a, b)
            if _REC['on']:
                k = key(pt)
                if k is not None:
                    _REC['dist'].setdefault(k, [float(x) for x in d])
            return d
        return w

    def wcost(pt, coef, cost=None, *a, **kw):
        r = o['cost'](pt, coef, cost, *a, **kw) if cost is not None else o['cost'](pt, coef, *a, **kw)
        if _REC['on']:
            k = key(pt)
            if k is not None:
                _REC['cost'].setdefault(k, float(r))
        return r

    lf.shortest_distance_points = wrap_d(o['shortest'])
    lf.perpendicular_distance_points = wrap_d(o['perpendicular'])
    rdp.compute_cost_coef = wcost
    _ORIG = o
    return o


def record_start(base):
    _originals()
    _REC.update(on=True, base=base, dist={}, cost={})


def record_stop():
    _REC['on'] = False
    return _REC['dist'], _REC['cost']


def fsame(a, b):
    return (a != a and b != b) or (a == b and math.copysign(1, a) == math.copysign(1, b))


def pick_threshold(orc, c):
    """threshold from the segment costs the curve actually has (so cost == t happens), their nextafter neighbours, or a grid"""
    r = random.Random(c['t_seed'])
    r2 = orc.r2
    mode = c.get('t_mode', 'grid')
    n = orc.n
    ok = (lambda t: t <= 1.0) if r2 else (lambda t: t > 0.0)
    cand = []
    if mode != 'grid':
        for l in range(n):
            for rr in range(l + 3, n + 1):
                if n > 14 and r.random() > 30.0 / (n * n):
                    continue
                v = orc.cost(l, rr)
                if v is not None and v == v and abs(v) != math.inf:
                    cand.append(v)
        if mode == 'obs_up':
            cand = [math.nextafter(v, math.inf) for v in cand]
        elif mode == 'obs_dn':
            cand = [math.nextafter(v, -math.inf) for v in cand]
        cand = sorted(set(v for v in cand if ok(v)))
    if not cand:
        cand = GRID[r2]
    if mode != 'grid' and len(cand) > 2 and r.random() < 0.5:
        cand = cand[len(cand) // 2:] if r2 else cand[:(len(cand) + 1) // 2]   # the side on which more splits happen
    return r.choice(cand)


class C04:
    id = 'C04'
    judge_module = 'Run.JudgeC04'
    rule = ('generated performance curves (gen.curve families) x (2 distances x 5 metrics, round-robin) x thresholds drawn from the '
            'segment costs the curve actually has (cost == t on purpose), their nextafter neighbours, and a grid; oracle tables = the '
            'library\'s own distance / cost primitives on sub-arrays (complete for small n, else visited + touched keys); '
            'non-trivial = at least one split and at least one retained segment with interior points; '
            'one case in eight additionally runs on a work buffer previously filled with another curve of the same shape and simplified '
            '(same array object refilled in place; the second call is judged, tables from a separate copy); '
            'distinct by (points, distance, metric, threshold)')
    assumptions = ['threshold domain of the property: t > 0 (t <= 1 for R2), evaluated as curved(trivial cost) = false per case',
                   'shape of the distance primitive: len(distance_points(points[l:r], ..)) = r - l, evaluated per table entry',
                   'Tier O theorem (split_is_argmax) assumes non-NaN interior distances; NaN table entries are counted in the histograms']
    trusted = ['modelled: rdp.rdp control flow (stack loop, accept/reject comparison incl. the R2 inversion, np.argmax(d[1:-1]) + 1); '
               'oracles (not modelled, taken from the package): lf.shortest_distance_points / perpendicular_distance_points, '
               'rdp.compute_cost_coef o lf.linear_fit_points on sub-arrays']
    timeout = 4.0
    shard = 120

    def generate(self, rng, tier):
        cases = []
        ncases = {'quick': 400, 'search': 300, 'thorough': 16000}.get(tier, 400)
        nmax = {'quick': 12, 'search': 12, 'thorough': 64}.get(tier, 12)
        k = 0
        for j in range(ncases):
            if tier == 'thorough':
                n = rng.choice([2, 3, 4, 5, 6, 7, 8, 9, 10, 12, 14, 16]) if rng.random() < 0.75 else rng.randint(17, nmax)
            else:
                n = rng.randint(2, nmax)
            fam, pts = make_curve(rng, n)
            reps = CONFIGS if (tier == 'thorough' and n <= 6 and rng.random() < 0.1) else [CONFIGS[k % len(CONFIGS)]]
            for (d, m) in reps:
                cases.append({'points': pts, 'family': fam, 'dist': d, 'cost': m,
                              't_mode': T_MODES[(k // len(CONFIGS)) % len(T_MODES)], 't_seed': rng.randrange(1 << 30)})
            # same-object stream (hidden state keyed on object identity): one work buffer is filled with another curve of the
            # same shape, simplified, refilled IN PLACE with this case's curve and simplified again; the second call is judged
            if j % 8 == 5 and n >= 3:
                cases[-1]['points_a'] = make_curve(rng, n)[1]
            k += 1
        return cases

    def warmup(self):
        import numpy as np
        import kneeliverse.rdp as rdp
        import kneeliverse.metrics as metrics
        p = np.array([[0., 1.], [1., 3.], [2., 2.], [3., 5.], [4., 1.]])
        for c in metrics.Metrics:
            for d in rdp.Distance:
                call(rdp.rdp, p, 0.1 if c is not metrics.Metrics.r2 else 0.9, d, c)   # numba compilation; failures are judged per case
        _originals()

    # ---- shared by run_impl / on_timeout
    nfull = 7

    def _prepare(self, c):
        c = dict(c)
        orc = Oracles(c['points'], c['dist'], c['cost'])
        if 't' not in c:
            c['t'] = pick_threshold(orc, c)
        return c, orc

    def _finish(self, c, orc, touched_d=None, touched_c=None):
        n = orc.n
        if n <= self.nfull:
            orc.complete()
        orc.closure(c['t'])
        mism = 0
        # The tables always hold what the CONFIGURED public primitive returns on the sub-array (direct evaluation).  Values the
        # implementation was observed to compute are only used to learn which keys it touched; if one differs from the direct
        # evaluation (the implementation used another distance / cost than the selected one) it is counted, never copied into
        # the table — the judge then sees the implementation's output against the selected primitives (seeded change C04-m1).
        for k, v in (touched_d or {}).items():
            w = orc.dist(*k)
            if w is None or len(w) != len(v) or not all(fsame(a, b) for a, b in zip(v, w)):
                mism += 1
        for k, v in (touched_c or {}).items():
            w = orc.cost(*k)
            if w is None or not fsame(v, w):
                mism += 1
        red = (c.get('out') or [None])[0]
        if red:
            for a, b in zip(red, red[1:]):
                if b - a >= 2 and 0 <= a and b + 1 <= n:
                    orc.cost(a, b + 1)
        c['dt'], c['ct'] = orc.tables()
        c['n'] = n
        c['oracle_mismatch'] = mism
        return c

    def on_timeout(self, c):
        c, orc = self._prepare(c)
        c['impl'] = 'timeout'
        c['out'] = None
        return self._finish(c, orc)

    def run_impl(self, c):
        import numpy as np
        import kneeliverse.rdp as rdp
        import kneeliverse.metrics as metrics
        c, orc = self._prepare(c)
        pts = orc.points
        reuse = c.get('points_a') is not None and len(c['points_a']) == orc.n
        if reuse:
            # every table entry that does not depend on the implementation's answer is evaluated NOW, on the oracle's own copy
            # of the curve, before the work buffer exists; later entries (kept segments) also come from that separate copy
            if orc.n <= self.nfull:
                orc.complete()
            orc.closure(c['t'])
            pts = np.empty((orc.n, 2))
            pts[:] = np.array(c['points_a'], dtype=float)
        # core arms a one-shot alarm; re-arm it as a repeating one so that a Timeout swallowed by some
        # `except Exception` inside the implementation cannot turn a cycling loop into a hung worker
        import signal
        signal.setitimer(signal.ITIMER_REAL, self.timeout, 0.25)
        try:
            if reuse:
                call(rdp.rdp, pts, c['t'], rdp.Distance[c['dist']], metrics.Metrics[c['cost']])   # the history
                pts[:] = orc.points                                                                # refill the same object
            record_start(pts)
            st, out = call(rdp.rdp, pts, c['t'], rdp.Distance[c['dist']], metrics.Metrics[c['cost']])
        finally:
            signal.setitimer(signal.ITIMER_REAL, 0)
            td, tc = record_stop()
        c['impl'] = 'returned' if st == 'ok' else 'raised ' + str(out)
        c['out'] = None
        if st == 'ok':
            try:
                red, rem = out
                red = as_nat_list(red)
                rem = as_rows(rem)
                if red is not None and rem is not None:
                    c['out'] = [red, rem]
                else:
                    c['impl'] = 'returned non-integer output'
            except Exception:
                c['impl'] = 'returned malformed output'
        return self._finish(c, orc, td, tc)

    def emit(self, c):
        dt = clist(['(%s, %s, %s)' % (cnat(l), cnat(r), cfls(d)) for l, r, d in c.get('dt', [])])
        ct = clist(['(%s, %s, %s)' % (cnat(l), cnat(r), fl(v)) for l, r, v in c.get('ct', [])])
        out = c.get('out')
        o = 'None' if out is None else '(Some (%s, %s))' % (cnats(out[0]), crows(out[1]))
        return 'CRdp %s %s %s %s %s %s %s' % (cnat(c.get('n', len(c['points']))), METRIC_CTOR[c['cost']], fl(c.get('t', 0.0)),
                                              cpts(c['points']), dt, ct, o)

    def nontrivial_key(self, c):
        out = c.get('out')
        if not out:
            return None
        red = out[0]
        if len(red) >= 3 and any(b - a >= 2 for a, b in zip(red, red[1:])):
            return (str(c['points']), c['dist'], c['cost'], float(c['t']).hex())
        return None

    def classify(self, c):
        t = c.get('t')
        costs = [v for _, _, v in c.get('ct', [])]
        nan = any(v != v for v in costs) or any(x != x for _, _, d in c.get('dt', []) for x in d)
        return {'n': min(c.get('n', 0), 64) // 4 * 4, 'config': c['dist'] + '/' + c['cost'], 't_mode': c.get('t_mode'),
                'impl': c.get('impl', '?').split(' ')[0], 'cost_equals_t': any(v == t for v in costs),
                'nan_in_tables': nan, 'family': c.get('family'), 'oracle_mismatch': c.get('oracle_mismatch', 0) > 0,
                'retained': min(len((c.get('out') or [[]])[0]), 16), 'same_object_refill': c.get('points_a') is not None}

    def shrink(self, c):
        out = []
        pts = c['points']
        base = {k: v for k, v in c.items() if k not in ('dt', 'ct', 'out', 'impl', 'n', 'oracle_mismatch')}
        for j in range(len(pts)):
            if len(pts) > 2:
                d = dict(base)
                d['points'] = pts[:j] + pts[j + 1:]
                if c.get('points_a') is not None:
                    d['points_a'] = c['points_a'][:j] + c['points_a'][j + 1:]
                out.append(d)
        return out

    def sample(self, c):
        return {k: c[k] for k in ['points', 'points_a', 'dist', 'cost', 't', 't_mode', 'out', 'impl'] if k in c}

    def describe(self, c):
        call = ('kneeliverse.rdp.rdp(%s, %r, rdp.Distance.%s, metrics.Metrics.%s)  # t = float.fromhex(%r)'
                % ('buf' if c.get('points_a') is not None else 'np.array(%s)' % c['points'], c.get('t'), c['dist'], c['cost'],
                   float(c.get('t', 0.0)).hex()))
        if c.get('points_a') is not None:
            return 'buf = np.array(%s); %s; buf[:] = np.array(%s)  # same object refilled in place; then judged: %s' % (
                c['points_a'], call, c['points'], call)
        return call


def as_nat_list(a):
    try:
        out = []
        for v in list(a):
            f = float(v)
            if f != int(f) or f < 0:
                return None
            out.append(int(f))
        return out
    except Exception:
        return None


def as_rows(a):
    try:
        out = []
        for r in list(a):
            l, c = float(r[0]), float(r[1])
            if l != int(l) or c != int(c) or l < 0 or c < 0:
                return None
            out.append([int(l), int(c)])
        return out
    except Exception:
        return None


def crows(rows):
    return clist(['(%s, %s)' % (cnat(r[0]), cnat(r[1])) for r in rows])


if __name__ == '__main__':
    main(C04)
