# C13 — worst-knee and corner filters implement exactly their selection rules
import math, random, itertools
from core import *
import gen


def iou_replica(p0, p1, p2):
    """generator-side replica of the corner IoU (Python min/max, - * / abs), used ONLY to aim thresholds at exact
    ties and for the evidence statistics; the verdict uses the Coq model and the real implementation"""
    def rect(a, b):
        return (min(a[0], b[0]), min(a[1], b[1])), (max(a[0], b[0]), max(a[1], b[1]))
    amin, amax = rect((p0[0], p2[1]), p1)
    bmin, bmax = rect(p0, p2)
    try:
        dx = max(0.0, min(amax[0], bmax[0]) - max(amin[0], bmin[0]))
        dy = max(0.0, min(amax[1], bmax[1]) - max(amin[1], bmin[1]))
        ov = dx * dy
        if ov > 0.0:
            tot = abs(amax[0] - amin[0]) * abs(amax[1] - amin[1]) + abs(bmax[0] - bmin[0]) * abs(bmax[1] - bmin[1]) - ov
            return ov / tot
        return 0.0
    except (OverflowError, ZeroDivisionError):
        return math.nan


def ious(points, ks):
    n = len(points)
    return {k: iou_replica(points[k - 1], points[k], points[k + 1]) for k in ks if k - 1 >= 0 and k + 1 < n}


def corner_curve(rng, n):
    """small-integer / dyadic decreasing-ish curves: rational IoUs with many exact coincidences, flat neighbour
    configurations (p1.y == p2.y, p0.y == p1.y, p0.y == p2.y) and rising stretches"""
    xs = gen.xs_increasing(rng, n, rng.choice(['unit', 'int']))
    y = float(rng.randint(4, 16))
    ys = []
    for _ in range(n):
        ys.append(y)
        r = rng.random()
        if r < 0.55:
            y = max(0.0, y - rng.choice([1, 1, 2, 3, 4, 0.5]))
        elif r < 0.8:
            pass                      # flat step
        else:
            y = y + rng.choice([1, 2, 0.5])
    return [[float(a), float(b)] for a, b in zip(xs, ys)]


def vertical_curve(rng, n):
    """degenerate: repeated x (vertical neighbour segments); inside the theorems' domain (no NaN)"""
    x = 0.0
    pts = []
    for _ in range(n):
        pts.append([x, float(rng.randint(0, 6))])
        if rng.random() < 0.6:
            x += rng.choice([1.0, 2.0])
    return pts


def any_curve(rng, n, j):
    fams = ['corner', 'corner', 'plateau', 'grid', 'convex', 'uniform', 'zigzag', 'collinear', 'elbow', 'vertical', 'scaled']
    fam = fams[j % len(fams)]
    if n < 2 and fam not in ('corner', 'vertical'):
        fam = 'corner'
    if fam == 'corner':
        return fam, corner_curve(rng, n)
    if fam == 'vertical':
        return fam, vertical_curve(rng, n)
    return gen.curve(rng, n, fam)


TGRID = [0.0, 0.1, 0.25, 0.33, 0.5, 0.75, 1.0]


def sibling_curve(rng, pts, j):
    """a curve with the same number of points and different heights and/or x (what a re-used working buffer holds next)"""
    n = len(pts)
    mode = rng.choice(['fresh', 'fresh', 'heights', 'scale_y', 'shift_x', 'reverse_y'])
    if mode == 'fresh':
        return any_curve(rng, n, rng.choice([0, 1, 2, 3, 5, 9]))[1]
    if mode == 'heights':
        other = corner_curve(rng, n)
        return [[p[0], q[1]] for p, q in zip(pts, other)]
    if mode == 'scale_y':
        f = rng.choice([2.0, 0.5, 3.0])
        return [[p[0], p[1] * f] for p in pts]
    if mode == 'shift_x':
        xs = gen.xs_increasing(rng, n, rng.choice(['int', 'float']))
        return [[float(x), p[1]] for x, p in zip(xs, pts)]
    ys = [p[1] for p in pts][::-1]
    return [[p[0], y] for p, y in zip(pts, ys)]


def seq_case(rng, n, j):
    """same-object stream: one points buffer + one knees array, 3-5 calls, buffer refilled in place between some calls"""
    fam, a = any_curve(rng, n, rng.choice([0, 1, 0, 2, 3, 5, 7, 9]))
    curves = [a]
    for _ in range(rng.randint(1, 2)):
        curves.append(sibling_curve(rng, curves[-1], j))
    p = rng.choice([0.5, 0.8, 1.0])
    ks = [i for i in range(n) if rng.random() < p]
    steps = []
    cur = 0
    nsteps = rng.randint(3, 5)
    for k in range(nsteps):
        if k > 0 and rng.random() < 0.55:
            cur = rng.choice([c for c in range(len(curves)) if c != cur])
        op = rng.choice(['worst', 'filter', 'filter', 'select', 'select'])
        st = {'op': op, 'curve': cur}
        if op != 'worst':
            st['t'] = pick_t(rng, curves[cur], ks)[0]
        steps.append(st)
    if len({st['curve'] for st in steps}) < 2:          # at least one in-place refill
        steps[-1]['curve'] = 1 - steps[-1]['curve'] if len(curves) == 2 else (steps[-1]['curve'] + 1) % len(curves)
        if steps[-1]['op'] != 'worst':
            steps[-1]['t'] = pick_t(rng, curves[steps[-1]['curve']], ks)[0]
    isint = all(float(v).is_integer() and abs(v) < 2 ** 20 for c in curves for q in c for v in q)
    return {'kind': 'seq', 'curves': curves, 'ks': ks, 'steps': steps, 'family': fam,
            'dtype': 'int' if (isint and j % 2 == 0) else 'float'}


def pick_t(rng, points, ks):
    vals = [v for v in ious(points, ks).values() if v == v]
    if not vals:
        vals = [v for v in ious(points, range(len(points))).values() if v == v]
    mode = rng.choice(['tie', 'tie', 'tie', 'below', 'above', 'grid'])
    if not vals or mode == 'grid':
        return rng.choice(TGRID), 'grid'
    v = rng.choice(vals)
    if mode == 'below':
        return (math.nextafter(v, -math.inf), 'below') if v > 0 else (v, 'tie')
    if mode == 'above':
        return math.nextafter(v, math.inf), 'above'
    return v, 'tie'


class C13:
    id = 'C13'
    judge_module = 'Run.JudgeC13'
    rule = ('curves (small-integer corner curves with flat steps and rises, plateaus, grids, convex, uniform, zigzag, collinear, '
            'elbows, repeated-x, scaled; float64 and int64 arrays) x ascending knee lists (ALL subsets of the indices for small n, '
            'sampled above) x {filter_worst_knees, filter_corner_knees + select_corner_knees}; thresholds from the IoUs '
            'the knees actually have (exact ties), nextafter neighbours and a grid; each output is filtered a second time; '
            'non-trivial = (worst) at least one kept beyond the first and one dropped knee, or an equal-height tie with the '
            'running minimum; (corner) a knee on each side of the threshold or an exact tie IoU == t; distinct by (kind, points, knees, t)')
    assumptions = ['no NaN coordinate / threshold / IoU; knee list strictly ascending with valid indices (judged per case, others counted outside the domain)',
                   'int64 inputs are small enough for the integer arithmetic NumPy performs to be exact in binary64']
    trusted = ['modelled: postprocessing.filter_worst_knees / filter_corner_knees / select_corner_knees, knee_ranking.rect / rect_overlap '
               '(Python min/max as pymin/pymax)']
    timeout = 20.0
    shard = 250

    def generate(self, rng, tier):
        cases = []
        nexh = {'quick': 6, 'search': 5, 'thorough': 9}.get(tier, 6)
        curves_per_n = {'quick': 3, 'search': 2, 'thorough': 10}.get(tier, 3)
        j = 0
        for n in range(1, nexh + 1):
            for _ in range(curves_per_n):
                fam, pts = any_curve(rng, n, rng.randrange(11))
                j += 1
                isint = all(float(v).is_integer() and abs(v) < 2 ** 20 for p in pts for v in p)
                dtype = 'int' if (isint and j % 3 == 0) else 'float'
                for r in range(n + 1):
                    for comb in itertools.combinations(range(n), r):
                        ks = list(comb)
                        cases.append({'kind': 'worst', 'points': pts, 'ks': ks, 'family': fam, 'dtype': dtype})
                        t, tm = pick_t(rng, pts, ks)
                        cases.append({'kind': 'corner', 'points': pts, 'ks': ks, 't': t, 'tmode': tm, 'family': fam, 'dtype': dtype})
        nrand = {'quick': 220, 'search': 300, 'thorough': 7000}.get(tier, 220)
        nmax = {'quick': 12, 'search': 12, 'thorough': 64}.get(tier, 12)
        for _ in range(nrand):
            n = rng.randint(3, nmax)
            fam, pts = any_curve(rng, n, j)
            j += 1
            isint = all(float(v).is_integer() and abs(v) < 2 ** 20 for p in pts for v in p)
            dtype = 'int' if (isint and j % 3 == 0) else 'float'
            p = rng.choice([0.3, 0.6, 1.0])
            ks = [i for i in range(n) if rng.random() < p]
            if j % 2 == 0:
                cases.append({'kind': 'worst', 'points': pts, 'ks': ks, 'family': fam, 'dtype': dtype})
            else:
                t, tm = pick_t(rng, pts, ks)
                cases.append({'kind': 'corner', 'points': pts, 'ks': ks, 't': t, 'tmode': tm, 'family': fam, 'dtype': dtype})
        # near-tie stream (added by the coordinator after seeded change C13-m1): heights that differ by one ulp or by a
        # 1e-10 relative bump, so a tolerance comparison (isclose / rounding) in the running-minimum test is told apart
        # from the exact `<=` the property states
        for m in range({'quick': 80, 'search': 80, 'thorough': 1500}.get(tier, 80)):
            n = rng.randint(3, nmax)
            base = rng.choice([0.25, 1.0, 3.0, 1e-3, 1e6])
            ys = []
            y = base
            for i in range(n):
                u = rng.random()
                if u < 0.35:
                    y = math.nextafter(y, math.inf)
                elif u < 0.5:
                    y = math.nextafter(y, -math.inf)
                elif u < 0.7:
                    y = y * (1.0 + rng.choice([2e-10, -2e-10, 5e-13, 1e-9]))
                elif u < 0.8:
                    y = base
                ys.append(y)
            pts = [[float(i), ys[i]] for i in range(n)]
            ks = [i for i in range(n) if rng.random() < 0.8]
            cases.append({'kind': 'worst', 'points': pts, 'ks': ks, 'family': 'neartie', 'dtype': 'float'})
        # same-object multi-call stream (about one case in six): the implementation must answer for the contents its
        # arguments hold AT THE CALL, whatever it was asked before on the same array objects, and must not write to them
        nseq = max(40, len(cases) // 6) if tier != 'thorough' else len(cases) // 6
        for m in range(nseq):
            n = rng.randint(3, nmax if m % 4 else min(nmax, 8))
            cases.append(seq_case(rng, n, m))
        # malformed stream (never a verdict): unsorted / repeated / out-of-range knees, NaN coordinates
        for m in range({'quick': 16, 'search': 4, 'thorough': 120}.get(tier, 16)):
            n = rng.randint(3, 8)
            pts = corner_curve(rng, n)
            kind = m % 4
            if kind == 0:
                ks = [rng.randrange(n) for _ in range(rng.randint(2, 5))]
            elif kind == 1:
                ks = sorted(rng.sample(range(n), 2)) + [n + rng.randint(0, 3)]
            elif kind == 2:
                ks = sorted(rng.sample(range(n), min(3, n)))
                pts = [list(p) for p in pts]
                pts[rng.randrange(n)][1] = math.nan
            else:
                ks = sorted(rng.sample(range(n), min(3, n)))
            which = 'worst' if m % 8 < 4 else 'corner'
            c = {'kind': which, 'points': pts, 'ks': ks, 'family': 'malformed', 'dtype': 'float'}
            if which == 'corner':
                c['t'] = math.nan if kind == 3 else 0.33
                c['tmode'] = 'grid'
            cases.append(c)
        return cases

    def on_timeout(self, c):
        c = dict(c)
        c['timeout'] = True
        return c

    def run_impl(self, c):
        import numpy as np
        import kneeliverse.postprocessing as pp
        c = dict(c)
        if c['kind'] == 'seq':
            return self.run_seq(c, np, pp)
        n = len(c['points'])
        if c['dtype'] == 'int':
            pts = np.array([[int(p[0]), int(p[1])] for p in c['points']], dtype=np.int64).reshape(n, 2)
        else:
            pts = np.array(c['points'], dtype=float).reshape(n, 2)
        ks = np.array(c['ks'], dtype=int)
        if c['kind'] == 'worst':
            st, out = call(pp.filter_worst_knees, pts, ks)
            c['out'] = as_nat_list(out) if st == 'ok' else None
            if st == 'ok':
                st2, out2 = call(pp.filter_worst_knees, pts, out)
                c['out2'] = as_nat_list(out2) if st2 == 'ok' else None
            else:
                c['out2'] = None
        else:
            t = c['t']
            st, F = call(pp.filter_corner_knees, pts, ks, t)
            c['F'] = as_nat_list(F) if st == 'ok' else None
            st, S = call(pp.select_corner_knees, pts, ks, t)
            c['S'] = as_nat_list(S) if st == 'ok' else None
            c['F2'] = c['S2'] = None
            if c['F'] is not None:
                st, F2 = call(pp.filter_corner_knees, pts, F, t)
                c['F2'] = as_nat_list(F2) if st == 'ok' else None
            if c['S'] is not None:
                st, S2 = call(pp.select_corner_knees, pts, S, t)
                c['S2'] = as_nat_list(S2) if st == 'ok' else None
        return c

    def run_seq(self, c, np, pp):
        def arr(points):
            m = len(points)
            if c['dtype'] == 'int':
                return np.array([[int(q[0]), int(q[1])] for q in points], dtype=np.int64).reshape(m, 2)
            return np.array(points, dtype=float).reshape(m, 2)
        snaps = [arr(p) for p in c['curves']]             # separate fresh copies: what the buffer must hold
        ks_snap = np.array(c['ks'], dtype=int)
        cur = c['steps'][0]['curve']
        buf = snaps[cur].copy()                            # THE one points object every call receives
        ks = ks_snap.copy()                                # THE one knees object every call receives
        outs, intact = [], True
        for st in c['steps']:
            if st['curve'] != cur:
                cur = st['curve']
                buf[:] = snaps[cur]                        # refill in place
            if st['op'] == 'worst':
                r = call(pp.filter_worst_knees, buf, ks)
            elif st['op'] == 'filter':
                r = call(pp.filter_corner_knees, buf, ks, st['t'])
            else:
                r = call(pp.select_corner_knees, buf, ks, st['t'])
            outs.append(as_nat_list(r[1]) if r[0] == 'ok' else None)
            if not (np.array_equal(buf, snaps[cur], equal_nan=True) and buf.dtype == snaps[cur].dtype
                    and np.array_equal(ks, ks_snap) and ks.dtype == ks_snap.dtype):
                intact = False
                buf[:] = snaps[cur]                        # restore, so later steps are judged on their own
                ks[:] = ks_snap
        c['outs'] = outs
        c['intact'] = intact
        return c

    def emit(self, c):
        if c['kind'] == 'seq':
            outs = c.get('outs') or [None] * len(c['steps'])
            terms = []
            for st, o in zip(c['steps'], outs):
                P = cpts(c['curves'][st['curve']])
                if st['op'] == 'worst':
                    terms.append('SWorst %s %s %s' % (P, cnats(c['ks']), copt(o, cnats)))
                else:
                    terms.append('%s %s %s %s %s' % ('SFilter' if st['op'] == 'filter' else 'SSelect', P, cnats(c['ks']), fl(st['t']), copt(o, cnats)))
            return 'CSeq %s %s' % (clist(terms), cbool(c.get('intact', False)))
        if c['kind'] == 'worst':
            return 'CWorst %s %s %s %s' % (cpts(c['points']), cnats(c['ks']), copt(c.get('out'), cnats), copt(c.get('out2'), cnats))
        return 'CCorner %s %s %s %s %s %s %s' % (cpts(c['points']), cnats(c['ks']), fl(c['t']),
                                               copt(c.get('F'), cnats), copt(c.get('S'), cnats),
                                               copt(c.get('F2'), cnats), copt(c.get('S2'), cnats))

    def _worst_stats(self, c):
        pts, ks = c['points'], c['ks']
        out = c.get('out') or []
        tie = False
        if ks and all(0 <= k < len(pts) for k in ks):
            hmin = pts[ks[0]][1]
            for k in ks[1:]:
                h = pts[k][1]
                if h == hmin:
                    tie = True
                if h <= hmin:
                    hmin = h
        return len(out), len(ks) - len(out), tie

    def _corner_stats(self, c):
        v = ious(c['points'], c['ks'])
        tie = any(x == c['t'] for x in v.values())
        lo = sum(1 for x in v.values() if x < c['t'])
        hi = sum(1 for x in v.values() if x >= c['t'])
        return lo, hi, tie

    def _seq_differs(self, c):
        ks = c['ks']
        for st in c['steps']:
            if st['op'] == 'worst':
                continue
            cls = set()
            for cv in c['curves']:
                v = ious(cv, ks)
                cls.add(tuple(v[k] < st['t'] for k in sorted(v)))
            if len(cls) > 1:
                return True
        return False

    def nontrivial_key(self, c):
        if c['family'] == 'malformed':
            return None
        if c['kind'] == 'seq':
            if not c.get('outs') or any(o is None for o in c['outs']):
                return None
            # non-trivial: some knee is classified differently by the curves the buffer held (a stale answer would show)
            if self._seq_differs(c):
                return ('seq', str(c['curves']), tuple(c['ks']), str(c['steps']))
            return None
        if c['kind'] == 'worst':
            if c.get('out') is None:
                return None
            kept, dropped, tie = self._worst_stats(c)
            if (kept >= 2 and dropped >= 1) or tie:
                return ('worst', str(c['points']), tuple(c['ks']))
            return None
        if c.get('F') is None or c.get('S') is None:
            return None
        lo, hi, tie = self._corner_stats(c)
        if (lo >= 1 and hi >= 1) or tie:
            return ('corner', str(c['points']), tuple(c['ks']), c['t'])
        return None

    def classify(self, c):
        if c['family'] == 'malformed':
            return {'family': 'malformed'}
        if c['kind'] == 'seq':
            return {'family': c['family'], 'kind': 'seq', 'n': min(len(c['curves'][0]), 64) // 4 * 4, 'knees': min(len(c['ks']), 16),
                    'dtype': c['dtype'], 'seq_calls': len(c['steps']),
                    'seq_refills': sum(1 for a, b in zip(c['steps'], c['steps'][1:]) if a['curve'] != b['curve']),
                    'seq_curves_classify_differently': self._seq_differs(c)}
        d = {'family': c['family'], 'kind': c['kind'], 'n': min(len(c['points']), 64) // 4 * 4, 'knees': min(len(c['ks']), 16), 'dtype': c['dtype']}
        if c['kind'] == 'worst':
            kept, dropped, tie = self._worst_stats(c)
            d['worst_equal_height_tie'] = tie
            d['worst_dropped'] = min(dropped, 6)
        else:
            lo, hi, tie = self._corner_stats(c)
            d['threshold'] = c['tmode']
            d['corner_exact_tie'] = tie
            d['corner_both_sides'] = (lo >= 1 and hi >= 1)
            n = len(c['points'])
            d['corner_end_knees'] = sum(1 for k in c['ks'] if k == 0 or k == n - 1)
        return d

    def shrink(self, c):
        if c['kind'] == 'seq':
            out = []
            for j in range(len(c['steps'])):
                if len(c['steps']) > 1:
                    d = dict(c)
                    d['steps'] = c['steps'][:j] + c['steps'][j + 1:]
                    out.append(d)
            for j in range(len(c['ks'])):
                d = dict(c)
                d['ks'] = c['ks'][:j] + c['ks'][j + 1:]
                out.append(d)
            return out
        out = []
        ks = c['ks']
        for j in range(len(ks)):
            d = dict(c)
            d['ks'] = ks[:j] + ks[j + 1:]
            out.append(d)
        pts = c['points']
        used = set(ks)
        for j in range(len(pts)):
            # drop a point that is neither a knee nor a neighbour of one; re-index the knees
            if j in used or (j - 1) in used or (j + 1) in used:
                continue
            d = dict(c)
            d['points'] = pts[:j] + pts[j + 1:]
            d['ks'] = [k - 1 if k > j else k for k in ks]
            out.append(d)
        return out

    def sample(self, c):
        return {k: c[k] for k in ['kind', 'points', 'curves', 'steps', 'ks', 't', 'dtype', 'family', 'out', 'out2', 'F', 'S', 'F2', 'S2', 'outs', 'intact'] if k in c}

    def describe(self, c):
        if c['kind'] == 'seq':
            dt = ', dtype=np.int64' if c['dtype'] == 'int' else ''
            lines = ['import numpy as np, kneeliverse.postprocessing as pp',
                     'curves = [np.array(p%s) for p in %s]' % (dt, c['curves']),
                     'buf = curves[%d].copy(); ks = np.array(%s, dtype=int)   # ONE points object, ONE knees object' % (c['steps'][0]['curve'], c['ks'])]
            cur = c['steps'][0]['curve']
            for st in c['steps']:
                if st['curve'] != cur:
                    cur = st['curve']
                    lines.append('buf[:] = curves[%d]   # refill in place' % cur)
                f = {'worst': 'filter_worst_knees(buf, ks)', 'filter': 'filter_corner_knees(buf, ks, %r)' % st.get('t'),
                     'select': 'select_corner_knees(buf, ks, %r)' % st.get('t')}[st['op']]
                lines.append('print(pp.%s, np.array_equal(buf, curves[%d]))   # compare with the same call on curves[%d].copy()' % (f, cur, cur))
            return '; '.join(lines)
        arr = 'np.array(%s%s)' % (c['points'], ', dtype=np.int64' if c['dtype'] == 'int' else '')
        if c['kind'] == 'worst':
            return 'o = kneeliverse.postprocessing.filter_worst_knees(%s, np.array(%s, dtype=int)); then filter_worst_knees(points, o)' % (arr, c['ks'])
        return ('F = kneeliverse.postprocessing.filter_corner_knees(P, K, %r); S = select_corner_knees(P, K, %r); then filter_corner_knees(P, F, t), '
                'select_corner_knees(P, S, t) with P = %s, K = np.array(%s, dtype=int)' % (c['t'], c['t'], arr, c['ks']))


def as_nat_list(a):
    try:
        out = []
        for v in list(a):
            f = float(v)
            if f != int(f) or f < 0:
                return None
            out.append(int(f))
        return out
    except Exception:
        return None


if __name__ == '__main__':
    main(C13)
