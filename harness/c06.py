# C06 — global RDP stops at the first refinement whose global cost meets the threshold
import math, random
from core import *
import gen
from c05 import (DISTS, ORDERS, NFULL, CORD, any_curve, build_tables, as_out, cout, cdtab, cptab, wide_segments)

METRICS = ['smape', 'rpd', 'rmspe', 'rmsle', 'r2']
DEFAULT = ('shortest', 'segment', 'smape')      # min_point_rdp calls grdp / rdp_fixed with the defaults
GRID = [0.5, 0.1, 0.01, 0.001, 0.0001]


def in_domain(t, metric):
    if t != t or t <= 0 or t == math.inf:
        return False
    return t <= 1.0 if metric == 'r2' else True


class C06:
    id = 'C06'
    judge_module = 'Run.JudgeC06'
    rule = ('one case = one curve x metric x distance x order (30 configurations round-robin; every 5th case uses the default '
            'configuration and adds min_point_rdp queries) with: the implementation\'s chain rdp_fixed(points, k), k = 2..n; the '
            'global cost of every chain member (fresh cache); queries grdp(t), mp_grdp(t, m), min_point_rdp(ts, m) with thresholds '
            'drawn from the observed global costs (exact ties), their nextafter neighbours and a fixed grid, m in 0..n+1, threshold '
            'lists unsorted and with duplicates; same-object stream: 90 (900 thorough) cases issue 3-5 configurations with pairwise different '
            'metrics on ONE ndarray object (every other one alternating two curves written into it in place), every call judged, tables from fresh copies; curves as in C05 (60% tie-rich); non-trivial = some query stops at 2 < k* < n; '
            'distinct by (points, configuration)')
    assumptions = ['thresholds are in the property\'s domain: t > 0 (t <= 1 for R2), not NaN; min_points >= 0',
                   'shape of the distance oracle: len(distance_points(points[l:r], ...)) = r - l (checked on every table)',
                   'cases in which a priority is NaN are judged on the predicate only (Python\'s sort on NaN keys is not modelled)']
    trusted = ['modelled: rdp._grdp / grdp / mp_grdp / min_point_rdp / _rdp_fixed (mirror model of the stack and the retained list)',
               'oracles: distance, chord and residual primitives as in C05 (priorities derived in Coq from their stated definitions); evaluation.compute_global_cost(points, S, cost) with a fresh cache '
               '(the implementation shares one cache per run: cache transparency is property C15; a cache that changed a value would show up as a disagreement)']
    timeout = 40.0
    shard = 40

    def generate(self, rng, tier):
        cases = []
        ncases, nmax = {'quick': (400, 12), 'search': (150, 10), 'thorough': (6000, 40)}.get(tier, (400, 12))
        cfgs = [(m, d, o) for m in METRICS for d in DISTS for o in ORDERS]
        j = 0
        for i in range(ncases):
            if tier == 'thorough' and i % 4 == 0:
                n = rng.randint(13, nmax)
            else:
                n = rng.choice([3, 4, 5, 6, 7, 8, 9, 10, 11, 12]) if i % 9 else rng.choice([2, 3])
            n = min(n, nmax)
            fam, pts = any_curve(rng, n)
            if i % 5 == 4:
                d, o, m = DEFAULT
            else:
                m, d, o = cfgs[j % len(cfgs)]
                j += 1
            cases.append({'points': pts, 'family': fam, 'dist': d, 'order': o, 'cost': m, 'qseed': rng.randrange(1 << 30)})
        # same-object stream: ONE ndarray object per case, a sequence of 3-5 configurations (metrics pairwise different; distance,
        # order, thresholds, min_points vary) each queried 2-5 times; every other case alternates two curves that are written into
        # the same buffer in place.  Every call is judged against the model; tables come from fresh copies.
        nseq = {'quick': 90, 'search': 60, 'thorough': 900}.get(tier, 90)
        for i in range(nseq):
            n = rng.choice([4, 5, 6, 7, 8, 9, 10]) if tier != 'thorough' or i % 3 else rng.randint(11, 24)
            fam, pts = any_curve(rng, n)
            curves = [pts]
            if i % 2:
                curves.append(any_curve(rng, n)[1])
            k = rng.choice([3, 4, 5])
            ms = rng.sample(METRICS, k)
            steps = []
            for q, m in enumerate(ms):
                d, o = rng.choice(DISTS), rng.choice(ORDERS)
                if m == 'smape' and rng.random() < 0.5:
                    d, o = DEFAULT[0], DEFAULT[1]
                steps.append([q % len(curves), d, o, m])
            cases.append({'kind': 'seq', 'curves': curves, 'steps': steps, 'family': fam, 'qseed': rng.randrange(1 << 30)})
        return cases

    def warmup(self):
        import numpy as np
        import kneeliverse.rdp as rdp
        import kneeliverse.metrics as metrics
        p = np.array([[0., 1.], [1., 3.], [2., 2.], [3., 5.], [4., 5.]])
        for c in metrics.Metrics:
            rdp.grdp(p, 0.1, cost=c)

    @staticmethod
    def _plan(c):
        if c.get('kind') == 'seq':
            return c['curves'], [tuple(x) for x in c['steps']]
        return [c['points']], [(0, c['dist'], c['order'], c['cost'])]

    def on_timeout(self, c):
        c = dict(c)
        curves, steps = self._plan(c)
        c['parts'] = [{'points': curves[ci], 'dist': d, 'order': o, 'cost': m, 'chain': [], 'dt': [], 'ct': [], 'rt': [], 'gt': [], 'queries': []}
                      for ci, d, o, m in steps]
        c['timeout'] = True
        return c

    def run_impl(self, c):
        import numpy as np
        import kneeliverse.rdp as rdp
        import kneeliverse.linear_fit as lf
        import kneeliverse.metrics as metrics
        import kneeliverse.evaluation as evaluation
        c = dict(c)
        curves, steps = self._plan(c)
        seq = c.get('kind') == 'seq'
        r = random.Random(c['qseed'])
        parts = []
        # 1. per (curve, configuration): chain, oracle tables and query plan from FRESH copies (a new array per call, an explicit
        #    empty cache per global cost): nothing here can share state with the calls under test
        for ci, d, o, m in steps:
            n = len(curves[ci])
            D, O, M = rdp.Distance[d], rdp.Order[o], metrics.Metrics[m]
            chain = []
            for k in range(2, n + 1):
                st, out = call(rdp.rdp_fixed, np.array(curves[ci], dtype=float), k, D, O)
                x = as_out(st, out)
                chain.append(x[0] if x is not None else [])
            fresh = np.array(curves[ci], dtype=float)
            dt, ct, rt = build_tables(rdp, lf, fresh, d, o, chain, n <= NFULL and not seq)
            gt, seen = [], set()
            for S in chain:
                if S and tuple(S) not in seen and all(0 <= i < n for i in S) and len(S) >= 2:
                    seen.add(tuple(S))
                    st, v = call(evaluation.compute_global_cost, np.array(curves[ci], dtype=float), list(S), M, {})
                    if st == 'ok':
                        gt.append([list(S), float(v)])
            vals = sorted({v for _, v in gt if v == v})
            cand = []
            for v in vals:
                cand += [v, math.nextafter(v, math.inf), math.nextafter(v, -math.inf)]
            cand = [t for t in cand if in_domain(t, m)]
            grid = [t if m != 'r2' else 1.0 - t for t in GRID]
            ts = []
            for _ in range(2 if seq else 4):
                ts.append(r.choice(cand) if cand and r.random() < 0.8 else r.choice(grid))
            ts = [t for t in ts if in_domain(t, m)]
            plan = []
            for t in ts:
                plan.append({'q': 'grdp', 't': t})
                for mm in r.sample(range(0, n + 2), min(1 if seq else 3, n + 2)):
                    plan.append({'q': 'mp', 't': t, 'm': mm})
            if (d, o, m) == DEFAULT:
                pool = [t for t in cand + GRID if in_domain(t, 'smape')]
                for _ in range(1 if seq else 4):
                    k = r.randint(0, 4)
                    lst = [r.choice(pool) for _ in range(k)] if pool else []
                    if lst and r.random() < 0.5:
                        lst.append(r.choice(lst))           # duplicate entry
                    r.shuffle(lst)                          # unsorted
                    plan.append({'q': 'min', 'ts': lst, 'm': r.randint(0, n + 1)})
            if seq:
                r.shuffle(plan)
            parts.append({'points': curves[ci], 'curve': ci, 'dist': d, 'order': o, 'cost': m, 'chain': chain,
                          'dt': dt, 'ct': ct, 'rt': rt, 'gt': gt, 'queries': plan})
        # 2. the calls under test: ONE array object for the whole case; other curves are written into it in place
        buf = np.array(curves[0], dtype=float)
        cur = 0
        for p in parts:
            D, O, M = rdp.Distance[p['dist']], rdp.Order[p['order']], metrics.Metrics[p['cost']]
            if p['curve'] != cur:
                buf[:] = np.array(curves[p['curve']], dtype=float)
                cur = p['curve']
            for q in p['queries']:
                if q['q'] == 'grdp':
                    st, out = call(rdp.grdp, buf, q['t'], D, M, O)
                elif q['q'] == 'mp':
                    st, out = call(rdp.mp_grdp, buf, q['t'], q['m'], D, M, O)
                else:
                    st, out = call(rdp.min_point_rdp, buf, list(q['ts']), q['m'])
                q['out'] = as_out(st, out)
        c['parts'] = parts
        return c

    @staticmethod
    def _emit_part(p):
        n = len(p['points'])
        qs = []
        for q in p['queries']:
            if q['q'] == 'grdp':
                qs.append('QGrdp %s %s' % (fl(q['t']), cout(q.get('out'))))
            elif q['q'] == 'mp':
                qs.append('QMp %s %s %s' % (fl(q['t']), cnat(q['m']), cout(q.get('out'))))
            else:
                qs.append('QMin %s %s %s' % (cfls(q['ts']), cnat(q['m']), cout(q.get('out'))))
        gt = clist(['(%s, %s)' % (cnats(S), fl(v)) for S, v in p['gt']])
        return '%s %s %s %s %s %s %s %s %s %s' % (cnat(n), cbool(p['cost'] == 'r2'), CORD[p['order']], cpts(p['points']), cdtab(p['dt']),
                                                   cptab(p['ct']), cptab(p['rt']), gt, clist([cnats(S) for S in p['chain']]), clist(qs))

    def emit(self, c):
        if c.get('kind') == 'seq':
            return 'CSeq %s' % clist(['PG ' + self._emit_part(p) for p in c['parts']])
        return 'CG ' + self._emit_part(c['parts'][0])

    def nontrivial_key(self, c):
        keys = []
        for p in c['parts']:
            n = len(p['points'])
            if any(q['q'] == 'grdp' and q.get('out') is not None and 2 < len(q['out'][0]) < n for q in p['queries']):
                keys.append((str(p['points']), p['dist'], p['order'], p['cost']))
        return (c.get('kind', 'one'), tuple(keys)) if keys else None

    def classify(self, c):
        p0 = c['parts'][0]
        n = len(p0['points'])
        qs = [q for p in c['parts'] for q in p['queries']]
        ks = [len(q['out'][0]) for q in qs if q['q'] == 'grdp' and q.get('out') is not None]
        return {'kind': c.get('kind', 'one') + ('/refill' if len(c.get('curves', [])) > 1 else ''),
                'n': n if n <= 12 else (n // 8) * 8, 'family': c.get('family', '?'),
                'config': ('%s/%s/%s' % (p0['cost'], p0['dist'], p0['order'])) if c.get('kind') != 'seq' else 'seq x%d' % len(c['parts']),
                'kstar': 'first' if ks and min(ks) == 2 else ('all' if ks and min(ks) == n else ('inner' if ks else 'none')),
                'queries': len(qs), 'min_point_queries': sum(1 for q in qs if q['q'] == 'min'),
                'exceptions': sum(1 for q in qs if q.get('out') is None)}

    def shrink(self, c):
        out = []
        if c.get('kind') == 'seq':
            base = {k: c[k] for k in ('kind', 'curves', 'steps', 'qseed', 'family')}
            if len(c['steps']) > 1:
                for j in range(len(c['steps'])):
                    d = dict(base)
                    d['steps'] = c['steps'][:j] + c['steps'][j + 1:]
                    out.append(d)
            n = len(c['curves'][0])
            if n > 2:
                for j in range(n):
                    d = dict(base)
                    d['curves'] = [cv[:j] + cv[j + 1:] for cv in c['curves']]
                    out.append(d)
            for s in range(3):
                d = dict(base)
                d['qseed'] = (c['qseed'] * 31 + s) % (1 << 30)
                out.append(d)
            return out
        pts = c['points']
        base = {k: c[k] for k in ('points', 'family', 'dist', 'order', 'cost', 'qseed')}
        if len(pts) > 2:
            for j in range(len(pts)):
                d = dict(base)
                d['points'] = pts[:j] + pts[j + 1:]
                out.append(d)
        for s in range(3):
            d = dict(base)
            d['qseed'] = (c['qseed'] * 31 + s) % (1 << 30)
            out.append(d)
        return out

    def sample(self, c):
        return {'kind': c.get('kind', 'one'),
                'parts': [{'points': p['points'], 'config': [p['cost'], p['dist'], p['order']], 'chain': p['chain'],
                           'gcost': [v for _, v in p['gt']], 'queries': p['queries'][:4]} for p in c['parts'][:2]]}

    def describe(self, c):
        curves, steps = self._plan(c)
        calls = []
        for p in c.get('parts', []):
            for q in p['queries']:
                calls.append(('curve %d' % p.get('curve', 0), p['cost'], p['dist'], p['order'], {k: v for k, v in q.items() if k != 'out'}))
        return ('ONE array object buf = np.array(curves[0]), curves=%s (buf[:] = curves[i] when the curve changes); calls in this order '
                '(grdp(buf, t, D, M, O) / mp_grdp(buf, t, m, D, M, O) / min_point_rdp(buf, ts, m)): %s; each compared with the first accepting member of '
                'rdp_fixed(fresh copy, k, D, O), k=2..n under evaluation.compute_global_cost(fresh copy, S, M, {})' % (curves, calls))


if __name__ == '__main__':
    main(C06)
