# C06 — global RDP stops at the first refinement whose global cost meets the threshold
import math, random
from core import *
import gen
from c05 import (DISTS, ORDERS, NFULL, CORD, any_curve, build_tables, as_out, cout, cdtab, cptab, wide_segments)

METRICS = ['smape', 'rpd', 'rmspe', 'rmsle', 'r2']
DEFAULT = ('shortest', 'segment', 'smape')      # min_point_rdp calls grdp / rdp_fixed with the defaults
GRID = [0.5, 0.1, 0.01, 0.001, 0.0001]


def in_domain(t, metric):
    if t != t or t <= 0 or t == math.inf:
        return False
    return t <= 1.0 if metric == 'r2' else True


class C06:
    id = 'C06'
    judge_module = 'Run.JudgeC06'
    rule = ('one case = one curve x metric x distance x order (30 configurations round-robin; every 5th case uses the default '
            'configuration and adds min_point_rdp queries) with: the implementation\'s chain rdp_fixed(points, k), k = 2..n; the '
            'global cost of every chain member (fresh cache); queries grdp(t), mp_grdp(t, m), min_point_rdp(ts, m) with thresholds '
            'drawn from the observed global costs (exact ties), their nextafter neighbours and a fixed grid, m in 0..n+1, threshold '
            'lists unsorted and with duplicates; curves as in C05 (60% tie-rich); non-trivial = some query stops at 2 < k* < n; '
            'distinct by (points, configuration)')
    assumptions = ['thresholds are in the property\'s domain: t > 0 (t <= 1 for R2), not NaN; min_points >= 0',
                   'shape of the distance oracle: len(distance_points(points[l:r], ...)) = r - l (checked on every table)',
                   'cases in which a priority is NaN are judged on the predicate only (Python\'s sort on NaN keys is not modelled)']
    trusted = ['modelled: rdp._grdp / grdp / mp_grdp / min_point_rdp / _rdp_fixed (mirror model of the stack and the retained list)',
               'oracles: distance, chord and residual primitives as in C05 (priorities derived in Coq from their stated definitions); evaluation.compute_global_cost(points, S, cost) with a fresh cache '
               '(the implementation shares one cache per run: cache transparency is property C15; a cache that changed a value would show up as a disagreement)']
    timeout = 40.0
    shard = 40

    def generate(self, rng, tier):
        cases = []
        ncases, nmax = {'quick': (400, 12), 'search': (150, 10), 'thorough': (6000, 40)}.get(tier, (400, 12))
        cfgs = [(m, d, o) for m in METRICS for d in DISTS for o in ORDERS]
        j = 0
        for i in range(ncases):
            if tier == 'thorough' and i % 4 == 0:
                n = rng.randint(13, nmax)
            else:
                n = rng.choice([3, 4, 5, 6, 7, 8, 9, 10, 11, 12]) if i % 9 else rng.choice([2, 3])
            n = min(n, nmax)
            fam, pts = any_curve(rng, n)
            if i % 5 == 4:
                d, o, m = DEFAULT
            else:
                m, d, o = cfgs[j % len(cfgs)]
                j += 1
            cases.append({'points': pts, 'family': fam, 'dist': d, 'order': o, 'cost': m, 'qseed': rng.randrange(1 << 30)})
        return cases

    def warmup(self):
        import numpy as np
        import kneeliverse.rdp as rdp
        import kneeliverse.metrics as metrics
        p = np.array([[0., 1.], [1., 3.], [2., 2.], [3., 5.], [4., 5.]])
        for c in metrics.Metrics:
            rdp.grdp(p, 0.1, cost=c)

    def on_timeout(self, c):
        c = dict(c)
        c.update({'chain': [], 'dt': [], 'ct': [], 'rt': [], 'gt': [], 'queries': [], 'timeout': True})
        return c

    def run_impl(self, c):
        import numpy as np
        import kneeliverse.rdp as rdp
        import kneeliverse.linear_fit as lf
        import kneeliverse.metrics as metrics
        import kneeliverse.evaluation as evaluation
        c = dict(c)
        pts = np.array(c['points'], dtype=float)
        n = len(pts)
        D, O, M = rdp.Distance[c['dist']], rdp.Order[c['order']], metrics.Metrics[c['cost']]
        chain = []
        for k in range(2, n + 1):
            st, out = call(rdp.rdp_fixed, pts, k, D, O)
            o = as_out(st, out)
            chain.append(o[0] if o is not None else [])
        c['chain'] = chain
        c['dt'], c['ct'], c['rt'] = build_tables(rdp, lf, pts, c['dist'], c['order'], chain, n <= NFULL)
        gt, seen = [], set()
        for S in chain:
            if S and tuple(S) not in seen and all(0 <= i < n for i in S) and len(S) >= 2:
                seen.add(tuple(S))
                st, v = call(evaluation.compute_global_cost, pts, list(S), M)
                if st == 'ok':
                    gt.append([list(S), float(v)])
        c['gt'] = gt
        # thresholds: observed global costs (exact ties), neighbours, grid
        r = random.Random(c['qseed'])
        vals = sorted({v for _, v in gt if v == v})
        cand = []
        for v in vals:
            cand += [v, math.nextafter(v, math.inf), math.nextafter(v, -math.inf)]
        cand = [t for t in cand if in_domain(t, c['cost'])]
        grid = [t if c['cost'] != 'r2' else 1.0 - t for t in GRID]
        ts = []
        for _ in range(4):
            ts.append(r.choice(cand) if cand and r.random() < 0.8 else r.choice(grid))
        ts = [t for t in ts if in_domain(t, c['cost'])]
        queries = []
        for t in ts:
            st, out = call(rdp.grdp, pts, t, D, M, O)
            queries.append({'q': 'grdp', 't': t, 'out': as_out(st, out)})
            for m in r.sample(range(0, n + 2), min(3, n + 2)):
                st, out = call(rdp.mp_grdp, pts, t, m, D, M, O)
                queries.append({'q': 'mp', 't': t, 'm': m, 'out': as_out(st, out)})
        if (c['dist'], c['order'], c['cost']) == DEFAULT:
            pool = [t for t in cand + GRID if in_domain(t, 'smape')]
            for _ in range(4):
                k = r.randint(0, 4)
                lst = [r.choice(pool) for _ in range(k)] if pool else []
                if lst and r.random() < 0.5:
                    lst.append(r.choice(lst))           # duplicate entry
                r.shuffle(lst)                          # unsorted
                m = r.randint(0, n + 1)
                before = list(lst)
                st, out = call(rdp.min_point_rdp, pts, lst, m)
                queries.append({'q': 'min', 'ts': before, 'm': m, 'out': as_out(st, out), 'mutated_arg': lst != before})
        c['queries'] = queries
        return c

    def emit(self, c):
        n = len(c['points'])
        qs = []
        for q in c['queries']:
            if q['q'] == 'grdp':
                qs.append('QGrdp %s %s' % (fl(q['t']), cout(q['out'])))
            elif q['q'] == 'mp':
                qs.append('QMp %s %s %s' % (fl(q['t']), cnat(q['m']), cout(q['out'])))
            else:
                qs.append('QMin %s %s %s' % (cfls(q['ts']), cnat(q['m']), cout(q['out'])))
        gt = clist(['(%s, %s)' % (cnats(S), fl(v)) for S, v in c['gt']])
        return 'CG %s %s %s %s %s %s %s %s %s' % (cnat(n), cbool(c['cost'] == 'r2'), CORD[c['order']], cdtab(c['dt']), cptab(c['ct']), cptab(c['rt']), gt,
                                            clist([cnats(S) for S in c['chain']]), clist(qs))

    def nontrivial_key(self, c):
        n = len(c['points'])
        for q in c['queries']:
            if q['q'] == 'grdp' and q['out'] is not None and 2 < len(q['out'][0]) < n:
                return (str(c['points']), c['dist'], c['order'], c['cost'])
        return None

    def classify(self, c):
        n = len(c['points'])
        ks = [len(q['out'][0]) for q in c['queries'] if q['q'] == 'grdp' and q['out'] is not None]
        return {'n': n if n <= 12 else (n // 8) * 8, 'family': c.get('family', '?'),
                'config': '%s/%s/%s' % (c['cost'], c['dist'], c['order']),
                'kstar': 'first' if ks and min(ks) == 2 else ('all' if ks and min(ks) == n else ('inner' if ks else 'none')),
                'queries': len(c['queries']), 'min_point_queries': sum(1 for q in c['queries'] if q['q'] == 'min'),
                'exceptions': sum(1 for q in c['queries'] if q['out'] is None)}

    def shrink(self, c):
        out = []
        pts = c['points']
        base = {k: c[k] for k in ('points', 'family', 'dist', 'order', 'cost', 'qseed')}
        if len(pts) > 2:
            for j in range(len(pts)):
                d = dict(base)
                d['points'] = pts[:j] + pts[j + 1:]
                out.append(d)
        for s in range(3):
            d = dict(base)
            d['qseed'] = (c['qseed'] * 31 + s) % (1 << 30)
            out.append(d)
        return out

    def sample(self, c):
        return {'points': c['points'], 'config': [c['cost'], c['dist'], c['order']], 'chain': c['chain'],
                'gcost': [v for _, v in c['gt']], 'queries': c['queries'][:6]}

    def describe(self, c):
        return ('points=np.array(%s); rdp.grdp / mp_grdp(points, t, m, rdp.Distance.%s, metrics.Metrics.%s, rdp.Order.%s) and '
                'min_point_rdp(points, ts, m) for the queries %s; chain = rdp_fixed(points, k, ...) k=2..n'
                % (c['points'], c['dist'], c['cost'], c['order'],
                   [{k: v for k, v in q.items() if k != 'out'} for q in c['queries']]))


if __name__ == '__main__':
    main(C06)
