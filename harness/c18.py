# C18 — convex-hull routines return the true hull (convex_hull.py)
import itertools, math, random
from core import *
import gen


def _grid_points(rng, n, w, h):
    """n distinct points on a w x h integer grid (many collinear triples, repeated x with different y)"""
    cells = [(x, y) for x in range(w) for y in range(h)]
    n = min(n, len(cells))
    return [[float(x), float(y)] for x, y in rng.sample(cells, n)]


def point_set(rng, n, family):
    if family == 'grid3':
        return _grid_points(rng, n, 3, 3)
    if family == 'grid4':
        return _grid_points(rng, n, 4, 4)
    if family == 'grid6':
        return _grid_points(rng, n, 6, 5)
    if family == 'line':
        # fully collinear set: horizontal, vertical, diagonal or sloped; distinct parameters
        dx, dy = rng.choice([(1, 0), (0, 1), (1, 1), (1, -1), (2, 1), (1, 3), (-1, 2), (3, -2)])
        ts = rng.sample(range(-10, 30), min(n, 40))
        x0, y0 = rng.randint(-3, 3), rng.randint(-3, 3)
        return [[float(x0 + t * dx), float(y0 + t * dy)] for t in ts]
    if family == 'line+1':
        pts = point_set(rng, max(2, n - 1), 'line')
        while True:
            q = [float(rng.randint(-8, 14)), float(rng.randint(-8, 14))]
            if q not in pts:
                return pts + [q]
    if family == 'columns':
        # few distinct x, several y per x (duplicates of x with different y, incl. on the pivot's column)
        xs = rng.sample(range(0, 4), rng.randint(1, 3))
        cells = [(x, y) for x in xs for y in range(-3, 4)]
        n = min(n, len(cells))
        return [[float(x), float(y)] for x, y in rng.sample(cells, n)]
    if family == 'fan':
        # several points on each of a few rays through the lowest-leftmost point
        pts = [[0.0, 0.0]]
        rays = rng.sample([(0, 1), (1, 3), (1, 2), (1, 1), (2, 1), (3, 1), (1, 0), (3, -1), (2, -1), (1, -1), (1, -2), (1, -3)], rng.randint(2, 4))
        n = min(n, 1 + 4 * len(rays))
        while len(pts) < n:
            dx, dy = rng.choice(rays)
            t = rng.randint(1, 5)
            q = [float(t * dx), float(t * dy)]
            if q not in pts:
                pts.append(q)
        rng.shuffle(pts)
        return pts
    if family == 'circle':
        # integer points on / near a circle: general position is common, large hulls
        out = []
        n = min(n, 16)
        while len(out) < n:
            a = rng.uniform(0, 2 * math.pi)
            r = rng.choice([9, 9, 13, 25])
            q = [float(round(r * math.cos(a))), float(round(r * math.sin(a)))]
            if q not in out:
                out.append(q)
        return out
    if family == 'dyadic':
        # random points with short mantissas (k/16, |k| <= 2^11): general position is the rule, exact arithmetic stays cheap
        out = []
        while len(out) < n:
            q = [rng.randint(-2048, 2048) / 16.0, rng.randint(-2048, 2048) / 16.0]
            if q not in out:
                out.append(q)
        return out
    if family == 'uniform':
        return [[rng.uniform(-5, 5), rng.uniform(-5, 5)] for _ in range(n)]
    if family == 'gauss':
        return [[rng.gauss(0, 1), rng.gauss(0, 3)] for _ in range(n)]
    if family == 'scaled':
        s = 10.0 ** rng.choice([-120, -30, -8, 8, 30, 120])
        return [[rng.uniform(-5, 5) * s, rng.uniform(-5, 5) * s] for _ in range(n)]
    raise ValueError(family)


SET_FAMILIES = ['grid3', 'grid4', 'grid6', 'line', 'line+1', 'columns', 'fan', 'circle', 'dyadic', 'uniform', 'gauss', 'scaled']
FULL_MANTISSA = {'uniform', 'gauss', 'scaled', 'convex'}     # 53-bit mantissas: exact evaluation inside Coq is slow, sizes are capped
CURVE_FAMILIES = ['grid', 'collinear', 'convex', 'uniform', 'scaled', 'plateau', 'zigzag', 'elbow', 'concave', 'parabola']


def curve(rng, n, family):
    if family == 'concave':
        xs = gen.xs_increasing(rng, n, rng.choice(['unit', 'int']))
        ys = [float(round(10 * math.sqrt(x - xs[0]))) for x in xs]
        return [[x, y] for x, y in zip(xs, ys)]
    if family == 'parabola':
        # every point is a vertex of the lower (convex) or upper (concave) hull; integer, exact
        xs = gen.xs_increasing(rng, n, rng.choice(['unit', 'int']))
        s = rng.choice([1.0, -1.0])
        c = rng.choice(xs)
        top = max((x - c) ** 2 for x in xs)
        return [[x, (x - c) ** 2 if s > 0 else top - (x - c) ** 2] for x in xs]
    return gen.curve(rng, n, family)[1]


class C18:
    id = 'C18'
    judge_module = 'Run.JudgeC18'
    rule = ('x-sorted curves (integer grids with collinear runs / plateaus / zigzags / elbows / parabolas, convex and random doubles, '
            'scaled magnitudes) x {lower, upper}; planar sets of distinct points (3x3..6x5 integer grids, fully collinear sets, '
            'a line plus one point, few columns with several y, fans of rays through the pivot, near-circles, short-mantissa random points, random doubles) in '
            'random row order; families enumerated round-robin; non-trivial = at least one point is popped (the hull is a proper '
            'subset); distinct by (routine, points)')
    assumptions = ['coordinates are finite doubles; lower/upper: strictly increasing x; graham_scan: pairwise distinct rows, n >= 3',
                   'the geometric clauses are judged with the exact sign of the cross product (dyadic coordinates scaled to integers inside Coq); '
                   'the Tier-A theorems are about real arithmetic, the Tier-S theorems hold for the double-precision orientation as computed']
    trusted = ['modelled: convex_hull._ccw (bit-reproducible: computed in the model), graham_scan_lower, graham_scan_upper, _sort_points, graham_scan; '
               '_dist_points (np.linalg.norm) enters as a table; Python sorted(cmp_to_key) modelled as stable insertion (theorems quantify over every arrangement)',
               'degenerate clause of graham_scan (extreme vertices included, only boundary points) is TESTED per case against a brute-force hull evaluated in Coq, not proved']
    timeout = 20.0
    shard = 200

    def generate(self, rng, tier):
        cases = []
        nc = {'quick': 300, 'search': 300, 'thorough': 10000}.get(tier, 300)
        ns = {'quick': 300, 'search': 300, 'thorough': 10000}.get(tier, 300)
        nmax = {'quick': 12, 'search': 12, 'thorough': 40}.get(tier, 12)
        smax = {'quick': 10, 'search': 10, 'thorough': 24}.get(tier, 10)
        for k in range(nc):
            fam = CURVE_FAMILIES[k % len(CURVE_FAMILIES)]
            n = rng.choice([2, 3, 3, 4, 5, 6, 8]) if rng.random() < 0.5 else rng.randint(2, nmax)
            if fam in FULL_MANTISSA:
                n = min(n, 20)
            pts = curve(rng, n, fam)
            cases.append({'kind': 'chain', 'upper': bool((k // len(CURVE_FAMILIES)) % 2), 'family': fam, 'points': pts})
        for k in range(ns):
            fam = SET_FAMILIES[k % len(SET_FAMILIES)]
            n = rng.choice([3, 3, 4, 4, 5, 6, 7]) if rng.random() < 0.5 else rng.randint(3, smax)
            if fam in FULL_MANTISSA:
                n = min(n, 8 if tier != 'thorough' else 10)
            pts = point_set(rng, n, fam)
            cases.append({'kind': 'graham', 'family': fam, 'points': pts})
        # near-collinear doubles: the double-precision sign of _ccw differs from the exact sign, so the returned chain is
        # not the exact hull of the given doubles (reported finding, key C18:inexact-orientation).  Generated only once
        # that finding is registered in known_findings.json (then reported as KNOWN-FINDING, never silently skipped).
        if any(k.get('property') == 'C18' and k.get('key') == INEXACT_KEY and k.get('status', 'open') == 'open' for k in load_known()):
            for k in range(20 if tier != 'thorough' else 400):
                n = rng.randint(3, 8)
                m, c0 = rng.uniform(-3, 3), rng.uniform(0, 5)
                xs = sorted(set(rng.uniform(0, 10) for _ in range(n)))
                cases.append({'kind': 'chain', 'upper': bool(k % 2), 'family': 'nearline', 'points': [[x, m * x + c0] for x in xs]})
        # malformed stream (outside the domain; can never produce a violation): too few points, duplicate rows, non-increasing x
        for k in range(12 if tier != 'thorough' else 200):
            r = k % 4
            if r == 0:
                cases.append({'kind': 'graham', 'family': 'malformed', 'points': point_set(rng, rng.randint(1, 2), 'uniform')})
            elif r == 1:
                p = point_set(rng, rng.randint(3, 6), 'grid4')
                cases.append({'kind': 'graham', 'family': 'malformed', 'points': p + [p[0]]})
            elif r == 2:
                p = curve(rng, rng.randint(3, 6), 'grid')
                p[1], p[2] = p[2], p[1]
                cases.append({'kind': 'chain', 'upper': bool(k % 8 < 4), 'family': 'malformed', 'points': p})
            else:
                cases.append({'kind': 'chain', 'upper': bool(k % 8 < 4), 'family': 'malformed', 'points': curve(rng, 2, 'grid')[:1]})
        return cases

    def on_timeout(self, c):
        c = dict(c)
        c['out'] = None
        c['dtab'] = [0.0] * len(c['points'])
        c['sp'] = None
        c['timeout'] = True
        return c

    def run_impl(self, c):
        import numpy as np
        import kneeliverse.convex_hull as ch
        c = dict(c)
        pts = np.array(c['points'], dtype=float).reshape(-1, 2)
        if c['kind'] == 'chain':
            f = ch.graham_scan_upper if c['upper'] else ch.graham_scan_lower
            st, out = call(f, pts)
            c['out'] = as_nat_list(out) if st == 'ok' else None
            return c
        st, out = call(ch.graham_scan, pts)
        c['out'] = as_nat_list(out) if st == 'ok' else None
        # the distance oracle: the library's own _dist_points from the pivot the library's own rule selects
        n = len(pts)
        c['dtab'] = [0.0] * n
        c['sp'] = None
        if n >= 1:
            p0 = min(pts, key=lambda p: (p[0], p[1]))
            c['dtab'] = [float(ch._dist_points(p0, pts[i])) for i in range(n)]
            st2, sp = call(ch._sort_points, pts)
            if st2 == 'ok':
                idx = []
                for p in sp:
                    w = np.where(np.all(pts == p, axis=1))[0]
                    idx.append(int(w[0]) if len(w) else None)
                c['sp'] = idx if all(i is not None for i in idx) else None
        return c

    def emit(self, c):
        if c['kind'] == 'chain':
            return 'CChain %s %s %s' % (cbool(c['upper']), cpts(c['points']), copt(c.get('out'), cnats))
        return 'CGraham %s %s %s %s' % (cpts(c['points']), cfls(c.get('dtab', [])), copt(c.get('sp'), cnats), copt(c.get('out'), cnats))

    def nontrivial_key(self, c):
        out = c.get('out')
        if out is None or c.get('family') == 'malformed':
            return None
        n = len(c['points'])
        if len(out) < n and n >= 3:
            return (c['kind'], c.get('upper'), str(c['points']))
        return None

    def classify(self, c):
        out = c.get('out')
        n = len(c['points'])
        return {'kind': c['kind'] + ('' if c['kind'] == 'graham' else ('_upper' if c['upper'] else '_lower')),
                'family': c.get('family', '?'), 'n': n // 4 * 4,
                'outcome': 'exception' if out is None else ('all points kept' if len(out) == n else 'hull size %d' % min(len(out), 8)),
                'collinear_triple': has_collinear(c['points'])}

    def shrink(self, c):
        out = []
        pts = c['points']
        lo = 2 if c['kind'] == 'chain' else 3
        for j in range(len(pts)):
            if len(pts) > lo:
                d = {k: v for k, v in c.items() if k not in ('out', 'dtab', 'sp', 'timeout')}
                d['points'] = pts[:j] + pts[j + 1:]
                out.append(d)
        return out

    def finding_key(self, c):
        # a failing case on which the double-precision orientation has the wrong sign for some triple
        try:
            if all(math.isfinite(v) for p in c['points'] for v in p) and sign_inexact(c['points']):
                return INEXACT_KEY
        except Exception:
            pass
        return None

    def sample(self, c):
        return {k: c[k] for k in ['kind', 'upper', 'family', 'points', 'out', 'sp'] if k in c}

    def describe(self, c):
        if c['kind'] == 'chain':
            return 'kneeliverse.convex_hull.graham_scan_%s(np.array(%s))' % ('upper' if c['upper'] else 'lower', c['points'])
        return 'kneeliverse.convex_hull.graham_scan(np.array(%s))' % (c['points'],)


INEXACT_KEY = 'C18:inexact-orientation'


def sign_inexact(pts):
    """does the double-precision _ccw have a sign different from the exact cross product on some index triple?"""
    from fractions import Fraction as F
    n = len(pts)
    if n > 40:
        return False
    P = [(F(p[0]), F(p[1])) for p in pts]
    sg = lambda v: (v > 0) - (v < 0)
    for i, j, k in itertools.permutations(range(n), 3):
        a, b, c = pts[i], pts[j], pts[k]
        f = (b[0] - a[0]) * (c[1] - a[1]) - (c[0] - a[0]) * (b[1] - a[1])
        A, B, C = P[i], P[j], P[k]
        e = (B[0] - A[0]) * (C[1] - A[1]) - (C[0] - A[0]) * (B[1] - A[1])
        if sg(f) != sg(e):
            return True
    return False


def has_collinear(pts):
    n = len(pts)
    if n > 16:
        return 'n>16'
    for i, j, k in itertools.combinations(range(n), 3):
        a, b, c = pts[i], pts[j], pts[k]
        if (b[0] - a[0]) * (c[1] - a[1]) - (c[0] - a[0]) * (b[1] - a[1]) == 0:
            return True
    return False


def as_nat_list(a):
    try:
        out = []
        for v in list(a):
            f = float(v)
            if f != int(f) or f < 0:
                return None
            out.append(int(f))
        return out
    except Exception:
        return None


if __name__ == '__main__':
    main(C18)
