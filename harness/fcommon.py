# harness/fcommon.py — shared by the formula-layer checks C16 / C17 (owner: worker `formulas`).
#
# The judges of these two properties export `judgex c = judge c + 1000 * #bit-exact comparisons
# + 1000000 * #comparisons`.  `install()` replaces core.evaluate by a version that evaluates `judgex`
# (one coqc pass), hands the plain `judge` code (100 * agree + holds) back to the generic driver and
# accumulates the bit-exactness figures, which reach evidence/<id>.json through the `coverage` dict
# returned by the property's `extra_obligations` (the driver merges that dict into the evidence after
# the correspondence run).  Nothing in core.py is edited.
import math, struct
import core


class BitExact:
    """mix-in: accumulates how many model/implementation float comparisons were bit-for-bit equal"""

    def _cov_init(self):
        if not hasattr(self, '_cov'):
            self._cov = {'formula_comparisons': 0, 'bit_exact_comparisons': 0, 'bit_exact_by_kind': {},
                         'tolerance': 'f_close: |a-b| <= 1e-9*max(|a|,|b|) + atol(case); atol is computed inside Coq from the '
                                      'magnitudes of the summands (see Run/Judge*.v), 0 for quantities built from + - * / sqrt abs only'}
        return self._cov

    def extra_obligations(self, workdir):
        return True, {'coverage': self._cov_init()}

    def note(self, enriched, tag):
        cov = self._cov_init()
        if tag != 'cases':
            return
        for c in enriched:
            k = c.get('kind', '?')
            cov['formula_comparisons'] += c.get('_cmps', 0)
            cov['bit_exact_comparisons'] += c.get('_exact', 0)
            d = cov['bit_exact_by_kind'].setdefault(k, [0, 0])
            d[0] += c.get('_exact', 0)
            d[1] += c.get('_cmps', 0)


def install():
    if getattr(core, '_fcommon_installed', False):
        return

    def evaluate(prop, cases, workdir, tag):
        enriched = core.run_impl_all(prop, cases, timeout=getattr(prop, 'timeout', 20.0))
        terms = [prop.emit(c) for c in enriched]
        raw = core.coq_eval(prop.judge_module, terms, workdir, shard=getattr(prop, 'shard', 250), tag=tag, fn='judgex')
        codes = []
        for c, v in zip(enriched, raw):
            code = v % 1000
            c['_code'] = code
            c['_exact'] = (v // 1000) % 1000
            c['_cmps'] = v // 1000000
            codes.append(code)
        if hasattr(prop, 'note'):
            prop.note(enriched, tag)
        return enriched, codes

    core.evaluate = evaluate
    core._fcommon_installed = True


# ---- generators shared by C16 / C17 ----

def nudge(rng, x):
    """x or one of its floating-point neighbours"""
    r = rng.random()
    if r < 0.4:
        return x
    if r < 0.7:
        return math.nextafter(x, math.inf)
    return math.nextafter(x, -math.inf)


def scale_choice(rng, wide=True):
    if wide:
        return 10.0 ** rng.choice([-300, -150, -30, -8, 8, 30, 100, 138])
    return 10.0 ** rng.choice([-100, -30, -8, 8, 30, 100])


def vec(rng, n, fam):
    """a vector of n finite doubles of the given family"""
    if fam == 'int':
        m = rng.choice([1, 2, 5, 9, 100])
        return [float(rng.randint(0, m)) for _ in range(n)]
    if fam == 'sint':
        m = rng.choice([1, 2, 5, 9])
        return [float(rng.randint(-m, m)) for _ in range(n)]
    if fam == 'uniform':
        return [rng.uniform(0, 10) for _ in range(n)]
    if fam == 'unit':
        return [rng.random() for _ in range(n)]
    if fam == 'signed':
        return [rng.uniform(-10, 10) for _ in range(n)]
    if fam == 'zeros':
        return [0.0 if rng.random() < 0.7 else rng.uniform(0, 3) for _ in range(n)]
    if fam == 'allzero':
        return [0.0] * n
    if fam == 'const':
        v = rng.choice([0.0, 1.0, 2.5, rng.uniform(0, 9)])
        return [v] * n
    if fam == 'nearconst':
        v = rng.choice([1.0, 2.5, rng.uniform(0.1, 9)])
        return [nudge(rng, v) for _ in range(n)]
    if fam == 'huge':
        s = 10.0 ** rng.choice([30, 100, 138])
        return [rng.uniform(0, 9) * s for _ in range(n)]
    if fam == 'tiny':
        s = 10.0 ** rng.choice([-30, -150, -300])
        return [rng.uniform(0, 9) * s for _ in range(n)]
    if fam == 'mixed':
        return [rng.uniform(0, 9) * 10.0 ** rng.choice([-8, 0, 0, 8]) for _ in range(n)]
    raise ValueError(fam)


VEC_FAMS = ['int', 'sint', 'uniform', 'unit', 'signed', 'zeros', 'allzero', 'const', 'nearconst', 'huge', 'tiny', 'mixed']
