# C02 — recursive multi-knee detection terminates, is well-formed and self-similar
import sys, math, time, signal, random, itertools, importlib
from core import *
import gen

DETS = ['curvature', 'dfdt', 'menger', 'lmethod', 'kneedle']
# least t2 for which every slice that passes the size gate (len > t2) is one the detector answers inside its range
# (below it: curvature/dfdt raise ValueError on 2 points, lmethod.knee returns the LAST index of a 3-point slice and
# menger.knee returns 0 on a 1-point slice, both of which make the stack loop push the same range forever)
TMIN = {'curvature': 2, 'dfdt': 2, 'menger': 1, 'lmethod': 3, 'kneedle': 0}
LO = {'curvature': 1, 'dfdt': 1, 'menger': 0, 'lmethod': 1, 'kneedle': 1}
COSTC = {'smape': 0, 'r2': 1, 'rmspe': 2}
GRID = {'smape': [0.001, 0.01, 0.05, 0.1, 0.3, 1.0, 2.0, 2.5], 'rmspe': [0.0, 0.01, 0.1, 1.0],
        'r2': [0.0, 0.5, 0.9, 0.99, 1.0, 1.5]}
# (via, cost): the bundled wrappers always use SMAPE; the generic entry point is also run with the two cost values
# that multi_knee.multi_knee treats specially
VIAS = [('wrapper', 'smape')] * 8 + [('generic', 'r2'), ('generic', 'rmspe')]
SPECS = ['zero', 'node0', 'node=', 'node+', 'node-', 'grid']


def small_span_curve(rng, n):
    """large x offset AND small span (time-stamps sampled at sub-second resolution, byte addresses inside one page):
    x_i = offset + k_i * ulp-multiple, strictly increasing, total span between 1e-13 and 1e-5 of the offset, so that any
    relative-tolerance comparison of the end abscissae (isclose 1e-9, allclose 1e-5/1e-8) sees one point where the exact test
    sees a segment.  Half of the curves are EXACTLY straight in binary64 (horizontal, or a power-of-two slope on the exact
    x differences: end-point-line SMAPE is exactly 0), the others ordinary shapes carried by the tiny span."""
    off = rng.choice([1.0e5, 4.0e6, 1.7e9, 2.0 ** 40, 1.0e15])
    u = math.ulp(off)
    rel = 10.0 ** rng.choice([-13, -12, -11, -10, -9.5, -9, -8, -6, -5])
    kmax = max(1, int(off * rel / u / max(1, n - 1)))
    ks = [0]
    for _ in range(n - 1):
        ks.append(ks[-1] + rng.randint(1, max(1, 2 * kmax)))
    xs = [off + k * u for k in ks]
    assert all(a < b for a, b in zip(xs, xs[1:]))
    shape = rng.choice(['flat', 'pow2', 'pow2', 'line', 'convex', 'elbow', 'zigzag', 'random'])
    oy = rng.choice([0.0, 0.0, 5.0, 2.0e6])
    span = xs[-1] - xs[0]
    if shape == 'flat':
        ys = [oy + 3.0] * n
    elif shape == 'pow2':
        sl = 2.0 ** rng.randint(-4, 30)
        ys = [sl * (x - xs[0]) for x in xs]                     # exact: x - x0 and the product by a power of two do not round
    elif shape == 'line':
        sl = rng.uniform(0.1, 5.0) / span
        ys = [oy + 1.0 + sl * (x - xs[0]) for x in xs]          # straight up to rounding
    elif shape == 'convex':
        a = rng.uniform(1.0, 8.0)
        ys = [oy + math.exp(-a * (x - xs[0]) / span) for x in xs]
    elif shape == 'elbow':
        c = rng.randint(0, n - 1)
        m1, m2 = rng.randint(-16, 16) / 8.0, rng.randint(-16, 16) / 8.0
        ys = [(m1 if i <= c else m2) * (xs[i] - xs[c]) / span for i in range(n)]
        lo = min(ys)
        ys = [oy + y - lo for y in ys]
    elif shape == 'zigzag':
        ys = [oy + float(i % 2) for i in range(n)]
    else:
        ys = [oy + rng.uniform(0, 10) for _ in range(n)]
    return 'span-' + shape, [[float(x), float(y)] for x, y in zip(xs, ys)]


def _same(a, b):
    return a == b or (a != a and b != b)


_MON = {}
_RETRIED = [False]
_HANGS = [0]        # runs that did not return, seen by this worker process


def _monitor(mkmod):
    """sys.monitoring line counter for the `stack.pop()` line of multi_knee.multi_knee; None if it cannot be set up"""
    code = mkmod.multi_knee.__code__
    if _MON.get('code') is code:
        return _MON
    try:
        import inspect
        src, start = inspect.getsourcelines(mkmod.multi_knee)
        line = None
        for i, s in enumerate(src):
            if 'stack.pop()' in s:
                line = start + i
                break
        if line is None:
            return None
        mon = sys.monitoring
        tool = _MON.get('tool')
        if tool is None:
            for t in (3, 4, 2, 1):
                try:
                    mon.use_tool_id(t, 'c02')
                    tool = t
                    break
                except ValueError:
                    continue
            if tool is None:
                return None
        cnt = [0]

        def cb(code_, lineno):
            if lineno == line and code_ is code:
                cnt[0] += 1

        mon.register_callback(tool, mon.events.LINE, cb)
        _MON.update({'code': code, 'tool': tool, 'cnt': cnt, 'line': line})
        return _MON
    except Exception:
        return None


_PRIMED = set()
_SAMPLE = [[0., 9.], [1., 4.], [2., 2.5], [3., 2.], [4., 1.8], [5., 1.7], [6., 1.65], [7., 1.6], [8., 1.6], [9., 1.55], [10., 1.5], [11., 1.5]]


def _prime(det):
    """first calls compile the numba kernels (seconds): make them once per process, outside every alarm-guarded evaluation"""
    if det in _PRIMED:
        return
    import numpy as np
    import kneeliverse.linear_fit as lf
    mod = importlib.import_module('kneeliverse.' + det)
    p = np.array(_SAMPLE)
    # under its own alarm (the parent process has no SIGALRM handler; a worker's timer is restored by the caller): a detector that
    # does not return must not stall the priming either
    def _h(signum, frame):
        raise Timeout()
    old_handler = signal.signal(signal.SIGALRM, _h)
    old_timer = signal.setitimer(signal.ITIMER_REAL, 15.0, 1.0)
    try:
        _prime_calls(det, mod, lf, p, np)
    except Timeout:
        pass
    finally:
        signal.setitimer(signal.ITIMER_REAL, 0)
        signal.signal(signal.SIGALRM, old_handler)
        if old_timer[0] > 0:
            signal.setitimer(signal.ITIMER_REAL, max(0.2, old_timer[0]), old_timer[1])
    _PRIMED.add(det)


def _prime_calls(det, mod, lf, p, np):
    try:
        lf.smape_points(p, lf.linear_fit_points(p))
        lf.linear_r2_points(p, lf.linear_fit_points(p))
        mod.knee(p)
        mod.multi_knee(p, 0.0, TMIN[det] + 1)
    except Exception:
        pass
    import kneeliverse.metrics as metrics
    one = np.array([1.0])
    for f in (metrics.smape, metrics.residuals):           # one-element operands are typed as contiguous: a separate kernel
        for a, b in ((one, one), (p[:1, 1], one), (p[:, 1], p[:, 0].copy())):
            try:
                f(a, b, 1e-16) if f is metrics.smape else f(a, b)
            except Exception:
                pass
    for k in range(1, 8):                                    # tiny slices take their own paths through the detectors
        try:
            mod.knee(p[:k])
        except Exception:
            pass


class C02:
    id = 'C02'
    judge_module = 'Run.JudgeC02'
    rule = ('generated curves (gen.curve families incl. collinear runs / plateaus / elbows / huge and tiny magnitudes, and miss-ratio-like '
            'curves) x 5 detectors x t1 in {0, the straightness the library computes for a range the recursion visits (exactly, and its '
            'two nextafter neighbours), grid} x t2 in min..min+3 (min per detector) x {bundled wrapper (SMAPE), generic entry with r2 / rmspe}; '
            'enumerated round-robin; non-trivial = at least 2 knees returned; distinct by (detector, entry, cost, t1, t2, points)')
    assumptions = ['t2 >= the detector minimum (curvature 2, dfdt 2, menger 1, lmethod 3, kneedle 0), t1 >= 0, n >= 2; '
                   'below the minimum the range hypothesis fails and the real loop raises or never returns (outside the property)',
                   'the range fact `knee1 l r = Some k -> lo <= k /\\ k + 2 <= r - l` is a hypothesis of the theorems (discharged per detector '
                   'in C09); it is evaluated as a boolean on every oracle table (holds code 7)']
    trusted = ['modelled: multi_knee.multi_knee (stack loop, gates, offsets, final sort); oracles: lf.smape_points / lf.linear_r2_points of '
               'lf.linear_fit_points(points[l:r]) and <detector>.knee(points[l:r]) evaluated by the harness on the slices; '
               'loop iterations counted with sys.monitoring line events on the `stack.pop()` line']
    timeout = 20.0          # harness-level guard per case
    impl_timeout = 3.0      # the implementation's own budget per call (typical run: milliseconds)
    oracle_timeout = 1.0    # one <detector>.knee evaluation for the tables
    oracle_budget = 3.0     # all slow oracle evaluations of one case
    shard = 250

    # ------------------------------------------------------------------ generation
    def generate(self, rng, tier):
        ncurves = {'quick': 400, 'search': 80, 'thorough': 8000}.get(tier, 200)
        nmax = {'quick': 16, 'search': 12, 'thorough': 64}.get(tier, 16)
        configs = list(itertools.product(range(4), range(len(SPECS)), range(len(VIAS))))
        rng.shuffle(configs)
        cases = []
        i = 0
        for ci in range(ncurves):
            if ci % 2 == 0:
                n = rng.randint(2, 8)
            elif tier == 'thorough' and ci % 4 == 1:
                n = rng.randint(17, nmax)
            else:
                n = rng.randint(9, min(nmax, 16))
            if ci % 5 == 4:
                fam, pts = small_span_curve(rng, max(n, 3))
            elif ci % 4 == 3:
                fam, pts = gen.mrc_curve(rng, n)
                fam = 'mrc-' + fam
            else:
                fam, pts = gen.curve(rng, n)
            for det in DETS:
                t2off, si, vi = configs[i % len(configs)]
                i += 1
                via, cost = VIAS[vi]
                spec = SPECS[si]
                if spec == 'grid':
                    t1spec = ['grid', GRID[cost][rng.randrange(len(GRID[cost]))]]
                elif spec == 'zero':
                    t1spec = ['zero']
                elif spec == 'node0':
                    t1spec = ['node', 0, 0]
                else:
                    t1spec = ['node', rng.randrange(0, 8), {'=': 0, '+': 1, '-': -1}[spec[-1]]]
                cases.append({'det': det, 'family': fam, 'points': pts, 't1spec': t1spec, 't1kind': spec,
                              't2': TMIN[det] + t2off, 'via': via, 'cost': cost})
        return cases

    def warmup(self):
        import numpy as np
        import kneeliverse.linear_fit as lf
        p = np.array([[0., 1.], [1., 3.], [2., 2.], [3., 5.], [4., 5.5]])
        lf.smape_points(p, lf.linear_fit_points(p))
        lf.linear_r2_points(p, lf.linear_fit_points(p))
        for d in DETS:
            _prime(d)

    def on_timeout(self, c):
        c = dict(c)
        c['timeout'] = True
        c['out'] = None
        return c

    # ------------------------------------------------------------------ implementation run + oracle tables
    def run_impl(self, c):
        import numpy as np
        import kneeliverse.linear_fit as lf
        import kneeliverse.multi_knee as mkm
        import kneeliverse.metrics as metrics
        c = dict(c)
        c.pop('timeout', None)
        t_end = time.monotonic() + self.timeout - 1.0
        det, via, cost, t2 = c['det'], c['via'], c['cost'], int(c['t2'])
        mod = importlib.import_module('kneeliverse.' + det)
        _prime(det)
        pts = np.ascontiguousarray(np.array(c['points'], dtype=float))
        n = len(pts)
        o_smape, o_r2, o_knee = lf.smape_points, lf.linear_r2_points, mod.knee

        # the oracles, evaluated independently on the slices with the library's own primitives (memoised)
        smemo, kmemo = {}, {}

        def S(l, r):
            if (l, r) not in smemo:
                pt = pts[l:r]
                try:
                    coef = lf.linear_fit_points(pt)
                    v = o_r2(pt, coef) if cost == 'r2' else o_smape(pt, coef)
                    smemo[(l, r)] = float(v)
                except Timeout:
                    raise
                except Exception:
                    smemo[(l, r)] = 'exc'
            return smemo[(l, r)]

        kbudget = [self.oracle_budget]
        kerr = []

        def guarded_knee(p):
            # a single-knee detector that does not return on a slice (C09's business, but it must not stall this check): each
            # evaluation runs under its own alarm and the case has a total budget; afterwards the entry is simply missing
            if kbudget[0] <= 0:
                raise RuntimeError('oracle budget exhausted')
            t0 = time.monotonic()
            signal.setitimer(signal.ITIMER_REAL, min(self.oracle_timeout, kbudget[0]), 1.0)
            try:
                return o_knee(p)
            except Timeout:
                if not _RETRIED[0]:
                    # once per process: the time may have gone into a first-call compilation (numba) rather than into the detector
                    _RETRIED[0] = True
                    signal.setitimer(signal.ITIMER_REAL, self.oracle_timeout, 1.0)
                    try:
                        return o_knee(p)
                    except Timeout:
                        pass
                kbudget[0] = 0.0
                raise RuntimeError('detector did not return')
            finally:
                signal.setitimer(signal.ITIMER_REAL, max(0.2, t_end - time.monotonic()), 1.0)
                dt = time.monotonic() - t0
                if dt > 0.05:
                    kbudget[0] -= dt

        def K(l, r):
            if (l, r) not in kmemo:
                try:
                    k = guarded_knee(pts[l:r])
                    if k is None:
                        kmemo[(l, r)] = None
                    else:
                        kk = int(k)
                        kmemo[(l, r)] = kk if (kk == k and kk >= 0) else 'exc'
                except Timeout:
                    raise
                except Exception as e:
                    kmemo[(l, r)] = 'exc'
                    kerr.append('%s %s: %s' % ((l, r), type(e).__name__, e))
            return kmemo[(l, r)]

        def D(l, r):
            """the harness's own replica of the derived straightness (end-point line, left-fold SMAPE mean) — used ONLY to find
            the ranges on which the model will ask for the detector's answer; None where it has no replica (r2)"""
            if cost == 'r2':
                return None
            pt = pts[l:r]
            x, y = pt[:, 0], pt[:, 1]
            if x[0] - x[-1] != 0:
                m = (y[0] - y[-1]) / (x[0] - x[-1])
                b = y[0] - (m * x[0])
            else:
                b = m = 0
            yh = x * m + b
            terms = 2.0 * np.abs(yh - y) / (np.abs(y) + np.abs(yh) + 1e-16)
            acc = np.float64(0.0)
            for t in terms:
                acc = acc + t
            return float(acc / len(terms))

        def walk(t1, SS=None):
            """the ranges the loop visits according to the oracles (the keys the model will ask for)"""
            SS = SS or S
            stack, nodes = [(0, n)], []
            while stack and len(nodes) < 4 * n + 8:
                l, r = stack.pop()
                nodes.append((l, r))
                if r - l > t2:
                    if r - l <= 2:
                        rv = 0.0 if cost == 'rmspe' else 1.0
                    else:
                        rv = SS(l, r)
                        if rv == 'exc' or rv is None:
                            continue
                    curved = (rv < t1) if cost == 'r2' else (rv >= t1)
                    if curved:
                        k = K(l, r)
                        if isinstance(k, int) and k + 2 <= r - l:
                            stack.append((l, l + k + 1))
                            stack.append((l + k + 1, r))
            return nodes

        # ---- resolve t1
        spec = c['t1spec']
        if spec[0] == 'fixed':
            t1 = float(spec[1])
        elif spec[0] == 'zero':
            t1 = 0.0
        elif spec[0] == 'grid':
            t1 = float(spec[1])
        else:
            # the straightness of the j-th range (pop order) that the widest recursion (everything curved) visits
            wide = [p for p in walk(math.inf if cost == 'r2' else 0.0) if p[1] - p[0] > max(t2, 2) and S(*p) != 'exc']
            vals = [S(*p) for p in wide]
            vals = [v for v in vals if v == v and v >= 0 and v != math.inf]
            if vals:
                t1 = vals[spec[1] % len(vals)]
                if spec[2] > 0:
                    t1 = math.nextafter(t1, math.inf)
                elif spec[2] < 0 and t1 > 0:
                    t1 = math.nextafter(t1, -math.inf)
            else:
                t1 = 0.0
        c['t1'] = t1
        c['t1spec'] = ['fixed', t1]

        # ---- pass-through wrappers: which slices the implementation hands to the primitives, and what it gets back
        base = pts.__array_interface__['data'][0]
        st0 = pts.strides[0]
        seen_s, seen_k, unkeyed = {}, {}, [0]

        def key_of(pt):
            try:
                if len(pt) == 0 or pt.strides != pts.strides:
                    return None
                off = pt.__array_interface__['data'][0] - base
                if off % st0:
                    return None
                l = off // st0
                r = l + len(pt)
                if 0 <= l and r <= n:
                    return (l, r)
            except Exception:
                pass
            return None

        def w_smape(points, coef, *a, **k):
            v = o_smape(points, coef, *a, **k)
            key = key_of(points)
            if key is None:
                unkeyed[0] += 1
            elif cost != 'r2':
                seen_s[key] = float(v)
            return v

        def w_r2(points, coef, *a, **k):
            v = o_r2(points, coef, *a, **k)
            key = key_of(points)
            if key is None:
                unkeyed[0] += 1
            elif cost == 'r2':
                seen_s[key] = float(v)
            return v

        def w_knee(points, *a, **k):
            v = o_knee(points, *a, **k)
            key = key_of(points)
            if key is None:
                unkeyed[0] += 1
            else:
                seen_k[key] = None if v is None else v
            return v

        def impl(p, secs):
            # the implementation under its own alarm (a run that does not return is an output, not a harness failure);
            # afterwards the harness-level alarm of core._run_one is re-armed with what is left of its budget
            signal.setitimer(signal.ITIMER_REAL, secs, 1.0)
            try:
                if via == 'wrapper':
                    return call(mod.multi_knee, p, t1, t2)
                return call(mkm.multi_knee, mod.knee, p, t1, t2, metrics.Metrics[cost])
            except Timeout:
                return ('exc', 'Timeout')
            finally:
                signal.setitimer(signal.ITIMER_REAL, max(0.2, t_end - time.monotonic()), 1.0)

        m = _monitor(mkm)
        lf.smape_points, lf.linear_r2_points, mod.knee = w_smape, w_r2, w_knee
        try:
            if m is not None:
                m['cnt'][0] = 0
                sys.monitoring.set_local_events(m['tool'], m['code'], sys.monitoring.events.LINE)
            try:
                st, out = impl(pts, self.impl_timeout)
            finally:
                if m is not None:
                    sys.monitoring.set_local_events(m['tool'], m['code'], 0)
        finally:
            lf.smape_points, lf.linear_r2_points, mod.knee = o_smape, o_r2, o_knee
        c['out'] = as_nat_list(out) if st == 'ok' else None
        c['exc'] = None if st == 'ok' else str(out)
        if c['exc'] == 'Timeout':
            # the first non-returning runs of a worker are documented in full (tables, replay); further ones are handed to the
            # driver as plain time-outs so that its cap on time-outs (core.MAX_TIMEOUTS) ends a hopeless run early
            _HANGS[0] += 1
            if _HANGS[0] > 2:
                raise Timeout()
        c['pops'] = m['cnt'][0] if (m is not None and not (st == 'exc' and out == 'Timeout')) else None

        # ---- oracle tables: complete for n <= 8, otherwise the keys the implementation touched and the keys the recursion needs
        if n <= 8:
            keys = [(l, r) for l in range(n) for r in range(l + 1, n + 1)]
        else:
            keys = sorted(set(walk(t1)) | set(walk(t1, D)) | set(seen_s) | set(seen_k))
        stab, ktab = [], []
        for (l, r) in keys:
            if r - l > 2:
                v = S(l, r)
                if v != 'exc':
                    stab.append([l, r, v])
            if r - l > t2 or n <= 8:
                k = K(l, r)
                if k != 'exc':
                    ktab.append([l, r, k])
        c['stab'], c['ktab'] = stab, ktab
        pure = True
        for key, v in seen_s.items():
            if key[1] - key[0] > 2 and not (S(*key) != 'exc' and _same(S(*key), v)):
                pure = False
        for key, v in seen_k.items():
            kv = K(*key)
            if kv == 'exc' or not ((v is None and kv is None) or (v is not None and kv is not None and int(v) == kv)):
                pure = False
        c['pure'] = pure
        c['unkeyed'] = unkeyed[0]
        c['oracle_errors'] = kerr[:5]

        # ---- the two real sub-calls of the decomposition
        k0 = K(0, n)
        c['outL'] = c['outR'] = None
        if isinstance(k0, int) and k0 + 1 <= n and c['exc'] != 'Timeout':
            sl, ol = impl(pts[:k0 + 1], self.impl_timeout / 2)
            sr, orr = impl(pts[k0 + 1:], self.impl_timeout / 2)
            c['outL'] = as_nat_list(ol) if sl == 'ok' else None
            c['outR'] = as_nat_list(orr) if sr == 'ok' else None
        return c

    # ------------------------------------------------------------------ Coq term
    def emit(self, c):
        det = c['det']
        n = len(c['points'])
        head = 'CMk %s %s' % (cnat(COSTC[c['cost']]), cnat(LO[det]))
        pts = cpts(c['points'])
        if c.get('timeout') or 'stab' not in c:
            return '%s %s %s %s %s [] [] true None None None None' % (head, fl(c.get('t1', 0.0)), cnat(c['t2']), cnat(TMIN[det]), pts)
        stab = clist(['(%s, %s, %s)' % (cnat(e[0]), cnat(e[1]), fl(e[2])) for e in c['stab']])
        ktab = clist(['(%s, %s, %s)' % (cnat(e[0]), cnat(e[1]), copt(e[2], cnat)) for e in c['ktab']])
        return '%s %s %s %s %s %s %s %s %s %s %s %s' % (
            head, fl(c['t1']), cnat(c['t2']), cnat(TMIN[det]), pts, stab, ktab, cbool(c['pure']),
            copt(c['out'], cnats), copt(c['pops'], cnat), copt(c['outL'], cnats), copt(c['outR'], cnats))

    # ------------------------------------------------------------------ evidence
    def nontrivial_key(self, c):
        out = c.get('out')
        if out is not None and len(out) >= 2:
            return (c['det'], c['via'], c['cost'], c.get('t1'), c['t2'], str(c['points']))
        return None

    def classify(self, c):
        out = c.get('out')
        return {'detector': c['det'], 'family': c.get('family', '?'), 'entry': c['via'] + '/' + c['cost'], 't1': c.get('t1kind', 'fixed'),
                'n': min(len(c['points']), 64) // 8 * 8, 't2-min': c['t2'] - TMIN[c['det']],
                'knees': 'none' if out is None else min(len(out), 5),
                'pops observed': c.get('pops') is not None,
                'exception': c.get('exc') or ('timeout' if c.get('timeout') else 'no')}

    def shrink(self, c):
        out = []
        pts = c['points']
        base = {k: c[k] for k in ('det', 'family', 'points', 't1spec', 't1kind', 't2', 'via', 'cost') if k in c}
        if 't1' in c:
            base['t1spec'] = ['fixed', c['t1']]
        if c.get('exc') == 'Timeout' or c.get('timeout'):
            # every candidate costs seconds: halves and thirds only
            m = len(pts)
            for a, b in ((0, m // 2 + 1), (m // 2, m), (0, 2 * m // 3 + 1), (m // 3, m), (1, m), (0, m - 1)):
                if 2 <= b - a < m:
                    d = dict(base)
                    d['points'] = pts[a:b]
                    out.append(d)
        else:
            for j in range(len(pts)):
                if len(pts) > 2:
                    d = dict(base)
                    d['points'] = pts[:j] + pts[j + 1:]
                    out.append(d)
        if c['t2'] > TMIN[c['det']]:
            d = dict(base)
            d['t2'] = c['t2'] - 1
            out.append(d)
        if base['t1spec'][0] == 'fixed' and base['t1spec'][1] != 0.0:
            d = dict(base)
            d['t1spec'] = ['fixed', 0.0]
            out.append(d)
        return out

    def sample(self, c):
        keys = ['det', 'via', 'cost', 'family', 'points', 't1', 't2', 'out', 'pops', 'outL', 'outR']
        return {k: c[k] for k in keys if k in c}

    def describe(self, c):
        t1 = c.get('t1', c['t1spec'])
        if c['via'] == 'wrapper':
            call_s = 'kneeliverse.%s.multi_knee(P, %r, %d)' % (c['det'], t1, c['t2'])
        else:
            call_s = 'kneeliverse.multi_knee.multi_knee(kneeliverse.%s.knee, P, %r, %d, kneeliverse.metrics.Metrics.%s)' % (c['det'], t1, c['t2'], c['cost'])
        return ('P = np.array(%s); %s  -> compare with k = kneeliverse.%s.knee(P), the same call on P[:k+1] and on P[k+1:] '
                '(expected: result == left ++ [k] ++ (k+1 + right), strictly increasing, inside [%d, n-2], at most 2n-1 loop iterations)'
                % (c['points'], call_s, c['det'], LO[c['det']]))


def as_nat_list(a):
    try:
        out = []
        for v in list(a):
            f = float(v)
            if f != int(f) or f < 0:
                return None
            out.append(int(f))
        return out
    except Exception:
        return None


if __name__ == '__main__':
    main(C02)
