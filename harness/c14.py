# C14 — even-point insertion returns the documented candidates, height-filtered
import itertools, math, random
from core import *
import gen

SIMPS = ['rdp', 'rdp_fixed', 'grdp', 'subset', 'subset', 'all']
TMODES = ['grid', 'w_tie', 'w_below', 'ceil_exact', 'h_tie', 'h_below', 'grid_small', 'w_above']


def consecutive(l):
    return [(l[i], l[i + 1]) for i in range(len(l) - 1)]


class C14:
    id = 'C14'
    judge_module = 'Run.JudgeC14'
    rule = ('generated curves with non-constant x and y (all families of gen.curve + miss-ratio-like curves) x reductions (returned by the real '
            'simplifiers rdp / rdp_fixed / grdp, random index subsets containing both ends with compute_removed_points, the identity reduction) '
            'x knee subsets incl. the empty one (positions in the reduced curve for add_points_even, curve indices for add_points_even_knees) '
            'x (tx, ty) drawn from the observed normalised widths / heights of the segments (tx = w/2 exactly and its nextafter neighbours, '
            'tx = w/(2k) so that ceil(w/(2 tx)) = k exactly, ty = h exactly and below) and from a grid x extremes in {False, True}; '
            'both functions alternate; non-trivial = at least one inserted point (an output index that is neither a mapped knee nor a requested extreme); '
            'distinct by (function, points, reduction, knees, tx, ty, extremes); about one case in six is a same-object sequence: one points array, one reduced / removed '
            'pair and one int64 knee array serve 2-4 calls (extremes False then True, other thresholds, add_points_even then add_points_even_knees), every call judged '
            'against the model fed from fresh copies, and all four arguments compared with their snapshots afterwards')
    assumptions = ['indices < 2^53, so int((right-left)/number_points) (float division, truncation) is integer division — the model uses integer division',
                   'the empty knee set is in the domain of both functions (add_points_even_knees then has the gaps (0, n-1) and (n-1, n-1), commit 1b3ec6b); '
                   'about 6 % of the generated cases of either function have no knee (histogram knees = 0)',
                   'curves with constant x or y raise ZeroDivisionError (outside the property\'s domain "non-constant x and y"); counted in outside_domain']
    trusted = ['modelled: postprocessing.add_points_even, add_points_even_knees, filter_worst_knees (local running-minimum definition), rdp.mapping (C07 model)',
               'ndarray.max/min over the curve modelled by NpList.np_max / np_min; math.ceil by Num.ceilZ; np.unique by NpList.np_unique']
    timeout = 20.0
    shard = 250

    def generate(self, rng, tier):
        cases = []
        total = {'quick': 700, 'search': 400, 'thorough': 12000}.get(tier, 700)
        hi = 48 if tier == 'thorough' else 14
        for k in range(total):
            n = rng.randint(3, 9) if k % 3 == 0 else rng.randint(3, hi)
            for _ in range(6):
                fam, pts = gen.curve(rng, n) if rng.random() < 0.8 else gen.mrc_curve(rng, n)
                if len({p[1] for p in pts}) > 1 or rng.random() < 0.03:
                    break
            cases.append({'kind': 'even' if k % 2 == 0 else 'knees', 'points': pts, 'family': fam,
                          'how': SIMPS[(k // 2) % len(SIMPS)], 'extremes': (k // 2) % 2 == 1, 'tmode': TMODES[(k // 4) % len(TMODES)],
                          'seed': rng.randrange(1 << 30)})
        # same-object multi-call stream (about one case in six): ONE points buffer, ONE reduced / removed pair and ONE int64 knee
        # array serve a sequence of 2-4 calls (extremes False then True, other thresholds, add_points_even then add_points_even_knees);
        # added after the seeded changes C14-r2m3 / C14-r3m1 (rdp.mapping shifting the caller's knee array in place)
        for k in range(total // 6):
            n = rng.randint(3, hi)
            for _ in range(6):
                fam, pts = gen.curve(rng, n) if rng.random() < 0.8 else gen.mrc_curve(rng, n)
                if len({p[1] for p in pts}) > 1:
                    break
            cases.append({'seq': None, 'points': pts, 'family': fam, 'how': SIMPS[k % len(SIMPS)], 'tmode': TMODES[k % len(TMODES)],
                          'calls': 2 + k % 3, 'seed': rng.randrange(1 << 30)})
        return cases

    def warmup(self):
        import numpy as np
        import kneeliverse.rdp as rdp
        import kneeliverse.metrics as metrics
        p = np.array([[0., 1.], [1., 3.], [2., 2.], [3., 5.]])
        rdp.rdp(p, 0.1)
        rdp.rdp_fixed(p, 3)
        rdp.grdp(p, 0.1)

    def on_timeout(self, c):
        c = dict(c)
        c['skip'] = 'timeout'
        return c

    # ---- the public API: single cases and same-object sequences ----
    def run_impl(self, c):
        return self._run_sequence(c) if 'seq' in c else self._run_single(c)

    def _build_sequence(self, c):
        """concrete steps of a sequence: one (points, reduced, removed, knees) quadruple, several calls"""
        base = self._run_single({'kind': 'even', 'points': c['points'], 'family': c.get('family'), 'how': c['how'], 'extremes': False,
                                 'tmode': c['tmode'], 'seed': c['seed']})
        if base.get('skip'):
            return None
        r = random.Random(c['seed'] + 1)
        if not base['knees'] and r.random() < 0.7 and len(base['red']) > 0:
            m = len(base['red'])
            base['knees'] = sorted(r.sample(range(m), r.randint(1, m)))
        common = {k: base[k] for k in ('points', 'family', 'how', 'tmode', 'red', 'rem', 'knees')}
        s0 = dict(common, kind='even', extremes=False, tx=base['tx'], ty=base['ty'])
        s1 = dict(common, kind='even', extremes=True, tx=base['tx'], ty=base['ty'])
        s2 = dict(common, kind='even', extremes=r.random() < 0.5, tx=r.choice([base['tx'] / 2, base['tx'] * 2, 0.05, 0.02]),
                  ty=r.choice([base['ty'] / 2, base['ty'], 0.01]))
        s3 = dict(common, kind='knees', extremes=r.random() < 0.5, tx=base['tx'], ty=base['ty'])
        s3.pop('red'); s3.pop('rem')
        return {2: [s0, s1], 3: [s0, s1, s3], 4: [s0, s2, s1, s3]}[c.get('calls', 2)]

    def _run_sequence(self, c):
        import numpy as np
        import kneeliverse.postprocessing as pp
        c = dict(c)
        if c.get('seq') is None:
            c['seq'] = self._build_sequence(c)
            if c['seq'] is None:
                c['skip'] = 'simplifier raised'
                return c
        steps = c['seq']
        # expected behaviour of every call: the model is fed from separate fresh copies, computed beforehand
        subs = [self._run_single(dict(s)) for s in steps]
        first = next(s for s in steps if 'red' in s) if any('red' in s for s in steps) else None
        P = np.array(steps[0]['points'], dtype=float)            # the ONE points buffer
        K = np.array(steps[0]['knees'], dtype=np.int64)          # the ONE knee array
        RED = np.array(first['red'], dtype=int) if first else None
        REM = np.array(first['rem'], dtype=int).reshape(-1, 2) if first else None
        snap = [a.copy() if a is not None else None for a in (P, K, RED, REM)]
        for s, sub in zip(steps, subs):
            if s['kind'] == 'even':
                st, out = call(pp.add_points_even, P, RED, K, REM, s['tx'], s['ty'], s['extremes'])
            else:
                st, out = call(pp.add_points_even_knees, P, K, s['tx'], s['ty'], s['extremes'])
            sub['out_fresh'] = sub.get('out')
            sub['out'] = as_nat_list(out) if st == 'ok' else None
            sub['exc'] = None if st == 'ok' else out
        c['subs'] = subs
        c['intact'] = all(b is None or np.array_equal(a, b) for a, b in zip((P, K, RED, REM), snap))
        return c

    def emit(self, c):
        if 'seq' in c:
            if c.get('skip') or 'subs' not in c:
                return 'CSeq [] true'
            return 'CSeq %s %s' % (clist([self._emit_single(s) for s in c['subs']]), cbool(c.get('intact', True)))
        return self._emit_single(c)

    def nontrivial_key(self, c):
        if 'seq' in c:
            keys = [self._key_single(s) for s in c.get('subs', [])]
            return ('seq',) + tuple(keys) if any(k is not None for k in keys) else None
        return self._key_single(c)

    def classify(self, c):
        if 'seq' in c:
            if c.get('skip') or 'subs' not in c:
                return {'function': 'skipped'}
            return {'function': 'sequence (same points / reduced / removed / knee arrays)', 'sequence_calls': len(c['subs']),
                    'arguments_intact': bool(c.get('intact', True)), 'knees': min(len(c['seq'][0]['knees']), 8),
                    'outcome': 'ok' if all(not s.get('exc') for s in c['subs']) else 'exception'}
        return self._classify_single(c)

    def shrink(self, c):
        if 'seq' in c:
            steps = c.get('seq')
            if not steps:
                return []
            out = []
            for j in range(len(steps)):
                if len(steps) > 2:
                    out.append({'seq': steps[:j] + steps[j + 1:], 'points': c['points'], 'family': c.get('family')})
            ks = steps[0]['knees']
            for j in range(len(ks)):
                out.append({'seq': [dict(s, knees=ks[:j] + ks[j + 1:]) for s in steps], 'points': c['points'], 'family': c.get('family')})
            return out
        return self._shrink_single(c)

    def sample(self, c):
        if 'seq' in c:
            return {'sequence': [self._sample_single(s) for s in c.get('subs', [])], 'intact': c.get('intact')}
        return self._sample_single(c)

    def describe(self, c):
        if 'seq' in c:
            return ('ONE points array, ONE reduced / removed pair and ONE int64 knee array K = np.array(%s, dtype=np.int64), consecutive calls: '
                    % (c['seq'][0]['knees'] if c.get('seq') else '?')
                    + ' ;; '.join(self._describe_single(s) for s in (c.get('seq') or [])))
        return self._describe_single(c)

    def _reduction(self, c, P, r):
        import numpy as np
        import kneeliverse.rdp as rdp
        n = len(P)
        how = c['how']
        if how == 'rdp':
            st, out = call(rdp.rdp, P, r.choice([0.5, 0.1, 0.01, 0.001]))
        elif how == 'rdp_fixed':
            st, out = call(rdp.rdp_fixed, P, r.randint(2, n))
        elif how == 'grdp':
            st, out = call(rdp.grdp, P, r.choice([0.5, 0.1, 0.01]))
        else:
            red = list(range(n)) if how == 'all' else gen.random_subset_with_ends(r, n)
            st, rem = call(rdp.compute_removed_points, P, np.array(red))
            out = (np.array(red), rem)
        if st != 'ok':
            return None
        red, rem = out
        return [int(v) for v in red], [[int(a), int(b)] for a, b in np.array(rem).reshape(-1, 2)]

    def _thresholds(self, c, P, segs, r):
        """(tx, ty) from the normalised widths / heights the code itself compares (same float operations)"""
        xs, ys = P[:, 0], P[:, 1]
        dx = math.fabs(float(xs.max()) - float(xs.min()))
        dy = math.fabs(float(ys.max()) - float(ys.min()))
        grid = [0.05, 0.1, 0.2, 0.02, 0.3]
        tx, ty = r.choice(grid), r.choice(grid)
        mode = c['tmode']
        if mode == 'grid_small':
            tx, ty = r.choice([0.01, 0.005, 0.02]), r.choice([0.01, 0.001])
        if dx > 0 and dy > 0 and segs and mode not in ('grid', 'grid_small'):
            l, rr = r.choice(segs)
            w = math.fabs(float(xs[rr]) - float(xs[l])) / dx
            h = math.fabs(float(ys[rr]) - float(ys[l])) / dy
            if mode == 'w_tie' and w > 0:
                tx, ty = w / 2.0, r.choice([0.001, 0.01, h / 2 if h > 0 else 0.01])
            elif mode == 'w_below' and w > 0:
                tx, ty = math.nextafter(w / 2.0, 0.0), r.choice([0.001, 0.01])
            elif mode == 'w_above' and w > 0:
                tx, ty = math.nextafter(w / 2.0, 1.0), r.choice([0.001, 0.01])
            elif mode == 'ceil_exact' and w > 0:
                k = r.choice([2, 3, 4, 5, 8])
                tx, ty = w / (2.0 * k), r.choice([0.001, 0.01])
            elif mode == 'h_tie' and h > 0:
                tx, ty = r.choice([0.01, 0.02, 0.05]), h
            elif mode == 'h_below' and h > 0:
                tx, ty = r.choice([0.01, 0.02, 0.05]), math.nextafter(h, 0.0)
        if not (tx > 1e-4):
            tx = 1e-4
        if not (ty > 0):
            ty = 0.01
        return float(tx), float(ty)

    def _run_single(self, c):
        import numpy as np
        import kneeliverse.postprocessing as pp
        c = dict(c)
        P = np.array(c['points'], dtype=float)
        n = len(P)
        r = random.Random(c.get('seed', 0))
        if c['kind'] == 'even':
            if 'red' not in c:
                rr = self._reduction(c, P, r)
                if rr is None:
                    c['skip'] = 'simplifier raised'
                    return c
                c['red'], c['rem'] = rr
            red = c['red']
            m = len(red)
            if 'knees' not in c:
                if r.random() < 0.06:
                    c['knees'] = []
                else:
                    c['knees'] = sorted(r.sample(range(m), r.randint(0, m))) if r.random() < 0.8 else sorted(r.sample(range(1, m - 1), r.randint(0, m - 2))) if m > 2 else []
            if 'tx' not in c:
                c['tx'], c['ty'] = self._thresholds(c, P, consecutive(red), r)
            st, out = call(pp.add_points_even, P, np.array(red, dtype=int), np.array(c['knees'], dtype=int),
                           np.array(c['rem'], dtype=int).reshape(-1, 2), c['tx'], c['ty'], c['extremes'])
            mapped = [red[k] for k in c['knees'] if 0 <= k < m]
        else:
            if 'knees' not in c:
                k = r.randint(1, n) if r.random() < 0.94 else 0
                lo, hi = (0, n) if r.random() < 0.4 else (1, n - 1)
                k = min(k, max(hi - lo, 0))
                c['knees'] = sorted(r.sample(range(lo, hi), k))
            if 'tx' not in c:
                c['tx'], c['ty'] = self._thresholds(c, P, consecutive([0] + c['knees'] + [n - 1]), r)
            st, out = call(pp.add_points_even_knees, P, np.array(c['knees'], dtype=int), c['tx'], c['ty'], c['extremes'])
            mapped = list(c['knees'])
        c['out'] = as_nat_list(out) if st == 'ok' else None
        c['exc'] = None if st == 'ok' else out
        ext = [0, n - 1] if c['extremes'] else []
        c['inserted'] = len(set(c['out'] or []) - set(mapped) - set(ext))
        return c

    def _emit_single(self, c):
        if c.get('skip'):
            return 'CEvenK [] [] 0%float 0%float [] false None'
        xs = cfls([p[0] for p in c['points']])
        ys = cfls([p[1] for p in c['points']])
        out = copt(c['out'], cnats)
        if c['kind'] == 'even':
            return 'CEven %s %s %s %s %s %s %s %s %s' % (xs, ys, fl(c['tx']), fl(c['ty']), cnats(c['red']), crows(c['rem']),
                                                         cnats(c['knees']), cbool(c['extremes']), out)
        return 'CEvenK %s %s %s %s %s %s %s' % (xs, ys, fl(c['tx']), fl(c['ty']), cnats(c['knees']), cbool(c['extremes']), out)

    def _key_single(self, c):
        if c.get('skip') or not c.get('inserted'):
            return None
        return (c['kind'], str(c['points']), tuple(c.get('red', [])), tuple(c['knees']), c['tx'], c['ty'], c['extremes'])

    def _classify_single(self, c):
        if c.get('skip'):
            return {'function': 'skipped'}
        return {'function': 'add_points_even' if c['kind'] == 'even' else 'add_points_even_knees', 'n': min(len(c['points']), 64) // 4 * 4,
                'family': c.get('family'), 'extremes': c['extremes'], 'threshold_mode': c.get('tmode'), 'reduction': c.get('how') if c['kind'] == 'even' else '-',
                'inserted_points': min(c.get('inserted', 0), 8), 'knees': min(len(c['knees']), 8),
                'outcome': 'exception:%s' % c['exc'] if c.get('exc') else 'ok'}

    def _shrink_single(self, c):
        out = []
        keep = ('kind', 'points', 'family', 'how', 'extremes', 'tmode', 'seed', 'red', 'rem', 'knees', 'tx', 'ty')
        base = {k: v for k, v in c.items() if k in keep}
        ks = c.get('knees', [])
        for j in range(len(ks)):
            d = dict(base)
            d['knees'] = ks[:j] + ks[j + 1:]
            out.append(d)
        pts = c['points']
        n = len(pts)
        if c['kind'] == 'knees':
            for j in range(n):
                if j in ks or n <= 2:
                    continue
                d = dict(base)
                d['points'] = pts[:j] + pts[j + 1:]
                d['knees'] = [k - 1 if k > j else k for k in ks]
                out.append(d)
        elif 'red' in c:
            red = c['red']
            for j in range(1, n - 1):
                if j in red or n <= 2:
                    continue
                d = dict(base)
                d['points'] = pts[:j] + pts[j + 1:]
                d['red'] = [k - 1 if k > j else k for k in red]
                d['rem'] = [[d['red'][i], d['red'][i + 1] - d['red'][i] - 1] for i in range(len(red) - 1)]
                out.append(d)
        return out

    def _sample_single(self, c):
        keys = ['kind', 'points', 'red', 'rem', 'knees', 'tx', 'ty', 'extremes', 'out']
        return {k: c[k] for k in keys if k in c}

    def _describe_single(self, c):
        if c['kind'] == 'even':
            return ('kneeliverse.postprocessing.add_points_even(np.array(%s), np.array(%s), np.array(%s, dtype=int), np.array(%s), %r, %r, %s)'
                    % (c['points'], c.get('red'), c.get('knees'), c.get('rem'), c.get('tx'), c.get('ty'), c['extremes']))
        return ('kneeliverse.postprocessing.add_points_even_knees(np.array(%s), np.array(%s, dtype=int), %r, %r, %s)'
                % (c['points'], c.get('knees'), c.get('tx'), c.get('ty'), c['extremes']))


def as_nat_list(a):
    try:
        out = []
        for v in list(a):
            f = float(v)
            if f != int(f) or f < 0:
                return None
            out.append(int(f))
        return out
    except Exception:
        return None


def crows(rows):
    return clist(['(%s, %s)' % (cnat(r[0]), cnat(r[1])) for r in rows])


if __name__ == '__main__':
    main(C14)
