# C15 — global reconstruction cost: definition and cache transparency
import itertools, random, math, json
from core import *
import gen

METRICS = ['r2', 'rmsle', 'rmspe', 'rpd', 'smape']
MCOQ = {'r2': 'MR2', 'rmsle': 'MRmsle', 'rmspe': 'MRmspe', 'rpd': 'MRpd', 'smape': 'MSmape'}
BOGUS = (2047, 2047)     # a key the model never holds; small, because nat literals are unary in the case files


def chunks(rng, items, lo=2, hi=8):
    out = []
    i = 0
    while i < len(items):
        k = rng.randint(lo, hi)
        out.append(items[i:i + k])
        i += k
    return out


class C15:
    id = 'C15'
    judge_module = 'Run.JudgeC15'
    rule = ('histories of 2-8 breakpoint sets (every subset with both ends for n <= 6/7, sampled above; repeated sets, the all-points set, '
            'sub-range sets) evaluated by compute_global_cost on ONE shared dict and with a fresh dict per query, for each of the 5 metrics '
            'round-robin; the same for compute_global_rmse; mip on breakpoint sets with >= 1 interior breakpoint.  non-trivial = the history '
            'has at least one cache hit and one miss (hist/rmse) / at least two interior breakpoints (mip); distinct by (points, metric, history).  '
            'Same-object multi-call stream: ONE points ndarray per case (a share as int64 with coordinates up to 2^40), 3-6 calls of '
            'compute_global_cost (5 metrics, no cache argument / a new dict / the dict of the previous identical-content call), '
            'compute_global_rmse and mip, interleaved with in-place refills by sibling curves (x extent, shift, y extent, shape); every call '
            'judged against the model fed from separate fresh copies; non-trivial = at least one refill between two calls')
    assumptions = ['one metric per shared dict (the dict is keyed by (left,right) only, so mixing metrics or mixing compute_global_cost with '
                   'compute_global_rmse on one dict is outside the property)',
                   'finite curve with >= 2 points; breakpoint lists strictly ascending, inside the curve, >= 2 entries']
    trusted = ['modelled: evaluation.compute_global_cost / compute_cost / compute_global_rmse / mip control flow and dict threading; '
               'oracles segerr(l,r) = evaluation.compute_partial_cost on lf.linear_fit_transform_points(points[l:r+1]), '
               'tss = np.sum(np.square(y - np.mean(y))), sqerr(l,r) = np.sum(np.square(y - lf.linear_transform_points(pt, lf.linear_fit_points(pt)))) '
               'evaluated by the harness with the package\'s own primitives; np.sum modelled by NpList.np_sum (pairwise), np.median by sort + middle/mean',
               'the closed formulas (end-point fit, partial costs, tss) are compared with the oracle tables under tolerance only (rtol 2^-30)']
    timeout = 30.0
    shard = 60

    # ------------------------------------------------------------------ generation
    def generate(self, rng, tier):
        cases = []
        mi = 0
        exh_max = {'quick': 7, 'search': 5, 'thorough': 8}.get(tier, 6)
        reps = {'quick': 1, 'search': 1, 'thorough': 3}.get(tier, 1)
        # exhaustive breakpoint subsets for small n, packed into histories
        for n in range(2, exh_max + 1):
            for _ in range(reps):
                subs = list(gen.subsets_with_ends(n))
                rng.shuffle(subs)
                if len(subs) < 2:
                    subs = subs + subs
                for hist in chunks(rng, subs):
                    if len(hist) < 2:
                        hist = hist + [rng.choice(subs)]
                    fam, pts = gen.curve(rng, n)
                    cases.append({'kind': 'hist', 'metric': METRICS[mi % 5], 'points': pts, 'family': fam, 'hist': hist})
                    mi += 1
        nrand = {'quick': 200, 'search': 60, 'thorough': 6000}.get(tier, 200)
        nmax = {'quick': 12, 'search': 10, 'thorough': 40}.get(tier, 12)
        for _ in range(nrand):
            n = rng.randint(3, nmax)
            fam, pts = gen.curve(rng, n)
            cases.append({'kind': 'hist', 'metric': METRICS[mi % 5], 'points': pts, 'family': fam, 'hist': self.history(rng, n)})
            mi += 1
        nr = {'quick': 80, 'search': 30, 'thorough': 2500}.get(tier, 80)
        for _ in range(nr):
            n = rng.randint(2, nmax)
            fam, pts = gen.curve(rng, n)
            cases.append({'kind': 'rmse', 'points': pts, 'family': fam, 'hist': self.history(rng, n)})
        nm = {'quick': 80, 'search': 30, 'thorough': 2500}.get(tier, 80)
        for _ in range(nm):
            n = rng.randint(3, nmax)
            fam, pts = gen.curve(rng, n)
            red = gen.random_subset_with_ends(rng, n, rng.choice([0.3, 0.6, 0.9]))
            if len(red) < 3:
                red = [0, rng.randint(1, n - 2), n - 1]
            cases.append({'kind': 'mip', 'points': pts, 'family': fam, 'red': red})
        ns = {'quick': 70, 'search': 40, 'thorough': 2000}.get(tier, 70)
        for k in range(ns):
            cases.append(self.sequence(rng, min(nmax, 10) if tier != 'thorough' else min(nmax, 24), intmode=(k % 4 == 3)))
        return cases

    # ------------------------------------------------------------------ same-object multi-call sequences
    @staticmethod
    def int_curve(rng, n):
        base = rng.choice([1, 3, 1000, 3500000000, 5000000000, 2 ** 33, 2 ** 35])
        x = rng.choice([0, 5, 2 ** 20, 2 ** 39])
        pts = []
        y = rng.randint(10 ** 3, 10 ** 6)
        for _ in range(n):
            pts.append([float(x), float(y)])
            x += base * rng.choice([1, 1, 2])
            y = max(0, y - rng.randint(0, max(1, y // 2)))
        return pts

    def sibling(self, rng, pts, intmode):
        n = len(pts)
        if intmode:
            if rng.random() < 0.4:
                return self.int_curve(rng, n)
            f = rng.choice([1000, 1000, 7, 1])
            if f * max(p[0] for p in pts) + 2 ** 30 > 2 ** 40:
                return self.int_curve(rng, n)
            sh = rng.choice([0, 2 ** 30, 12345])
            if f == 1 and sh == 0:
                sh = 999
            return [[p[0] * f + sh, p[1] * rng.choice([1, 1, 3]) + rng.choice([0, 0, 7])] for p in pts]
        base = gen.curve(rng, n)[1] if rng.random() < 0.45 else pts
        fx = rng.choice([1000.0, 1000.0, 0.001, 1.0, 250.0])
        sx = rng.choice([0.0, 0.0, 1.0e5, 3.0])
        fy = rng.choice([1.0, 1.0, 10.0, 0.01])
        sy = rng.choice([0.0, 0.0, 5.0])
        if base is pts and fx == 1.0 and sx == 0.0:
            fx = 1000.0
        out = [[p[0] * fx + sx, p[1] * fy + sy] for p in base]
        if any(not (a[0] < b[0]) for a, b in zip(out, out[1:])) or any(not math.isfinite(v) for p in out for v in p):
            return gen.curve(rng, n, 'grid')[1]
        return out

    def sequence(self, rng, nmax, intmode):
        n = rng.randint(3, max(3, nmax))
        pts = self.int_curve(rng, n) if intmode else gen.curve(rng, n)[1]
        nsteps = rng.randint(3, 6)
        steps = []
        base_metric = rng.choice(METRICS)
        base_red = gen.random_subset_with_ends(rng, n)
        prev = None
        for i in range(nsteps):
            if i > 0 and rng.random() < 0.6:
                pts = self.sibling(rng, pts, intmode)
            fn = rng.choice(['gcost', 'gcost', 'gcost', 'grmse', 'mip'])
            metric = base_metric if rng.random() < 0.6 else rng.choice(METRICS)
            u = rng.random()
            red = base_red if u < 0.5 else (list(range(n)) if u < 0.6 else gen.random_subset_with_ends(rng, n))
            if fn == 'mip' and len(red) < 3:
                red = [0, rng.randint(1, n - 2), n - 1]
            st = {'points': pts, 'fn': fn, 'red': list(red)}
            if fn == 'gcost':
                st['metric'] = metric
            if fn != 'mip':
                # the dict argument: none, a new one, or the dict the previous call left — only legitimate when that call was the same
                # function (and metric) on the same buffer contents
                same = prev is not None and prev['fn'] == fn and prev['points'] == pts and prev.get('metric') == st.get('metric') and prev['cache'] != 'none'
                st['cache'] = 'shared' if (same and rng.random() < 0.7) else rng.choice(['none', 'none', 'new'])
            steps.append(st)
            prev = st
        return {'kind': 'seq', 'steps': steps, 'int64': bool(intmode and rng.random() < 0.8), 'family': 'seq-int' if intmode else 'seq'}

    def history(self, rng, n):
        k = rng.randint(2, 8)
        hist = []
        base = gen.random_subset_with_ends(rng, n)
        for _ in range(k):
            u = rng.random()
            if hist and u < 0.2:
                q = list(rng.choice(hist))                       # repeated query: all hits
            elif u < 0.3:
                q = list(range(n))                               # every point a breakpoint
            elif hist and u < 0.65:
                # a neighbour of an earlier query (shares most segments): toggle one interior index
                q = list(rng.choice(hist))
                if n > 2:
                    j = rng.randint(1, n - 2)
                    q = sorted(set(q) ^ {j})
            elif u < 0.72 and n >= 4:
                # a sub-range query (does not contain both ends)
                a = rng.randint(0, n - 3)
                b = rng.randint(a + 2, n - 1)
                q = [a] + [i for i in range(a + 1, b) if rng.random() < 0.4] + [b]
            else:
                q = gen.random_subset_with_ends(rng, n)
            if len(q) < 2:
                q = [0, n - 1]
            hist.append(q)
        return hist

    # ------------------------------------------------------------------ implementation
    def warmup(self):
        import numpy as np
        import kneeliverse.evaluation as ev
        import kneeliverse.metrics as metrics
        p = np.array([[0., 1.], [1., 3.], [2., 2.], [3., 5.]])
        for c in metrics.Metrics:
            ev.compute_global_cost(p, np.array([0, 3]), c)
        ev.mip(p, np.array([0, 1, 3]))

    def on_timeout(self, c):
        c = dict(c)
        c['skip'] = 'timeout'
        return c

    @staticmethod
    def snapshot(d):
        ent = []
        tss = None
        for k, v in d.items():
            if isinstance(k, str) and k == 'tss':
                tss = fnum(v)
            elif isinstance(k, tuple) and len(k) == 2:
                try:
                    l, r = int(k[0]), int(k[1])
                    if l < 0 or r < 0 or l != k[0] or r != k[1]:
                        raise ValueError
                    ent.append([l, r, fnum(v)])
                except Exception:
                    ent.append([BOGUS[0], BOGUS[1], math.nan])
            else:
                ent.append([BOGUS[0], BOGUS[1], math.nan])
        return {'seg': ent, 'tss': tss}

    def run_seq(self, c):
        import numpy as np
        import kneeliverse.evaluation as ev
        import kneeliverse.linear_fit as lf
        import kneeliverse.metrics as metrics
        c = dict(c)
        steps = [dict(st) for st in c['steps']]

        def pairs(q):
            return [(q[i], q[i + 1]) for i in range(len(q) - 1)]

        # the model's oracle tables first, from separate fresh float64 copies
        for st in steps:
            fresh = np.array(st['points'], dtype=float)
            if st['fn'] == 'gcost':
                M = metrics.Metrics[st['metric']]
                tab = []
                for (l, r) in sorted({k for k in pairs(st['red']) if k[1] - k[0] >= 2}):
                    pt = fresh[l:r + 1]
                    s2, v = call(lambda: ev.compute_partial_cost(pt[:, 1], lf.linear_fit_transform_points(pt), M))
                    tab.append([l, r, fnum(v) if s2 == 'ok' else math.nan])
                y = fresh[:, 1]
                st['segtab'] = tab
                st['tss'] = float(np.sum(np.square(y - np.mean(y))))
            else:
                qs = [st['red']]
                if st['fn'] == 'mip':
                    qs += [st['red'][:i] + st['red'][i + 1:] for i in range(1, len(st['red']) - 1)]
                st['sqtab'] = self.sqtab(fresh, sorted({k for q in qs for k in pairs(q)}))
                if st['fn'] == 'mip':
                    # the reference RMSEs of the mip predicate: the implementation's own compute_global_rmse on a fresh copy
                    s2, v = call(ev.compute_global_rmse, np.array(st['points'], dtype=float), np.array(st['red']))
                    st['fin'] = fnum(v) if s2 == 'ok' else None
                    st['refs'] = []
                    for q in qs[1:]:
                        s2, v = call(ev.compute_global_rmse, np.array(st['points'], dtype=float), np.array(q))
                        st['refs'].append(fnum(v) if s2 == 'ok' else None)
        # ONE points object for the whole sequence, refilled in place
        dt = np.int64 if c.get('int64') else float
        buf = np.array(steps[0]['points'], dtype=dt)
        cur = steps[0]['points']
        d = None
        for st in steps:
            if st['points'] != cur:
                buf[...] = np.array(st['points'], dtype=dt)
                cur = st['points']
            red = np.array(st['red'])
            if st['fn'] == 'mip':
                s2, v = call(ev.mip, buf, red)
                st['out'] = [fnum(v[0]), fnum(v[1])] if s2 == 'ok' else None
                continue
            if st['cache'] == 'new':
                d = {}
            elif st['cache'] == 'none':
                d = None
            args = (buf, red, metrics.Metrics[st['metric']]) if st['fn'] == 'gcost' else (buf, red)
            f = ev.compute_global_cost if st['fn'] == 'gcost' else ev.compute_global_rmse
            s2, v = call(f, *args) if d is None else call(f, *args, d)
            st['out'] = fnum(v) if s2 == 'ok' else None
        c['steps'] = steps
        return c

    def run_impl(self, c):
        import numpy as np
        import kneeliverse.evaluation as ev
        import kneeliverse.linear_fit as lf
        import kneeliverse.metrics as metrics
        if c['kind'] == 'seq':
            return self.run_seq(c)
        c = dict(c)
        pts = np.array(c['points'], dtype=float)
        n = len(pts)

        def pairs(q):
            return [(q[i], q[i + 1]) for i in range(len(q) - 1)]

        if c['kind'] == 'hist':
            M = metrics.Metrics[c['metric']]
            d = {}
            shared, dicts, fresh = [], [], []
            for q in c['hist']:
                st, v = call(ev.compute_global_cost, pts, np.array(q), M, d)
                shared.append(fnum(v) if st == 'ok' else None)
                dicts.append(self.snapshot(d))
            for j, q in enumerate(c['hist']):
                if j % 2 == 0:
                    st, v = call(ev.compute_global_cost, pts, np.array(q), M)
                else:
                    st, v = call(ev.compute_global_cost, pts, np.array(q), M, {})
                fresh.append(fnum(v) if st == 'ok' else None)
            # oracle tables from the package's own primitives
            if n <= 8:
                keys = [(l, r) for l in range(n) for r in range(l + 2, n)]
            else:
                keys = sorted({k for q in c['hist'] for k in pairs(q) if k[1] - k[0] >= 2})
            tab = []
            for (l, r) in keys:
                pt = pts[l:r + 1]
                st, v = call(lambda: ev.compute_partial_cost(pt[:, 1], lf.linear_fit_transform_points(pt), M))
                tab.append([l, r, fnum(v) if st == 'ok' else math.nan])
            y = pts[:, 1]
            c.update(shared=shared, fresh=fresh, dicts=dicts, segtab=tab, tss=float(np.sum(np.square(y - np.mean(y)))))
        elif c['kind'] == 'rmse':
            d = {}
            shared, dicts, fresh = [], [], []
            for q in c['hist']:
                st, v = call(ev.compute_global_rmse, pts, np.array(q), d)
                shared.append(fnum(v) if st == 'ok' else None)
                dicts.append(self.snapshot(d))
            for j, q in enumerate(c['hist']):
                if j % 2 == 0:
                    st, v = call(ev.compute_global_rmse, pts, np.array(q))
                else:
                    st, v = call(ev.compute_global_rmse, pts, np.array(q), {})
                fresh.append(fnum(v) if st == 'ok' else None)
            if n <= 8:
                keys = [(l, r) for l in range(n) for r in range(l + 1, n)]
            else:
                keys = sorted({k for q in c['hist'] for k in pairs(q)})
            c.update(shared=shared, fresh=fresh, dicts=dicts, sqtab=self.sqtab(pts, keys))
        else:
            red = c['red']
            st, v = call(ev.mip, pts, np.array(red))
            c['out'] = [fnum(v[0]), fnum(v[1])] if st == 'ok' else None
            st, v = call(ev.compute_global_rmse, pts, np.array(red))
            c['fin'] = fnum(v) if st == 'ok' else None
            refs = []
            qs = [red]
            for i in range(1, len(red) - 1):
                q = red[:i] + red[i + 1:]
                qs.append(q)
                st, v = call(ev.compute_global_rmse, pts, np.array(q))
                refs.append(fnum(v) if st == 'ok' else None)
            c['refs'] = refs
            keys = sorted({k for q in qs for k in pairs(q)})
            c['sqtab'] = self.sqtab(pts, keys)
        return c

    @staticmethod
    def sqtab(pts, keys):
        import numpy as np
        import kneeliverse.linear_fit as lf
        tab = []
        for (l, r) in keys:
            pt = pts[l:r + 1]
            st, v = call(lambda: np.sum(np.square(pt[:, 1] - lf.linear_transform_points(pt, lf.linear_fit_points(pt)))))
            tab.append([l, r, fnum(v) if st == 'ok' else math.nan])
        return tab

    # ------------------------------------------------------------------ emission
    def emit_step(self, st):
        pts = cpts(st['points'])
        if st['fn'] == 'gcost':
            return '(CCost %s %s %s %s %s %s)' % (MCOQ[st['metric']], pts, ctab(st['segtab']), fl(st['tss']), cnats(st['red']), copt(st.get('out'), fl))
        if st['fn'] == 'grmse':
            return '(CRm %s %s %s %s)' % (pts, ctab(st['sqtab']), cnats(st['red']), copt(st.get('out'), fl))
        return '(CMip %s %s %s %s %s %s)' % (pts, ctab(st['sqtab']), cnats(st['red']),
                                              copt(st.get('out'), lambda o: '(%s, %s)' % (fl(o[0]), fl(o[1]))), copt(st.get('fin'), fl),
                                              clist([copt(v, fl) for v in st.get('refs', [])]))

    def emit(self, c):
        if c.get('skip'):
            return 'CRmse [] [] [] [] [] []'
        if c['kind'] == 'seq':
            return 'CSeq %s' % clist([self.emit_step(st) for st in c['steps']])
        pts = cpts(c['points'])
        if c['kind'] == 'hist':
            return 'CHist %s %s %s %s %s %s %s %s' % (
                MCOQ[c['metric']], pts, ctab(c['segtab']), fl(c['tss']), clist([cnats(q) for q in c['hist']]),
                clist([copt(v, fl) for v in c['shared']]), clist([copt(v, fl) for v in c['fresh']]),
                clist(['(%s, %s)' % (ctab(d['seg']), copt(d['tss'], fl)) for d in c['dicts']]))
        if c['kind'] == 'rmse':
            return 'CRmse %s %s %s %s %s %s' % (
                pts, ctab(c['sqtab']), clist([cnats(q) for q in c['hist']]),
                clist([copt(v, fl) for v in c['shared']]), clist([copt(v, fl) for v in c['fresh']]),
                clist([ctab(d['seg'] + ([[BOGUS[0], BOGUS[1], math.nan]] if d['tss'] is not None else [])) for d in c['dicts']]))
        return 'CMip %s %s %s %s %s %s' % (
            pts, ctab(c['sqtab']), cnats(c['red']),
            copt(c['out'], lambda o: '(%s, %s)' % (fl(o[0]), fl(o[1]))), copt(c['fin'], fl),
            clist([copt(v, fl) for v in c['refs']]))

    # ------------------------------------------------------------------ evidence
    @staticmethod
    def hits_misses(hist, skip_short):
        seen = set()
        h = m = 0
        for q in hist:
            for k in zip(q, q[1:]):
                if k in seen:
                    h += 1
                else:
                    m += 1
                    seen.add(k)
        return h, m

    def nontrivial_key(self, c):
        if c.get('skip'):
            return None
        if c['kind'] == 'seq':
            st = c['steps']
            return ('seq', json.dumps(st, sort_keys=True, default=str)) if any(a['points'] != b['points'] for a, b in zip(st, st[1:])) else None
        if c['kind'] in ('hist', 'rmse'):
            h, m = self.hits_misses(c['hist'], c['kind'] == 'hist')
            if h >= 1 and m >= 1:
                return (c['kind'], c.get('metric'), str(c['points']), str(c['hist']))
            return None
        if len(c['red']) >= 4:
            return ('mip', str(c['points']), tuple(c['red']))
        return None

    def classify(self, c):
        if c.get('skip'):
            return {'kind': 'skipped'}
        if c['kind'] == 'seq':
            st = c['steps']
            return {'kind': 'seq', 'dtype': 'int64' if c.get('int64') else 'float64', 'seq_calls': len(st),
                    'seq_refills': sum(1 for a, b in zip(st, st[1:]) if a['points'] != b['points']),
                    'seq_functions': len({x['fn'] + x.get('metric', '') for x in st}),
                    'seq_shared_dict_steps': sum(1 for x in st if x.get('cache') == 'shared'),
                    'seq_no_cache_steps': sum(1 for x in st if x.get('cache') == 'none')}
        out = {'kind': c['kind'], 'n': len(c['points']), 'family': c.get('family', '?')}
        if c['kind'] == 'hist':
            out['metric'] = c['metric']
        if c['kind'] in ('hist', 'rmse'):
            out['queries'] = len(c['hist'])
            h, m = self.hits_misses(c['hist'], False)
            out['cache_hits'] = min(h, 20) // 4 * 4
        return out

    def shrink(self, c):
        out = []
        if c['kind'] == 'seq':
            st = c['steps']
            drop = ('out', 'segtab', 'tss', 'sqtab', 'fin', 'refs')
            for j in range(len(st)):
                if len(st) > 1:
                    d = dict(c)
                    rest = [{k: v for k, v in x.items() if k not in drop} for x in st[:j] + st[j + 1:]]
                    # a dict may only be shared with an identical preceding call
                    for a in range(len(rest)):
                        if rest[a].get('cache') == 'shared':
                            p = rest[a - 1] if a > 0 else None
                            if not (p and p['fn'] == rest[a]['fn'] and p['points'] == rest[a]['points'] and p.get('metric') == rest[a].get('metric') and p.get('cache') != 'none'):
                                rest[a]['cache'] = 'new'
                    d['steps'] = rest
                    out.append(d)
            return out
        pts = c['points']
        n = len(pts)

        def drop_point(q, j):
            q2 = [i - 1 if i > j else i for i in q if i != j]
            return q2

        if c['kind'] in ('hist', 'rmse'):
            h = c['hist']
            for j in range(len(h)):
                if len(h) > 1:
                    d = dict(c)
                    d['hist'] = h[:j] + h[j + 1:]
                    out.append(d)
            for j in range(n):
                if n > 2:
                    h2 = [drop_point(q, j) for q in h]
                    if all(len(q) >= 2 for q in h2):
                        d = dict(c)
                        d['points'] = pts[:j] + pts[j + 1:]
                        d['hist'] = h2
                        out.append(d)
            for a, q in enumerate(h):
                for b in range(len(q)):
                    if len(q) > 2:
                        d = dict(c)
                        d['hist'] = h[:a] + [q[:b] + q[b + 1:]] + h[a + 1:]
                        out.append(d)
        else:
            red = c['red']
            for j in range(n):
                if n > 3:
                    r2 = drop_point(red, j)
                    if len(r2) >= 3:
                        d = dict(c)
                        d['points'] = pts[:j] + pts[j + 1:]
                        d['red'] = r2
                        out.append(d)
        for d in out:
            for k in ('shared', 'fresh', 'dicts', 'segtab', 'sqtab', 'tss', 'out', 'fin', 'refs'):
                d.pop(k, None)
        return out

    def sample(self, c):
        if c['kind'] == 'seq':
            return {'kind': 'seq', 'int64': c.get('int64'), 'steps': [{k: v for k, v in st.items() if k in ('points', 'fn', 'metric', 'red', 'cache', 'out')} for st in c['steps'][:3]]}
        keys = ['kind', 'metric', 'points', 'hist', 'red', 'shared', 'fresh', 'out']
        return {k: c[k] for k in keys if k in c}

    def describe(self, c):
        if c['kind'] == 'seq':
            lines = ['P = np.array(%s, dtype=%s)   # the same object for every call' % (c['steps'][0]['points'], 'np.int64' if c.get('int64') else 'float')]
            cur = c['steps'][0]['points']
            for st in c['steps']:
                if st['points'] != cur:
                    lines.append('P[...] = %s' % st['points'])
                    cur = st['points']
                if st['fn'] == 'mip':
                    lines.append('kneeliverse.evaluation.mip(P, np.array(%s)) -> %r' % (st['red'], st.get('out')))
                else:
                    ca = {'none': '', 'new': ', d := {}', 'shared': ', d (the same dict as the previous call)'}[st['cache']]
                    lines.append('kneeliverse.evaluation.%s(P, np.array(%s)%s%s) -> %r' % (
                        'compute_global_cost' if st['fn'] == 'gcost' else 'compute_global_rmse', st['red'],
                        ', Metrics.' + st['metric'] if st['fn'] == 'gcost' else '', ca, st.get('out')))
            return '; '.join(lines)
        p = 'np.array(%s)' % c['points']
        if c['kind'] == 'hist':
            return ('d = {}; [kneeliverse.evaluation.compute_global_cost(%s, np.array(q), kneeliverse.metrics.Metrics.%s, d) for q in %s] '
                    'versus the same calls without the shared dict d' % (p, c['metric'], c['hist']))
        if c['kind'] == 'rmse':
            return ('d = {}; [kneeliverse.evaluation.compute_global_rmse(%s, np.array(q), d) for q in %s] versus the same calls without d'
                    % (p, c['hist']))
        return 'kneeliverse.evaluation.mip(%s, np.array(%s))' % (p, c['red'])


def fnum(v):
    try:
        return float(v)
    except Exception:
        return math.nan


def ctab(rows):
    return clist(['((%s, %s), %s)' % (cnat(r[0]), cnat(r[1]), fl(r[2])) for r in rows])


if __name__ == '__main__':
    main(C15)
