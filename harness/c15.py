# C15 — global reconstruction cost: definition and cache transparency
import itertools, random, math
from core import *
import gen

METRICS = ['r2', 'rmsle', 'rmspe', 'rpd', 'smape']
MCOQ = {'r2': 'MR2', 'rmsle': 'MRmsle', 'rmspe': 'MRmspe', 'rpd': 'MRpd', 'smape': 'MSmape'}
BOGUS = (999999, 999999)


def chunks(rng, items, lo=2, hi=8):
    out = []
    i = 0
    while i < len(items):
        k = rng.randint(lo, hi)
        out.append(items[i:i + k])
        i += k
    return out


class C15:
    id = 'C15'
    judge_module = 'Run.JudgeC15'
    rule = ('histories of 2-8 breakpoint sets (every subset with both ends for n <= 6/7, sampled above; repeated sets, the all-points set, '
            'sub-range sets) evaluated by compute_global_cost on ONE shared dict and with a fresh dict per query, for each of the 5 metrics '
            'round-robin; the same for compute_global_rmse; mip on breakpoint sets with >= 1 interior breakpoint.  non-trivial = the history '
            'has at least one cache hit and one miss (hist/rmse) / at least two interior breakpoints (mip); distinct by (points, metric, history)')
    assumptions = ['one metric per shared dict (the dict is keyed by (left,right) only, so mixing metrics or mixing compute_global_cost with '
                   'compute_global_rmse on one dict is outside the property)',
                   'finite curve with >= 2 points; breakpoint lists strictly ascending, inside the curve, >= 2 entries']
    trusted = ['modelled: evaluation.compute_global_cost / compute_cost / compute_global_rmse / mip control flow and dict threading; '
               'oracles segerr(l,r) = evaluation.compute_partial_cost on lf.linear_fit_transform_points(points[l:r+1]), '
               'tss = np.sum(np.square(y - np.mean(y))), sqerr(l,r) = np.sum(np.square(y - lf.linear_transform_points(pt, lf.linear_fit_points(pt)))) '
               'evaluated by the harness with the package\'s own primitives; np.sum modelled by NpList.np_sum (pairwise), np.median by sort + middle/mean',
               'the closed formulas (end-point fit, partial costs, tss) are compared with the oracle tables under tolerance only (rtol 2^-30)']
    timeout = 30.0
    shard = 60

    # ------------------------------------------------------------------ generation
    def generate(self, rng, tier):
        cases = []
        mi = 0
        exh_max = {'quick': 7, 'search': 5, 'thorough': 8}.get(tier, 6)
        reps = {'quick': 1, 'search': 1, 'thorough': 3}.get(tier, 1)
        # exhaustive breakpoint subsets for small n, packed into histories
        for n in range(2, exh_max + 1):
            for _ in range(reps):
                subs = list(gen.subsets_with_ends(n))
                rng.shuffle(subs)
                if len(subs) < 2:
                    subs = subs + subs
                for hist in chunks(rng, subs):
                    if len(hist) < 2:
                        hist = hist + [rng.choice(subs)]
                    fam, pts = gen.curve(rng, n)
                    cases.append({'kind': 'hist', 'metric': METRICS[mi % 5], 'points': pts, 'family': fam, 'hist': hist})
                    mi += 1
        nrand = {'quick': 200, 'search': 60, 'thorough': 6000}.get(tier, 200)
        nmax = {'quick': 12, 'search': 10, 'thorough': 40}.get(tier, 12)
        for _ in range(nrand):
            n = rng.randint(3, nmax)
            fam, pts = gen.curve(rng, n)
            cases.append({'kind': 'hist', 'metric': METRICS[mi % 5], 'points': pts, 'family': fam, 'hist': self.history(rng, n)})
            mi += 1
        nr = {'quick': 80, 'search': 30, 'thorough': 2500}.get(tier, 80)
        for _ in range(nr):
            n = rng.randint(2, nmax)
            fam, pts = gen.curve(rng, n)
            cases.append({'kind': 'rmse', 'points': pts, 'family': fam, 'hist': self.history(rng, n)})
        nm = {'quick': 80, 'search': 30, 'thorough': 2500}.get(tier, 80)
        for _ in range(nm):
            n = rng.randint(3, nmax)
            fam, pts = gen.curve(rng, n)
            red = gen.random_subset_with_ends(rng, n, rng.choice([0.3, 0.6, 0.9]))
            if len(red) < 3:
                red = [0, rng.randint(1, n - 2), n - 1]
            cases.append({'kind': 'mip', 'points': pts, 'family': fam, 'red': red})
        return cases

    def history(self, rng, n):
        k = rng.randint(2, 8)
        hist = []
        base = gen.random_subset_with_ends(rng, n)
        for _ in range(k):
            u = rng.random()
            if hist and u < 0.2:
                q = list(rng.choice(hist))                       # repeated query: all hits
            elif u < 0.3:
                q = list(range(n))                               # every point a breakpoint
            elif hist and u < 0.65:
                # a neighbour of an earlier query (shares most segments): toggle one interior index
                q = list(rng.choice(hist))
                if n > 2:
                    j = rng.randint(1, n - 2)
                    q = sorted(set(q) ^ {j})
            elif u < 0.72 and n >= 4:
                # a sub-range query (does not contain both ends)
                a = rng.randint(0, n - 3)
                b = rng.randint(a + 2, n - 1)
                q = [a] + [i for i in range(a + 1, b) if rng.random() < 0.4] + [b]
            else:
                q = gen.random_subset_with_ends(rng, n)
            if len(q) < 2:
                q = [0, n - 1]
            hist.append(q)
        return hist

    # ------------------------------------------------------------------ implementation
    def warmup(self):
        import numpy as np
        import kneeliverse.evaluation as ev
        import kneeliverse.metrics as metrics
        p = np.array([[0., 1.], [1., 3.], [2., 2.], [3., 5.]])
        for c in metrics.Metrics:
            ev.compute_global_cost(p, np.array([0, 3]), c)
        ev.mip(p, np.array([0, 1, 3]))

    def on_timeout(self, c):
        c = dict(c)
        c['skip'] = 'timeout'
        return c

    @staticmethod
    def snapshot(d):
        ent = []
        tss = None
        for k, v in d.items():
            if isinstance(k, str) and k == 'tss':
                tss = fnum(v)
            elif isinstance(k, tuple) and len(k) == 2:
                try:
                    l, r = int(k[0]), int(k[1])
                    if l < 0 or r < 0 or l != k[0] or r != k[1]:
                        raise ValueError
                    ent.append([l, r, fnum(v)])
                except Exception:
                    ent.append([BOGUS[0], BOGUS[1], math.nan])
            else:
                ent.append([BOGUS[0], BOGUS[1], math.nan])
        return {'seg': ent, 'tss': tss}

    def run_impl(self, c):
        import numpy as np
        import kneeliverse.evaluation as ev
        import kneeliverse.linear_fit as lf
        import kneeliverse.metrics as metrics
        c = dict(c)
        pts = np.array(c['points'], dtype=float)
        n = len(pts)

        def pairs(q):
            return [(q[i], q[i + 1]) for i in range(len(q) - 1)]

        if c['kind'] == 'hist':
            M = metrics.Metrics[c['metric']]
            d = {}
            shared, dicts, fresh = [], [], []
            for q in c['hist']:
                st, v = call(ev.compute_global_cost, pts, np.array(q), M, d)
                shared.append(fnum(v) if st == 'ok' else None)
                dicts.append(self.snapshot(d))
            for j, q in enumerate(c['hist']):
                if j % 2 == 0:
                    st, v = call(ev.compute_global_cost, pts, np.array(q), M)
                else:
                    st, v = call(ev.compute_global_cost, pts, np.array(q), M, {})
                fresh.append(fnum(v) if st == 'ok' else None)
            # oracle tables from the package's own primitives
            if n <= 8:
                keys = [(l, r) for l in range(n) for r in range(l + 2, n)]
            else:
                keys = sorted({k for q in c['hist'] for k in pairs(q) if k[1] - k[0] >= 2})
            tab = []
            for (l, r) in keys:
                pt = pts[l:r + 1]
                st, v = call(lambda: ev.compute_partial_cost(pt[:, 1], lf.linear_fit_transform_points(pt), M))
                tab.append([l, r, fnum(v) if st == 'ok' else math.nan])
            y = pts[:, 1]
            c.update(shared=shared, fresh=fresh, dicts=dicts, segtab=tab, tss=float(np.sum(np.square(y - np.mean(y)))))
        elif c['kind'] == 'rmse':
            d = {}
            shared, dicts, fresh = [], [], []
            for q in c['hist']:
                st, v = call(ev.compute_global_rmse, pts, np.array(q), d)
                shared.append(fnum(v) if st == 'ok' else None)
                dicts.append(self.snapshot(d))
            for j, q in enumerate(c['hist']):
                if j % 2 == 0:
                    st, v = call(ev.compute_global_rmse, pts, np.array(q))
                else:
                    st, v = call(ev.compute_global_rmse, pts, np.array(q), {})
                fresh.append(fnum(v) if st == 'ok' else None)
            if n <= 8:
                keys = [(l, r) for l in range(n) for r in range(l + 1, n)]
            else:
                keys = sorted({k for q in c['hist'] for k in pairs(q)})
            c.update(shared=shared, fresh=fresh, dicts=dicts, sqtab=self.sqtab(pts, keys))
        else:
            red = c['red']
            st, v = call(ev.mip, pts, np.array(red))
            c['out'] = [fnum(v[0]), fnum(v[1])] if st == 'ok' else None
            st, v = call(ev.compute_global_rmse, pts, np.array(red))
            c['fin'] = fnum(v) if st == 'ok' else None
            refs = []
            qs = [red]
            for i in range(1, len(red) - 1):
                q = red[:i] + red[i + 1:]
                qs.append(q)
                st, v = call(ev.compute_global_rmse, pts, np.array(q))
                refs.append(fnum(v) if st == 'ok' else None)
            c['refs'] = refs
            keys = sorted({k for q in qs for k in pairs(q)})
            c['sqtab'] = self.sqtab(pts, keys)
        return c

    @staticmethod
    def sqtab(pts, keys):
        import numpy as np
        import kneeliverse.linear_fit as lf
        tab = []
        for (l, r) in keys:
            pt = pts[l:r + 1]
            st, v = call(lambda: np.sum(np.square(pt[:, 1] - lf.linear_transform_points(pt, lf.linear_fit_points(pt)))))
            tab.append([l, r, fnum(v) if st == 'ok' else math.nan])
        return tab

    # ------------------------------------------------------------------ emission
    def emit(self, c):
        if c.get('skip'):
            return 'CRmse [] [] [] [] [] []'
        pts = cpts(c['points'])
        if c['kind'] == 'hist':
            return 'CHist %s %s %s %s %s %s %s %s' % (
                MCOQ[c['metric']], pts, ctab(c['segtab']), fl(c['tss']), clist([cnats(q) for q in c['hist']]),
                clist([copt(v, fl) for v in c['shared']]), clist([copt(v, fl) for v in c['fresh']]),
                clist(['(%s, %s)' % (ctab(d['seg']), copt(d['tss'], fl)) for d in c['dicts']]))
        if c['kind'] == 'rmse':
            return 'CRmse %s %s %s %s %s %s' % (
                pts, ctab(c['sqtab']), clist([cnats(q) for q in c['hist']]),
                clist([copt(v, fl) for v in c['shared']]), clist([copt(v, fl) for v in c['fresh']]),
                clist([ctab(d['seg'] + ([[BOGUS[0], BOGUS[1], math.nan]] if d['tss'] is not None else [])) for d in c['dicts']]))
        return 'CMip %s %s %s %s %s %s' % (
            pts, ctab(c['sqtab']), cnats(c['red']),
            copt(c['out'], lambda o: '(%s, %s)' % (fl(o[0]), fl(o[1]))), copt(c['fin'], fl),
            clist([copt(v, fl) for v in c['refs']]))

    # ------------------------------------------------------------------ evidence
    @staticmethod
    def hits_misses(hist, skip_short):
        seen = set()
        h = m = 0
        for q in hist:
            for k in zip(q, q[1:]):
                if k in seen:
                    h += 1
                else:
                    m += 1
                    seen.add(k)
        return h, m

    def nontrivial_key(self, c):
        if c.get('skip'):
            return None
        if c['kind'] in ('hist', 'rmse'):
            h, m = self.hits_misses(c['hist'], c['kind'] == 'hist')
            if h >= 1 and m >= 1:
                return (c['kind'], c.get('metric'), str(c['points']), str(c['hist']))
            return None
        if len(c['red']) >= 4:
            return ('mip', str(c['points']), tuple(c['red']))
        return None

    def classify(self, c):
        if c.get('skip'):
            return {'kind': 'skipped'}
        out = {'kind': c['kind'], 'n': len(c['points']), 'family': c.get('family', '?')}
        if c['kind'] == 'hist':
            out['metric'] = c['metric']
        if c['kind'] in ('hist', 'rmse'):
            out['queries'] = len(c['hist'])
            h, m = self.hits_misses(c['hist'], False)
            out['cache_hits'] = min(h, 20) // 4 * 4
        return out

    def shrink(self, c):
        out = []
        pts = c['points']
        n = len(pts)

        def drop_point(q, j):
            q2 = [i - 1 if i > j else i for i in q if i != j]
            return q2

        if c['kind'] in ('hist', 'rmse'):
            h = c['hist']
            for j in range(len(h)):
                if len(h) > 1:
                    d = dict(c)
                    d['hist'] = h[:j] + h[j + 1:]
                    out.append(d)
            for j in range(n):
                if n > 2:
                    h2 = [drop_point(q, j) for q in h]
                    if all(len(q) >= 2 for q in h2):
                        d = dict(c)
                        d['points'] = pts[:j] + pts[j + 1:]
                        d['hist'] = h2
                        out.append(d)
            for a, q in enumerate(h):
                for b in range(len(q)):
                    if len(q) > 2:
                        d = dict(c)
                        d['hist'] = h[:a] + [q[:b] + q[b + 1:]] + h[a + 1:]
                        out.append(d)
        else:
            red = c['red']
            for j in range(n):
                if n > 3:
                    r2 = drop_point(red, j)
                    if len(r2) >= 3:
                        d = dict(c)
                        d['points'] = pts[:j] + pts[j + 1:]
                        d['red'] = r2
                        out.append(d)
        for d in out:
            for k in ('shared', 'fresh', 'dicts', 'segtab', 'sqtab', 'tss', 'out', 'fin', 'refs'):
                d.pop(k, None)
        return out

    def sample(self, c):
        keys = ['kind', 'metric', 'points', 'hist', 'red', 'shared', 'fresh', 'out']
        return {k: c[k] for k in keys if k in c}

    def describe(self, c):
        p = 'np.array(%s)' % c['points']
        if c['kind'] == 'hist':
            return ('d = {}; [kneeliverse.evaluation.compute_global_cost(%s, np.array(q), kneeliverse.metrics.Metrics.%s, d) for q in %s] '
                    'versus the same calls without the shared dict d' % (p, c['metric'], c['hist']))
        if c['kind'] == 'rmse':
            return ('d = {}; [kneeliverse.evaluation.compute_global_rmse(%s, np.array(q), d) for q in %s] versus the same calls without d'
                    % (p, c['hist']))
        return 'kneeliverse.evaluation.mip(%s, np.array(%s))' % (p, c['red'])


def fnum(v):
    try:
        return float(v)
    except Exception:
        return math.nan


def ctab(rows):
    return clist(['((%s, %s), %s)' % (cnat(r[0]), cnat(r[1]), fl(r[2])) for r in rows])


if __name__ == '__main__':
    main(C15)
