# C19 — knee-evaluation scores obey their accounting identities
import math, random, json
from core import *
import gen

STRATS = ['knees', 'expected', 'best', 'worst']
SCOQ = {'knees': 'SKnees', 'expected': 'SExpected', 'best': 'SBest', 'worst': 'SWorst'}
MODES = ['exact', 'perm', 'oncurve', 'off', 'dups', 'more', 'fewer', 'mixed']


class C19:
    id = 'C19'
    judge_module = 'Run.JudgeC19'
    rule = ('curves (gen.curve) x non-empty knee index sets x expected point sets in 8 modes round-robin (exactly the knee points; a permutation '
            'of them; other points of the curve; knee points perturbed off the curve; duplicates claiming one knee; |E| > |K|; |E| < |K|; mixed) '
            'x tolerances taken from the observed distances |kx-px|/dx (exact ties and both nextafter neighbours) or a fixed grid x the 4 '
            'strategies round-robin; a share of integer-valued cases (coordinates up to 2^40, strides above 3e9) presented as int64 arrays '
            '(the model gets the same values as doubles); and a same-object multi-call stream: ONE points / knees / expected ndarray per case, '
            '3-6 calls of different functions (cm, mae, mse, rmse, rmspe; varying strategy and tolerance) interleaved with in-place refills by '
            'sibling curves (x extent x1000 / x0.001 / shifted, y extent, shape) or of K / E only, every call judged against the model whose '
            'inputs and oracle tables come from separate fresh copies.  non-trivial = at least one true positive and at least one false '
            'negative or false positive (single calls) / at least one in-place refill between two calls (sequences); '
            'distinct by (points, knees, expected, t, strategy) / by the whole sequence')
    assumptions = ['finite curve, n >= 2, strictly increasing x; non-empty knee index list inside the curve; non-empty finite expected set; t not NaN',
                   'range clauses for accuracy / F1 / MCC apply when all four matrix entries are >= 0 (|K| + FN <= n) and the denominator is non-zero',
                   'integer entries below 2^53 (exact conversion to binary64)',
                   'int64-typed inputs: every matched pair (point of the iterated side, its nearest neighbour) is closer than 9e7 per coordinate, '
                   'so that the implementation\'s int64 np.square / np.sum are exact and equal to the double evaluation (beyond 3.04e9 the '
                   'implementation\'s int64 square wraps: reported as an observation, not generated)']
    trusted = ['modelled: evaluation.cm (in-model, bit-for-bit), accuracy, f1score, mcc (in-model), mae / mse / rmse / rmspe with the nearest '
               'neighbour chosen by np.argmin over the ORACLE table np.linalg.norm(b - p, axis=1) evaluated by the harness; the per-point terms, '
               'np.sum / np.mean (NpList.np_sum) are in-model', 'the closed form sqrt(dx*dx+dy*dy) of the oracle is compared under tolerance only']
    timeout = 20.0
    shard = 120

    def generate(self, rng, tier):
        cases = []
        ncases = {'quick': 420, 'search': 200, 'thorough': 12000}.get(tier, 420)
        nmax = {'quick': 12, 'search': 10, 'thorough': 40}.get(tier, 12)
        for k in range(ncases):
            n = rng.randint(2, nmax)
            if rng.random() < 0.25:
                fam, pts = gen.mrc_curve(rng, n)
            else:
                fam, pts = gen.curve(rng, n)
            mode = MODES[k % len(MODES)]
            strat = STRATS[(k // len(MODES)) % 4]
            kmax = max(1, min(6, n // 2))
            knees = sorted(rng.sample(range(n), rng.randint(1, kmax)))
            if rng.random() < 0.15:
                rng.shuffle(knees)
            if rng.random() < 0.05:
                knees = knees + [rng.choice(knees)]          # a repeated knee index
            expected = self.expected(rng, pts, knees, mode)
            if len(knees) + len(expected) > n and rng.random() < 0.85:
                expected = expected[:max(1, n - len(knees))]
            t = self.tolerance(rng, pts, knees, expected)
            cases.append({'points': pts, 'family': fam, 'knees': knees, 'expected': expected, 't': t, 'strategy': strat, 'mode': mode})
        # integer-valued curves with huge strides, mostly presented as int64 arrays
        nint = {'quick': 60, 'search': 40, 'thorough': 1500}.get(tier, 60)
        for k in range(nint):
            n = rng.randint(3, nmax)
            pts = self.int_curve(rng, n)
            knees = sorted(rng.sample(range(n), rng.randint(1, max(1, min(5, n // 2)))))
            if rng.random() < 0.2:
                rng.shuffle(knees)
            mode = ['exact', 'perm', 'off', 'dups'][k % 4]
            expected = self.int_expected(rng, pts, knees, mode)
            cases.append({'points': pts, 'family': 'int', 'knees': knees, 'expected': expected, 't': self.tolerance(rng, pts, knees, expected),
                          'strategy': STRATS[(k // 4) % 4], 'mode': 'int-' + mode, 'int64': rng.random() < 0.7})
        # known finding C19:int64-square-wraparound: mse / rmse on int64 inputs with a matched pair more than 3.1e9 apart
        # (the float64 twin of the same values is generated as an ordinary case and must agree)
        nwrap = {'quick': 8, 'search': 0, 'thorough': 60}.get(tier, 8)
        for k in range(nwrap):
            w = self.wrap_case(rng, nmax)
            cases.append(w)
            twin = dict(w)
            twin.update(int64=False, mode='wrap-float-twin', wrap=False)
            cases.append(twin)
        # same-object multi-call sequences
        nseq = {'quick': 110, 'search': 60, 'thorough': 2500}.get(tier, 110)
        for k in range(nseq):
            cases.append(self.sequence(rng, min(nmax, 10) if tier != 'thorough' else min(nmax, 24), intmode=(k % 4 == 3)))
        return cases

    # ---- integer-valued curves (exactly representable; strides above 3.04e9 make int64 squares wrap)
    @staticmethod
    def int_curve(rng, n):
        base = rng.choice([1, 3, 1000, 3500000000, 4000000000, 5000000000, 2 ** 33, 2 ** 35])
        x = rng.choice([0, 5, 2 ** 20, 2 ** 39])
        pts = []
        y = rng.randint(10 ** 3, 10 ** 6)
        for _ in range(n):
            pts.append([float(x), float(y)])
            x += base * rng.choice([1, 1, 2])
            y = max(0, y - rng.randint(0, max(1, y // 2)))
        return pts

    @staticmethod
    def int_perturb(rng, pts, p):
        xs = [q[0] for q in pts]
        gap = min(b - a for a, b in zip(xs, xs[1:])) if len(xs) > 1 else 1
        dxs = [0, 1, -1, 3] + ([1000, -700] if gap > 4000 else [])
        return [p[0] + rng.choice(dxs), p[1] + rng.choice([0, 0, 1, -1, 2])]

    def int_expected(self, rng, pts, knees, mode):
        # every expected point stays close to a knee and every knee gets a close expected point (see `assumptions`)
        kp = [list(pts[k]) for k in knees]
        if mode == 'exact':
            return kp
        if mode == 'perm':
            e = list(kp)
            rng.shuffle(e)
            return e
        e = [self.int_perturb(rng, pts, p) for p in kp]
        if mode == 'dups':
            j = rng.randrange(len(kp))
            e.insert(rng.randint(0, len(e)), self.int_perturb(rng, pts, kp[j]) if rng.random() < 0.5 else list(kp[j]))
        if rng.random() < 0.3:
            rng.shuffle(e)
        return e

    def wrap_case(self, rng, nmax):
        n = rng.randint(4, max(4, min(nmax, 10)))
        base = rng.choice([3500000000, 4000000000, 5000000000, 2 ** 33, 2 ** 35])
        x = rng.choice([0, 5, 2 ** 20, 2 ** 39])
        pts = []
        y = rng.randint(10 ** 3, 10 ** 6)
        for _ in range(n):
            pts.append([float(x), float(y)])
            x += base * rng.choice([1, 1, 2])
            y = max(0, y - rng.randint(0, max(1, y // 2)))
        nk = rng.randint(1, max(1, (n - 1) // 2))
        knees = sorted(rng.sample(range(n), nk))
        others = [i for i in range(n) if i not in knees]
        # every expected point is a curve point that is NOT a knee: its nearest knee is at least one stride (>= 3.5e9) away
        exp = [list(pts[i]) for i in rng.sample(others, rng.randint(1, min(len(others), nk + 1)))]
        steps = [{'points': pts, 'knees': knees, 'expected': exp, 'fn': rng.choice(['mse', 'rmse']), 'strategy': rng.choice(STRATS), 't': 0.01}
                 for _ in range(rng.randint(1, 2))]
        return {'kind': 'seq', 'steps': steps, 'int64': True, 'wrap': True, 'mode': 'wrap-int64', 'family': 'seq'}

    # ---- the known finding C19:int64-square-wraparound (known_findings.json): matched ONLY for mse / rmse calls on int64 inputs
    # in which every call has a matched pair more than 3e9 apart in a coordinate and the float64 presentation of the same values
    # returns exactly the declarative value (mean squared nearest-neighbour error, neighbours from the oracle table)
    @staticmethod
    def ref_mse(st):
        pts, kp = st['points'], [st['points'][k] for k in st['knees']]
        ex = st['expected']
        s = st['strategy']
        if s == 'knees':
            a, b = kp, ex
        elif s == 'expected':
            a, b = ex, kp
        elif s == 'best':
            a, b = (ex, kp) if len(ex) <= len(kp) else (kp, ex)
        else:
            a, b = (ex, kp) if len(ex) >= len(kp) else (kp, ex)
        d = {(r[0], r[1]): r[2] for r in st['tab']}
        err = 0.0
        gap = 0.0
        for i, p in enumerate(a):
            j = min(range(len(b)), key=lambda j: d[(i, j)])
            q = b[j]
            dx, dy = p[0] - q[0], p[1] - q[1]
            err += dx * dx + dy * dy
            gap = max(gap, abs(dx), abs(dy))
        return err / (len(a) * 2.0), gap

    def finding_key(self, c):
        try:
            if c.get('kind') != 'seq' or not c.get('int64') or c.get('skip'):
                return None
            for st in c['steps']:
                if st['fn'] not in ('mse', 'rmse') or st.get('out_float') is None:
                    return None
                ref, gap = self.ref_mse(st)
                want = ref if st['fn'] == 'mse' else math.sqrt(ref)
                if st['out_float'] != want or not gap > 3.0e9:
                    return None
            return 'C19:int64-square-wraparound'
        except Exception:
            return None

    # ---- same-object multi-call sequences
    @staticmethod
    def sibling(rng, pts, intmode):
        n = len(pts)
        if intmode:
            u = rng.random()
            if u < 0.35:
                return C19.int_curve(rng, n)
            f = rng.choice([1000, 1000, 7, 1])
            sh = rng.choice([0, 2 ** 30, 12345]) if f * max(p[0] for p in pts) < 2 ** 39 else 0
            if f * max(p[0] for p in pts) + sh > 2 ** 40:
                return C19.int_curve(rng, n)
            if f == 1 and sh == 0:
                sh = 999
            return [[p[0] * f + sh, p[1] * rng.choice([1, 1, 3])] for p in pts]
        u = rng.random()
        base = pts
        if u < 0.45:
            base = gen.curve(rng, n)[1]                       # another shape, same length
        fx = rng.choice([1000.0, 1000.0, 0.001, 1.0, 250.0])
        sx = rng.choice([0.0, 0.0, 1.0e5, -3.0])
        fy = rng.choice([1.0, 1.0, 10.0, 0.01])
        sy = rng.choice([0.0, 0.0, 5.0])
        if base is pts and fx == 1.0 and sx == 0.0:
            fx = 1000.0
        out = [[p[0] * fx + sx, p[1] * fy + sy] for p in base]
        if any(not (a[0] < b[0]) for a, b in zip(out, out[1:])) or any(not math.isfinite(v) for p in out for v in p):
            return gen.curve(rng, n, 'grid')[1]
        return out

    def derived_expected(self, rng, pts, knees, ne, intmode):
        kp = [list(pts[k]) for k in knees]
        xs = [p[0] for p in pts]
        dx = max(xs) - min(xs)
        out = []
        order = list(range(len(kp)))
        if rng.random() < 0.3:
            rng.shuffle(order)
        for j in range(ne):
            p = kp[order[j % len(kp)]]
            if intmode:
                out.append(self.int_perturb(rng, pts, p) if rng.random() < 0.6 else list(p))
            elif rng.random() < 0.4:
                out.append(list(p))
            else:
                d = rng.choice([0.001, 0.004, 0.01, 0.02, 0.05]) * dx * rng.choice([-1, 1])
                out.append([p[0] + d, p[1] + rng.choice([0.0, 0.0, 0.5, -0.25])])
        return out

    def sequence(self, rng, nmax, intmode):
        n = rng.randint(4, max(4, nmax))
        pts = self.int_curve(rng, n) if intmode else gen.curve(rng, n)[1]
        nk = rng.randint(1, max(1, min(4, n // 2)))
        knees = sorted(rng.sample(range(n), nk))
        ne = nk if (intmode or rng.random() < 0.6) else max(1, nk + rng.choice([-1, 1]))
        if intmode and rng.random() < 0.3:
            ne = nk + 1
        exp = self.derived_expected(rng, pts, knees, ne, intmode)
        nsteps = rng.randint(3, 6)
        calls = [rng.choice(['cm', 'cm', 'mae', 'mse', 'rmse', 'rmspe']) for _ in range(nsteps)]
        pair_at = None
        if rng.random() < 0.5:
            pair_at = rng.randint(0, nsteps - 2)
            calls[pair_at], calls[pair_at + 1] = 'mse', 'rmse'
        if rng.random() < 0.6 and calls.count('cm') < 2:
            free = [i for i in range(nsteps) if pair_at is None or i not in (pair_at, pair_at + 1)]
            for i in rng.sample(free, min(len(free), 2 - calls.count('cm'))):
                calls[i] = 'cm'
        base_strat = rng.choice(STRATS)
        steps = []
        strat = base_strat
        for i, fn in enumerate(calls):
            prev_strat = strat
            strat = base_strat if rng.random() < 0.7 else rng.choice(STRATS)
            if i > 0:
                u = rng.random()
                in_pair = pair_at is not None and i == pair_at + 1
                if in_pair and not intmode and rng.random() < 0.75:
                    pts = self.sibling(rng, pts, intmode)          # the curve changes, K / E / strategy stay: mse then rmse
                    strat = prev_strat
                elif u < 0.55:
                    pts = self.sibling(rng, pts, intmode)
                    if intmode or rng.random() < 0.7:
                        exp = self.derived_expected(rng, pts, knees, ne, intmode)
                elif u < 0.78:
                    if rng.random() < 0.6:
                        knees = sorted(rng.sample(range(n), nk))
                        if intmode or rng.random() < 0.6:
                            exp = self.derived_expected(rng, pts, knees, ne, intmode)
                    else:
                        exp = self.derived_expected(rng, pts, knees, ne, intmode)
            steps.append({'points': pts, 'knees': list(knees), 'expected': exp, 'fn': fn, 'strategy': strat,
                          't': self.tolerance(rng, pts, knees, exp)})
        return {'kind': 'seq', 'steps': steps, 'int64': bool(intmode and rng.random() < 0.8), 'mode': 'seq-int' if intmode else 'seq', 'family': 'seq'}

    @staticmethod
    def expected(rng, pts, knees, mode):
        n = len(pts)
        xs = [p[0] for p in pts]
        dx = max(xs) - min(xs)
        kp = [list(pts[k]) for k in knees]

        def perturb(p):
            d = rng.choice([0.001, 0.01, 0.01, 0.02, 0.05, 0.2]) * dx * rng.choice([-1, 1])
            return [p[0] + d, p[1] + rng.choice([0.0, 0.0, 0.5, -0.25]) * (abs(p[1]) + 1.0) * rng.choice([0.0, 1.0])]

        if mode == 'exact':
            return kp
        if mode == 'perm':
            e = list(kp)
            rng.shuffle(e)
            return e
        if mode == 'oncurve':
            idx = [rng.randrange(n) for _ in range(rng.randint(1, max(1, min(5, n - 1))))]
            return [list(pts[i]) for i in idx]
        if mode == 'off':
            return [perturb(p) for p in kp]
        if mode == 'dups':
            e = []
            for p in kp:
                e.append(list(p) if rng.random() < 0.5 else perturb(p))
            j = rng.randrange(len(kp))
            e.insert(rng.randint(0, len(e)), list(kp[j]) if rng.random() < 0.5 else perturb(kp[j]))
            if rng.random() < 0.4:
                e.append(list(e[0]))
            return e
        if mode == 'more':
            e = [list(p) if rng.random() < 0.6 else perturb(p) for p in kp]
            for _ in range(rng.randint(1, 3)):
                e.insert(rng.randint(0, len(e)), perturb(list(pts[rng.randrange(n)])))
            return e
        if mode == 'fewer':
            m = rng.randint(1, max(1, len(kp) - 1))
            return [list(p) if rng.random() < 0.6 else perturb(p) for p in rng.sample(kp, m)]
        e = []
        for _ in range(rng.randint(1, 5)):
            u = rng.random()
            if u < 0.4:
                e.append(list(rng.choice(kp)))
            elif u < 0.7:
                e.append(perturb(rng.choice(kp)))
            else:
                e.append(perturb(list(pts[rng.randrange(n)])))
        return e

    @staticmethod
    def tolerance(rng, pts, knees, expected):
        xs = [p[0] for p in pts]
        dx = math.fabs(max(xs) - min(xs))
        obs = []
        if dx > 0:
            for e in expected:
                obs.append(min(math.fabs(pts[k][0] - e[0]) / dx for k in knees))
        u = rng.random()
        if obs and u < 0.6:
            v = rng.choice(obs)
            w = rng.random()
            if w < 0.4:
                return v
            if w < 0.6:
                return math.nextafter(v, math.inf)
            if w < 0.8:
                return math.nextafter(v, -math.inf)
            return v * rng.choice([0.5, 2.0])
        return rng.choice([0.01, 0.01, 0.0, 1.0, 0.05, 0.1, 0.25, -0.01])

    def warmup(self):
        import numpy as np
        import kneeliverse.evaluation as ev
        p = np.array([[0., 1.], [1., 3.], [2., 2.], [3., 5.]])
        ev.cm(p, np.array([1]), np.array([[1., 3.]]))

    def on_timeout(self, c):
        c = dict(c)
        c['skip'] = 'timeout'
        return c

    @staticmethod
    def side_table(points, knees, expected, strategy):
        """oracle table from FRESH float64 copies: np.linalg.norm(b - p, axis=1) for the sides the strategy picks"""
        import numpy as np
        pts = np.array(points, dtype=float)
        kp = pts[np.array(knees, dtype=int)]
        exp = np.array(expected, dtype=float)
        if strategy == 'knees':
            a, b = kp, exp
        elif strategy == 'expected':
            a, b = exp, kp
        elif strategy == 'best':
            a, b = (exp, kp) if len(exp) <= len(kp) else (kp, exp)
        else:
            a, b = (exp, kp) if len(exp) >= len(kp) else (kp, exp)
        tab = []
        for i, p in enumerate(a):
            d = np.linalg.norm(b - p, axis=1)
            for j in range(len(b)):
                tab.append([i, j, fnum(d[j])])
        return tab

    def run_seq(self, c):
        import numpy as np
        import kneeliverse.evaluation as ev
        c = dict(c)
        dt = np.int64 if c.get('int64') else float
        steps = [dict(st) for st in c['steps']]
        # the model's inputs and oracle tables first, from separate fresh copies
        for st in steps:
            st['tab'] = [] if st['fn'] == 'cm' else self.side_table(st['points'], st['knees'], st['expected'], st['strategy'])
        # ONE object per argument for the whole sequence; refills are done in place
        buf = np.array(steps[0]['points'], dtype=dt)
        kb = np.array(steps[0]['knees'], dtype=int)
        eb = np.array(steps[0]['expected'], dtype=dt)
        cur = (steps[0]['points'], steps[0]['knees'], steps[0]['expected'])
        fns = {'cm': ev.cm, 'mae': ev.mae, 'mse': ev.mse, 'rmse': ev.rmse, 'rmspe': ev.rmspe}
        for st in steps:
            if st['points'] != cur[0]:
                buf[...] = np.array(st['points'], dtype=dt)
            if st['knees'] != cur[1]:
                kb[...] = np.array(st['knees'], dtype=int)
            if st['expected'] != cur[2]:
                eb[...] = np.array(st['expected'], dtype=dt)
            cur = (st['points'], st['knees'], st['expected'])
            if st['fn'] == 'cm':
                s2, m = call(ev.cm, buf, kb, eb, st['t'])
                try:
                    st['out'] = [int(m[0][0]), int(m[0][1]), int(m[1][0]), int(m[1][1])] if s2 == 'ok' else None
                except Exception:
                    st['out'] = None
            else:
                s2, v = call(fns[st['fn']], buf, kb, eb, ev.Strategy[st['strategy']])
                st['out'] = fnum(v) if s2 == 'ok' else None
        if c.get('int64') and all(st['fn'] in ('mse', 'rmse') for st in steps):
            # the float64 presentation of the same values (fresh arrays), for the known-finding gate
            for st in steps:
                s2, v = call(fns[st['fn']], np.array(st['points'], dtype=float), np.array(st['knees'], dtype=int),
                             np.array(st['expected'], dtype=float), ev.Strategy[st['strategy']])
                st['out_float'] = fnum(v) if s2 == 'ok' else None
        c['steps'] = steps
        return c

    def run_impl(self, c):
        import numpy as np
        import kneeliverse.evaluation as ev
        if c.get('kind') == 'seq':
            return self.run_seq(c)
        c = dict(c)
        dt = np.int64 if c.get('int64') else float
        pts = np.array(c['points'], dtype=dt)
        knees = np.array(c['knees'], dtype=int)
        exp = np.array(c['expected'], dtype=dt)
        S = ev.Strategy[c['strategy']]
        st, m = call(ev.cm, pts, knees, exp, c['t'])
        c['cm'] = None
        c['acc'] = c['f1'] = c['mcc'] = None
        if st == 'ok':
            try:
                c['cm'] = [int(m[0][0]), int(m[0][1]), int(m[1][0]), int(m[1][1])]
            except Exception:
                c['cm'] = None
            for name, f in (('acc', ev.accuracy), ('f1', ev.f1score), ('mcc', ev.mcc)):
                s2, v = call(f, m)
                c[name] = fnum(v) if s2 == 'ok' else None
        for name, f in (('mae', ev.mae), ('mse', ev.mse), ('rmse', ev.rmse), ('rmspe', ev.rmspe)):
            s2, v = call(f, pts, knees, exp, S)
            c[name] = fnum(v) if s2 == 'ok' else None
        # oracle table: the distances the nearest-neighbour search must see, for the sides the strategy picks (fresh float64 copies)
        c['tab'] = self.side_table(c['points'], c['knees'], c['expected'], c['strategy'])
        return c

    @staticmethod
    def ctab(tab):
        return clist(['((%s, %s), %s)' % (cnat(r[0]), cnat(r[1]), fl(r[2])) for r in tab])

    def emit_step(self, st):
        kind = {'cm': 'KCm', 'mae': 'KMae', 'mse': 'KMse', 'rmse': 'KRmse', 'rmspe': 'KRmspe'}[st['fn']]
        if st['fn'] == 'cm':
            cmo = copt(st.get('out'), lambda m: '(%s, %s, %s, %s)' % (cZ(m[0]), cZ(m[1]), cZ(m[2]), cZ(m[3])))
            val = 'None'
        else:
            cmo = 'None'
            val = copt(st.get('out'), fl)
        return '(CCall %s %s %s %s %s %s %s %s %s)' % (cpts(st['points']), cnats(st['knees']), cpts(st['expected']), fl(st['t']),
                                                        SCOQ[st['strategy']], self.ctab(st.get('tab', [])), kind, cmo, val)

    def emit(self, c):
        if c.get('skip'):
            return 'CScore [] [] [] 0%float SKnees [] None None None None None None None None'
        if c.get('kind') == 'seq':
            return 'CSeq %s' % clist([self.emit_step(st) for st in c['steps']])
        cmo = copt(c['cm'], lambda m: '(%s, %s, %s, %s)' % (cZ(m[0]), cZ(m[1]), cZ(m[2]), cZ(m[3])))
        return 'CScore %s %s %s %s %s %s %s %s %s %s %s %s %s %s' % (
            cpts(c['points']), cnats(c['knees']), cpts(c['expected']), fl(c['t']), SCOQ[c['strategy']],
            clist(['((%s, %s), %s)' % (cnat(r[0]), cnat(r[1]), fl(r[2])) for r in c['tab']]),
            cmo, copt(c['acc'], fl), copt(c['f1'], fl), copt(c['mcc'], fl),
            copt(c['mae'], fl), copt(c['mse'], fl), copt(c['rmse'], fl), copt(c['rmspe'], fl))

    def nontrivial_key(self, c):
        if c.get('kind') == 'seq' and not c.get('skip'):
            st = c['steps']
            refills = sum(1 for a, b in zip(st, st[1:]) if (a['points'], a['knees'], a['expected']) != (b['points'], b['knees'], b['expected']))
            return ('seq', json.dumps(st, sort_keys=True, default=str)) if refills >= 1 and len({x['fn'] for x in st}) >= 2 else None
        if c.get('skip') or not c.get('cm'):
            return None
        tp, fp, fn, tn = c['cm']
        if tp >= 1 and (fn >= 1 or fp >= 1):
            return (str(c['points']), tuple(c['knees']), str(c['expected']), c['t'], c['strategy'])
        return None

    def classify(self, c):
        if c.get('skip'):
            return {'mode': 'skipped'}
        if c.get('kind') == 'seq':
            st = c['steps']
            return {'mode': c['mode'], 'dtype': 'int64' if c.get('int64') else 'float64', 'seq_calls': len(st),
                    'seq_cm_calls': sum(1 for x in st if x['fn'] == 'cm'),
                    'seq_point_refills': sum(1 for a, b in zip(st, st[1:]) if a['points'] != b['points']),
                    'seq_KE_only_refills': sum(1 for a, b in zip(st, st[1:]) if a['points'] == b['points'] and (a['knees'], a['expected']) != (b['knees'], b['expected'])),
                    'seq_mse_then_rmse': any(a['fn'] == 'mse' and b['fn'] == 'rmse' and a['points'] != b['points'] and
                                             (a['knees'], a['expected'], a['strategy']) == (b['knees'], b['expected'], b['strategy']) for a, b in zip(st, st[1:]))}
        out = {'mode': c['mode'], 'strategy': c['strategy'], 'n': len(c['points']), 'K': len(c['knees']), 'E': len(c['expected']),
               'family': c.get('family', '?'), 'dtype': 'int64' if c.get('int64') else 'float64'}
        if c.get('cm'):
            tp, fp, fn, tn = c['cm']
            out['tp'] = tp
            out['fn'] = fn
            out['fp'] = fp
            out['tn_negative'] = tn < 0
        return out

    def shrink(self, c):
        out = []
        if c.get('kind') == 'seq':
            st = c['steps']
            for j in range(len(st)):
                if len(st) > 1:
                    d = dict(c)
                    d['steps'] = [{k: v for k, v in x.items() if k not in ('out', 'tab', 'out_float')} for x in st[:j] + st[j + 1:]]
                    out.append(d)
            return out
        pts, knees, exp = c['points'], c['knees'], c['expected']
        n = len(pts)
        for j in range(len(exp)):
            if len(exp) > 1:
                d = dict(c)
                d['expected'] = exp[:j] + exp[j + 1:]
                out.append(d)
        for j in range(len(knees)):
            if len(knees) > 1:
                d = dict(c)
                d['knees'] = knees[:j] + knees[j + 1:]
                out.append(d)
        for j in range(n):
            if n > 2 and j not in knees:
                d = dict(c)
                d['points'] = pts[:j] + pts[j + 1:]
                d['knees'] = [k - 1 if k > j else k for k in knees]
                out.append(d)
        for d in out:
            for k in ('cm', 'acc', 'f1', 'mcc', 'mae', 'mse', 'rmse', 'rmspe', 'tab'):
                d.pop(k, None)
        return out

    def sample(self, c):
        if c.get('kind') == 'seq':
            return {'kind': 'seq', 'int64': c.get('int64'), 'steps': c['steps'][:3]}
        keys = ['points', 'knees', 'expected', 't', 'strategy', 'mode', 'cm', 'acc', 'f1', 'mcc', 'mae', 'mse', 'rmse', 'rmspe']
        return {k: c[k] for k in keys if k in c}

    def describe(self, c):
        if c.get('kind') == 'seq':
            dt = 'np.int64' if c.get('int64') else 'float'
            lines = ['P = np.array(%s, dtype=%s); K = np.array(%s); E = np.array(%s, dtype=%s)   # the same three objects for every call'
                     % (c['steps'][0]['points'], dt, c['steps'][0]['knees'], c['steps'][0]['expected'], dt)]
            cur = (c['steps'][0]['points'], c['steps'][0]['knees'], c['steps'][0]['expected'])
            for st in c['steps']:
                if st['points'] != cur[0]:
                    lines.append('P[...] = %s' % st['points'])
                if st['knees'] != cur[1]:
                    lines.append('K[...] = %s' % st['knees'])
                if st['expected'] != cur[2]:
                    lines.append('E[...] = %s' % st['expected'])
                cur = (st['points'], st['knees'], st['expected'])
                lines.append('kneeliverse.evaluation.%s(P, K, E, %s)  -> %r' % (st['fn'], repr(st['t']) if st['fn'] == 'cm' else 'Strategy.' + st['strategy'], st.get('out')))
            return '; '.join(lines)
        dt = ', dtype=np.int64' if c.get('int64') else ''
        return ('P = np.array(%s%s); K = np.array(%s); E = np.array(%s%s); m = kneeliverse.evaluation.cm(P, K, E, %r); accuracy(m), f1score(m), mcc(m); '
                'mae / mse / rmse / rmspe(P, K, E, kneeliverse.evaluation.Strategy.%s)'
                % (c['points'], dt, c['knees'], c['expected'], dt, c['t'], c['strategy']))


def fnum(v):
    try:
        return float(v)
    except Exception:
        return math.nan


if __name__ == '__main__':
    main(C19)
