# harness/core.py — shared machinery of the correspondence checks (DESIGN.md 2.4-2.6).
#
# A check = (1) proof obligations: the Coq development builds, Props/<id>.v compiles, its
# Print Assumptions output lists only allowed standard-library axioms, no forbidden vernacular;
# (2) correspondence: generated inputs -> implementation run (current /repo working tree) ->
# cases_*.v -> coqc evaluates `judge` (model agreement + the theorem's own predicate on the
# implementation's output) -> result codes; (3) verdict, replay, evidence.
import os, sys, json, time, math, random, subprocess, hashlib, signal, shutil, re, tempfile, traceback
import multiprocessing as mp

VERIF = os.path.dirname(os.path.dirname(os.path.abspath(__file__)))
COQ = os.path.join(VERIF, 'coq')
REPO = os.environ.get('KNEE_REPO', '/repo')
SRC = os.path.join(REPO, 'src')
JOBS = int(os.environ.get('VERIF_JOBS', '16'))

# Axioms a theorem may depend on: only those the standard library itself declares.  Print Assumptions
# prints shortest names, so the audit compares base names against the names declared (Primitive / Axiom /
# Parameter / Register) in the standard library's own sources for primitive floats, primitive integers,
# the real numbers and the classical-logic / extensionality files; the development itself may declare
# none (source_hygiene greps for that), so a base-name match cannot be one of ours.
_STDLIB = '/usr/lib/ocaml/coq/theories'
_STDLIB_AXIOM_FILES = ['Floats/PrimFloat.v', 'Floats/FloatAxioms.v', 'Floats/FloatOps.v',
                       'Numbers/Cyclic/Int63/PrimInt63.v', 'Numbers/Cyclic/Int63/Uint63.v', 'Numbers/Cyclic/Int63/Sint63.v',
                       'Reals/ClassicalDedekindReals.v', 'Reals/Rdefinitions.v', 'Reals/Raxioms.v',
                       'Logic/FunctionalExtensionality.v', 'Logic/Classical_Prop.v', 'Logic/Eqdep.v', 'Logic/ProofIrrelevance.v',
                       'Logic/JMeq.v', 'Logic/ClassicalEpsilon.v', 'Logic/PropExtensionality.v', 'Logic/ClassicalFacts.v',
                       'Logic/Epsilon.v', 'Logic/ChoiceFacts.v', 'Logic/IndefiniteDescription.v', 'Logic/Description.v']
_ALLOWED = None


def allowed_axioms():
    global _ALLOWED
    if _ALLOWED is None:
        names = set()
        for f in _STDLIB_AXIOM_FILES:
            p = os.path.join(_STDLIB, f)
            if os.path.exists(p):
                txt = strip_comments(open(p).read())
                names.update(re.findall(r'\b(?:Primitive|Axiom|Parameter)\s+([A-Za-z_][A-Za-z0-9_\']*)', txt))
        _ALLOWED = names
    return _ALLOWED


def axiom_ok(name):
    return name.split('.')[-1] in allowed_axioms()


FORBIDDEN = re.compile(r'\b(Admitted|admit|Axiom|Axioms|Parameter|Parameters|Conjecture|Conjectures|Hypothesis|Hypotheses|Variable|Variables)\b|Unset\s+Guard|bypass_check|type-in-type|impredicative-set|Admit\s+Obligations|Unset\s+Universe\s+Checking|Unset\s+Positivity')


class HarnessError(Exception):
    pass


# ---------------------------------------------------------------------------------------------
# Coq term emitters (total: anything unexpected becomes a value of the right type, never a crash)

def fl(x):
    """binary64 -> exact Coq literal (in float scope)"""
    try:
        x = float(x)
    except Exception:
        return 'nan%float'
    if x != x:
        return 'nan%float'
    if x == math.inf:
        return 'infinity%float'
    if x == -math.inf:
        return 'neg_infinity%float'
    h = x.hex()
    if h.startswith('-'):
        return '(-%s)%%float' % h[1:]
    return '%s%%float' % h


def cnat(n):
    n = int(n)
    if n < 0:
        n = 0
    return '%d%%nat' % n


def cZ(n):
    n = int(n)
    return '(%d)%%Z' % n


def cbool(b):
    return 'true' if b else 'false'


def clist(items):
    return '[' + '; '.join(items) + ']'


def cpair(a, b):
    return '(%s, %s)' % (a, b)


def copt(x, f):
    return 'None' if x is None else '(Some %s)' % f(x)


def cnats(xs):
    return clist([cnat(x) for x in xs])


def cfls(xs):
    return clist([fl(x) for x in xs])


def cpts(points):
    """list of (x, y) float pairs"""
    return clist(['(%s, %s)' % (fl(p[0]), fl(p[1])) for p in points])


# ---------------------------------------------------------------------------------------------
# build and proof obligations

def sh(cmd, timeout=1800, cwd=None, env=None):
    p = subprocess.run(cmd, shell=True, cwd=cwd, env=env, stdout=subprocess.PIPE, stderr=subprocess.STDOUT,
                       timeout=timeout, text=True)
    return p.returncode, p.stdout


def coq_files():
    out = []
    for root, _, files in os.walk(COQ):
        if '/run_' in root or '/.tmp' in root:
            continue
        for f in files:
            if f.endswith('.v'):
                out.append(os.path.relpath(os.path.join(root, f), COQ))
    return sorted(out)


def build(clean=False, targets=None):
    """Full .vo build under flock (checks may run concurrently).  targets=None builds everything
    (setup, thorough); a check builds the dependency closure of its own Props/Judge files."""
    lock = os.path.join(COQ, '.build.lock')
    files = ' '.join(coq_files())
    tg = ' '.join(t[:-2] + '.vo' for t in targets) if targets else ''
    # the verdict is make's exit status (coqdep's "*** Warning: ... not found" about a file that is not in the
    # requested dependency closure must not fail an unrelated check)
    cmd = ('cd %s && flock %s bash -c "set -o pipefail; %s '
           'coq_makefile -f _CoqProject %s -o Makefile.coq > /dev/null && '
           'timeout 3000 make -f Makefile.coq -j%d %s 2>&1 | tail -40"'
           % (COQ, lock, 'make -f Makefile.coq clean >/dev/null 2>&1;' if clean and os.path.exists(os.path.join(COQ, 'Makefile.coq')) else '',
              files, JOBS, tg))
    rc, out = sh(cmd, timeout=3600)
    ok = rc == 0 and not re.search(r'^Error|\bError:|make(\[\d+\])?: \*\*\*', out, flags=re.M)
    return ok, out


def dep_closure(targets):
    """the .v files the given .v files depend on (from coq_makefile's dependency file)"""
    deps = {}
    p = os.path.join(COQ, '.Makefile.coq.d')
    if os.path.exists(p):
        for line in open(p).read().replace('\\\n', ' ').split('\n'):
            if ':' not in line:
                continue
            lhs, rhs = line.split(':', 1)
            outs = [x for x in lhs.split() if x.endswith('.vo')]
            ins = [x[:-3] + '.v' for x in rhs.split() if x.endswith('.vo') and not x.startswith('/')]
            for o in outs:
                deps[o[:-3] + '.v'] = ins
    seen = set()
    todo = list(targets)
    while todo:
        t = todo.pop()
        if t in seen:
            continue
        seen.add(t)
        todo += deps.get(t, [])
    return sorted(seen)


def source_hygiene(files=None):
    """no Admitted / Axiom / Parameter / unset checks anywhere in the given files (default: whole development)"""
    bad = []
    for f in (files if files is not None else coq_files()):
        txt = open(os.path.join(COQ, f)).read()
        # strip comments (nested)
        txt = strip_comments(txt)
        in_section = 0
        for ln, line in enumerate(txt.split('\n'), 1):
            if re.match(r'\s*Section\b', line):
                in_section += 1
            if re.match(r'\s*End\b', line) and in_section:
                in_section -= 1
            for m in FORBIDDEN.finditer(line):
                w = m.group(0)
                if w in ('Variable', 'Variables', 'Hypothesis', 'Hypotheses') and in_section:
                    continue
                if w in ('Parameter', 'Parameters') and False:
                    continue
                bad.append('%s:%d: %s' % (f, ln, w))
    return bad


def strip_comments(txt):
    out = []
    depth = 0
    i = 0
    n = len(txt)
    while i < n:
        if txt.startswith('(*', i):
            depth += 1
            i += 2
        elif txt.startswith('*)', i) and depth:
            depth -= 1
            i += 2
        else:
            if depth == 0:
                out.append(txt[i])
            elif txt[i] == '\n':
                out.append('\n')
            i += 1
    return ''.join(out)


def check_props_file(pid, workdir):
    """Compile Props/<pid>.v on its own, capture Print Assumptions.  Returns dict."""
    src = os.path.join(COQ, 'Props', pid + '.v')
    res = {'theorems': [], 'failed': [], 'axioms': {}, 'compiled': False, 'log': ''}
    if not os.path.exists(src):
        res['log'] = 'missing ' + src
        return res
    txt = strip_comments(open(src).read())
    thms = re.findall(r'^\s*Theorem\s+([A-Za-z0-9_\']+)', txt, flags=re.M)
    res['theorems'] = thms
    # every Theorem must be followed by a Print Assumptions for it
    printed = re.findall(r'Print\s+Assumptions\s+([A-Za-z0-9_\']+)', txt)
    os.makedirs(os.path.join(workdir, 'props'), exist_ok=True)
    out_vo = os.path.join(workdir, 'props', '%s.vo' % pid)
    rc, out = sh('cd %s && timeout 900 coqc -Q . Knee -w none -o %s Props/%s.v' % (COQ, out_vo, pid), timeout=1000)
    res['log'] = out[-4000:]
    res['compiled'] = (rc == 0)
    if rc != 0:
        res['failed'] = list(thms)
        return res
    # parse the assumption blocks in order of the Print Assumptions commands
    blocks = re.split(r'(?=^Closed under the global context|^Axioms:)', out, flags=re.M)
    blocks = [b for b in blocks if b.startswith('Closed under') or b.startswith('Axioms:')]
    for name, b in zip(printed, blocks):
        if b.startswith('Closed under'):
            res['axioms'][name] = []
        else:
            names = re.findall(r'^([A-Za-z_][A-Za-z0-9_\.\']*)\s*:', b, flags=re.M)
            names += re.findall(r'^([A-Za-z_][A-Za-z0-9_\.\']*)\s*$', b, flags=re.M)
            names = [x for x in names if x != 'Axioms']
            res['axioms'][name] = sorted(set(names))
    for t in thms:
        if t not in res['axioms']:
            res['failed'].append(t + ' (no Print Assumptions)')
            continue
        for a in res['axioms'][t]:
            if not axiom_ok(a):
                res['failed'].append('%s (axiom %s)' % (t, a))
    return res


def run_coqchk(pid):
    """thorough tier: re-check the compiled property file and everything it depends on with the independent checker"""
    t0 = time.time()
    rc, out = sh('cd %s && timeout 3000 coqchk -silent -o -Q . Knee Knee.Props.%s 2>&1' % (COQ, pid), timeout=3100)
    res = {'ok': False, 'axioms': [], 'log': out[-3000:], 'wall_s': round(time.time() - t0, 1)}
    if rc != 0 or 'CONTEXT SUMMARY' not in out:
        return res
    summ = out.split('CONTEXT SUMMARY', 1)[1]
    m = re.search(r'\* Axioms:(.*?)\n\s*\n\* Constants/Inductives relying on type-in-type:(.*?)\n\s*\n\* Constants/Inductives relying on unsafe \(co\)fixpoints:(.*?)\n\s*\n\* Inductives whose positivity is assumed:(.*?)\n', summ + '\n\n', flags=re.S)
    if not m:
        return res
    ax = [x.strip() for x in m.group(1).split('\n') if x.strip() and x.strip() != '<none>']
    res['axioms'] = ax
    unsafe = [g.strip() for g in (m.group(2), m.group(3), m.group(4)) if g.strip() != '<none>']
    bad = [a for a in ax if not axiom_ok(a.split()[0])]
    res['ok'] = not unsafe and not bad
    if not res['ok']:
        res['log'] = 'unsafe=%s disallowed axioms=%s' % (unsafe, bad)
    return res


# ---------------------------------------------------------------------------------------------
# evaluating cases inside Coq

HEADER = '''From Coq Require Import ZArith List Bool PrimFloat.
From Knee Require Import %s.
Import ListNotations.
'''


def _write_shard(path, judge_mod, terms, fn='judge', ctype='case'):
    with open(path, 'w') as f:
        f.write(HEADER % judge_mod)
        f.write('Definition cases : list %s := [\n' % ctype)
        f.write(';\n'.join(terms))
        f.write('\n].\n')
        f.write('Eval vm_compute in (map %s cases).\n' % fn)


def coq_eval(judge_mod, terms, workdir, shard=250, tag='cases', fn='judge', raw=False, ctype='case'):
    """Evaluate `fn` on every term; returns the list of integer codes (or raw outputs)."""
    if not terms:
        return []
    os.makedirs(workdir, exist_ok=True)
    shards = [terms[i:i + shard] for i in range(0, len(terms), shard)]
    paths = []
    for k, s in enumerate(shards):
        p = os.path.join(workdir, '%s_%d.v' % (tag, k))
        _write_shard(p, judge_mod, s, fn, ctype)
        paths.append(p)
    procs = []
    results = [None] * len(paths)
    running = []
    idx = 0

    def launch(i):
        p = paths[i]
        out = open(p + '.out', 'w')
        pr = subprocess.Popen('ulimit -s unlimited 2>/dev/null; cd %s && timeout 1500 coqc -Q . Knee -w none -o %s %s'
                              % (COQ, p + 'o', p), shell=True, stdout=out, stderr=subprocess.STDOUT)
        return (i, pr, out)

    pending = list(range(len(paths)))
    while pending or running:
        while pending and len(running) < JOBS:
            running.append(launch(pending.pop(0)))
        time.sleep(0.05)
        for r in list(running):
            i, pr, out = r
            if pr.poll() is not None:
                out.close()
                running.remove(r)
                txt = open(paths[i] + '.out').read()
                if pr.returncode != 0:
                    raise HarnessError('coqc failed on %s:\n%s' % (paths[i], txt[-3000:]))
                results[i] = txt
    if raw:
        return results
    codes = []
    for i, txt in enumerate(results):
        got = [int(x) for x in re.findall(r'\(?(-?\d+)\)?%Z', txt)]
        if len(got) != len(shards[i]):
            # lists of length 1 / empty print differently; fall back on a looser parse
            raise HarnessError('could not parse %d codes from %s (got %d):\n%s' % (len(shards[i]), paths[i], len(got), txt[-2000:]))
        codes.extend(got)
    return codes


# ---------------------------------------------------------------------------------------------
# running the implementation

class Timeout(BaseException):
    # BaseException + a repeating timer: an `except Exception` in the code under test cannot swallow the time-out
    pass


def _alarm(signum, frame):
    raise Timeout()


_PROP = None


def _init_worker():
    signal.signal(signal.SIGALRM, _alarm)


def _run_one(args):
    i, case, tmo = args
    signal.setitimer(signal.ITIMER_REAL, tmo, 1.0)
    try:
        import numpy as np
        with np.errstate(all='ignore'):
            import warnings
            with warnings.catch_warnings():
                warnings.simplefilter('ignore')
                r = _PROP.run_impl(case)
        return i, r, None
    except Timeout:
        return i, None, 'timeout'
    except Exception as e:  # harness-level failure inside run_impl (implementation exceptions are caught by run_impl)
        return i, None, 'harness:' + ''.join(traceback.format_exception_only(type(e), e)).strip() + '\n' + traceback.format_exc()[-1500:]
    finally:
        signal.setitimer(signal.ITIMER_REAL, 0)


MAX_TIMEOUTS = int(os.environ.get('VERIF_MAX_TIMEOUTS', '12'))


def run_impl_all(prop, cases, timeout=20.0):
    """run prop.run_impl on every case in forked workers; returns enriched cases (same order).
    Cases are processed in batches; once MAX_TIMEOUTS implementation time-outs have been seen the remaining cases are
    not run (each time-out is already a reportable failure; a non-terminating implementation must not stall the check
    for hours) — the returned list is then shorter than the input and the caller truncates accordingly."""
    global _PROP
    _PROP = prop
    import_impl()
    if hasattr(prop, 'warmup'):
        prop.warmup()
    out = []
    ntimeouts = 0
    batch = max(64, 16 * JOBS)
    pool = None
    if JOBS > 1 and len(cases) >= 8:
        ctx = mp.get_context('fork')
        pool = ctx.Pool(min(JOBS, max(1, len(cases) // 4)), initializer=_init_worker)
    else:
        _init_worker()
    try:
        for b0 in range(0, len(cases), batch):
            chunk = cases[b0:b0 + batch]
            args = [(i, c, timeout) for i, c in enumerate(chunk)]
            res = pool.imap(_run_one, args, chunksize=max(1, min(8, len(chunk) // (4 * JOBS) + 1))) if pool else map(_run_one, args)
            got = [None] * len(chunk)
            for i, r, err in res:
                if err == 'timeout':
                    ntimeouts += 1
                    got[i] = prop.on_timeout(chunk[i])
                elif err:
                    raise HarnessError('run_impl failed on case %d: %s\ncase=%s' % (b0 + i, err, json.dumps(chunk[i], default=str)[:2000]))
                else:
                    got[i] = r
            out.extend(got)
            if ntimeouts >= MAX_TIMEOUTS and b0 + batch < len(cases):
                print('note: %d implementation time-outs; %d remaining cases not run' % (ntimeouts, len(cases) - len(out)))
                break
    finally:
        if pool:
            pool.close()
            pool.join()
    return out


def run_impl_fresh(prop, cases, timeout=20.0):
    """run prop.run_impl on every case, each in a freshly forked child of this (pristine) process: no state left by earlier
    calls can reach it.  Used by the history-independence stream of run_check."""
    global _PROP
    _PROP = prop
    import_impl()
    out = [None] * len(cases)
    if not cases:
        return out
    ctx = mp.get_context('fork')
    pool = ctx.Pool(min(JOBS, 8), initializer=_init_worker, maxtasksperchild=1)
    try:
        for i, r, err in pool.imap(_run_one, [(i, c, timeout) for i, c in enumerate(cases)], chunksize=1):
            if err == 'timeout':
                out[i] = prop.on_timeout(cases[i])
            elif err:
                raise HarnessError('run_impl (fresh process) failed on case %d: %s' % (i, err))
            else:
                out[i] = r
    finally:
        pool.close()
        pool.join()
    return out


_IMPORTED = False


def import_impl():
    """import the package from the current working tree of /repo"""
    global _IMPORTED
    if _IMPORTED:
        return
    if SRC not in sys.path:
        sys.path.insert(0, SRC)
    import logging
    logging.disable(logging.CRITICAL)
    import kneeliverse  # noqa
    p = os.path.realpath(os.path.dirname(kneeliverse.__file__))
    if not p.startswith(os.path.realpath(SRC)):
        raise HarnessError('kneeliverse imported from %s, expected %s' % (p, SRC))
    _IMPORTED = True


def call(f, *a, **k):
    """call the implementation; exceptions and time-outs are outputs"""
    try:
        return ('ok', f(*a, **k))
    except Timeout:
        raise
    except RecursionError:
        return ('exc', 'RecursionError')
    except Exception as e:
        return ('exc', type(e).__name__)


# ---------------------------------------------------------------------------------------------
# source fingerprints (DESIGN 2.4(c)): an early warning, never a verdict.  The AST hash of every source file a property is
# anchored in (properties.jsonl) is recorded in anchors.json for the tree the checks were validated on; when a file of the
# current tree hashes differently, the quick tier of that property explores with the thorough tier's sample budget.

def ast_hash(path):
    import ast
    try:
        return hashlib.sha1(ast.dump(ast.parse(open(path).read()), include_attributes=False).encode()).hexdigest()[:16]
    except Exception as e:
        return 'unparsable:%s' % type(e).__name__


def anchor_files(pid):
    for l in open(os.path.join(VERIF, 'properties.jsonl')):
        d = json.loads(l)
        if d.get('id') == pid:
            return [f for f in d.get('anchors', {}).get('files', []) if f.endswith('.py')]
    return []


def anchors_changed(pid):
    p = os.path.join(VERIF, 'anchors.json')
    base = json.load(open(p)) if os.path.exists(p) else {}
    changed = []
    for f in anchor_files(pid):
        if base.get(f) != ast_hash(os.path.join(REPO, f)):
            changed.append(f)
    return changed


# ---------------------------------------------------------------------------------------------
# known findings

def load_known():
    p = os.path.join(VERIF, 'known_findings.json')
    if not os.path.exists(p):
        return []
    return json.load(open(p)).get('findings', [])


# ---------------------------------------------------------------------------------------------
# the generic check driver

def case_hash(c):
    return hashlib.sha1(json.dumps(c, sort_keys=True, default=str).encode()).hexdigest()[:12]


def write_json_atomic(path, obj):
    os.makedirs(os.path.dirname(path), exist_ok=True)
    fd, tmp = tempfile.mkstemp(dir=os.path.dirname(path), suffix='.tmp')
    with os.fdopen(fd, 'w') as f:
        json.dump(obj, f, indent=1, default=str)
    os.replace(tmp, path)


def decode(code):
    return code // 100, code % 100


def evaluate(prop, cases, workdir, tag):
    """implementation run + Coq judgement; returns (enriched cases, codes)"""
    enriched = run_impl_all(prop, cases, timeout=getattr(prop, 'timeout', 20.0))
    terms = [prop.emit(c) for c in enriched]          # may be shorter than `cases` after repeated time-outs
    codes = coq_eval(prop.judge_module, terms, workdir, shard=getattr(prop, 'shard', 250), tag=tag)
    return enriched, codes


def show_model(prop, case, workdir):
    """raw text of the model's own outputs on a case (for replay files)"""
    try:
        term = prop.emit(case)
        txt = coq_eval(prop.judge_module, [term], workdir, tag='show', fn='show', raw=True)[0]
        m = re.search(r'=\s*(.*?)\n\s*:\s', txt, flags=re.S)
        return re.sub(r'\s+', ' ', m.group(1))[:4000] if m else txt[-2000:]
    except Exception as e:
        return 'show failed: %s' % e


def shrink(prop, case, code_pred, workdir, rounds=12):
    """greedy shrinking: prop.shrink(case) proposes smaller cases; keep the first that still fails"""
    cur = case
    if not hasattr(prop, 'shrink'):
        return cur
    for r in range(rounds):
        cands = prop.shrink(cur)
        if not cands:
            break
        cands = cands[:200]
        try:
            enr, codes = evaluate(prop, cands, workdir, 'shrink%d' % r)
        except HarnessError:
            break
        nxt = None
        for c, code in zip(enr, codes):
            if code_pred(code):
                nxt = c
                break
        if nxt is None:
            break
        cur = nxt
    return cur


def run_check(prop, tier, seed, replay=None):
    t0 = time.time()
    pid = prop.id
    workdir = os.path.join(VERIF, 'run', '%s.%d' % (pid, os.getpid()))
    shutil.rmtree(workdir, ignore_errors=True)
    os.makedirs(workdir)
    violations = []      # (replay_path, suffix)
    known_lines = []
    try:
        # ---- 1. proof obligations
        mine = ['Props/%s.v' % pid, prop.judge_module.replace('.', '/') + '.v'] + list(getattr(prop, 'extra_coq', []))
        whole = bool(os.environ.get('VERIF_FULL_BUILD'))
        ok_build, build_log = build(clean=False, targets=None if whole else mine)
        hyg = source_hygiene(None if whole else dep_closure(mine))
        pr = check_props_file(pid, workdir)
        obligations = len(pr['theorems'])
        failed = list(pr['failed'])
        if hyg:
            failed += ['hygiene: ' + h for h in hyg]
        if not ok_build:
            failed.append('build: ' + build_log[-1500:])
        discharged = obligations - len([f for f in pr['failed']])
        if hyg or not ok_build:
            discharged = 0 if not pr['compiled'] else discharged
        chk = None
        if tier == 'thorough' and pr['compiled'] and not os.environ.get('VERIF_NO_COQCHK'):
            chk = run_coqchk(pid)
            if not chk['ok']:
                failed.append('coqchk: ' + chk['log'][-800:])
        proofs_ok = (not failed) and obligations > 0 and pr['compiled']
        extra_ok, extra_info = (True, {})
        if hasattr(prop, 'extra_obligations'):
            extra_ok, extra_info = prop.extra_obligations(workdir)

        # ---- 2. correspondence
        rng = random.Random(seed)
        changed_anchors = anchors_changed(pid)
        gen_tier = tier
        if changed_anchors and tier == 'quick' and not replay and not os.environ.get('VERIF_NO_ESCALATE'):
            gen_tier = 'thorough'      # a modelled source file differs from the validated tree: explore deeper
        if replay:
            rc = json.load(open(replay))
            cases = [rc['case']] if 'case' in rc else []
            corpus_n = 0
        else:
            corpus = load_corpus(pid)
            corpus_n = len(corpus)
            cases = corpus + list(prop.generate(rng, gen_tier))
        enriched, codes = evaluate(prop, cases, workdir, 'cases')
        stats = summarize(prop, enriched, codes)
        bad_pred = [(c, code) for c, code in zip(enriched, codes) if decode(code)[0] != 6 and decode(code)[1] != 0]
        disagree = [(c, code) for c, code in zip(enriched, codes) if decode(code)[0] in (1, 4) and decode(code)[1] == 0]
        known = [k for k in load_known() if k.get('property') == pid and k.get('status', 'open') == 'open']

        # ---- 2b. history independence (every model function is a pure function of its inputs; the implementation must be
        # one too): a sample of the cases is re-run, each in a freshly forked child, and what the judge would see (the emitted
        # case term: implementation outputs and oracle values) must be identical to what the long-lived worker produced after
        # serving other cases.  A difference is judged like any other case; if neither variant falsifies the predicate it is
        # still reported (the implementation does not correspond to any function of its inputs).
        hist = {'sampled': 0, 'differ': 0}
        hist_diff = []
        if not replay and getattr(prop, 'history_check', True) and not os.environ.get('VERIF_NO_HISTORY') and len(enriched) == len(cases):
            k = min(len(cases), {'quick': 48, 'thorough': 240}.get(gen_tier, 48))
            idx = sorted(random.Random(seed + 17).sample(range(len(cases)), k))
            fresh = run_impl_fresh(prop, [cases[i] for i in idx], timeout=getattr(prop, 'timeout', 20.0))
            hist['sampled'] = k
            pairs = [(i, f) for i, f in zip(idx, fresh) if prop.emit(f) != prop.emit(enriched[i])]
            hist['differ'] = len(pairs)
            if pairs:
                codes_f = coq_eval(prop.judge_module, [prop.emit(f) for _, f in pairs], workdir, shard=getattr(prop, 'shard', 250), tag='fresh')
                for (i, f), cf in zip(pairs, codes_f):
                    if decode(cf)[0] != 6 and decode(cf)[1] != 0:
                        bad_pred.append((f, cf))
                    hist_diff.append((i, f, cf))

        def classify(c):
            key = prop.finding_key(c) if hasattr(prop, 'finding_key') else None
            for k in known:
                if key is not None and k.get('key') == key:
                    return k
            return None

        seen_known = {}
        reported = 0
        for c, code in bad_pred:
            k = classify(c)
            if k is not None:
                seen_known[k['key']] = k
                continue
            if reported >= 3:
                reported += 1
                continue
            small = shrink(prop, c, lambda cd: decode(cd)[0] != 6 and decode(cd)[1] != 0, workdir)
            k = classify(small)
            if k is not None:
                seen_known[k['key']] = k
                continue
            path = write_replay(prop, small, code, workdir, why='predicate false on the implementation output (conjunct %d)' % decode(code)[1])
            violations.append((path, ''))
            reported += 1
        for key, k in seen_known.items():
            known_lines.append('KNOWN-FINDING: property=%s %s' % (pid, k.get('what', key)))

        searched = 0
        if (disagree or not proofs_ok or not extra_ok) and not violations and not replay:
            # the property is no longer shown to hold: search for a failing input
            found = None
            budget = getattr(prop, 'search_budget', 2)
            pool = [c for c, _ in disagree[:50]]
            for rnd in range(budget):
                extra = []
                for c in pool[:20]:
                    if hasattr(prop, 'shrink'):
                        extra += prop.shrink(c)[:20]
                extra += list(prop.generate(random.Random(seed * 7919 + rnd + 1), 'search'))
                enr2, codes2 = evaluate(prop, extra, workdir, 'search%d' % rnd)
                searched += len(extra)
                for c, code in zip(enr2, codes2):
                    if decode(code)[0] != 6 and decode(code)[1] != 0 and classify(c) is None:
                        found = (c, code)
                        break
                if found:
                    break
            if found:
                small = shrink(prop, found[0], lambda cd: decode(cd)[0] != 6 and decode(cd)[1] != 0, workdir)
                path = write_replay(prop, small, found[1], workdir, why='predicate false on the implementation output (found by the search after a broken proof/correspondence)')
                violations.append((path, ''))
            else:
                if disagree:
                    small = shrink(prop, disagree[0][0], lambda cd: decode(cd)[0] in (1, 4), workdir)
                    path = write_replay(prop, small, disagree[0][1], workdir,
                                        why='correspondence broken: model and implementation disagree; %d disagreeing cases of %d; no input with a false predicate found among %d further cases'
                                        % (len(disagree), len(cases), searched), broken='correspondence ' + prop.judge_module)
                else:
                    what = failed if failed else extra_info.get('failed', [])
                    path = write_replay(prop, None, None, workdir,
                                        why='proof obligation no longer checks: %s' % '; '.join(map(str, what))[:3000],
                                        broken='; '.join(map(str, what))[:500])
                violations.append((path, ' no-failing-input-found'))
        if hist_diff and not violations:
            i, f, cf = hist_diff[0]
            path = write_replay(prop, f, cf, workdir,
                                why='history dependence: the implementation\'s observable behaviour on this case differs between a freshly started process and a '
                                    'process that had already served other calls (%d of %d sampled cases differ); neither variant falsifies the predicate' % (len(hist_diff), hist['sampled']),
                                broken='correspondence %s: the implementation is not a function of its inputs' % prop.judge_module)
            violations.append((path, ' no-failing-input-found'))
        elif replay and disagree and not violations:
            path = write_replay(prop, disagree[0][0], disagree[0][1], workdir, why='replayed case still disagrees', broken='correspondence')
            violations.append((path, ' no-failing-input-found'))

        # ---- 3. evidence
        wall = time.time() - t0
        samples = [prop.sample(c) for c in enriched[corpus_n:corpus_n + 3]] if hasattr(prop, 'sample') else []
        if not samples:
            samples = [json.loads(json.dumps(c, default=str)) for c in enriched[:2]]
        axioms = sorted({a for v in pr['axioms'].values() for a in v})
        cov = {
            'obligations': obligations + extra_info.get('obligations', 0),
            'discharged': max(0, discharged) + extra_info.get('discharged', 0),
            'checker_cmd': 'make -f Makefile.coq (coqc 8.16.1, full .vo build) && coqc -Q . Knee Props/%s.v  [Print Assumptions audited]; correspondence: coqc on generated cases_*.v with Eval vm_compute in (map %s.judge cases)' % (pid, prop.judge_module),
            'trusted_base': [
                'Coq 8.16.1 kernel and vm_compute (incl. native PrimFloat/Uint63 evaluation); no native_compute',
                'axioms reported by Print Assumptions for Props/%s.v: %s' % (pid, ', '.join(axioms) if axioms else 'none (closed under the global context)'),
                'hand-written Gallina model tied to /repo by this run\'s correspondence (differential evaluation of model and implementation inside Coq)',
                'Python harness: input generation, calling the implementation, oracle tables from the package\'s own public primitives, float.hex() literals',
            ] + list(getattr(prop, 'trusted', [])),
            'theorems': pr['theorems'],
            'coqchk': ({'ran': True, 'ok': chk['ok'], 'axioms': chk['axioms'], 'wall_s': chk['wall_s']} if chk else {'ran': False}),
            'evaluations': len(enriched), 'cases_generated': len(cases),
            'distinct_nontrivial': stats['distinct_nontrivial'],
            'rule': getattr(prop, 'rule', ''),
            'samples': samples,
            'agree': stats['agree'], 'disagree': stats['disagree'], 'outside_domain': stats['outside'],
            'indeterminate': stats['indet'], 'predicate_false': stats['predfalse'],
            'corpus_cases': corpus_n,
            'search_cases': searched,
            'histograms': stats['hist'],
            'known_findings_seen': sorted(seen_known.keys()),
            'anchor_files_changed': changed_anchors, 'sample_budget': gen_tier,
            'history_independence': hist,
        }
        cov.update(extra_info.get('coverage', {}))
        ev = {
            'property_id': pid, 'tier': 'thorough' if tier == 'thorough' else 'quick', 'seed': int(seed), 'level': 'proof',
            'coverage': cov,
            'assumptions': list(getattr(prop, 'assumptions', [])),
            'wall_s': round(wall, 2),
            'violations': len(violations),
        }
        write_json_atomic(os.path.join(VERIF, 'evidence', pid + '.json'), ev)
        for l in known_lines:
            print(l)
        print('%s tier=%s seed=%d obligations=%d/%d cases=%d agree=%d disagree=%d predfalse=%d outside=%d indet=%d nontrivial=%d wall=%.1fs'
              % (pid, tier, seed, cov['discharged'], cov['obligations'], len(enriched), stats['agree'], stats['disagree'],
                 stats['predfalse'], stats['outside'], stats['indet'], stats['distinct_nontrivial'], wall))
        if failed:
            print('proof obligations failing: ' + '; '.join(map(str, failed))[:2000])
        for path, suffix in violations:
            print('VIOLATION property=%s replay=%s%s' % (pid, path, suffix))
        return 1 if violations else 0
    finally:
        if not os.environ.get('VERIF_KEEP'):
            shutil.rmtree(workdir, ignore_errors=True)


def load_corpus(pid):
    d = os.path.join(VERIF, 'corpus', pid)
    out = []
    if os.path.isdir(d):
        for f in sorted(os.listdir(d)):
            if f.endswith('.json'):
                try:
                    out.append(json.load(open(os.path.join(d, f)))['case'])
                except Exception:
                    pass
    return out


def write_replay(prop, case, code, workdir, why, broken=None):
    d = os.path.join(VERIF, 'replay', prop.id)
    os.makedirs(d, exist_ok=True)
    obj = {'property': prop.id, 'why': why}
    if broken:
        obj['no_longer_checks'] = broken
    if case is not None:
        obj['case'] = json.loads(json.dumps(case, default=str))
        obj['code'] = code
        obj['agree_code'], obj['holds_code'] = decode(code)
        obj['model_output'] = show_model(prop, case, workdir)
        if hasattr(prop, 'describe'):
            obj['how_to_reproduce'] = prop.describe(case)
        h = case_hash(obj['case'])
    else:
        h = hashlib.sha1(why.encode()).hexdigest()[:12]
    path = os.path.join(d, h + '.json')
    write_json_atomic(path, obj)
    return path


def summarize(prop, cases, codes):
    st = {'agree': 0, 'disagree': 0, 'outside': 0, 'indet': 0, 'predfalse': 0, 'hist': {}}
    keys = set()
    for c, code in zip(cases, codes):
        a, h = decode(code)
        if a == 6:
            st['outside'] += 1
            continue
        if a == 0:
            st['agree'] += 1
        elif a in (1, 4):
            st['disagree'] += 1
        elif a == 5:
            st['indet'] += 1
        if h != 0:
            st['predfalse'] += 1
        k = prop.nontrivial_key(c) if hasattr(prop, 'nontrivial_key') else None
        if k is not None:
            keys.add(k)
        if hasattr(prop, 'classify'):
            for name, val in prop.classify(c).items():
                hh = st['hist'].setdefault(name, {})
                hh[str(val)] = hh.get(str(val), 0) + 1
    st['distinct_nontrivial'] = len(keys)
    return st


def main(prop_factory):
    import argparse
    ap = argparse.ArgumentParser()
    ap.add_argument('--tier', default=os.environ.get('VERIF_TIER', 'quick'))
    ap.add_argument('--seed', type=int, default=int(os.environ.get('VERIF_SEED', '20260927')))
    ap.add_argument('--replay', default=None)
    a = ap.parse_args()
    try:
        rc = run_check(prop_factory(), a.tier, a.seed, a.replay)
    except HarnessError as e:
        print('HARNESS ERROR: %s' % e)
        sys.exit(2)
    sys.exit(rc)
