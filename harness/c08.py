# C08 — the end-to-end pipeline yields valid, ordered knees of the original curve
import itertools, random, os, csv, math
from core import *
import gen
import c12          # the oracle tables of the cluster stage are built by the C12 harness (labels, hull, scores, distances)

SIMPS = ['rdp', 'rdp_fixed', 'grdp', 'mp_grdp', 'min_point_rdp']
DETS = ['curvature', 'dfdt', 'menger', 'lmethod', 'kneedle']
LINKS = ['single_linkage', 'complete_linkage', 'centroid_linkage', 'average_linkage']
RANKS = ['left', 'linear', 'right', 'hull']
CONFIGS = list(itertools.product(SIMPS, DETS, LINKS, RANKS))   # 400
CLINK = {'single_linkage': 'Single', 'complete_linkage': 'Complete', 'centroid_linkage': 'Centroid', 'average_linkage': 'Average'}
_C12 = c12.C12()


def _nats(a):
    try:
        out = []
        for v in list(a):
            f = float(v)
            if f != int(f) or f < 0:
                return None
            out.append(int(f))
        return out
    except Exception:
        return None


def _rows(a):
    try:
        out = []
        for r in list(a):
            l, c = float(r[0]), float(r[1])
            if l != int(l) or c != int(c) or l < 0 or c < 0:
                return None
            out.append([int(l), int(c)])
        return out
    except Exception:
        return None


_TRACES = {}


def trace(name):
    if name not in _TRACES:
        p = os.path.join(REPO, 'traces', name)
        pts = []
        try:
            with open(p) as f:
                for row in csv.reader(f):
                    if len(row) >= 2:
                        pts.append([float(row[0]), float(row[1])])
        except Exception:
            pts = []
        _TRACES[name] = pts
    return _TRACES[name]


class C08:
    id = 'C08'
    judge_module = 'Run.JudgeC08'
    rule = ('performance curves (gen.curve families, miss-ratio-like curves; thorough: windows / sub-samplings of the bundled traces) x the 400 '
            'configurations 5 simplifiers x 5 detectors x 4 linkages x 4 ranking modes enumerated round-robin x thresholds (simplifier t / length; '
            'corner t from a grid incl. 0 and 1 OR an IoU the corner filter really computes on that run (exact tie IoU == t) and its nextafter '
            'neighbours; cluster t from a grid OR the normalised knee gaps the linkage really compares, their neighbours); the real pipeline of '
            'demos/*.py is run stage by stage and every intermediate value is judged; the worst-knee, corner and cluster filters and the mapping are '
            'each recomputed by the Coq model on the implementation\'s own input to that stage and compared exactly; '
            'non-trivial = at least 2 knees survive to the end, or a filter stage dropped a knee; distinct by (curve, configuration, thresholds)')
    assumptions = ['heights and abscissae are not NaN (checked per case: a NaN coordinate puts the case outside the domain)',
                   'the composition theorem C08_pipeline_ok assumes stage specifications; C08_corner_stage / C08_cluster_stage / C08_c11_labels_ok / '
                   'C08_multiknee_stage / C08_simplifier_stage discharge them for the concrete models of C13 / C12 / C11 / C02 / C01 '
                   '(C08_pipeline_filters_closed, C08_pipeline_closed_*); each specification is also re-checked on the implementation\'s values in every case',
                   'hypotheses left in the closed theorems = oracle shapes only: distance arrays have one entry per point (C01), the single-knee oracle answers '
                   'inside its slice (C02 knee_in_range), np.argsort returns a permutation and kr.smooth_ranking one score per cluster member (C12); '
                   'Tier O on the heights (discharged on binary64 for non-NaN heights)',
                   'cluster-stage cases in which a ranked cluster has a tie for the top of NumPy\'s sort order are judged on the predicate only for that '
                   'stage (agree code 5): np.argsort is unstable on ties']
    trusted = ['modelled and compared exactly in C08: filter_worst_knees (Model/Pipeline.v = C13\'s), filter_corner_knees (Model/Filters.v, C13: IoU computed in the model), '
               'filter_clusters (Model/ClusterFilter.v, C12) over the linkage labels computed by the C11 model (Model/Clustering.v; also compared with the real '
               'clustering function\'s labels) and, in hull mode, the lower hull computed by the C18 model (Model/Hull.v; also compared with ch.graham_scan_lower), rdp.mapping (C07)',
               'oracles of the cluster stage (the library\'s own values, tables built by harness/c12.py): kr.smooth_ranking per multi-member cluster, '
               'np.sum(lf.shortest_distance_points(...)) per index range; np.argsort = any sorting permutation in the theorems, stable sort (NaN last) in the run',
               'the simplifier and the multi-knee detector are judged on the predicate only in C08 (their models are run against the code by C01/C04/C05/C06 and C02); '
               'the closed theorems compose those models']
    timeout = 60.0
    shard = 200

    def generate(self, rng, tier):
        ncases = {'quick': 400, 'search': 400, 'thorough': 6000}.get(tier, 400)
        nmax = {'quick': 36, 'search': 30, 'thorough': 80}.get(tier, 36)
        off = rng.randrange(len(CONFIGS))
        cases = []
        for k in range(ncases):
            simp, det, link, rank = CONFIGS[(off + k) % len(CONFIGS)]
            r = rng.random()
            if r < 0.3:
                n = rng.randint(2, 9)
            else:
                n = rng.randint(10, nmax)
            u = rng.random()
            if u < 0.2 or (rank == 'hull' and u < 0.5):
                fam, pts = gen.wavy_curve(rng, rng.randint(20, nmax + 24))
            elif u < 0.45:
                fam, pts = gen.mrc_curve(rng, n)
                fam = 'mrc-' + fam
            else:
                fam, pts = gen.curve(rng, n, rng.choice(['convex', 'convex', 'grid', 'collinear', 'uniform', 'plateau', 'zigzag', 'elbow', 'scaled']))
            cases.append(self._mk(rng, simp, det, link, rank, fam, pts))
        if tier == 'thorough':
            for name in ['web0_reduced.csv', 'usr0.csv', 'web2.csv']:
                tr = trace(name)
                if len(tr) < 10:
                    continue
                for k in range(120):
                    simp, det, link, rank = CONFIGS[(off + 7 * k) % len(CONFIGS)]
                    w = rng.randint(20, min(400, len(tr)))
                    step = rng.choice([1, 1, 2, 5]) if len(tr) > 5 * w else 1
                    s = rng.randrange(0, max(1, len(tr) - w * step))
                    pts = tr[s:s + w * step:step]
                    cases.append(self._mk(rng, simp, det, link, rank, 'trace-' + name, pts))
        return cases

    def _mk(self, rng, simp, det, link, rank, fam, pts):
        n = len(pts)
        return {'simp': simp, 'det': det, 'link': link, 'rank': rank, 'family': fam, 'points': pts,
                'st': rng.choice([0.5, 0.1, 0.05, 0.01, 0.001]), 'sk': rng.randint(0, n + 1),
                'dist': rng.choice(['shortest', 'perpendicular']), 'order': rng.choice(['triangle', 'area', 'segment']),
                'cost': rng.choice(['smape', 'rpd', 'rmspe', 'rmsle', 'r2']),
                'ct': rng.choice([0.33, 0.33, 0.0, 1.0, 0.1, 0.5, 0.9]), 'lt': rng.choice([0.01, 0.05, 0.05, 0.2, 0.3, 0.5, 0.5]),
                't1': rng.choice([0.001, 0.01, 0.0, 0.1]),
                # boundary thresholds, resolved at run time on the values the stage really compares (None = use ct / lt):
                # corner: (j, d) = the IoU of the j-th interior knee of k1, moved d doubles (exact tie `IoU == t` for d = 0);
                # cluster: j = the j-th entry of c12.thresholds (normalised knee gaps of k2: exact ties of the linkage test, neighbours, grid)
                'ctm': rng.choice([None] * 7 + [(0, 0), (1, 0), (2, 0), (0, 1), (1, 1), (1, -1)]),
                'ltm': rng.choice([None, None, rng.randrange(0, 64)])}

    def warmup(self):
        import numpy as np
        import kneeliverse.rdp as rdp
        import kneeliverse.metrics as metrics
        p = np.array([[0., 1.], [1., 3.], [2., 2.], [3., 5.]])
        for c in metrics.Metrics:
            rdp.rdp(p, 0.1, cost=c)

    def on_timeout(self, c):
        c = dict(c)
        c['stages'] = {'timeout': True}
        return c

    def run_impl(self, c):
        import importlib
        import numpy as np
        import kneeliverse.rdp as rdp
        import kneeliverse.metrics as metrics
        import kneeliverse.postprocessing as pp
        import kneeliverse.clustering as clustering
        import kneeliverse.knee_ranking as kr
        c = dict(c)
        pts = np.array(c['points'], dtype=float)
        D = rdp.Distance[c['dist']]
        O = rdp.Order[c['order']]
        M = metrics.Metrics[c['cost']]
        t = c['st'] if c['cost'] != 'r2' else 1.0 - c['st']
        st = {}
        c['stages'] = st
        w = c['simp']
        if w == 'rdp':
            r = call(rdp.rdp, pts, t, D, M)
        elif w == 'rdp_fixed':
            r = call(rdp.rdp_fixed, pts, c['sk'], D, O)
        elif w == 'grdp':
            r = call(rdp.grdp, pts, t, D, M, O)
        elif w == 'mp_grdp':
            r = call(rdp.mp_grdp, pts, t, c['sk'], D, M, O)
        else:
            r = call(rdp.min_point_rdp, pts, [0.001, c['st'], 0.01], c['sk'])
        if r[0] != 'ok':
            st['exc'] = 'simplifier: ' + str(r[1])
            return c
        try:
            reduced, removed = r[1]
        except Exception:
            st['exc'] = 'simplifier: bad result'
            return c
        st['red'] = _nats(reduced)
        st['rem'] = _rows(removed)
        if st['red'] is None or st['rem'] is None:
            st['exc'] = 'simplifier: non-integral output'
            return c
        r = call(lambda: pts[reduced])
        if r[0] != 'ok':
            st['exc'] = 'points[reduced]: ' + str(r[1])
            return c
        pr = r[1]
        det = importlib.import_module('kneeliverse.' + c['det'])
        r = call(det.multi_knee, pr, c['t1'])
        if r[0] != 'ok':
            st['exc'] = 'multi_knee: ' + str(r[1])
            return c
        knees = r[1]
        st['knees'] = _nats(knees)
        r = call(pp.filter_worst_knees, pr, knees)
        if r[0] != 'ok':
            st['exc'] = 'filter_worst_knees: ' + str(r[1])
            return c
        k1 = r[1]
        st['k1'] = _nats(k1)
        ct = float(c['ct'])
        if c.get('ctm') is not None:
            def _ious():
                out = []
                for idx in (st['k1'] or []):
                    if idx - 1 >= 0 and idx + 1 < len(pr):
                        p0, p1, p2 = pr[idx - 1:idx + 2]
                        amin, amax = kr.rect(np.array([p0[0], p2[1]]), p1)
                        bmin, bmax = kr.rect(p0, p2)
                        out.append(float(kr.rect_overlap(amin, amax, bmin, bmax)))
                return out
            r = call(_ious)
            ious = [v for v in r[1] if v == v] if r[0] == 'ok' else []
            if ious:
                j, d = c['ctm']
                ct = ious[j % len(ious)]
                if d:
                    ct = math.nextafter(ct, math.inf * d)
        st['ct'] = ct
        r = call(pp.filter_corner_knees, pr, k1, ct)
        if r[0] != 'ok':
            st['exc'] = 'filter_corner_knees: ' + str(r[1])
            return c
        k2 = r[1]
        st['k2'] = _nats(k2)
        lt = float(c['lt'])
        if c.get('ltm') is not None and st['k2'] is not None and len(st['k2']) >= 2:
            r = call(c12.thresholds, None, pr.tolist(), list(st['k2']))
            ts = [v for v in r[1] if v == v and v > 0] if r[0] == 'ok' else []
            if ts:
                lt = float(ts[c['ltm'] % len(ts)])
        st['lt'] = lt
        r = call(pp.filter_clusters, pr, k2, getattr(clustering, c['link']), lt, kr.ClusterRanking[c['rank']])
        if r[0] != 'ok':
            st['exc'] = 'filter_clusters: ' + str(r[1])
            return c
        k3 = r[1]
        st['k3'] = _nats(k3)
        # oracle tables of the cluster stage, on the implementation's own k2 (built by the C12 harness: labels recorded
        # through a pass-through wrapper around the real clustering function, graham_scan_lower, kr.smooth_ranking per
        # multi-member cluster, sums of shortest distances).  Not needed when filter_clusters returns its input unchanged.
        if st['k2'] is not None and len(st['k2']) >= 2:
            try:
                cc = _C12.run_impl({'points': pr.tolist(), 'knees': list(st['k2']), 'link': c['link'].replace('_linkage', ''),
                                    't': lt, 'mode': c['rank']})
                st['cl'] = {'labels': cc.get('labels') or [], 'hull': cc.get('hull') or [], 'scores': cc.get('scores') or [],
                            'sd': cc.get('sd') or [], 'multi': cc.get('multi', 0), 'again': cc.get('out')}
            except Exception as e:      # tables incomplete -> the judge answers agree-code 4
                st['cl'] = {'labels': [], 'hull': [], 'scores': [], 'sd': [], 'multi': 0, 'again': None, 'err': type(e).__name__}
        # the values flowing between the stages must still be what the stages were given: a stage that rewrites one of its
        # arguments in place corrupts every later consumer of the same simplification (demos map the same (reduced, removed)
        # more than once: add_points_even, several detectors).  Snapshots are taken before the last stage and compared after it,
        # and the mapping is asked twice (added after the seeded changes C08-r2m3 / C08-r3m1).
        snap = [np.array(a, copy=True) for a in (pts, reduced, removed, k3)]
        r = call(rdp.mapping, k3, reduced, removed)
        if r[0] != 'ok':
            st['exc'] = 'mapping: ' + str(r[1])
            return c
        st['out'] = _nats(r[1])
        for name, before, after in zip(('points', 'reduced', 'removed', 'filtered knees'), snap, (pts, reduced, removed, k3)):
            try:
                same = (np.asarray(after).shape == before.shape) and bool(np.array_equal(np.asarray(after), before, equal_nan=True))
            except Exception:
                same = False
            if not same:
                st['out'] = None
                st['exc'] = 'mapping: rewrote its argument `%s` in place' % name
                return c
        r2 = call(rdp.mapping, k3, reduced, removed)
        if r2[0] != 'ok' or _nats(r2[1]) != st['out']:
            st['out'] = None
            st['exc'] = 'mapping: a second mapping of the same knees against the same simplification differs from the first'
        return c

    def emit(self, c):
        st = c.get('stages', {})
        pts = c['points']
        xs = [p[0] for p in pts]
        ys = [p[1] for p in pts]
        rows = st.get('rem') or []
        o = lambda k: copt(st.get(k), cnats)
        cl = st.get('cl') or {'labels': [], 'hull': [], 'scores': [], 'sd': []}
        scores = clist(['(%s, %s)' % (cnats(k), cfls(v)) for k, v in cl['scores']])
        sd = clist(['(%s, %s, %s)' % (cnat(l), cnat(r), fl(v)) for l, r, v in cl['sd']])
        ci = '(CInfo %s %s %s %s %s %s %s)' % (c12.CMODE[c['rank']], CLINK[c['link']], fl(float(st.get('lt', c['lt']))),
                                               cnats(cl['labels']), cnats(cl['hull']), scores, sd)
        return 'CPipe %s %s %s %s %s %s %s %s %s %s %s %s' % (
            cnat(len(pts)), cfls(xs), cfls(ys), o('red'), clist(['(%s, %s)' % (cnat(a), cnat(b)) for a, b in rows]),
            o('knees'), o('k1'), o('k2'), o('k3'), o('out'), fl(float(st.get('ct', c['ct']))), ci)

    def nontrivial_key(self, c):
        st = c.get('stages', {})
        out = st.get('out')
        if out is None:
            return None
        dropped = any(len(st.get(a) or []) != len(st.get(b) or []) for a, b in [('knees', 'k1'), ('k1', 'k2'), ('k2', 'k3')])
        if len(out) >= 2 or dropped:
            return (case_hash(c['points']), c['simp'], c['det'], c['link'], c['rank'], c['st'], c['sk'], c['ct'], c['lt'], str(c.get('ctm')), c.get('ltm'))
        return None

    def classify(self, c):
        st = c.get('stages', {})
        return {'simplifier': c['simp'], 'detector': c['det'], 'linkage': c['link'], 'ranking': c['rank'],
                'family': c['family'], 'n': min(len(c['points']), 400) // 10 * 10,
                'final_knees': min(len(st.get('out') or []), 9),
                'cluster_stage_in_model': ('not reached' if st.get('k2') is None else 'input has < 2 knees (returned unchanged)' if len(st['k2']) < 2
                                           else 'tables missing' if (st.get('cl') or {}).get('err') else
                                           '%d multi-member clusters' % min((st.get('cl') or {}).get('multi', 0), 4)),
                'corner_threshold': ('grid' if c.get('ctm') is None else 'observed IoU (exact tie)' if c['ctm'][1] == 0 else 'nextafter of an observed IoU'),
                'cluster_threshold': 'grid' if c.get('ltm') is None else 'observed knee gap / neighbour / grid (c12.thresholds)',
                'corner_stage_dropped': 'not reached' if st.get('k2') is None or st.get('k1') is None else min(len(st['k1']) - len(st['k2']), 4),
                'stage_failed': (st.get('exc') or ('timeout' if st.get('timeout') else 'none')).split(':')[0]}

    def shrink(self, c):
        out = []
        pts = c['points']
        if len(pts) > 2:
            step = max(1, len(pts) // 12)
            for j in range(0, len(pts), step):
                d = dict(c)
                d.pop('stages', None)
                d['points'] = pts[:j] + pts[j + step:]
                if len(d['points']) >= 2:
                    out.append(d)
        return out

    def sample(self, c):
        st = c.get('stages', {})
        return {'config': [c['simp'], c['det'], c['link'], c['rank']], 'n': len(c['points']), 'points': c['points'][:12],
                'reduced': st.get('red'), 'knees': st.get('knees'), 'worst': st.get('k1'), 'corner': st.get('k2'),
                'cluster': st.get('k3'), 'out': st.get('out'), 'exc': st.get('exc')}

    def describe(self, c):
        return ('points=np.array(%s); reduced, removed = rdp.%s(points, ...[t=%s, k=%s, %s, %s, %s]); pr = points[reduced]; '
                'knees = %s.multi_knee(pr, %s); k1 = pp.filter_worst_knees(pr, knees); k2 = pp.filter_corner_knees(pr, k1, %s); '
                'k3 = pp.filter_clusters(pr, k2, clustering.%s, %s, kr.ClusterRanking.%s); out = rdp.mapping(k3, reduced, removed)'
                % (c['points'], c['simp'], c['st'], c['sk'], c['dist'], c['order'], c['cost'], c['det'], c['t1'],
                   repr(c.get('stages', {}).get('ct', c['ct'])), c['link'], repr(c.get('stages', {}).get('lt', c['lt'])), c['rank']))


if __name__ == '__main__':
    main(C08)
