# C08 — the end-to-end pipeline yields valid, ordered knees of the original curve
import itertools, random, os, csv
from core import *
import gen

SIMPS = ['rdp', 'rdp_fixed', 'grdp', 'mp_grdp', 'min_point_rdp']
DETS = ['curvature', 'dfdt', 'menger', 'lmethod', 'kneedle']
LINKS = ['single_linkage', 'complete_linkage', 'centroid_linkage', 'average_linkage']
RANKS = ['left', 'linear', 'right', 'hull']
CONFIGS = list(itertools.product(SIMPS, DETS, LINKS, RANKS))   # 400


def _nats(a):
    try:
        out = []
        for v in list(a):
            f = float(v)
            if f != int(f) or f < 0:
                return None
            out.append(int(f))
        return out
    except Exception:
        return None


def _rows(a):
    try:
        out = []
        for r in list(a):
            l, c = float(r[0]), float(r[1])
            if l != int(l) or c != int(c) or l < 0 or c < 0:
                return None
            out.append([int(l), int(c)])
        return out
    except Exception:
        return None


_TRACES = {}


def trace(name):
    if name not in _TRACES:
        p = os.path.join(REPO, 'traces', name)
        pts = []
        try:
            with open(p) as f:
                for row in csv.reader(f):
                    if len(row) >= 2:
                        pts.append([float(row[0]), float(row[1])])
        except Exception:
            pts = []
        _TRACES[name] = pts
    return _TRACES[name]


class C08:
    id = 'C08'
    judge_module = 'Run.JudgeC08'
    rule = ('performance curves (gen.curve families, miss-ratio-like curves; thorough: windows / sub-samplings of the bundled traces) x the 400 '
            'configurations 5 simplifiers x 5 detectors x 4 linkages x 4 ranking modes enumerated round-robin x thresholds (simplifier t / length, '
            'corner t incl. 0 and 1, cluster t); the real pipeline of demos/*.py is run stage by stage and every intermediate value is judged; '
            'non-trivial = at least 2 knees survive to the end, or a filter stage dropped a knee; distinct by (curve, configuration, thresholds)')
    assumptions = ['heights are not NaN (checked per case: a NaN height puts the case outside the domain)',
                   'stage specifications assumed by the composition theorem are the conclusions of C01 (well-formed reduction), C02 (strictly increasing knees '
                   'inside the reduced curve), C13/C12 (filters select from their input); each is re-checked on the implementation\'s values in every case']
    trusted = ['modelled in C08: filter_worst_knees and rdp.mapping (computed in the model and compared exactly); the simplifier, multi-knee detector, corner filter '
               'and cluster filter enter the C08 model as stage functions (their own checks C01/C02/C13/C12 model them)']
    timeout = 60.0
    shard = 200

    def generate(self, rng, tier):
        ncases = {'quick': 400, 'search': 400, 'thorough': 6000}.get(tier, 400)
        nmax = {'quick': 36, 'search': 30, 'thorough': 80}.get(tier, 36)
        off = rng.randrange(len(CONFIGS))
        cases = []
        for k in range(ncases):
            simp, det, link, rank = CONFIGS[(off + k) % len(CONFIGS)]
            r = rng.random()
            if r < 0.3:
                n = rng.randint(2, 9)
            else:
                n = rng.randint(10, nmax)
            u = rng.random()
            if u < 0.2 or (rank == 'hull' and u < 0.5):
                fam, pts = gen.wavy_curve(rng, rng.randint(20, nmax + 24))
            elif u < 0.45:
                fam, pts = gen.mrc_curve(rng, n)
                fam = 'mrc-' + fam
            else:
                fam, pts = gen.curve(rng, n, rng.choice(['convex', 'convex', 'grid', 'collinear', 'uniform', 'plateau', 'zigzag', 'elbow', 'scaled']))
            cases.append(self._mk(rng, simp, det, link, rank, fam, pts))
        if tier == 'thorough':
            for name in ['web0_reduced.csv', 'usr0.csv', 'web2.csv']:
                tr = trace(name)
                if len(tr) < 10:
                    continue
                for k in range(120):
                    simp, det, link, rank = CONFIGS[(off + 7 * k) % len(CONFIGS)]
                    w = rng.randint(20, min(400, len(tr)))
                    step = rng.choice([1, 1, 2, 5]) if len(tr) > 5 * w else 1
                    s = rng.randrange(0, max(1, len(tr) - w * step))
                    pts = tr[s:s + w * step:step]
                    cases.append(self._mk(rng, simp, det, link, rank, 'trace-' + name, pts))
        return cases

    def _mk(self, rng, simp, det, link, rank, fam, pts):
        n = len(pts)
        return {'simp': simp, 'det': det, 'link': link, 'rank': rank, 'family': fam, 'points': pts,
                'st': rng.choice([0.5, 0.1, 0.05, 0.01, 0.001]), 'sk': rng.randint(0, n + 1),
                'dist': rng.choice(['shortest', 'perpendicular']), 'order': rng.choice(['triangle', 'area', 'segment']),
                'cost': rng.choice(['smape', 'rpd', 'rmspe', 'rmsle', 'r2']),
                'ct': rng.choice([0.33, 0.33, 0.0, 1.0, 0.1, 0.5, 0.9]), 'lt': rng.choice([0.01, 0.05, 0.05, 0.2, 0.5]),
                't1': rng.choice([0.001, 0.01, 0.0, 0.1])}

    def warmup(self):
        import numpy as np
        import kneeliverse.rdp as rdp
        import kneeliverse.metrics as metrics
        p = np.array([[0., 1.], [1., 3.], [2., 2.], [3., 5.]])
        for c in metrics.Metrics:
            rdp.rdp(p, 0.1, cost=c)

    def on_timeout(self, c):
        c = dict(c)
        c['stages'] = {'timeout': True}
        return c

    def run_impl(self, c):
        import importlib
        import numpy as np
        import kneeliverse.rdp as rdp
        import kneeliverse.metrics as metrics
        import kneeliverse.postprocessing as pp
        import kneeliverse.clustering as clustering
        import kneeliverse.knee_ranking as kr
        c = dict(c)
        pts = np.array(c['points'], dtype=float)
        D = rdp.Distance[c['dist']]
        O = rdp.Order[c['order']]
        M = metrics.Metrics[c['cost']]
        t = c['st'] if c['cost'] != 'r2' else 1.0 - c['st']
        st = {}
        c['stages'] = st
        w = c['simp']
        if w == 'rdp':
            r = call(rdp.rdp, pts, t, D, M)
        elif w == 'rdp_fixed':
            r = call(rdp.rdp_fixed, pts, c['sk'], D, O)
        elif w == 'grdp':
            r = call(rdp.grdp, pts, t, D, M, O)
        elif w == 'mp_grdp':
            r = call(rdp.mp_grdp, pts, t, c['sk'], D, M, O)
        else:
            r = call(rdp.min_point_rdp, pts, [0.001, c['st'], 0.01], c['sk'])
        if r[0] != 'ok':
            st['exc'] = 'simplifier: ' + str(r[1])
            return c
        try:
            reduced, removed = r[1]
        except Exception:
            st['exc'] = 'simplifier: bad result'
            return c
        st['red'] = _nats(reduced)
        st['rem'] = _rows(removed)
        if st['red'] is None or st['rem'] is None:
            st['exc'] = 'simplifier: non-integral output'
            return c
        r = call(lambda: pts[reduced])
        if r[0] != 'ok':
            st['exc'] = 'points[reduced]: ' + str(r[1])
            return c
        pr = r[1]
        det = importlib.import_module('kneeliverse.' + c['det'])
        r = call(det.multi_knee, pr, c['t1'])
        if r[0] != 'ok':
            st['exc'] = 'multi_knee: ' + str(r[1])
            return c
        knees = r[1]
        st['knees'] = _nats(knees)
        r = call(pp.filter_worst_knees, pr, knees)
        if r[0] != 'ok':
            st['exc'] = 'filter_worst_knees: ' + str(r[1])
            return c
        k1 = r[1]
        st['k1'] = _nats(k1)
        r = call(pp.filter_corner_knees, pr, k1, c['ct'])
        if r[0] != 'ok':
            st['exc'] = 'filter_corner_knees: ' + str(r[1])
            return c
        k2 = r[1]
        st['k2'] = _nats(k2)
        r = call(pp.filter_clusters, pr, k2, getattr(clustering, c['link']), c['lt'], kr.ClusterRanking[c['rank']])
        if r[0] != 'ok':
            st['exc'] = 'filter_clusters: ' + str(r[1])
            return c
        k3 = r[1]
        st['k3'] = _nats(k3)
        r = call(rdp.mapping, k3, reduced, removed)
        if r[0] != 'ok':
            st['exc'] = 'mapping: ' + str(r[1])
            return c
        st['out'] = _nats(r[1])
        return c

    def emit(self, c):
        st = c.get('stages', {})
        pts = c['points']
        ys = [p[1] for p in pts]
        rows = st.get('rem') or []
        o = lambda k: copt(st.get(k), cnats)
        return 'CPipe %s %s %s %s %s %s %s %s %s' % (
            cnat(len(pts)), cfls(ys), o('red'), clist(['(%s, %s)' % (cnat(a), cnat(b)) for a, b in rows]),
            o('knees'), o('k1'), o('k2'), o('k3'), o('out'))

    def nontrivial_key(self, c):
        st = c.get('stages', {})
        out = st.get('out')
        if out is None:
            return None
        dropped = any(len(st.get(a) or []) != len(st.get(b) or []) for a, b in [('knees', 'k1'), ('k1', 'k2'), ('k2', 'k3')])
        if len(out) >= 2 or dropped:
            return (case_hash(c['points']), c['simp'], c['det'], c['link'], c['rank'], c['st'], c['sk'], c['ct'], c['lt'])
        return None

    def classify(self, c):
        st = c.get('stages', {})
        return {'simplifier': c['simp'], 'detector': c['det'], 'linkage': c['link'], 'ranking': c['rank'],
                'family': c['family'], 'n': min(len(c['points']), 400) // 10 * 10,
                'final_knees': min(len(st.get('out') or []), 9),
                'stage_failed': (st.get('exc') or ('timeout' if st.get('timeout') else 'none')).split(':')[0]}

    def shrink(self, c):
        out = []
        pts = c['points']
        if len(pts) > 2:
            step = max(1, len(pts) // 12)
            for j in range(0, len(pts), step):
                d = dict(c)
                d.pop('stages', None)
                d['points'] = pts[:j] + pts[j + step:]
                if len(d['points']) >= 2:
                    out.append(d)
        return out

    def sample(self, c):
        st = c.get('stages', {})
        return {'config': [c['simp'], c['det'], c['link'], c['rank']], 'n': len(c['points']), 'points': c['points'][:12],
                'reduced': st.get('red'), 'knees': st.get('knees'), 'worst': st.get('k1'), 'corner': st.get('k2'),
                'cluster': st.get('k3'), 'out': st.get('out'), 'exc': st.get('exc')}

    def describe(self, c):
        return ('points=np.array(%s); reduced, removed = rdp.%s(points, ...[t=%s, k=%s, %s, %s, %s]); pr = points[reduced]; '
                'knees = %s.multi_knee(pr, %s); k1 = pp.filter_worst_knees(pr, knees); k2 = pp.filter_corner_knees(pr, k1, %s); '
                'k3 = pp.filter_clusters(pr, k2, clustering.%s, %s, kr.ClusterRanking.%s); out = rdp.mapping(k3, reduced, removed)'
                % (c['points'], c['simp'], c['st'], c['sk'], c['dist'], c['order'], c['cost'], c['det'], c['t1'], c['ct'], c['link'], c['lt'], c['rank']))


if __name__ == '__main__':
    main(C08)
