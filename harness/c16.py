# C16 — regression metrics and linear-fit helpers equal their mathematical definitions
import math, random
from core import *
import gen
import fcommon
from fcommon import BitExact, vec, VEC_FAMS, nudge

EPS_CHOICES = [1e-16, 1e-16, 1e-16, 1e-9, 1e-3, 0.5, 1.0, 2.0 ** -20]
# linear-fit wrappers: additionally eps = 0.0 (a falsy explicit argument; judged on 'wrapper = metric with the same eps' only)
EPS_LINEAR = EPS_CHOICES + [0.0, 1e-16, 0.0]


class C16(BitExact):
    id = 'C16'
    judge_module = 'Run.JudgeC16'
    rule = ('vector pairs (y, y_hat) of length 1..12 (quick) / 1..64 (thorough) from 12 families (small integers, signed, uniform, '
            'zeros, constant / near-constant, huge 1e30..1e138, tiny 1e-30..1e-300, mixed magnitudes) x 7 relations of y_hat to y '
            '(independent, equal, one-ulp neighbours, affine image, permuted, scaled, zero) x eps values, judged on all metrics; '
            'point sets (curve families of gen.curve plus non-monotone x with x[0] == x[-1]) x coefficient choices (the end-point fit, '
            'its neighbours, random, zero line) x eps (incl. the explicit eps = 0.0, judged on wrapper = metric only), judged on every linear_fit wrapper; non-trivial = y != y_hat and length >= 2; '
            'distinct by (kind, inputs, eps)')
    assumptions = ['finite entries with |v| <= 2^465 (so that no sum of squares overflows to inf - inf); 0 < eps <= 1; '
                   'rmsle / rmspe / rpd are judged only on non-negative vectors (the property text), adjusted R2 only for n >= 3',
                   'best-fit R2 is judged when np.corrcoef is defined (non-constant x and y)']
    trusted = ['modelled: metrics.* (numba np.sum/np.mean as a left fold), linear_fit wrappers (np.sum/np.mean pairwise), '
               'np.corrcoef by its covariance quotient without the final clip, np.log by a series accurate to ~1e-15 (compared under tolerance), ** 2.0 as x*x']
    timeout = 30.0
    shard = 250

    # ------------------------------------------------------------------ generation
    def gen_pair(self, rng, n):
        fam = rng.choice(VEC_FAMS)
        y = vec(rng, n, fam)
        rel = rng.choice(['indep', 'indep', 'equal', 'ulp', 'affine', 'perm', 'scaled', 'zero'])
        if rel == 'indep':
            yh = vec(rng, n, fam if rng.random() < 0.7 else rng.choice(VEC_FAMS))
        elif rel == 'equal':
            yh = list(y)
        elif rel == 'ulp':
            yh = [nudge(rng, v) for v in y]
        elif rel == 'affine':
            a, b = rng.choice([(1.0, 1.0), (2.0, 0.0), (0.5, 0.25), (1.0, -1.0), (-1.0, 0.0)])
            yh = [a * v + b for v in y]
        elif rel == 'perm':
            yh = list(y)
            rng.shuffle(yh)
        elif rel == 'scaled':
            k = rng.choice([1.0 + 1e-12, 1.01, 0.99, 3.0])
            yh = [k * v for v in y]
        else:
            yh = [0.0] * n
        return fam, rel, y, yh

    def gen_points(self, rng, n):
        r = rng.random()
        if n >= 2 and r < 0.7:
            fam, pts = gen.curve(rng, n)
            return fam, pts
        if r < 0.85:
            xs = vec(rng, n, rng.choice(['int', 'uniform', 'signed']))
            ys = vec(rng, n, rng.choice(['int', 'uniform', 'zeros', 'const']))
            if n >= 2 and rng.random() < 0.5:
                xs[-1] = xs[0]            # degenerate abscissae: the fit is the zero line
            return 'loose', [[a, b] for a, b in zip(xs, ys)]
        xs = gen.xs_increasing(rng, n)
        fy = rng.choice(['const', 'nearconst', 'allzero', 'huge', 'tiny', 'unit'])
        ys = vec(rng, n, fy)
        return 'incr-' + fy, [[a, b] for a, b in zip(xs, ys)]

    def gen_coef(self, rng, pts):
        x0, y0 = pts[0]
        xl, yl = pts[-1]
        kind = rng.choice(['fit', 'fit', 'fitnudge', 'random', 'zero', 'flat', 'lsq'])
        if x0 != xl:
            m = (y0 - yl) / (x0 - xl)
            b = y0 - m * x0
        else:
            m, b = 0.0, 0.0
        if kind == 'fit':
            return kind, [b, m]
        if kind == 'fitnudge':
            return kind, [nudge(rng, b), nudge(rng, m)]
        if kind == 'random':
            return kind, [rng.uniform(-5, 5), rng.uniform(-3, 3)]
        if kind == 'zero':
            return kind, [0.0, 0.0]
        if kind == 'flat':
            return kind, [sum(p[1] for p in pts) / len(pts), 0.0]
        n = len(pts)
        mx = sum(p[0] for p in pts) / n
        my = sum(p[1] for p in pts) / n
        sxx = sum((p[0] - mx) ** 2 for p in pts)
        sxy = sum((p[0] - mx) * (p[1] - my) for p in pts)
        if sxx > 0 and math.isfinite(sxy / sxx):
            mm = sxy / sxx
            return kind, [my - mm * mx, mm]
        return 'zero', [0.0, 0.0]

    def generate(self, rng, tier):
        nm, nl, nmax = {'quick': (280, 240, 12), 'search': (200, 160, 12), 'thorough': (24000, 20000, 64)}.get(tier, (280, 240, 12))
        cases = []
        for k in range(nm):
            n = (k % nmax) + 1 if k < 2 * nmax else rng.randint(1, nmax)
            fam, rel, y, yh = self.gen_pair(rng, n)
            cases.append({'kind': 'metric', 'family': fam, 'rel': rel, 'y': y, 'yh': yh, 'eps': EPS_CHOICES[k % len(EPS_CHOICES)]})
        for k in range(nl):
            n = (k % nmax) + 1 if k < 2 * nmax else rng.randint(1, nmax)
            fam, pts = self.gen_points(rng, n)
            ck, cf = self.gen_coef(rng, pts)
            cases.append({'kind': 'linear', 'family': fam, 'coef_kind': ck, 'points': pts, 'coef': cf, 'eps': EPS_LINEAR[(k + 3) % len(EPS_LINEAR)]})
        return cases

    # ------------------------------------------------------------------ implementation
    def warmup(self):
        import numpy as np
        import kneeliverse.metrics as M
        a = np.array([0.0, 1.0, 3.0])
        b = np.array([0.5, 1.0, 2.0])
        for k in (M.R2.classic, M.R2.adjusted):
            M.r2(a, b, k)
        M.rmse(a, b), M.rmsle(a, b), M.rmspe(a, b, 1e-16), M.rpd(a, b, 1e-16), M.residuals(a, b), M.smape(a, b, 1e-16)
        # the wrappers pass strided column views: trigger those numba specialisations before forking too
        self.run_impl({'kind': 'linear', 'points': [[0.0, 1.0], [1.0, 3.0], [2.0, 2.0], [4.0, 5.0]], 'coef': [1.0, 0.5], 'eps': 1e-16})

    def on_timeout(self, c):
        c = dict(c)
        c['skip'] = 'timeout'
        return c

    def run_impl(self, c):
        import numpy as np
        import kneeliverse.metrics as M
        import kneeliverse.linear_fit as lf
        c = dict(c)

        def val(f, *a):
            st, v = call(f, *a)
            if st != 'ok':
                return None
            try:
                return float(v)
            except Exception:
                return None

        eps = c['eps']
        if c['kind'] == 'metric':
            y = np.array(c['y'], dtype=float)
            yh = np.array(c['yh'], dtype=float)
            o = [val(M.r2, y, yh, M.R2.classic), val(M.r2, y, yh, M.R2.adjusted), val(M.rmse, y, yh), val(M.rmsle, y, yh),
                 val(M.rmspe, y, yh, eps), val(M.rpd, y, yh, eps), val(M.residuals, y, yh), val(M.smape, y, yh, eps),
                 val(M.rmse, yh, y), val(M.smape, yh, y, eps), val(M.residuals, yh, y),
                 val(M.r2, y, y.copy(), M.R2.classic), val(M.rmse, y, y.copy()), val(M.rmsle, y, y.copy()), val(M.rmspe, y, y.copy(), eps),
                 val(M.rpd, y, y.copy(), eps), val(M.residuals, y, y.copy()), val(M.smape, y, y.copy(), eps)]
            c['o'] = o
        else:
            P = np.array(c['points'], dtype=float).reshape(-1, 2)
            x = P[:, 0]
            y = P[:, 1]
            cf = (c['coef'][0], c['coef'][1])
            st, fit = call(lf.linear_fit_points, P)
            if st == 'ok':
                try:
                    fit = (float(fit[0]), float(fit[1]))
                except Exception:
                    fit = None
            else:
                fit = None
            c['fit'] = list(fit) if fit is not None else None

            def arr(f, *a):
                st, v = call(f, *a)
                if st != 'ok':
                    return []
                try:
                    return [float(t) for t in np.asarray(v, dtype=float).ravel()]
                except Exception:
                    return []

            c['yh_fit'] = arr(lf.linear_transform_points, P, fit) if fit is not None else []
            c['yh_c'] = arr(lf.linear_transform_points, P, cf)

            def line():
                return lf.linear_transform(x, cf)

            def mline(f, *extra):
                st, yh = call(line)
                if st != 'ok':
                    return None
                return val(f, y, yh, *extra)

            def mfit():
                if fit is None:
                    return None
                st, yh = call(lf.linear_transform, x, fit)
                if st != 'ok':
                    return None
                return val(M.residuals, y, yh)

            o = [val(lf.linear_r2_points, P, cf, M.R2.classic), val(lf.linear_r2_points, P, cf, M.R2.adjusted),
                 val(lf.rmspe_points, P, cf, eps), val(lf.rmsle_points, P, cf), val(lf.smape_points, P, cf, eps),
                 val(lf.rpd_points, P, cf, eps), val(lf.rmse_points, P, cf), val(lf.linear_residuals_points, P, cf),
                 val(lf.linear_fit_residuals_points, P),
                 mline(M.r2, M.R2.classic), mline(M.r2, M.R2.adjusted), mline(M.rmspe, eps), mline(M.rmsle), mline(M.smape, eps),
                 mline(M.rpd, eps), mline(M.rmse), mline(M.residuals), mfit(),
                 val(lf.r2, x, y, M.R2.classic), val(lf.r2, x, y, M.R2.adjusted),
                 val(lf.r2_points, P, M.R2.classic), val(lf.r2_points, P, M.R2.adjusted)]
            c['o'] = o
        return c

    # ------------------------------------------------------------------ Coq term
    def emit(self, c):
        if c.get('skip'):
            return 'CM [] [] 0%float []'
        oo = clist([copt(v, fl) for v in c['o']])
        if c['kind'] == 'metric':
            return 'CM %s %s %s %s' % (cfls(c['y']), cfls(c['yh']), fl(c['eps']), oo)
        fit = c['fit']
        return 'CL %s (%s, %s) %s %s %s %s %s' % (
            cpts(c['points']), fl(c['coef'][0]), fl(c['coef'][1]), fl(c['eps']),
            'None' if fit is None else '(Some (%s, %s))' % (fl(fit[0]), fl(fit[1])),
            cfls(c['yh_fit']), cfls(c['yh_c']), oo)

    # ------------------------------------------------------------------ evidence
    def nontrivial_key(self, c):
        if c.get('skip'):
            return None
        if c['kind'] == 'metric':
            if len(c['y']) >= 2 and c['y'] != c['yh']:
                return ('m', tuple(c['y']), tuple(c['yh']), c['eps'])
            return None
        if len(c['points']) >= 2 and [p[1] for p in c['points']] != c.get('yh_c'):
            return ('l', tuple(map(tuple, c['points'])), tuple(c['coef']), c['eps'])
        return None

    def classify(self, c):
        if c.get('skip'):
            return {'kind': 'skipped'}
        n = len(c['y']) if c['kind'] == 'metric' else len(c['points'])
        h = {'kind': c['kind'], 'n': '%02d-%02d' % (n // 8 * 8, n // 8 * 8 + 7), 'family': c['kind'] + ':' + c['family'],
             'eps': repr(c['eps'])}
        if c['kind'] == 'metric':
            h['relation'] = c['rel']
        else:
            h['coef'] = c['coef_kind']
        if '_cmps' in c:
            h['inexact_comparisons_in_case'] = min(c['_cmps'] - c['_exact'], 9)
        return h

    def shrink(self, c):
        out = []
        if c['kind'] == 'metric':
            n = len(c['y'])
            for j in range(n):
                if n > 1:
                    d = dict(c)
                    d['y'] = c['y'][:j] + c['y'][j + 1:]
                    d['yh'] = c['yh'][:j] + c['yh'][j + 1:]
                    out.append(d)
        else:
            pts = c['points']
            for j in range(len(pts)):
                if len(pts) > 1:
                    d = dict(c)
                    d['points'] = pts[:j] + pts[j + 1:]
                    out.append(d)
        return [{k: v for k, v in d.items() if not k.startswith('_') and k not in ('o', 'fit', 'yh_fit', 'yh_c')} for d in out]

    def sample(self, c):
        keys = ['kind', 'family', 'rel', 'coef_kind', 'y', 'yh', 'points', 'coef', 'eps', 'o', 'fit']
        return {k: c[k] for k in keys if k in c}

    def describe(self, c):
        if c['kind'] == 'metric':
            return ('y=np.array(%r); yh=np.array(%r); eps=%r; kneeliverse.metrics.{r2(y,yh,R2.classic), r2(..adjusted), rmse, rmsle, rmspe(eps), rpd(eps), '
                    'residuals, smape(eps)}(y, yh), the symmetric ones on (yh, y), all on (y, y); outputs in the order documented in coq/Run/JudgeC16.v'
                    % (c['y'], c['yh'], c['eps']))
        return ('P=np.array(%r); coef=%r; eps=%r; kneeliverse.linear_fit.{linear_fit_points(P), linear_transform_points, linear_r2_points, rmspe_points, '
                'rmsle_points, smape_points, rpd_points, rmse_points, linear_residuals_points, linear_fit_residuals_points, r2, r2_points} vs '
                'kneeliverse.metrics.*(P[:,1], linear_transform(P[:,0], coef)); order documented in coq/Run/JudgeC16.v' % (c['points'], c['coef'], c['eps']))


fcommon.install()

if __name__ == '__main__':
    main(C16)
