# C10 — Z-method knees are valid, height-ordered and mutually separated
import ast, math, sys, random
from core import *
import gen

DZ_GRID = [1.0, 0.5, 0.25, 0.1, 0.05, 0.3, 0.01]
DX_GRID = [0.05, 0.1, 0.2, 0.3, 0.5, 1.0]
DY_GRID = [0.05, 0.1, 0.2, 0.3, 0.5, 1.0]


def _curve(rng, n, fam):
    """miss-ratio-like: strictly increasing non-negative integer x, y in [0,1]"""
    if fam == 'mrc':
        f, pts = gen.mrc_curve(rng, n)
        return 'mrc-' + f, [int(p[0]) for p in pts], [float(p[1]) for p in pts]
    x = rng.choice([0, 1, 2])
    step = rng.choice([[1], [1, 1, 2], [1, 2, 3, 5], [2, 4], [1, 1, 1, 7]])
    ks = []
    for _ in range(n):
        ks.append(x)
        x += rng.choice(step)
    if fam == 'linear':           # csd == 0 everywhere: every z-score is tied
        a = rng.choice([0.0, 1.0 / 64, 1.0 / 32])
        ys = [max(0.0, 1.0 - a * (k - ks[0])) for k in ks]
    elif fam == 'dyadic':         # heights on a coarse dyadic grid: equal heights, exact band arithmetic
        ys = sorted([rng.randint(0, 16) / 16.0 for _ in range(n)], reverse=True)
        if rng.random() < 0.5:
            i = rng.randrange(n)
            ys[i] = rng.randint(0, 16) / 16.0
    elif fam == 'bumps':          # decreasing with bumps upwards: the final sweep has work to do
        ys = []
        y = 1.0
        for i in range(n):
            y = max(0.0, y - rng.choice([0.0, 0.02, 0.05, 0.1, 0.2]))
            ys.append(min(1.0, y + (rng.choice([0.05, 0.1, 0.3]) if rng.random() < 0.25 else 0.0)))
    else:                         # kinks: piecewise linear, few slopes -> sharp second derivatives at few places
        ys = []
        y = 1.0
        s = rng.choice([0.01, 0.05, 0.1])
        for i in range(n):
            if i and rng.random() < 0.3:
                s = rng.choice([0.0, 0.005, 0.01, 0.05, 0.1, 0.2])
            if i:
                y = max(0.0, y - s * (ks[i] - ks[i - 1]))
            ys.append(y)
    return fam, ks, [float(v) for v in ys]


FAMS = ['mrc', 'mrc', 'mrc', 'kinks', 'kinks', 'bumps', 'dyadic', 'linear']


def _make(rng, n, k):
    fam, ks, ys = _curve(rng, n, FAMS[k % len(FAMS)])
    c = {'ks': ks, 'ys': ys, 'family': fam, 'xmax': None, 'yrange': None}
    # x_max: default (point count) / the largest x / something else
    xm_kind = ['none', 'none', 'maxx', 'rand'][(k // 2) % 4]
    if xm_kind == 'maxx':
        c['xmax'] = max(1, ks[-1] + rng.choice([0, 1]))
    elif xm_kind == 'rand':
        c['xmax'] = rng.randint(1, 3 * ks[-1] + 1)
    xm = c['xmax'] if c['xmax'] else n
    # dx: grid, or such that max(1, int(x_max*dx)) equals an observed gap between two points
    dx_kind = ['grid', 'gap', 'grid', 'gap2'][(k // 3) % 4]
    c['dx'] = DX_GRID[(k // 5) % len(DX_GRID)]
    if dx_kind != 'grid':
        i = rng.randrange(n - 1)
        j = min(n - 1, i + (1 if dx_kind == 'gap' else rng.randint(1, 3)))
        g = ks[j] - ks[i]
        if 1 <= g <= xm:
            d = g / xm
            for cand in (d, math.nextafter(d, 2.0), math.nextafter(d, 0.0)):
                if 0 < cand <= 1 and int(xm * cand) == g:
                    c['dx'] = cand
                    break
    # y_range: default / explicit variants
    yr_kind = ['none', 'none', 'none', 'unit', 'own', 'wide'][(k // 7) % 6]
    ymax, ymin = max(ys), min(ys)
    if yr_kind == 'unit':
        c['yrange'] = [1.0, 0.0]
    elif yr_kind == 'own':
        c['yrange'] = [ymax, ymin]
    elif yr_kind == 'wide':
        c['yrange'] = [min(1.0, ymax + 0.125), max(0.0, ymin - 0.125)]
    ya, yb = c['yrange'] if c['yrange'] else (ymax, ymin)
    # dy: grid, or such that (y_max - y_min) * dy is (within an ulp of) an observed height difference
    dy_kind = ['grid', 'gap', 'gapnext', 'grid'][(k // 11) % 4]
    c['dy'] = DY_GRID[(k // 13) % len(DY_GRID)]
    if dy_kind != 'grid' and ya - yb > 0:
        i, j = rng.randrange(n), rng.randrange(n)
        g = abs(ys[i] - ys[j])
        d = g / (ya - yb)
        if dy_kind == 'gapnext':
            d = math.nextafter(d, rng.choice([0.0, 2.0]))
        if 0 < d <= 1:
            c['dy'] = d
    c['dz'] = DZ_GRID[k % len(DZ_GRID)]
    return c


class C10:
    id = 'C10'
    judge_module = 'Run.JudgeC10'
    rule = ('miss-ratio-like curves (strictly increasing non-negative integer x, y in [0,1]; families: exponential / steps / noisy / '
            'random / piecewise-linear kinks / bumps / dyadic heights / straight lines with all z-scores tied) x (dx, dy, dz) in (0,1], '
            'enumerated round-robin: grid values, dx with max(1, int(x_max*dx)) equal to an observed x gap, dy with (y_max-y_min)*dy '
            'equal to (or one ulp from) an observed height difference; x_max in {default, largest x, random}; y_range in {default, '
            '[1,0], own range, widened}; non-trivial = at least two knees returned and at least one other point whose z-score is '
            'not below the lowest z-score among the knees (a candidate that was rejected by a band, a group minimum or the sweep); '
            'distinct by the whole input; a separate malformed stream has n in 1..3 (code 6, never a violation); '
            'same-object stream (one case in 6): one ndarray is filled with a curve A, analysed, overwritten IN PLACE with a sibling curve B '
            '(same n; new y column, in a third of the cases new x column; same or different dx/dy/dz/x_max/y_range) and analysed again: '
            'the second result is judged against the model and the z-score oracle of B alone (computed beforehand from a fresh copy)')
    assumptions = ['x are integers below 2^52 (so the dict keys int(x) and the float comparisons of x are exact: evaluated per case as int_ok)',
                   'z_total preconditions evaluated per case: (i) the float schedule 3, 3-dz, ... is <= min z from step K to K+n+2, '
                   '(ii) no point survives its own band filter; a case where one fails is counted outside the domain',
                   'the z-scores contain no NaN (checked per case)']
    trusted = ['modelled: zmethod.getPoints / map_index / knees control flow and band arithmetic (bit-exact on binary64)',
               'oracle: the z-score array = uts.zscore.zscore_array(x, uts.gradient.csd(x, y)) evaluated by the harness with the installed uts',
               'np.argsort on tied candidate keys: the model returns every result reachable under the orders of tied candidates (<= 64), '
               'agreement = membership; the theorems hold for every processing order',
               'the dict {int(x): y} + sorted(keys) is modelled as a key-sorted association list with overwrite',
               'round count observed with sys.monitoring LINE events on the first statement of the while body of getPoints']
    timeout = 3.0
    round_cap = 6000      # far above any K + n + 2 in the generated domain (dz >= 0.01): a run that exceeds it is cut off
    shard = 120

    def generate(self, rng, tier):
        cases = []
        nreg = {'quick': 420, 'search': 300, 'thorough': 20000}.get(tier, 420)
        nmax = {'quick': 18, 'search': 14, 'thorough': 64}.get(tier, 18)
        off = rng.randrange(10007)
        for k in range(nreg):
            if tier == 'thorough' and k % 3 == 0:
                n = rng.randint(4, nmax)
            else:
                n = rng.randint(4, min(nmax, 18))
            cases.append(_make(rng, n, k + off))
        for k in range({'quick': 12, 'search': 4, 'thorough': 60}.get(tier, 12)):
            c = _make(rng, 6, k)
            m = rng.randint(1, 3)
            c['ks'], c['ys'] = c['ks'][:m], c['ys'][:m]
            c['family'] = 'malformed'
            cases.append(c)
        # same-object stream (one case in ~6): ONE points buffer is filled with curve A and analysed, then refilled IN PLACE
        # with a sibling curve B (same n; other y column, in a third of the cases other x column too) and analysed again;
        # the SECOND call is the one that is judged, against the model of B alone
        rng2 = random.Random(rng.randrange(1 << 30))
        for k in range(nreg // 5):
            n = rng2.randint(4, nmax if (tier == 'thorough' and k % 3 == 0) else min(nmax, 18))
            a = _make(rng2, n, rng2.randrange(10007))
            b = _make(rng2, n, rng2.randrange(10007))
            mode = k % 3
            if mode != 2:                       # the usual buffer reuse: x column written once, y column overwritten
                b = self._with_ks(rng2, b, a['ks'])
            if mode == 0:                       # a parameter sweep continued on the next workload: same parameters
                for key in ('dx', 'dy', 'dz', 'xmax', 'yrange'):
                    b[key] = a[key]
            b['prev'] = {key: a[key] for key in ('ks', 'ys', 'dx', 'dy', 'dz', 'xmax', 'yrange')}
            b['family'] = 'reuse:' + b['family']
            cases.append(b)
        return cases

    @staticmethod
    def _with_ks(rng, c, ks):
        """curve c moved onto the abscissae ks (an explicit x_max is re-drawn near the new largest x)"""
        c = dict(c)
        c['ks'] = list(ks)
        if c.get('xmax'):
            c['xmax'] = max(1, ks[-1] + rng.choice([0, 1]))
        return c

    # --- running the implementation -------------------------------------------------------------
    @staticmethod
    def _points(c):
        import numpy as np
        return np.array([[float(k), float(y)] for k, y in zip(c['ks'], c['ys'])])

    @staticmethod
    def _zscores(c):
        import numpy as np
        import uts.gradient as grad
        import uts.zscore as uz
        p = C10._points(c)
        if len(p) < 3:
            return [0.0] * len(p)
        with np.errstate(all='ignore'):
            return [float(v) for v in uz.zscore_array(p[:, 0], grad.csd(p[:, 0], p[:, 1]))]

    _line = None

    @classmethod
    def _body_line(cls, zm):
        """line number of the first statement of `while True:` in getPoints (found in the current source)"""
        if cls._line is None:
            cls._line = 0
            try:
                tree = ast.parse(open(zm.__file__).read())
                for fn in ast.walk(tree):
                    if isinstance(fn, ast.FunctionDef) and fn.name == 'getPoints':
                        for node in ast.walk(fn):
                            if isinstance(node, ast.While):
                                cls._line = node.body[0].lineno
                                break
            except Exception:
                cls._line = 0
        return cls._line

    def run_impl(self, c):
        import numpy as np
        import kneeliverse.zmethod as zm
        c = dict(c)
        # oracle and model input come from a fresh copy of the judged curve, computed BEFORE the implementation is touched
        c['zs'] = self._zscores(c)
        prev = c.get('prev')
        if prev:
            # one buffer object: curve A analysed first, then overwritten in place with the judged curve B
            pts = np.empty((len(prev['ks']), 2))
            pts[:, 0] = [float(k) for k in prev['ks']]
            pts[:, 1] = [float(y) for y in prev['ys']]
            try:
                st0, out0 = call(zm.knees, pts, prev['dx'], prev['dy'], prev['dz'], prev['xmax'], prev['yrange'])
            except RoundLimit:
                st0, out0 = 'exc', 'RoundLimit'
            c['prev_out'] = as_nat_list(out0) if st0 == 'ok' else None
            pts[:, 0] = [float(k) for k in c['ks']]
            pts[:, 1] = [float(y) for y in c['ys']]
        else:
            pts = self._points(c)
        line = self._body_line(zm)
        count = [0]
        mon = sys.monitoring
        tool = mon.PROFILER_ID
        code = zm.getPoints.__code__
        armed = False
        if line:
            try:
                if mon.get_tool(tool) is None:
                    mon.use_tool_id(tool, 'c10')

                cap = self.round_cap

                def on_line(co, ln):
                    if co is code and ln == line:
                        count[0] += 1
                        if count[0] > cap:
                            raise RoundLimit()
                mon.register_callback(tool, mon.events.LINE, on_line)
                mon.set_local_events(tool, code, mon.events.LINE)
                armed = True
            except Exception:
                armed = False
        try:
            st, out = call(zm.knees, pts, c['dx'], c['dy'], c['dz'], c['xmax'], c['yrange'])
        except RoundLimit:
            st, out = 'exc', 'RoundLimit'
        finally:
            if armed:
                mon.set_local_events(tool, code, 0)
                mon.register_callback(tool, mon.events.LINE, None)
        c['out'] = as_nat_list(out) if st == 'ok' else None
        c['exc'] = None if st == 'ok' else str(out)
        c['rounds'] = count[0] if armed else None
        return c

    def on_timeout(self, c):
        c = dict(c)
        c['zs'] = self._zscores(c)
        c['out'] = None
        c['exc'] = 'timeout'
        c['rounds'] = None
        return c

    def emit(self, c):
        yr = c.get('yrange')
        return 'CZ %s %s %s %s %s %s %s %s %s %s' % (
            clist([cZ(k) for k in c['ks']]), cfls(c['ys']), cfls(c.get('zs') or []), fl(c['dx']), fl(c['dy']), fl(c['dz']),
            copt(c.get('xmax'), cZ), copt(yr, lambda p: '(%s, %s)' % (fl(p[0]), fl(p[1]))),
            copt(c.get('out'), cnats), copt(c.get('rounds'), cnat))

    # --- evidence ---------------------------------------------------------------------------------
    def nontrivial_key(self, c):
        out = c.get('out')
        if not out or len(out) < 2 or len(c['ks']) < 4:
            return None
        zs = c['zs']
        try:
            lo = min(zs[i] for i in out)
        except Exception:
            return None
        if any(zs[i] >= lo for i in range(len(zs)) if i not in out):
            return case_hash({k: c.get(k) for k in ('ks', 'ys', 'dx', 'dy', 'dz', 'xmax', 'yrange', 'prev')})
        return None

    def classify(self, c):
        n = len(c['ks'])
        zs = c.get('zs') or []
        out = c.get('out')
        return {'n': n // 4 * 4, 'family': c.get('family'), 'knees': 'none' if out is None else min(len(out), 6),
                'x_max': 'default' if not c.get('xmax') else 'given', 'y_range': 'default' if not c.get('yrange') else 'given',
                'dz': c['dz'], 'tied_z': len(set(zs)) < len(zs),
                'rounds': 'n/a' if c.get('rounds') is None else min(c['rounds'] // 10 * 10, 300),
                'stream': 'same-object (2nd call judged)' if c.get('prev') else 'single call',
                'outcome': c.get('exc') or 'ok'}

    def shrink(self, c):
        out = []
        n = len(c['ks'])
        if c.get('exc') == 'timeout':       # each candidate costs a full time-out: propose only a few
            for lo, hi in ((0, n // 2), (n // 2, n), (0, 4), (n - 4, n)):
                if hi - lo >= 4 and hi - lo < n:
                    d = dict(c)
                    d['ks'], d['ys'] = c['ks'][lo:hi], c['ys'][lo:hi]
                    if c.get('prev'):
                        d['prev'] = dict(c['prev'], ks=c['prev']['ks'][lo:hi], ys=c['prev']['ys'][lo:hi])
                    out.append(d)
            for key in ('xmax', 'yrange'):
                if c.get(key):
                    d = dict(c); d[key] = None; out.append(d)
            for d in out:
                for k in ('zs', 'out', 'rounds', 'exc', 'prev_out'):
                    d.pop(k, None)
            return out
        prev = c.get('prev')
        for j in range(n):
            if n > 4:
                d = dict(c)
                d['ks'] = c['ks'][:j] + c['ks'][j + 1:]
                d['ys'] = c['ys'][:j] + c['ys'][j + 1:]
                if prev:
                    d['prev'] = dict(prev, ks=prev['ks'][:j] + prev['ks'][j + 1:], ys=prev['ys'][:j] + prev['ys'][j + 1:])
                out.append(d)
        if prev:
            d = dict(c); d.pop('prev'); out.append(d)          # does it fail as a single call as well?
            if prev['ks'] != c['ks']:
                d = dict(c); d['prev'] = dict(prev, ks=list(c['ks'])); out.append(d)
            for key, v in (('xmax', None), ('yrange', None), ('dx', c['dx']), ('dy', c['dy']), ('dz', c['dz'])):
                if prev[key] != v:
                    d = dict(c); d['prev'] = dict(prev, **{key: v}); out.append(d)
        if c.get('xmax'):
            d = dict(c); d['xmax'] = None; out.append(d)
        if c.get('yrange'):
            d = dict(c); d['yrange'] = None; out.append(d)
        for key, grid in (('dz', [1.0, 0.5]), ('dx', [0.5, 0.1]), ('dy', [0.5, 0.1])):
            for v in grid:
                if c[key] != v:
                    d = dict(c); d[key] = v; out.append(d)
        ys2 = [round(y * 16) / 16.0 for y in c['ys']]
        if ys2 != c['ys']:
            d = dict(c); d['ys'] = ys2; out.append(d)
        for d in out:
            for k in ('zs', 'out', 'rounds', 'exc', 'prev_out'):
                d.pop(k, None)
        return out

    def sample(self, c):
        return {k: c.get(k) for k in ('family', 'ks', 'ys', 'dx', 'dy', 'dz', 'xmax', 'yrange', 'out', 'rounds', 'prev') if k != 'prev' or c.get('prev')}

    def describe(self, c):
        prev = c.get('prev')
        if prev:
            return ('buf = np.empty((%d, 2)); buf[:] = %s; kneeliverse.zmethod.knees(buf, dx=%r, dy=%r, dz=%r, x_max=%r, y_range=%r)  # first call, returned %s; '
                    'then IN PLACE buf[:] = %s; kneeliverse.zmethod.knees(buf, dx=%r, dy=%r, dz=%r, x_max=%r, y_range=%r)  # judged call, returned %s after %s rounds%s'
                    % (len(prev['ks']), [[k, y] for k, y in zip(prev['ks'], prev['ys'])], prev['dx'], prev['dy'], prev['dz'], prev['xmax'], prev['yrange'],
                       c.get('prev_out'), [[k, y] for k, y in zip(c['ks'], c['ys'])], c['dx'], c['dy'], c['dz'], c.get('xmax'), c.get('yrange'),
                       c.get('out'), c.get('rounds'), (' (' + c['exc'] + ')') if c.get('exc') else ''))
        return ('kneeliverse.zmethod.knees(np.array(%s, dtype=float), dx=%r, dy=%r, dz=%r, x_max=%r, y_range=%r)  # returned %s after %s rounds%s'
                % ([[k, y] for k, y in zip(c['ks'], c['ys'])], c['dx'], c['dy'], c['dz'], c.get('xmax'), c.get('yrange'),
                   c.get('out'), c.get('rounds'), (' (' + c['exc'] + ')') if c.get('exc') else ''))


class RoundLimit(BaseException):
    """the while loop of getPoints ran more than round_cap times (reported like a time-out: no result).
    A BaseException, like core.Timeout, so that an `except Exception` in the code under test cannot swallow it."""


def as_nat_list(a):
    try:
        out = []
        for v in list(a):
            f = float(v)
            if f != int(f) or f < 0:
                return None
            out.append(int(f))
        return out
    except Exception:
        return None


if __name__ == '__main__':
    main(C10)
