# C17 — geometric and ranking primitives equal their geometric definitions
import math, random, itertools
from core import *
import gen
import fcommon
from fcommon import BitExact, vec, nudge

KINDS = ['short', 'perp', 'perpidx', 'rect', 'menger', 'rank', 'dist', 'sim', 'tri']
SCALES = [1e-100, 1e-30, 1e-8, 1.0, 1.0, 1.0, 1e8, 1e30, 1e40]
LIM = 1e45


def okmag(pts):
    return all(abs(v) <= LIM for p in pts for v in p)


class C17(BitExact):
    id = 'C17'
    judge_module = 'Run.JudgeC17'
    rule = ('nine primitives round-robin: shortest / perpendicular distance (point sets of 1..12 (quick) / 1..64 (thorough) points from the curve '
            'families of gen.curve and random integer / real clouds at scales 1e-100..1e40; a, b = the end points, arbitrary points, a = b, points '
            'beyond both ends so that every clamp branch is taken, exactly collinear sets), perpendicular_distance_index on every kind of sub-range, '
            'rect / rect_overlap (integer grids with touching, nested, identical, disjoint and zero-area rectangles; real and scaled coordinates), '
            'Menger curvature (random, exactly collinear, nearly collinear, right-angled, isosceles triples; all six argument orders), rank (distinct, '
            'tied, signed-zero and infinite values), distances, distance_to_similarity, triangle_area / _ccw; non-trivial = a non-degenerate instance '
            '(a != b and some point off the line; positive non-identical overlap; non-collinear triple; >= 2 distinct values); distinct by inputs')
    assumptions = ['finite coordinates with |v| <= 2^150 and differences that are 0 or >= 2^-400 (no overflow / underflow of the squared lengths); '
                   'perpendicular distance needs a != b; Menger curvature needs three pairwise distinct points; rank / distance_to_similarity inputs without NaN',
                   'np.argsort is not stable on ties: rank cases with tied values are judged on the predicate only (agree code 5)']
    trusted = ['modelled: np.linalg.norm of a 2-vector as sqrt(x*x+y*y), np.hypot(h,c) as sqrt(h*h+c*c), ** 2.0 and np.power(.,2) as x*x '
               '(compared under tolerance); np.argsort as any sorting permutation (theorem) / a stable sort (executable model)']
    timeout = 30.0
    shard = 300

    # ------------------------------------------------------------------ generators
    def cloud(self, rng, n):
        r = rng.random()
        if r < 0.45 and n >= 2:
            for _ in range(5):
                fam, pts = gen.curve(rng, n)
                if okmag(pts):
                    return fam, pts
        s = rng.choice(SCALES)
        if r < 0.7:
            m = rng.choice([2, 3, 5, 9])
            return 'intcloud', [[float(rng.randint(-m, m)) * s, float(rng.randint(-m, m)) * s] for _ in range(n)]
        if r < 0.85:
            # exactly collinear (dyadic direction), with points beyond both ends
            ox, oy = float(rng.randint(-3, 3)), float(rng.randint(-3, 3))
            dx, dy = rng.choice([(1, 0), (0, 1), (1, 1), (2, -1), (1, 0.5), (4, 3)])
            return 'collinear', [[(ox + t * dx) * s, (oy + t * dy) * s] for t in [float(rng.randint(-4, 8)) for _ in range(n)]]
        return 'realcloud', [[rng.uniform(-5, 5) * s, rng.uniform(-5, 5) * s] for _ in range(n)]

    def gen_seg(self, rng, pts, allow_same):
        r = rng.random()
        if r < 0.45:
            a, b = pts[0], pts[-1]
        elif r < 0.7:
            a, b = rng.choice(pts), rng.choice(pts)
        elif r < 0.9:
            i = rng.randrange(len(pts))
            j = rng.randrange(len(pts))
            a = [pts[i][0], pts[j][1]]
            b = [pts[j][0] + (pts[-1][0] - pts[0][0]) * 0.25, pts[i][1]]
        else:
            a = rng.choice(pts)
            b = list(a)
        a, b = list(a), list(b)
        if not allow_same and a == b:
            b = [a[0] + (abs(a[0]) if a[0] != 0 else 1.0), a[1]]
        return a, b

    def gen_triple(self, rng):
        s = rng.choice(SCALES)
        r = rng.random()
        if r < 0.25:
            p = [[float(rng.randint(-5, 5)), float(rng.randint(-5, 5))] for _ in range(3)]
            fam = 'int'
        elif r < 0.45:
            ox, oy = float(rng.randint(-3, 3)), float(rng.randint(-3, 3))
            dx, dy = rng.choice([(1, 0), (0, 1), (1, 1), (2, -1), (1, 0.5), (4, 3)])
            ts = rng.sample([-3.0, -1.0, 0.0, 0.5, 1.0, 2.0, 5.0], 3)
            p = [[ox + t * dx, oy + t * dy] for t in ts]
            fam = 'collinear'
        elif r < 0.6:
            ox, oy = rng.uniform(-3, 3), rng.uniform(-3, 3)
            dx, dy = rng.uniform(-2, 2), rng.uniform(-2, 2)
            p = [[ox + t * dx, oy + t * dy] for t in (0.0, 1.0, rng.uniform(1.5, 4))]
            p[1][1] = nudge(rng, p[1][1])
            fam = 'nearcollinear'
        elif r < 0.7:
            a = rng.uniform(0.5, 3)
            p = [[0.0, 0.0], [a, 0.0], [a, rng.uniform(0.5, 3)]]
            fam = 'right'
        elif r < 0.8:
            p = [[0.0, 0.0], [1.0, rng.uniform(0.1, 5)], [2.0, 0.0]]
            fam = 'isosceles'
        elif r < 0.88:
            q = [float(rng.randint(-3, 3)), float(rng.randint(-3, 3))]
            p = [q, list(q), [float(rng.randint(-3, 3)), float(rng.randint(-3, 3))]]
            rng.shuffle(p)
            fam = 'coincident'
        else:
            p = [[rng.uniform(-5, 5), rng.uniform(-5, 5)] for _ in range(3)]
            fam = 'real'
        return fam, [[v[0] * s, v[1] * s] for v in p]

    def gen_rects(self, rng):
        s = rng.choice(SCALES)
        r = rng.random()
        if r < 0.45:
            g = lambda: float(rng.randint(0, 4))
            pts = [[g(), g()] for _ in range(4)]
            fam = 'grid'
        elif r < 0.55:
            p1, p2 = [rng.uniform(0, 5), rng.uniform(0, 5)], [rng.uniform(0, 5), rng.uniform(0, 5)]
            pts = [p1, p2, list(p2), list(p1)]
            fam = 'identical'
        elif r < 0.65:
            x = rng.uniform(0, 5)
            pts = [[x, rng.uniform(0, 5)], [x, rng.uniform(0, 5)], [rng.uniform(0, 5), rng.uniform(0, 5)], [rng.uniform(0, 5), rng.uniform(0, 5)]]
            fam = 'zeroarea'
        elif r < 0.75:
            pts = [[0.0, 0.0], [4.0, 4.0], [rng.uniform(0.5, 1.5), rng.uniform(0.5, 1.5)], [rng.uniform(2, 3.5), rng.uniform(2, 3.5)]]
            fam = 'nested'
        elif r < 0.85:
            x = rng.uniform(1, 3)
            pts = [[0.0, 0.0], [x, 2.0], [x, rng.uniform(0, 1)], [x + rng.uniform(0.5, 2), 3.0]]
            fam = 'touching'
        else:
            pts = [[rng.uniform(0, 5), rng.uniform(0, 5)] for _ in range(4)]
            fam = 'real'
        return fam, [[p[0] * s, p[1] * s] for p in pts]

    def gen_values(self, rng, n):
        r = rng.random()
        if r < 0.3:
            return 'distinct', rng.sample([float(v) for v in range(-2 * n - 2, 2 * n + 3)], n)
        if r < 0.5:
            return 'real', [rng.uniform(-10, 10) for _ in range(n)]
        if r < 0.7:
            m = rng.choice([1, 2, 3])
            return 'ties', [float(rng.randint(0, m)) for _ in range(n)]
        if r < 0.8:
            return 'signedzero', [rng.choice([0.0, -0.0, 1.0]) for _ in range(n)]
        if r < 0.9:
            return 'scaled', [rng.uniform(0, 10) * 10.0 ** rng.choice([-300, -8, 0, 8, 300]) for _ in range(n)]
        return 'inf', [rng.choice([math.inf, -math.inf, 0.0, 1.0, rng.uniform(-5, 5)]) for _ in range(n)]

    def generate(self, rng, tier):
        total, nmax = {'quick': (640, 12), 'search': (450, 12), 'thorough': (45000, 64)}.get(tier, (640, 12))
        cases = []
        for k in range(total):
            kind = KINDS[k % len(KINDS)]
            n = ((k // len(KINDS)) % nmax) + 1 if k < 2 * nmax * len(KINDS) else rng.randint(1, nmax)
            if kind in ('short', 'perp'):
                fam, pts = self.cloud(rng, n)
                a, b = self.gen_seg(rng, pts, kind == 'short')
                cases.append({'kind': kind, 'family': fam, 'points': pts, 'a': a, 'b': b})
            elif kind == 'perpidx':
                fam, pts = self.cloud(rng, n)
                l = rng.randrange(n)
                r = rng.randrange(l, n)
                if rng.random() < 0.3:
                    l, r = 0, n - 1
                cases.append({'kind': kind, 'family': fam, 'points': pts, 'l': l, 'r': r})
            elif kind == 'rect':
                fam, pts = self.gen_rects(rng)
                cases.append({'kind': kind, 'family': fam, 'pts': pts})
            elif kind in ('menger', 'tri'):
                fam, pts = self.gen_triple(rng)
                cases.append({'kind': kind, 'family': fam, 'pts': pts})
            elif kind == 'rank':
                m = rng.choice([0, 1]) if rng.random() < 0.05 else n
                fam, vals = self.gen_values(rng, m)
                cases.append({'kind': kind, 'family': fam, 'values': vals})
            elif kind == 'sim':
                fam, vals = self.gen_values(rng, n)
                if fam == 'inf':
                    fam, vals = 'real', [rng.uniform(0, 10) for _ in range(n)]
                cases.append({'kind': kind, 'family': fam, 'values': vals})
            else:
                fam, pts = self.cloud(rng, n)
                q = list(rng.choice(pts)) if rng.random() < 0.5 else [pts[0][0] + 1.0, pts[-1][1] - 0.5]
                cases.append({'kind': kind, 'family': fam, 'points': pts, 'q': q})
        return cases

    # ------------------------------------------------------------------ implementation
    def on_timeout(self, c):
        c = dict(c)
        c['skip'] = 'timeout'
        return c

    def run_impl(self, c):
        import numpy as np
        import kneeliverse.linear_fit as lf
        import kneeliverse.knee_ranking as kr
        import kneeliverse.menger as mg
        import kneeliverse.postprocessing as pp
        import kneeliverse.convex_hull as ch
        c = dict(c)

        def flist(f, *a):
            st, v = call(f, *a)
            if st != 'ok':
                return None
            try:
                return [float(t) for t in np.asarray(v, dtype=float).ravel()]
            except Exception:
                return None

        def val(f, *a):
            st, v = call(f, *a)
            if st != 'ok':
                return None
            try:
                return float(v)
            except Exception:
                return None

        k = c['kind']
        if k in ('short', 'perp'):
            P = np.array(c['points'], dtype=float).reshape(-1, 2)
            a = np.array(c['a'], dtype=float)
            b = np.array(c['b'], dtype=float)
            c['out'] = flist(lf.shortest_distance_points if k == 'short' else lf.perpendicular_distance_points, P, a, b)
        elif k == 'perpidx':
            P = np.array(c['points'], dtype=float).reshape(-1, 2)
            l, r = c['l'], c['r']
            c['oidx'] = flist(lf.perpendicular_distance_index, P, l, r)
            c['opts'] = flist(lf.perpendicular_distance_points, P[l:r + 1], P[l], P[r])
            c['owhole'] = flist(lf.perpendicular_distance, P)
        elif k == 'rect':
            p = [np.array(v, dtype=float) for v in c['pts']]
            rects = []
            for u, v in ((p[0], p[1]), (p[2], p[3])):
                st, rr = call(kr.rect, u, v)
                if st == 'ok':
                    try:
                        rects.append([[float(rr[0][0]), float(rr[0][1])], [float(rr[1][0]), float(rr[1][1])]])
                    except Exception:
                        rects.append(None)
                else:
                    rects.append(None)
            c['ra'], c['rb'] = rects
            if rects[0] is not None and rects[1] is not None:
                A = [np.array(rects[0][0]), np.array(rects[0][1])]
                B = [np.array(rects[1][0]), np.array(rects[1][1])]
                c['o'] = [val(kr.rect_overlap, A[0], A[1], B[0], B[1]), val(kr.rect_overlap, B[0], B[1], A[0], A[1]),
                          val(kr.rect_overlap, A[0], A[1], A[0], A[1]), val(kr.rect_overlap, B[0], B[1], B[0], B[1])]
            else:
                c['o'] = [None] * 4
        elif k == 'menger':
            f, g, h = [np.array(v, dtype=float) for v in c['pts']]
            c['o'] = [val(mg.menger_curvature, *t) for t in ((f, g, h), (g, f, h), (f, h, g), (g, h, f), (h, f, g), (h, g, f))]
        elif k == 'rank':
            st, v = call(kr.rank, np.array(c['values'], dtype=float))
            if st == 'ok':
                try:
                    c['out'] = [int(t) for t in v]
                    if any(t < 0 for t in c['out']):
                        c['out'] = None
                except Exception:
                    c['out'] = None
            else:
                c['out'] = None
        elif k == 'dist':
            P = np.array(c['points'], dtype=float).reshape(-1, 2)
            c['out'] = flist(kr.distances, np.array(c['q'], dtype=float), P)
        elif k == 'sim':
            c['out'] = flist(kr.distance_to_similarity, np.array(c['values'], dtype=float))
        else:
            p = np.array(c['pts'], dtype=float)
            c['o'] = [val(pp.triangle_area, p), val(ch._ccw, p[0], p[1], p[2]), val(ch._ccw, p[0], p[2], p[1]),
                      val(pp.triangle_area, p[[1, 2, 0]])]
        return c

    # ------------------------------------------------------------------ Coq term
    def emit(self, c):
        if c.get('skip'):
            return 'CRank [nan%float] None'
        k = c['kind']
        pt = lambda p: '(%s, %s)' % (fl(p[0]), fl(p[1]))
        ofl = lambda o: copt(o, cfls)
        oo = lambda o: clist([copt(v, fl) for v in o])
        if k in ('short', 'perp'):
            return '%s %s %s %s %s' % ('CShort' if k == 'short' else 'CPerp', cpts(c['points']), pt(c['a']), pt(c['b']), ofl(c['out']))
        if k == 'perpidx':
            return 'CPerpIdx %s %s %s %s %s %s' % (cpts(c['points']), cnat(c['l']), cnat(c['r']), ofl(c['oidx']), ofl(c['opts']), ofl(c['owhole']))
        if k == 'rect':
            orr = lambda r: 'None' if r is None else '(Some (%s, %s))' % (pt(r[0]), pt(r[1]))
            p = c['pts']
            return 'CRect %s %s %s %s %s %s %s' % (pt(p[0]), pt(p[1]), pt(p[2]), pt(p[3]), orr(c['ra']), orr(c['rb']), oo(c['o']))
        if k == 'menger':
            p = c['pts']
            return 'CMenger %s %s %s %s' % (pt(p[0]), pt(p[1]), pt(p[2]), oo(c['o']))
        if k == 'rank':
            return 'CRank %s %s' % (cfls(c['values']), copt(c['out'], cnats))
        if k == 'dist':
            return 'CDist %s %s %s' % (pt(c['q']), cpts(c['points']), ofl(c['out']))
        if k == 'sim':
            return 'CSim %s %s' % (cfls(c['values']), ofl(c['out']))
        p = c['pts']
        return 'CTri %s %s %s %s' % (pt(p[0]), pt(p[1]), pt(p[2]), oo(c['o']))

    # ------------------------------------------------------------------ evidence
    def nontrivial_key(self, c):
        if c.get('skip'):
            return None
        k = c['kind']
        h = json.dumps({x: c[x] for x in ('points', 'a', 'b', 'l', 'r', 'pts', 'values', 'q') if x in c})
        if k in ('short', 'perp'):
            return (k, h) if c['a'] != c['b'] and c.get('out') and any(v > 0 for v in c['out']) else None
        if k == 'perpidx':
            return (k, h) if c.get('oidx') and any(v > 0 for v in c['oidx']) else None
        if k == 'rect':
            o = c.get('o') or [None]
            return (k, h) if o[0] is not None and 0 < o[0] < 1 else None
        if k in ('menger', 'tri'):
            o = c.get('o') or [None]
            return (k, h) if o[0] is not None and o[0] == o[0] and o[0] != 0 else None
        if k in ('rank', 'sim'):
            return (k, h) if len(set(c['values'])) >= 2 else None
        return (k, h) if c.get('out') and any(v > 0 for v in c['out']) else None

    def classify(self, c):
        if c.get('skip'):
            return {'kind': 'skipped'}
        k = c['kind']
        h = {'kind': k, 'family': k + ':' + c['family']}
        if 'points' in c:
            n = len(c['points'])
            h['n'] = '%02d-%02d' % (n // 8 * 8, n // 8 * 8 + 7)
        if 'values' in c:
            n = len(c['values'])
            h['n'] = '%02d-%02d' % (n // 8 * 8, n // 8 * 8 + 7)
        if k == 'short':
            h['segment'] = 'a=b' if c['a'] == c['b'] else 'a!=b'
        if k == 'rank':
            h['rank_ties'] = 'tied' if len(set(c['values'])) < len(c['values']) else 'distinct'
        if '_cmps' in c and c['_cmps']:
            h['inexact_comparisons:' + k] = 'none' if c['_cmps'] == c['_exact'] else 'some'
        return h

    def shrink(self, c):
        out = []
        for key in ('points', 'values'):
            if key in c and len(c[key]) > 1:
                for j in range(len(c[key])):
                    d = dict(c)
                    d[key] = c[key][:j] + c[key][j + 1:]
                    if c['kind'] == 'perpidx':
                        d['l'] = min(c['l'], len(d[key]) - 1)
                        d['r'] = max(d['l'], min(c['r'], len(d[key]) - 1))
                    out.append(d)
        drop = ('out', 'o', 'oidx', 'opts', 'owhole', 'ra', 'rb')
        return [{k: v for k, v in d.items() if not k.startswith('_') and k not in drop} for d in out]

    def sample(self, c):
        return {k: v for k, v in c.items() if not k.startswith('_')}

    def describe(self, c):
        k = c['kind']
        if k in ('short', 'perp'):
            return 'kneeliverse.linear_fit.%s(np.array(%r), np.array(%r), np.array(%r))' % (
                'shortest_distance_points' if k == 'short' else 'perpendicular_distance_points', c['points'], c['a'], c['b'])
        if k == 'perpidx':
            return 'P=np.array(%r); lf.perpendicular_distance_index(P, %d, %d) vs lf.perpendicular_distance_points(P[%d:%d], P[%d], P[%d]); lf.perpendicular_distance(P)' % (
                c['points'], c['l'], c['r'], c['l'], c['r'] + 1, c['l'], c['r'])
        if k == 'rect':
            return 'p=%r; A=kr.rect(p[0],p[1]); B=kr.rect(p[2],p[3]); kr.rect_overlap(*A,*B), (*B,*A), (*A,*A), (*B,*B)' % (c['pts'],)
        if k == 'menger':
            return 'f,g,h=%r; kneeliverse.menger.menger_curvature on the orders fgh, gfh, fhg, ghf, hfg, hgf' % (c['pts'],)
        if k == 'rank':
            return 'kneeliverse.knee_ranking.rank(np.array(%r))' % (c['values'],)
        if k == 'dist':
            return 'kneeliverse.knee_ranking.distances(np.array(%r), np.array(%r))' % (c['q'], c['points'])
        if k == 'sim':
            return 'kneeliverse.knee_ranking.distance_to_similarity(np.array(%r))' % (c['values'],)
        return 'p=np.array(%r); postprocessing.triangle_area(p), convex_hull._ccw(p[0],p[1],p[2]), _ccw(p[0],p[2],p[1]), triangle_area(p[[1,2,0]])' % (c['pts'],)


fcommon.install()

if __name__ == '__main__':
    main(C17)
