# harness/gen.py — input generators (DESIGN.md 2.6).  Every choice derives from the rng passed in.
import math, random, itertools


def xs_increasing(rng, n, kind=None):
    kind = kind or rng.choice(['unit', 'int', 'int', 'float'])
    if kind == 'unit':
        x0 = rng.choice([0, 0, 1, 5])
        return [float(x0 + i) for i in range(n)]
    if kind == 'int':
        x = rng.choice([0, 1, 3])
        out = []
        for _ in range(n):
            out.append(float(x))
            x += rng.choice([1, 1, 1, 2, 3, 4, 7])
        return out
    x = rng.uniform(0, 2)
    out = []
    for _ in range(n):
        out.append(x)
        x += rng.uniform(0.05, 3.0)
    return out


def curve(rng, n, family=None):
    """performance curve: n >= 2 points, finite, strictly increasing x, y >= 0.  Returns (family, [[x,y],...])"""
    fams = ['grid', 'grid', 'collinear', 'collinear', 'convex', 'convex', 'uniform', 'scaled', 'plateau', 'zigzag', 'elbow', 'offset']
    family = family or rng.choice(fams)
    if family == 'grid':
        xs = xs_increasing(rng, n, rng.choice(['unit', 'int']))
        m = rng.choice([2, 3, 5, 9])
        ys = [float(rng.randint(0, m)) for _ in range(n)]
    elif family == 'collinear':
        # piecewise-collinear runs, incl. runs that end at y = 0 and sloped integer runs
        xs = xs_increasing(rng, n, rng.choice(['unit', 'int']))
        ys = []
        y = float(rng.randint(0, 30))
        slope = rng.choice([-3, -2, -1, -0.5, 0, 0.5, 1, 2, 3, 9])
        for i in range(n):
            if i > 0:
                if rng.random() < 0.25:
                    slope = rng.choice([-3, -2, -1, -0.5, 0, 0.5, 1, 2, 3, 9])
                y = y + slope * (xs[i] - xs[i - 1])
                if y < 0:
                    y = 0.0
                    slope = abs(slope)
            ys.append(float(y))
    elif family == 'convex':
        xs = xs_increasing(rng, n, rng.choice(['unit', 'int', 'float']))
        a = rng.uniform(0.05, 1.5)
        c = rng.choice([0.0, 0.0, 0.1])
        ys = [max(0.0, min(1.0, c + (1 - c) * math.exp(-a * (x - xs[0])) + (rng.uniform(-0.02, 0.02) if rng.random() < 0.5 else 0))) for x in xs]
    elif family == 'uniform':
        xs = xs_increasing(rng, n, 'float')
        ys = [rng.uniform(0, 10) for _ in range(n)]
    elif family == 'scaled':
        s = 10.0 ** rng.choice([-150, -30, -8, 8, 30, 150])
        sx = 10.0 ** rng.choice([-8, 0, 0, 8])
        xs = [x * sx for x in xs_increasing(rng, n, 'int')]
        ys = [rng.uniform(0, 10) * s for _ in range(n)]
    elif family == 'offset':
        # ordinary shapes carried by a large additive offset in x and/or y (time-stamps, byte addresses): a tolerance comparison
        # (isclose / allclose, relative 1e-5) treats distinct neighbouring points as equal there, an exact one does not
        # (added after the seeded changes C02-r2m3 / C05-r2m2 / C17-m1)
        base = curve(rng, n, rng.choice(['grid', 'collinear', 'convex', 'zigzag', 'elbow']))[1]
        ox = rng.choice([0.0, 1.0e5, 4.0e6, 1.7e9, 2.0 ** 40])
        oy = rng.choice([0.0, 0.0, 2.0e6, 1.0e9])
        if ox == 0.0 and oy == 0.0:
            ox = 1.7e9
        xs = [p[0] + ox for p in base]
        ys = [p[1] + oy for p in base]
    elif family == 'plateau':
        xs = xs_increasing(rng, n, rng.choice(['unit', 'int']))
        ys = []
        y = float(rng.randint(1, 9))
        for i in range(n):
            if rng.random() < 0.3:
                y = float(rng.randint(0, 9))
            ys.append(y)
    elif family == 'zigzag':
        xs = xs_increasing(rng, n, 'unit')
        a, b = rng.choice([(0, 1), (1, 3), (2, 2.5), (0, 9)])
        ys = [float(a if i % 2 == 0 else b) for i in range(n)]
    else:  # elbow (two slopes, dyadic)
        xs = xs_increasing(rng, n, rng.choice(['unit', 'int']))
        c = rng.randint(0, n - 1)
        m1 = rng.randint(-16, 16) / 8.0
        m2 = rng.randint(-16, 16) / 8.0
        yc = float(rng.randint(0, 64))
        ys = [yc + (m1 if i <= c else m2) * (xs[i] - xs[c]) for i in range(n)]
        lo = min(ys)
        if lo < 0:
            ys = [y - lo for y in ys]
    return family, [[float(x), float(y)] for x, y in zip(xs, ys)]


def mrc_curve(rng, n):
    """miss-ratio-like: strictly increasing non-negative integer x, y in [0,1]"""
    fam = rng.choice(['mono', 'mono', 'steps', 'noisy', 'random'])
    xs = []
    x = rng.choice([0, 1, 2])
    for _ in range(n):
        xs.append(float(x))
        x += rng.choice([1, 1, 1, 2, 3, 5])
    if fam == 'mono':
        a = rng.uniform(0.02, 0.8)
        ys = [math.exp(-a * (v - xs[0])) for v in xs]
    elif fam == 'steps':
        ys = []
        y = 1.0
        for i in range(n):
            if rng.random() < 0.3:
                y = max(0.0, y - rng.choice([0.05, 0.1, 0.25, 0.3]))
            ys.append(y)
    elif fam == 'noisy':
        a = rng.uniform(0.02, 0.5)
        ys = [min(1.0, max(0.0, math.exp(-a * (v - xs[0])) + rng.uniform(-0.05, 0.05))) for v in xs]
    else:
        ys = [rng.choice([0.0, 0.1, 0.25, 0.5, 0.75, 1.0, rng.random()]) for _ in range(n)]
    return fam, [[float(a), float(b)] for a, b in zip(xs, ys)]


def subsets_with_ends(n):
    """all index subsets of 0..n-1 containing 0 and n-1 (as sorted lists)"""
    mid = list(range(1, n - 1))
    for r in range(len(mid) + 1):
        for comb in itertools.combinations(mid, r):
            yield [0] + list(comb) + [n - 1]


def random_subset_with_ends(rng, n, p=None):
    p = rng.random() if p is None else p
    return [0] + [i for i in range(1, n - 1) if rng.random() < p] + [n - 1]


def nextafter(x, d):
    return math.nextafter(x, d)


def wavy_curve(rng, n):
    """decreasing power law plus a sinusoid (non-convex: bumps, several lower-hull gaps); strictly increasing x, y >= 0"""
    a = rng.choice([0.5, 0.7, 1.0])
    amp = rng.choice([1.0, 2.0, 4.0, 8.0])
    w = rng.choice([0.7, 1.3, 2.1])
    xs = [float(i + 1) for i in range(n)]
    ys = [1000.0 / (x ** a) + amp * math.sin(w * x) for x in xs]
    lo = min(ys)
    if lo < 0:
        ys = [y - lo for y in ys]
    return 'wavy', [[x, y] for x, y in zip(xs, ys)]
