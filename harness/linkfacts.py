# harness/linkfacts.py — C20 static part: Python `ast` -> Coq facts (DESIGN.md 2.4(b), 4/C20).
#
# Walks every module under $KNEE_REPO/src/<package> on every run and produces the fact base the Coq checker
# (coq/Model/Linking.v) decides: per module its top-level bindings; per scope (function, lambda, class body,
# comprehension) its own bindings and the chain of enclosing function scopes; every Name load, every attribute
# chain rooted at a name, every call whose callee is a name / attribute chain (positional count, keyword
# names, * / ** flags), every import; plus the symbol tables `dir()` of the installed modules / classes /
# ufuncs that the chains go through, and dir(builtins).
#
# The translator does NOT import the package under test (a broken package must still be translatable); it
# imports only the external modules the package names in its import statements, to read their symbol tables.
#
# FAIL-CLOSED: an AST node kind that is not listed below raises Abort (the check stops with a harness error);
# nothing is ever silently skipped.  What is deliberately approximated (and cannot make a resolving program
# look dangling on this code base) is listed in reports/C20.md.
import ast, os, sys, importlib, builtins, types

try:
    import numpy as _np
    _UFUNC = _np.ufunc
except Exception:  # numpy missing: no ufunc tables
    _UFUNC = ()


class Abort(Exception):
    """the translator met something it does not understand"""


O = ('O',)


def S(key):
    return ('S', key)


IMPLICIT_MODULE_NAMES = ['__name__', '__doc__', '__package__', '__loader__', '__spec__', '__file__', '__cached__', '__builtins__']
SIG_PRESERVING_DECORATORS = {('numba', 'jit'), ('numba', 'njit')}

_BUILTINS = frozenset(dir(builtins))
# leaf node classes that carry no names
_LEAVES = (ast.operator, ast.unaryop, ast.cmpop, ast.boolop, ast.expr_context)


class Scope:
    def __init__(self, name, kind, line, parent):
        self.name = name          # qualified name
        self.kind = kind          # module | function | lambda | class | comp
        self.line = line
        self.parent = parent
        self.sites = {}           # name -> [kind, ...] one entry per binding site (insertion-ordered)
        self.globals_decl = set()
        self.nonlocal_decl = set()
        self.refs = []            # (line, ref)
        self.children = []
        self.class_key = None
        self.simple = name.rsplit('.', 1)[-1]   # for matching CPython's symtable
        self.ctype = None                       # genexpr | listcomp | setcomp | dictcomp
        if parent is not None:
            parent.children.append(self)

    def path(self):
        """[(kind, simple name, line, comprehension type)] from the module body down to this scope"""
        out = []
        s = self
        while s is not None and s.kind != 'module':
            out.append((s.kind, s.simple, s.line, s.ctype))
            s = s.parent
        return out[::-1]

    def bind(self, name, kind=O):
        self.sites.setdefault(name, []).append(kind)

    def qual(self, sub):
        return sub if self.kind == 'module' else self.name + '.' + sub


def sig_of(a):
    """ast.arguments -> signature dict"""
    pos = list(a.posonlyargs) + list(a.args)
    nd = len(a.defaults)
    posl = []
    for i, p in enumerate(pos):
        posl.append((p.arg, i >= len(pos) - nd))
    kwonly = [(p.arg, d is not None) for p, d in zip(a.kwonlyargs, a.kw_defaults)]
    return {'pos': posl, 'posonly': len(a.posonlyargs), 'vararg': a.vararg is not None, 'kwonly': kwonly, 'varkw': a.kwarg is not None}


def chain_of(n):
    """Attribute(Attribute(Name r, a1), a2) -> (Name node, [a1, a2]); other base -> (None, base expr)"""
    chain = []
    while isinstance(n, ast.Attribute):
        chain.append(n.attr)
        n = n.value
    chain.reverse()
    if isinstance(n, ast.Name):
        return n, chain
    return None, n


class ModuleTranslator:
    def __init__(self, world, key, path, is_pkg):
        self.world = world
        self.key = key
        self.path = path
        self.is_pkg = is_pkg
        self.scopes = []          # pre-order
        self.classes = []         # (class key, class scope, [base exprs as (root, chain) or None])
        self.imports = []         # module keys named in import statements

    # ------------------------------------------------------------------ driver
    def run(self):
        try:
            src = open(self.path, encoding='utf-8').read()
            tree = ast.parse(src, filename=self.path)
        except SyntaxError as e:
            raise Abort('%s does not parse: %s' % (self.path, e))
        self.mod = self.new_scope('<module>', 'module', 1, None)
        for name in IMPLICIT_MODULE_NAMES + (['__path__'] if self.is_pkg else []):
            self.mod.bind(name)
        self.body(tree.body, self.mod)
        return self

    def new_scope(self, name, kind, line, parent):
        s = Scope(name, kind, line, parent)
        self.scopes.append(s)
        return s

    def body(self, stmts, sc):
        for s in stmts:
            self.stmt(s, sc)

    # ------------------------------------------------------------------ statements
    def stmt(self, n, sc):
        t = type(n)
        if t is ast.Expr:
            self.expr(n.value, sc)
        elif t is ast.Assign:
            self.expr(n.value, sc)
            for tg in n.targets:
                self.expr(tg, sc)
        elif t is ast.AugAssign:
            self.expr(n.value, sc)
            if isinstance(n.target, ast.Name):      # x += e reads x as well
                sc.refs.append((n.target.lineno, ['name', n.target.id]))
                sc.bind(n.target.id)
            else:
                self.expr(n.target, sc)
        elif t is ast.AnnAssign:
            if sc.kind in ('module', 'class'):      # annotations of local variables are not evaluated
                self.expr(n.annotation, sc)
                if sc.kind == 'module':
                    sc.bind('__annotations__')
            self.expr(n.value, sc)
            self.expr(n.target, sc)
        elif t is ast.Return:
            self.expr(n.value, sc)
        elif t is ast.Delete:
            for tg in n.targets:
                self.expr(tg, sc)
        elif t is ast.If or t is ast.While:
            self.expr(n.test, sc)
            self.body(n.body, sc)
            self.body(n.orelse, sc)
        elif t is ast.For:
            self.expr(n.iter, sc)
            self.expr(n.target, sc)
            self.body(n.body, sc)
            self.body(n.orelse, sc)
        elif t in (ast.Break, ast.Continue, ast.Pass):
            pass
        elif t is ast.Assert:
            self.expr(n.test, sc)
            self.expr(n.msg, sc)
        elif t is ast.Raise:
            self.expr(n.exc, sc)
            self.expr(n.cause, sc)
        elif t is ast.Try:
            self.body(n.body, sc)
            for h in n.handlers:
                if type(h) is not ast.ExceptHandler:
                    raise Abort(self.where(h) + 'handler kind ' + type(h).__name__)
                self.expr(h.type, sc)
                if h.name:
                    sc.bind(h.name)
                self.body(h.body, sc)
            self.body(n.orelse, sc)
            self.body(n.finalbody, sc)
        elif t is ast.With:
            for it in n.items:
                self.expr(it.context_expr, sc)
                self.expr(it.optional_vars, sc)
            self.body(n.body, sc)
        elif t is ast.Import:
            for al in n.names:
                key = al.name
                self.imports.append(key)
                sc.refs.append((n.lineno, ['import', key]))
                if al.asname:
                    sc.bind(al.asname, S(key))
                else:
                    sc.bind(key.split('.')[0], S(key.split('.')[0]))
        elif t is ast.ImportFrom:
            base = self.resolve_from(n)
            for al in n.names:
                if al.name == '*':
                    raise Abort(self.where(n) + '`from %s import *` is not understood' % base)
                self.imports.append(base)
                sc.refs.append((n.lineno, ['from', base, al.name]))
                sc.bind(al.asname or al.name, ('A', base, al.name))
        elif t is ast.Global:
            sc.globals_decl.update(n.names)
            for x in n.names:
                self.mod.bind(x)
        elif t is ast.Nonlocal:
            sc.nonlocal_decl.update(n.names)
        elif t is ast.FunctionDef:
            self.funcdef(n, sc)
        elif t is ast.ClassDef:
            self.classdef(n, sc)
        else:
            raise Abort(self.where(n) + 'statement kind %s is not understood' % t.__name__)

    def resolve_from(self, n):
        if not n.level:
            return n.module
        parts = self.key.split('.')
        if not self.is_pkg:
            parts = parts[:-1]
        if n.level > 1:
            parts = parts[:len(parts) - (n.level - 1)]
        if not parts:
            raise Abort(self.where(n) + 'relative import beyond the top-level package')
        return '.'.join(parts + ([n.module] if n.module else []))

    def arguments_outer(self, a, sc, annotations=True):
        """the parts of a signature that are evaluated in the DEFINING scope"""
        for d in list(a.defaults) + [d for d in a.kw_defaults if d is not None]:
            self.expr(d, sc)
        if annotations:
            for p in list(a.posonlyargs) + list(a.args) + list(a.kwonlyargs) + [x for x in (a.vararg, a.kwarg) if x is not None]:
                self.expr(p.annotation, sc)

    def bind_params(self, a, fs):
        for p in list(a.posonlyargs) + list(a.args) + list(a.kwonlyargs) + [x for x in (a.vararg, a.kwarg) if x is not None]:
            if type(p) is not ast.arg:
                raise Abort(self.where(p) + 'parameter node ' + type(p).__name__)
            fs.bind(p.arg)

    def funcdef(self, n, sc):
        if getattr(n, 'type_params', None):
            raise Abort(self.where(n) + 'type parameters are not understood')
        decos = []
        for d in n.decorator_list:
            self.expr(d, sc)
            dd = d.func if isinstance(d, ast.Call) else d
            root, chain = chain_of(dd) if isinstance(dd, (ast.Name, ast.Attribute)) else (None, None)
            decos.append((root.id, chain) if root is not None else None)
        if n.name in ('__getattr__', '__getattribute__', '__dir__') and sc.kind in ('module', 'class'):
            raise Abort(self.where(n) + 'a %s hook makes the symbol table of this %s dynamic: not understood' % (n.name, sc.kind))
        self.arguments_outer(n.args, sc)
        self.expr(n.returns, sc)
        sc.bind(n.name, ('Fd', sig_of(n.args), decos, sc))
        fs = self.new_scope(sc.qual(n.name), 'function', n.lineno, sc)
        fs.simple = n.name
        self.bind_params(n.args, fs)
        self.body(n.body, fs)

    def classdef(self, n, sc):
        if getattr(n, 'type_params', None):
            raise Abort(self.where(n) + 'type parameters are not understood')
        for d in n.decorator_list:
            self.expr(d, sc)
        bases = []
        for b in n.bases:
            self.expr(b, sc)
            root, chain = chain_of(b) if isinstance(b, (ast.Name, ast.Attribute)) else (None, None)
            bases.append((root.id, chain) if root is not None else None)
        for k in n.keywords:
            self.expr(k.value, sc)
        ckey = self.key + ':' + sc.qual(n.name)
        sc.bind(n.name, S(ckey) if sc.kind in ('module', 'class') else O)
        cs = self.new_scope(sc.qual(n.name), 'class', n.lineno, sc)
        cs.simple = n.name
        cs.class_key = ckey
        for x in ('__module__', '__qualname__', '__doc__', '__dict__', '__weakref__'):
            cs.bind(x)
        self.classes.append((ckey, cs, bases, sc))
        self.body(n.body, cs)

    # ------------------------------------------------------------------ expressions
    def expr(self, n, sc):
        if n is None:
            return
        t = type(n)
        if t is ast.Name:
            if isinstance(n.ctx, ast.Load):
                sc.refs.append((n.lineno, ['name', n.id]))
            else:
                sc.bind(n.id)
        elif t is ast.Attribute:
            root, chain = chain_of(n)
            if root is None:
                self.expr(chain, sc)                       # chain holds the base expression here
            elif isinstance(n.ctx, ast.Load):
                sc.refs.append((n.lineno, ['attr', root.id, chain]))
            elif len(chain) > 1:                           # a.b.c = e : a.b must resolve
                sc.refs.append((n.lineno, ['attr', root.id, chain[:-1]]))
            else:
                sc.refs.append((n.lineno, ['name', root.id]))
        elif t is ast.Call:
            f = n.func
            root = None
            if isinstance(f, (ast.Name, ast.Attribute)):
                root, chain = chain_of(f)
            npos = len([a for a in n.args if not isinstance(a, ast.Starred)])
            star = any(isinstance(a, ast.Starred) for a in n.args)
            kws = [k.arg for k in n.keywords if k.arg is not None]
            dstar = any(k.arg is None for k in n.keywords)
            if root is not None:
                sc.refs.append((n.lineno, ['call', root.id, chain, npos, kws, star, dstar]))
            else:
                self.expr(f, sc)
            for a in n.args:
                self.expr(a.value if isinstance(a, ast.Starred) else a, sc)
            for k in n.keywords:
                if type(k) is not ast.keyword:
                    raise Abort(self.where(k) + 'keyword node ' + type(k).__name__)
                self.expr(k.value, sc)
        elif t is ast.Constant:
            pass
        elif t is ast.BoolOp:
            for v in n.values:
                self.expr(v, sc)
        elif t is ast.BinOp:
            self.expr(n.left, sc)
            self.expr(n.right, sc)
        elif t is ast.UnaryOp:
            self.expr(n.operand, sc)
        elif t is ast.IfExp:
            self.expr(n.test, sc)
            self.expr(n.body, sc)
            self.expr(n.orelse, sc)
        elif t is ast.Compare:
            self.expr(n.left, sc)
            for c in n.comparators:
                self.expr(c, sc)
        elif t is ast.Dict:
            for k in n.keys:
                self.expr(k, sc)
            for v in n.values:
                self.expr(v, sc)
        elif t in (ast.List, ast.Tuple, ast.Set):
            for e in n.elts:
                self.expr(e, sc)
        elif t is ast.Subscript:
            self.expr(n.value, sc)
            self.expr(n.slice, sc)
        elif t is ast.Slice:
            self.expr(n.lower, sc)
            self.expr(n.upper, sc)
            self.expr(n.step, sc)
        elif t is ast.Starred:
            self.expr(n.value, sc)
        elif t is ast.JoinedStr:
            for v in n.values:
                self.expr(v, sc)
        elif t is ast.FormattedValue:
            self.expr(n.value, sc)
            self.expr(n.format_spec, sc)
        elif t is ast.NamedExpr:
            if sc.kind == 'comp':
                raise Abort(self.where(n) + 'assignment expression inside a comprehension is not understood')
            self.expr(n.value, sc)
            self.expr(n.target, sc)
        elif t in (ast.Yield, ast.YieldFrom):
            self.expr(n.value, sc)
        elif t is ast.Lambda:
            self.arguments_outer(n.args, sc, annotations=False)
            ls = self.new_scope(sc.qual('<lambda@%d>' % n.lineno), 'lambda', n.lineno, sc)
            self.bind_params(n.args, ls)
            self.expr(n.body, ls)
        elif t in (ast.ListComp, ast.SetComp, ast.GeneratorExp, ast.DictComp):
            gens = n.generators
            for g in gens:
                if type(g) is not ast.comprehension or g.is_async:
                    raise Abort(self.where(n) + 'comprehension clause not understood')
            self.expr(gens[0].iter, sc)                     # the first iterable is evaluated outside
            cs = self.new_scope(sc.qual('<comp@%d>' % n.lineno), 'comp', n.lineno, sc)
            cs.ctype = {ast.ListComp: 'listcomp', ast.SetComp: 'setcomp', ast.GeneratorExp: 'genexpr', ast.DictComp: 'dictcomp'}[t]
            for i, g in enumerate(gens):
                if i > 0:
                    self.expr(g.iter, cs)
                self.expr(g.target, cs)
                for c in g.ifs:
                    self.expr(c, cs)
            if t is ast.DictComp:
                self.expr(n.key, cs)
                self.expr(n.value, cs)
            else:
                self.expr(n.elt, cs)
        elif isinstance(n, _LEAVES):
            pass
        else:
            raise Abort(self.where(n) + 'expression kind %s is not understood' % t.__name__)

    def where(self, n):
        return '%s:%s: ' % (self.path, getattr(n, 'lineno', '?'))


# ------------------------------------------------------------------------------------------------------
class World:
    """all facts of one package tree"""

    def __init__(self, repo=None, pkg='kneeliverse'):
        repo = repo or os.environ.get('KNEE_REPO', '/repo')
        self.pkg = pkg
        self.pkg_dir = os.path.join(repo, 'src', pkg)
        self.mods = {}            # key -> ModuleTranslator
        self.ext = {}             # key -> {'own': [(name, kind)], 'bases': [key]}   (insertion-ordered)
        self.live = {}            # key -> installed object whose dir() is / may become a table
        self.import_errors = {}
        self.imported_ok = []
        self.notes = {'decorated_opaque': [], 'probed_attrs': [], 'star_calls': 0}

    # ---------------------------------------------------------------- translate
    def translate(self):
        if not os.path.isdir(self.pkg_dir):
            raise Abort('no package directory ' + self.pkg_dir)
        files = []
        for root, dirs, fs in os.walk(self.pkg_dir):
            dirs[:] = sorted(d for d in dirs if d != '__pycache__')
            for f in sorted(fs):
                if f.endswith('.py'):
                    files.append(os.path.join(root, f))
        for path in files:
            rel = os.path.relpath(path, os.path.dirname(self.pkg_dir))[:-3].split(os.sep)
            is_pkg = rel[-1] == '__init__'
            if is_pkg:
                rel = rel[:-1]
            key = '.'.join(rel)
            self.mods[key] = ModuleTranslator(self, key, path, is_pkg).run()
        if self.pkg not in self.mods:
            raise Abort('package %s has no __init__.py' % self.pkg)
        self.link_submodules()
        self.import_externals()
        self.finalize_bindings()
        self.build_class_tables()
        self.builtins = sorted(dir(builtins))
        self.order()
        self.discover_tables()
        return self

    def all_imports(self):
        out = []
        for k in sorted(self.mods):
            out += self.mods[k].imports
        return out

    def link_submodules(self):
        # importing K.x sets attribute x on the module object K
        imported = set()
        for key in self.all_imports():
            parts = key.split('.')
            for i in range(1, len(parts) + 1):
                imported.add('.'.join(parts[:i]))
        for k in sorted(self.mods):
            for ref in [r for s in self.mods[k].scopes for _, r in s.refs if r[0] == 'from']:
                imported.add(ref[1] + '.' + ref[2])
        for key in sorted(imported):
            if key in self.mods and '.' in key:
                parent, child = key.rsplit('.', 1)
                if parent in self.mods and child not in self.mods[parent].mod.sites:
                    self.mods[parent].mod.bind(child, S(key))

    def import_externals(self):
        for key in self.all_imports():
            parts = key.split('.')
            if parts[0] == self.pkg:
                continue
            for i in range(1, len(parts) + 1):
                k = '.'.join(parts[:i])
                if k in self.live or k in self.import_errors:
                    continue
                try:
                    self.live[k] = importlib.import_module(k)
                    self.imported_ok.append(k)
                except Exception as e:      # ImportError and whatever the module raises while importing
                    self.import_errors[k] = type(e).__name__

    def kind_of_obj(self, obj, key):
        if isinstance(obj, types.ModuleType) and obj.__name__ in self.mods:
            return S(obj.__name__)
        if isinstance(obj, (types.ModuleType, type)) or (_UFUNC and isinstance(obj, _UFUNC)):
            self.live.setdefault(key, obj)
            return S(key)
        return O

    def finalize_bindings(self):
        # 1. per scope: one final kind per name
        for k in sorted(self.mods):
            mt = self.mods[k]
            for sc in mt.scopes:
                sc.final = {}
                for name, sites in sc.sites.items():
                    if name in sc.globals_decl or name in sc.nonlocal_decl:
                        continue
                    kinds = [self.site_kind(mt, s) for s in sites]
                    sc.final[name] = kinds[0] if all(x == kinds[0] for x in kinds) else O
        # 2. decorated functions keep their signature only under signature-preserving decorators
        for k in sorted(self.mods):
            mt = self.mods[k]
            for sc in mt.scopes:
                for name, kd in list(sc.final.items()):
                    if kd[0] == 'Fd':
                        _, sig, decos, dsc = kd
                        ok = all(d is not None and self.deco_preserves(mt, d) for d in decos)
                        if not ok:
                            self.notes['decorated_opaque'].append('%s.%s' % (k, name))
                        sc.final[name] = ('F', sig) if ok else O

        # 3. aliases (from m import n): the kind of attribute n of m
        for _ in range(4):
            for k in sorted(self.mods):
                for sc in self.mods[k].scopes:
                    for name, kd in list(sc.final.items()):
                        if kd[0] == 'A':
                            sc.final[name] = self.alias_kind(kd)
        for k in sorted(self.mods):
            for sc in self.mods[k].scopes:
                for name, kd in list(sc.final.items()):
                    if kd[0] == 'A':
                        sc.final[name] = O
    def site_kind(self, mt, s):
        return s

    def alias_kind(self, kd):
        _, base, name = kd
        if base in self.mods:
            k2 = self.mods[base].mod.final.get(name)
            if (k2 is None or k2[0] == 'A') and (base + '.' + name) in self.mods:
                return S(base + '.' + name)              # from package import submodule
            if k2 is None:
                return O
            return k2
        if base in self.live:
            obj = self.live[base]
            if hasattr(obj, name):
                return self.kind_of_obj(getattr(obj, name), base + '.' + name)
            try:
                self.live[base + '.' + name] = importlib.import_module(base + '.' + name)
                return S(base + '.' + name)
            except Exception:
                return O
        return O

    def deco_preserves(self, mt, d):
        root, chain = d
        kd = mt.mod.sites.get(root, [None])
        if len(kd) != 1:
            return False
        kd = kd[0]
        if kd is None:
            return False
        if kd[0] == 'A' and not chain:
            return (kd[1], kd[2]) in SIG_PRESERVING_DECORATORS
        if kd[0] == 'S' and len(chain) == 1:
            return (kd[1], chain[0]) in SIG_PRESERVING_DECORATORS
        return False

    # ---------------------------------------------------------------- chains and tables
    def own(self, sc):
        return list(sc.final.items())

    def visible_from_child(self, parent):
        if parent is None or parent.kind == 'module':
            return []
        if parent.kind == 'class':
            return self.visible_from_child(parent.parent)
        return [parent] + self.visible_from_child(parent.parent)

    def chain_scopes(self, sc):
        if sc.kind == 'module':
            return []
        return [sc] + self.visible_from_child(sc.parent)

    def build_class_tables(self):
        self.class_tables = {}
        pending = []
        for k in sorted(self.mods):
            mt = self.mods[k]
            for ckey, cs, bases, dsc in mt.classes:
                pending.append((mt, ckey, cs, bases, dsc))
        # bases: resolved with the same model (mirror), package classes flattened
        for mt, ckey, cs, bases, dsc in pending:
            self.class_tables[ckey] = {'own': self.own(cs), 'bases': None, '_b': (mt, bases, dsc)}
        for ckey in list(self.class_tables):
            self.class_tables[ckey]['bases'] = self.flat_bases(ckey, set())
        for ckey, t in self.class_tables.items():
            del t['_b']
            self.ext[ckey] = t

    def flat_bases(self, ckey, seen):
        if ckey in seen:
            raise Abort('inheritance cycle at ' + ckey)
        seen = seen | {ckey}
        mt, bases, dsc = self.class_tables[ckey]['_b']
        out = []
        for b in bases:
            if b is None:
                raise Abort('class %s: base class expression is not a name / attribute chain' % ckey)
            kd = self.m_walk(self.m_lookup_name(mt, dsc, b[0]), b[1], grow=True)
            if kd is None or kd[0] != 'S':
                raise Abort('class %s: base %s does not denote a class with a static table' % (ckey, '.'.join([b[0]] + b[1])))
            bk = kd[1]
            out.append(bk)
            if bk in self.class_tables:
                out += [x for x in self.flat_bases(bk, seen) if x not in out]
            else:
                self.ensure_table(bk)
        if 'builtins.object' not in out:
            self.live.setdefault('builtins.object', object)
            self.ensure_table('builtins.object')
            out.append('builtins.object')
        if 'builtins.type' not in out:          # attributes served by the metaclass: __name__, __mro__, mro, ...
            self.live.setdefault('builtins.type', type)
            self.ensure_table('builtins.type')
            out.append('builtins.type')
        return out

    def ensure_table(self, key):
        if key in self.ext or key in self.mods:
            return True
        if key not in self.live:
            return False
        obj = self.live[key]
        own = []
        names = set(dir(obj))
        if isinstance(obj, type):
            names |= set(dir(type(obj)))        # attributes served by the metaclass
        for name in sorted(names):
            try:
                v = getattr(obj, name)
            except Exception:
                own.append((name, O))
                continue
            own.append((name, self.kind_of_obj(v, key + '.' + name)))
        self.ext[key] = {'own': own, 'bases': []}
        return True

    def order(self):
        """the flattening the Coq side uses: modules by key, scopes pre-order, refs in source order"""
        self.modkeys = sorted(self.mods)
        self.lrefs = []
        for mi, k in enumerate(self.modkeys):
            for si, sc in enumerate(self.mods[k].scopes):
                for ri, (ln, r) in enumerate(sc.refs):
                    self.lrefs.append((k, si, ri))

    # ---------------------------------------------------------------- the mirror of Model/Linking.v
    # (used to decide WHICH tables to dump and which tables a single-reference case needs; the verdicts
    #  are Coq's — a divergence shows up as a table Coq misses, i.e. it fails closed)
    def m_assoc(self, x, items):
        for n, k in items:
            if n == x:
                return k
        return None

    def m_lookup_name(self, mt, sc, x):
        for s in self.chain_scopes(sc):
            k = s.final.get(x)
            if k is not None:
                return k
        k = mt.mod.final.get(x)
        if k is not None:
            return k
        return O if x in _BUILTINS else None

    def m_table(self, key, visited=None):
        if visited is not None:
            visited.add(key)
        if key in self.mods:
            return {'own': self.own(self.mods[key].mod), 'bases': []}
        return self.ext.get(key)

    def m_lookup_attr(self, key, a, grow=False, visited=None):
        if grow:
            self.ensure_table(key)
        t = self.m_table(key, visited)
        if t is None:
            return None
        k = self.m_assoc(a, t['own'])
        if k is not None:
            return k
        for b in t['bases']:
            if grow:
                self.ensure_table(b)
            tb = self.m_table(b, visited)
            if tb is None:
                return None
            k = self.m_assoc(a, tb['own'])
            if k is not None:
                return k
        if grow and key in self.live and key in self.ext:
            # dir() need not list what a module-level __getattr__ serves: ask the installed object
            obj = self.live[key]
            try:
                v = getattr(obj, a)
            except Exception:
                return None
            kd = self.kind_of_obj(v, key + '.' + a)
            self.ext[key]['own'].append((a, kd))
            self.notes['probed_attrs'].append(key + '.' + a)
            return kd
        return None

    def m_walk(self, k, chain, grow=False, visited=None):
        if k is None:
            return None
        for a in chain:
            if k[0] != 'S':
                return O
            k = self.m_lookup_attr(k[1], a, grow, visited)
            if k is None:
                return None
        if k[0] == 'S' and grow:
            pass
        return k

    @staticmethod
    def m_arity_ok(sg, npos, kws):
        pos = sg['pos']
        names = [n for n, _ in pos]
        if not (npos <= len(pos) or sg['vararg']):
            return False
        if len(set(kws)) != len(kws):
            return False
        for kw in kws:
            if kw in names:
                i = names.index(kw)
                if i < sg['posonly']:
                    if not sg['varkw']:
                        return False
                elif not npos <= i:
                    return False
            elif not (kw in [n for n, _ in sg['kwonly']] or sg['varkw']):
                return False
        for i, (n, d) in enumerate(pos):
            if not (d or i < npos or (sg['posonly'] <= i and n in kws)):
                return False
        for n, d in sg['kwonly']:
            if not (d or n in kws):
                return False
        return True

    def m_diagnose(self, mt, sc, r, grow=False, visited=None):
        if r[0] == 'name':
            return 0 if self.m_lookup_name(mt, sc, r[1]) is not None else 1
        if r[0] in ('attr', 'call'):
            k = self.m_lookup_name(mt, sc, r[1])
            if k is None:
                return 1
            k2 = self.m_walk(k, r[2], grow, visited)
            if k2 is None:
                return 2
            if r[0] == 'call' and k2[0] == 'F':
                if r[5] or r[6]:
                    return 0
                return 0 if self.m_arity_ok(k2[1], r[3], r[4]) else 3
            return 0
        if r[0] == 'import':
            if grow:
                self.ensure_table(r[1])
            return 0 if self.m_table(r[1], visited) is not None else 4
        if r[0] == 'from':
            if grow:
                self.ensure_table(r[1])
            if self.m_table(r[1], visited) is None:
                return 4
            if self.m_lookup_attr(r[1], r[2], grow, visited) is not None:
                return 0
            if grow and r[1] in self.live:      # from m import submodule
                sub = r[1] + '.' + r[2]
                try:
                    self.live[sub] = importlib.import_module(sub)
                    self.ext[r[1]]['own'].append((r[2], S(sub)))
                    return 0
                except Exception:
                    return 4
            return 4
        raise Abort('unknown reference ' + repr(r))

    def discover_tables(self):
        self.mirror = []
        for (k, si, ri) in self.lrefs:
            mt = self.mods[k]
            sc = mt.scopes[si]
            ln, r = sc.refs[ri]
            self.mirror.append(self.m_diagnose(mt, sc, r, grow=True))
            if r[0] == 'call' and (r[5] or r[6]):
                self.notes['star_calls'] += 1
        # a second pass without growing: the verdicts on the final tables
        self.mirror = [self.m_diagnose(self.mods[k], self.mods[k].scopes[si], self.mods[k].scopes[si].refs[ri][1])
                       for (k, si, ri) in self.lrefs]

    # ---------------------------------------------------------------- queries for the harness
    def lref_info(self, i):
        k, si, ri = self.lrefs[i]
        sc = self.mods[k].scopes[si]
        ln, r = sc.refs[ri]
        return {'module': k, 'scope': sc.name, 'line': ln, 'ref': r, 'file': self.mods[k].path, 'scope_line': sc.line,
                'path': [list(x) for x in sc.path()]}

    def find_lref(self, module, scope, ref, line=None):
        """position of a reference in the current facts (exact line first, then the same reference anywhere in the scope)"""
        best = None
        for i, (k, si, ri) in enumerate(self.lrefs):
            if k != module:
                continue
            sc = self.mods[k].scopes[si]
            if sc.name != scope:
                continue
            ln, r = sc.refs[ri]
            if r == ref:
                if line is None or ln == line:
                    return i
                if best is None:
                    best = i
        return best

    def mini(self, i):
        """the facts ONE reference needs, as a JSON-able program (for single-reference cases and replays)"""
        k, si, ri = self.lrefs[i]
        mt = self.mods[k]
        sc = mt.scopes[si]
        ln, r = sc.refs[ri]
        visited = set()
        self.m_diagnose(mt, sc, r, grow=False, visited=visited)
        mods = [{'name': k, 'globals': jb(self.own(mt.mod)),
                 'scopes': [{'name': sc.name, 'chain': [jb(self.own(s)) for s in self.chain_scopes(sc)], 'refs': [[ln, r]]}]}]
        for v in sorted(visited):
            if v in self.mods and v != k:
                mods.append({'name': v, 'globals': jb(self.own(self.mods[v].mod)), 'scopes': []})
        ext = [[v, {'own': jb(self.ext[v]['own']), 'bases': list(self.ext[v]['bases'])}] for v in sorted(visited) if v in self.ext]
        return {'modules': mods, 'ext': ext, 'builtins': list(self.builtins)}

    def program(self):
        mods = []
        for k in self.modkeys:
            mt = self.mods[k]
            mods.append({'name': k, 'globals': jb(self.own(mt.mod)),
                         'scopes': [{'name': sc.name, 'chain': [jb(self.own(s)) for s in self.chain_scopes(sc)],
                                     'refs': [[ln, r] for ln, r in sc.refs]} for sc in mt.scopes]})
        ext = [[key, {'own': jb(t['own']), 'bases': list(t['bases'])}] for key, t in self.ext.items()]
        return {'modules': mods, 'ext': ext, 'builtins': list(self.builtins)}

    def counts(self):
        kinds = {}
        for (k, si, ri) in self.lrefs:
            r = self.mods[k].scopes[si].refs[ri][1]
            kinds[r[0]] = kinds.get(r[0], 0) + 1
        return {'modules': len(self.mods), 'scopes': sum(len(m.scopes) for m in self.mods.values()),
                'references': len(self.lrefs), 'by_kind': kinds, 'tables': len(self.ext),
                'external_modules_imported': sorted(self.imported_ok), 'tables_dumped': sorted(self.ext),
                'external_import_errors': dict(self.import_errors),
                'decorated_functions_treated_opaque': self.notes['decorated_opaque'],
                'attributes_served_by_getattr_not_dir': sorted(set(self.notes['probed_attrs'])),
                'calls_with_star_args_skipped_for_arity': self.notes['star_calls']}


def jb(items):
    return [[n, list(k) if k[0] != 'F' else ['F', k[1]]] for n, k in items]


# ------------------------------------------------------------------------------------------------------
# Coq emission

def cstr(s):
    if not isinstance(s, str) or any(ord(c) < 32 or ord(c) > 126 for c in s):
        raise Abort('string %r cannot be written as a Coq literal' % (s,))
    return '"%s"' % s.replace('"', '""')


def cbool(b):
    return 'true' if b else 'false'


def clist(xs):
    return '[' + '; '.join(xs) + ']'


def csig(sg):
    return ('{| fs_pos := %s; fs_posonly := %d; fs_vararg := %s; fs_kwonly := %s; fs_varkw := %s |}'
            % (clist(['(%s, %s)' % (cstr(n), cbool(d)) for n, d in sg['pos']]), sg['posonly'], cbool(sg['vararg']),
               clist(['(%s, %s)' % (cstr(n), cbool(d)) for n, d in sg['kwonly']]), cbool(sg['varkw'])))


def ckind(k):
    if k[0] == 'O':
        return 'EOpaque'
    if k[0] == 'S':
        return '(EStatic %s)' % cstr(k[1])
    if k[0] == 'F':
        return '(EFunc %s)' % csig(k[1])
    raise Abort('unresolved binding kind %r' % (k,))


def cbindings(items):
    return clist(['(%s, %s)' % (cstr(n), ckind(k)) for n, k in items])


def cref(r):
    if r[0] == 'name':
        return 'RName %s' % cstr(r[1])
    if r[0] == 'attr':
        return 'RAttr %s %s' % (cstr(r[1]), clist([cstr(a) for a in r[2]]))
    if r[0] == 'call':
        return 'RCall %s %s %d %s %s %s' % (cstr(r[1]), clist([cstr(a) for a in r[2]]), r[3], clist([cstr(a) for a in r[4]]),
                                           cbool(r[5]), cbool(r[6]))
    if r[0] == 'import':
        return 'RImport %s' % cstr(r[1])
    if r[0] == 'from':
        return 'RFrom %s %s' % (cstr(r[1]), cstr(r[2]))
    raise Abort('unknown reference ' + repr(r))


def cscope(s):
    return ('{| sc_name := %s; sc_chain := %s; sc_refs := %s |}'
            % (cstr(s['name']), clist([cbindings(c) for c in s['chain']]), clist(['(%d, %s)' % (ln, cref(r)) for ln, r in s['refs']])))


def ctable(t):
    return '{| t_own := %s; t_bases := %s |}' % (cbindings(t['own']), clist([cstr(b) for b in t['bases']]))


def cprogram_inline(p):
    """one closed term of type program (single-reference cases)"""
    mods = clist(['{| m_name := %s; m_globals := %s; m_scopes := %s |}'
                  % (cstr(m['name']), cbindings(m['globals']), clist([cscope(s) for s in m['scopes']])) for m in p['modules']])
    ext = clist(['(%s, %s)' % (cstr(k), ctable(t)) for k, t in p['ext']])
    return '{| p_modules := %s; p_ext := %s; p_builtins := %s |}' % (mods, ext, clist([cstr(b) for b in p['builtins']]))


def cprogram_file(p, waivers):
    """the generated fact file: named definitions (one per binding list / scope / module / table), then `facts`"""
    out = ['(* GENERATED by harness/linkfacts.py from the current source — do not edit *)',
           'From Coq Require Import List String Bool Arith.',
           'From Knee Require Import Model.Linking Proofs.LinkingFacts.',
           'Import ListNotations.', 'Local Open Scope string_scope.', '']
    mnames = []
    for mi, m in enumerate(p['modules']):
        out.append('Definition g_%d : list binding := %s.' % (mi, cbindings(m['globals'])))
        # binding lists shared between a scope and the scopes nested in it
        seen = {}
        snames = []
        for si, s in enumerate(m['scopes']):
            cn = []
            for c in s['chain']:
                key = repr(c)
                if key not in seen:
                    seen[key] = 'b_%d_%d' % (mi, len(seen))
                    out.append('Definition %s : list binding := %s.' % (seen[key], cbindings(c)))
                cn.append(seen[key])
            out.append('Definition s_%d_%d : scope := {| sc_name := %s; sc_chain := %s; sc_refs := %s |}.'
                       % (mi, si, cstr(s['name']), clist(cn), clist(['(%d, %s)' % (ln, cref(r)) for ln, r in s['refs']])))
            snames.append('s_%d_%d' % (mi, si))
        out.append('Definition m_%d : module := {| m_name := %s; m_globals := g_%d; m_scopes := %s |}.'
                   % (mi, cstr(m['name']), mi, clist(snames)))
        mnames.append('m_%d' % mi)
    tnames = []
    for ti, (k, t) in enumerate(p['ext']):
        out.append('Definition t_%d : string * table := (%s, %s).' % (ti, cstr(k), ctable(t)))
        tnames.append('t_%d' % ti)
    out.append('Definition facts : program := {| p_modules := %s; p_ext := %s; p_builtins := %s |}.'
               % (clist(mnames), clist(tnames), clist([cstr(b) for b in p['builtins']])))
    out.append('Definition waived : list waiver := %s.' % clist(['(%s, %s, %d)' % (cstr(a), cstr(b), c) for a, b, c in waivers]))
    out.append('')
    out.append('Eval vm_compute in (stats facts).')
    out.append('Eval vm_compute in (failing_idx facts).')
    out.append('')
    out.append('(* every reference in every module resolves, except the named open findings *)')
    out.append('Theorem linked : check_program_w waived facts = true.')
    out.append('Proof. vm_compute; reflexivity. Qed.')
    out.append('Print Assumptions linked.')
    out.append('Theorem linked_resolves : forall lr, In lr (refs facts) -> Resolves facts lr \\/ Waived waived facts lr.')
    out.append('Proof. exact (check_sound_w waived facts linked). Qed.')
    out.append('Print Assumptions linked_resolves.')
    return '\n'.join(out) + '\n'


if __name__ == '__main__':
    w = World(sys.argv[1] if len(sys.argv) > 1 else None).translate()
    import json
    print(json.dumps(w.counts(), indent=1))
    bad = [(w.lref_info(i), d) for i, d in enumerate(w.mirror) if d]
    for info, d in bad:
        print('DANGLING', d, info['module'], info['scope'], info['line'], info['ref'])
