# C12 — cluster filtering keeps one best-ranked knee per cluster
import itertools, math, random
from core import *
import gen

MODES = ['left', 'linear', 'right', 'hull', 'corner']
LINKS = ['single', 'complete', 'centroid', 'average']
CMODE = {'left': 'MLeft', 'linear': 'MLinear', 'right': 'MRight', 'hull': 'MHull'}


def interior_subsets(n, kmin=2):
    mid = list(range(1, n - 1))
    for r in range(kmin, len(mid) + 1):
        for comb in itertools.combinations(mid, r):
            yield list(comb)


def thresholds(rng, pts, knees):
    """merge thresholds: the normalised x-gaps the linkages actually compare (exact ties), neighbours, a grid"""
    xs = [pts[k][0] for k in knees]
    length = xs[-1] - xs[0]
    obs = []
    if length > 0:
        for i in range(1, len(xs)):
            obs.append(abs(xs[i] - xs[i - 1]) / length)
            obs.append(abs(xs[i] - xs[0]) / length)
    obs = [o for o in obs if o > 0 and math.isfinite(o)]
    out = [0.01, 0.1, 0.2, 0.3, 0.5, 0.75, 1.0]
    for o in obs:
        out += [o, math.nextafter(o, 0.0), math.nextafter(o, 2.0), o * 1.5]
    return out


def noisy_curve(rng, n):
    """decreasing trend + noise of the size of the steps: inside a run of knees a LATER knee is often higher than the first
    (the cluster's peak is then not its first knee) — added after the seeded change C12-r2m2"""
    xs = gen.xs_increasing(rng, n, rng.choice(['unit', 'int', 'float']))
    kind = rng.choice(['int', 'half', 'float'])
    ys = []
    base = rng.randint(n, 4 * n)
    for i in range(n):
        if kind == 'int':
            v = base - i + rng.randint(-4, 4)
        elif kind == 'half':
            v = base - i + rng.randint(-8, 8) / 2.0
        else:
            v = base - i + rng.uniform(-4, 4)
        ys.append(float(max(v, 0)))
    return 'noisy', [[float(a), float(b)] for a, b in zip(xs, ys)]


def small_int_curve(rng, n):
    """small integer coordinates, odd x-steps and y-steps: corner-triangle areas 0.5*dx*dy are half-integers (2.0 vs 2.5 ...),
    which an integer-typed score array would truncate to ties — added after the seeded change C12-r2m3"""
    x = rng.choice([0, 1, 5])
    xs, ys = [], []
    y = rng.randint(6, 12)
    for _ in range(n):
        xs.append(float(x))
        ys.append(float(max(y, 0)))
        x += rng.choice([1, 1, 1, 3, 5])
        y += rng.choice([-3, -1, -1, -1, 1, -5, 3])
    return 'small_int', [[a, b] for a, b in zip(xs, ys)]


def pick_curve(rng, n):
    u = rng.random()
    if u < 0.2:
        return noisy_curve(rng, n)
    if u < 0.35:
        return small_int_curve(rng, n)
    if u < 0.85:
        return gen.curve(rng, n)
    return gen.mrc_curve(rng, n)


def integral(pts):
    return all(float(v).is_integer() and abs(v) < 2 ** 40 for p in pts for v in p)


class C12:
    id = 'C12'
    judge_module = 'Run.JudgeC12'
    rule = ('generated curves (all families of gen.curve incl. plateaus / grids that make np.corrcoef NaN) x interior knee subsets with >= 2 knees '
            '(plus, for filter_clusters, sampled subsets that contain a curve end) '
            '(exhaustive for small n, sampled above) x 4 linkages x merge thresholds drawn from the observed normalised knee gaps (exact ties), '
            'their nextafter neighbours and a grid x 4 ranking modes + the corner variant (modes round-robin in the quick tier, all on every '
            '(curve, subset) of the small-n stratum in the thorough tier); non-trivial = at least one cluster with >= 2 members; '
            'distinct by (points, knees, labels, mode); about one case in six is a same-object sequence: one points buffer (refilled in place by a sibling curve '
            'between calls) and one int64 knee array serve 2-4 calls with different linkage / threshold / mode, every call judged against the model fed from '
            'fresh copies, and the arguments compared with their snapshots afterwards')
    assumptions = ['cluster labels are those the real clustering function returned on points[knees] (recorded through a pass-through wrapper); '
                   'their shape (first 0, steps 0/+1) is a hypothesis of the theorems, checked per case (C11 proves it for the four linkages)',
                   'Tier-O clause fc_best / fcc_best is vacuous for a cluster whose score list contains a NaN (counted in histogram nan_scores)',
                   'cases whose maximal ranking value is tied inside a ranked cluster are judged on the predicate only (agree code 5): np.argsort is unstable on ties']
    trusted = ['modelled: postprocessing.filter_clusters, filter_clusters_corners, rank_corners_triangle, knee_ranking.rank, distance_to_similarity',
               'oracles (the library\'s own values): lf.r2 per slice (the left/linear/right score is DERIVED in the model; kr.smooth_ranking and rank_corners_triangle outputs are only observed and compared bit-for-bit with the derived scores), convex_hull.graham_scan_lower, np.sum(lf.shortest_distance_points(...)) per range, clustering labels',
               'np.argsort modelled as any sorting permutation (theorems quantify over it); executable instance: stable sort, NaN last']
    timeout = 20.0
    shard = 200

    def generate(self, rng, tier):
        cases = []
        cfg = 0
        nmax = {'quick': 8, 'search': 7, 'thorough': 9}.get(tier, 8)
        per_n = {'quick': 4, 'search': 3, 'thorough': 8}.get(tier, 4)
        allcfg = tier == 'thorough'
        for n in range(4, nmax + 1):
            for _ in range(per_n):
                fam, pts = pick_curve(rng, n)
                i64 = integral(pts) and rng.random() < 0.5
                for ks in interior_subsets(n):
                    ts = thresholds(rng, pts, ks)
                    if allcfg and n <= 7:
                        for mode in MODES:
                            link = LINKS[cfg % 4]
                            cfg += 1
                            cases.append({'points': pts, 'family': fam, 'knees': ks, 'link': link, 't': rng.choice(ts), 'mode': mode, 'int64': i64})
                    else:
                        mode = MODES[cfg % 5]
                        link = LINKS[(cfg // 5) % 4]
                        cfg += 1
                        cases.append({'points': pts, 'family': fam, 'knees': ks, 'link': link, 't': rng.choice(ts), 'mode': mode, 'int64': i64})
        nrand = {'quick': 360, 'search': 300, 'thorough': 9000}.get(tier, 360)
        hi = 40 if tier == 'thorough' else 16
        for _ in range(nrand):
            n = rng.randint(6, hi)
            fam, pts = pick_curve(rng, n)
            k = rng.randint(2, n - 2)
            mode = MODES[cfg % 5]
            # filter_clusters accepts knees at the curve ends (the hull branch clamps the span's neighbours); the corner
            # variant reads both neighbours of a knee, so its knees are interior
            klo, khi = (1, n - 1) if (mode == 'corner' or rng.random() < 0.7) else (0, n)
            k = min(k, khi - klo)
            if rng.random() < 0.5:
                # runs of adjacent knees: large clusters
                start = rng.randint(klo, khi - k)
                ks = list(range(start, start + k))
            else:
                ks = sorted(rng.sample(range(klo, khi), k))
            link = LINKS[(cfg // 5) % 4]
            cfg += 1
            cases.append({'points': pts, 'family': fam, 'knees': ks, 'link': link, 't': rng.choice(thresholds(rng, pts, ks)), 'mode': mode,
                          'int64': integral(pts) and rng.random() < 0.5})
        # same-object multi-call stream (about one case in six): ONE points buffer and ONE int64 knee array serve a sequence of
        # 2-4 calls with different linkage / threshold / ranking mode (hull included); between calls the buffer may be refilled
        # IN PLACE with a sibling curve of the same length (added after the seeded change C12-r3m1: a hull memoised on `is points`)
        for _ in range(len(cases) // 6):
            cases.append(self._gen_sequence(rng, hi))
        return cases

    def _gen_sequence(self, rng, hi):
        n = rng.randint(5, min(hi, 24))
        fam, A = pick_curve(rng, n)
        B = None
        for _ in range(8):
            famb, B = pick_curve(rng, n)
            if integral(B) == integral(A):
                break
        i64 = integral(A) and integral(B) and rng.random() < 0.5
        k = rng.randint(2, max(2, min(n - 2, 8)))
        if rng.random() < 0.5:
            start = rng.randint(1, n - 1 - k)
            ks = list(range(start, start + k))
        else:
            ks = sorted(rng.sample(range(1, n - 1), k))
        steps = []
        hull_sweep = rng.random() < 0.5
        cur = A
        for i in range(rng.randint(2, 4)):
            if i > 0 and rng.random() < (0.85 if hull_sweep else 0.5):
                cur = B if cur is A else A
            mode = 'hull' if (hull_sweep and rng.random() < 0.85) else rng.choice(MODES)
            steps.append({'points': cur, 'family': fam, 'knees': ks, 'link': rng.choice(LINKS), 't': rng.choice(thresholds(rng, cur, ks)),
                          'mode': mode, 'int64': i64})
        return {'seq': steps, 'family': fam}

    # ---- the public API: single cases and sequences ----
    def run_impl(self, c):
        if 'seq' in c:
            return self._run_sequence(c)
        return self._run_single(c)

    def _run_sequence(self, c):
        import numpy as np
        import kneeliverse.postprocessing as pp
        import kneeliverse.clustering as cl
        import kneeliverse.knee_ranking as kr
        c = dict(c)
        steps = c['seq']
        # expected behaviour of every call: model inputs and oracle tables from separate fresh copies, computed beforehand
        subs = [self._run_single(dict(s)) for s in steps]
        i64 = bool(steps[0].get('int64')) and all(integral(s['points']) for s in steps)
        dt = np.int64 if i64 else float
        P = np.array(steps[0]['points'], dtype=dt)          # the ONE points buffer
        K = np.array(steps[0]['knees'], dtype=np.int64)     # the ONE knee array
        K0 = K.copy()
        cur = steps[0]['points']
        for s, sub in zip(steps, subs):
            if s['points'] != cur:
                P[:] = np.array(s['points'], dtype=dt)      # refill in place: same object, new curve
                cur = s['points']
            f = getattr(cl, s['link'] + '_linkage')
            if s['mode'] == 'corner':
                st, out = call(pp.filter_clusters_corners, P, K, f, s['t'])
            else:
                st, out = call(pp.filter_clusters, P, K, f, s['t'], kr.ClusterRanking[s['mode']])
            sub['out_fresh'] = sub.get('out')
            sub['out'] = as_nat_list(out) if st == 'ok' else None
            sub['exc'] = None if st == 'ok' else out
        c['subs'] = subs
        c['intact'] = bool(np.array_equal(K, K0) and np.array_equal(P, np.array(cur, dtype=dt)))
        return c

    def emit(self, c):
        if 'seq' in c:
            if c.get('skip') or 'subs' not in c:
                return 'CSeq [] true'
            return 'CSeq %s %s' % (clist([self._emit_single(s) for s in c['subs']]), cbool(c.get('intact', True)))
        return self._emit_single(c)

    def nontrivial_key(self, c):
        if 'seq' in c:
            keys = [self._key_single(s) for s in c.get('subs', [])]
            return ('seq',) + tuple(keys) if any(k is not None for k in keys) else None
        return self._key_single(c)

    def classify(self, c):
        if 'seq' in c:
            if c.get('skip') or 'subs' not in c:
                return {'mode': 'skipped'}
            subs = c['subs']
            refills = sum(1 for a, b in zip(c['seq'], c['seq'][1:]) if a['points'] != b['points'])
            return {'mode': 'sequence (same points buffer / knee array)', 'sequence_calls': len(subs), 'sequence_refills_in_place': refills,
                    'sequence_hull_calls': sum(1 for s in c['seq'] if s['mode'] == 'hull'),
                    'dtype': 'int64' if c['seq'][0].get('int64') else 'float64', 'arguments_intact': bool(c.get('intact', True)),
                    'outcome': 'ok' if all(not s.get('exc') for s in subs) else 'exception'}
        return self._classify_single(c)

    def shrink(self, c):
        if 'seq' in c:
            out = []
            steps = c['seq']
            for j in range(len(steps)):
                if len(steps) > 2:
                    out.append({'seq': steps[:j] + steps[j + 1:], 'family': c.get('family')})
            ks = steps[0]['knees']
            for j in range(len(ks)):
                if len(ks) > 2:
                    out.append({'seq': [dict(s, knees=ks[:j] + ks[j + 1:]) for s in steps], 'family': c.get('family')})
            return out
        return self._shrink_single(c)

    def sample(self, c):
        if 'seq' in c:
            return {'sequence': [self._sample_single(s) for s in c.get('subs', c['seq'])], 'intact': c.get('intact')}
        return self._sample_single(c)

    def describe(self, c):
        if 'seq' in c:
            return ('ONE points buffer P and ONE int64 knee array K, consecutive calls (P refilled in place, P[:] = ..., when the points change): '
                    + ' ;; '.join(self._describe_single(s) for s in c['seq']))
        return self._describe_single(c)

    def on_timeout(self, c):
        c = dict(c)
        c['skip'] = 'timeout'
        return c

    def _run_single(self, c):
        import numpy as np
        import kneeliverse.postprocessing as pp
        import kneeliverse.clustering as cl
        import kneeliverse.knee_ranking as kr
        import kneeliverse.convex_hull as ch
        import kneeliverse.linear_fit as lf
        c = dict(c)
        # integer-valued curves are presented as int64 arrays in a share of the cases (the model is fed the same values as floats)
        P = np.array(c['points'], dtype=np.int64) if c.get('int64') and integral(c['points']) else np.array(c['points'], dtype=float)
        K = np.array(c['knees'], dtype=int)
        f = getattr(cl, c['link'] + '_linkage')
        rec = []

        def wrapped(kp, t):
            lab = f(kp, t)
            rec.append([int(v) for v in lab])
            return lab
        mode = c['mode']
        if mode == 'corner':
            st, out = call(pp.filter_clusters_corners, P, K, wrapped, c['t'])
        else:
            st, out = call(pp.filter_clusters, P, K, wrapped, c['t'], kr.ClusterRanking[mode])
        c['out'] = as_nat_list(out) if st == 'ok' else None
        c['exc'] = None if st == 'ok' else out
        if rec:
            labels = rec[0]
        else:
            st2, lab = call(f, P[K], c['t'])
            labels = [int(v) for v in lab] if st2 == 'ok' else []
        c['labels'] = labels
        c['hull'] = []
        c['scores'] = []
        c['r2'] = []
        c['obs'] = []
        c['sd'] = []
        c['nan_scores'] = False
        c['multi'] = 0
        if len(labels) != len(c['knees']) or not labels:
            return c
        clusters = [[k for k, l in zip(c['knees'], labels) if l == i] for i in range(max(labels) + 1)]
        c['multi'] = sum(1 for cc in clusters if len(cc) > 1)
        if mode == 'corner':
            # what the library's own score function returns per cluster (compared bit-for-bit with the derived tri_score)
            for cc in clusters:
                st6, r = call(pp.rank_corners_triangle, P, np.array(cc, dtype=int))
                if st6 == 'ok':
                    c['obs'].append([cc, [float(v) for v in r]])
            return c
        if mode == 'hull':
            st3, hull = call(ch.graham_scan_lower, P)
            hull = [int(h) for h in hull] if st3 == 'ok' else []
            c['hull'] = hull
            sd = {}
            for cc in clusters:
                if len(cc) <= 1:
                    continue
                a, b = cc[0], cc[-1]
                hw = [h for h in hull if a <= h <= b]
                if len(hw) <= 1:
                    continue
                for j in cc:
                    if j in hw:
                        lo, hi = max(a - 1, 0), min(b + 1, len(P) - 1)
                        for (l, r) in ((lo, j), (j, hi)):
                            if (l, r) not in sd:
                                seg = P[l:r + 1]
                                st4, v = call(lambda: np.sum(lf.shortest_distance_points(seg, seg[0], seg[-1])))
                                if st4 == 'ok':
                                    sd[(l, r)] = float(v)
            c['sd'] = [[l, r, v] for (l, r), v in sorted(sd.items())]
        else:
            for cc in clusters:
                if len(cc) <= 1:
                    continue
                st5, r = call(kr.smooth_ranking, P, np.array(cc, dtype=int), kr.ClusterRanking[mode])
                if st5 == 'ok':
                    r = [float(v) for v in r]
                    c['scores'].append([cc, r])
                    if any(v != v for v in r):
                        c['nan_scores'] = True
                # the irreducible oracle of the score: the fit quality lf.r2 of the slices smooth_ranking looks at
                x, y = P[:, 0], P[:, 1]
                j, kl = cc[0], cc[-1]
                r2 = {}
                for k in cc:
                    for (a, b) in ((j, k + 1), (k, kl)):
                        if (a, b) not in r2:
                            st7, v = call(lf.r2, x[a:b], y[a:b])
                            if st7 == 'ok':
                                r2[(a, b)] = float(v)
                have = {(a, b) for a, b, _ in c['r2']}
                c['r2'] += [[a, b, v] for (a, b), v in sorted(r2.items()) if (a, b) not in have]
        return c

    def _emit_single(self, c):
        if c.get('skip'):
            return 'CCorner [] [] [] [] None'
        xs = cfls([p[0] for p in c['points']])
        ys = cfls([p[1] for p in c['points']])
        out = copt(c['out'], cnats)
        tab = lambda t: clist(['(%s, %s)' % (cnats(k), cfls(v)) for k, v in t])
        if c['mode'] == 'corner':
            return 'CCorner2 %s %s %s %s %s %s' % (xs, ys, cnats(c['knees']), cnats(c['labels']), tab(c.get('obs', [])), out)
        sd = clist(['(%s, %s, %s)' % (cnat(l), cnat(r), fl(v)) for l, r, v in c['sd']])
        r2 = clist(['(%s, %s, %s)' % (cnat(l), cnat(r), fl(v)) for l, r, v in c.get('r2', [])])
        return 'CFilt2 %s %s %s %s %s %s %s %s %s %s' % (CMODE[c['mode']], xs, ys, cnats(c['knees']), cnats(c['labels']),
                                                         cnats(c['hull']), r2, tab(c['scores']), sd, out)

    def _key_single(self, c):
        if c.get('skip') or not c.get('multi'):
            return None
        return (str(c['points']), tuple(c['knees']), tuple(c['labels']), c['mode'], bool(c.get('int64')))

    def _classify_single(self, c):
        if c.get('skip'):
            return {'mode': 'skipped'}
        h = {'mode': c['mode'], 'linkage': c['link'], 'n': min(len(c['points']), 64) // 4 * 4, 'family': c.get('family'),
             'multi_member_clusters': min(c.get('multi', 0), 5), 'dtype': 'int64' if c.get('int64') else 'float64', 'outcome': 'exception:%s' % c['exc'] if c.get('exc') else 'ok'}
        if c['mode'] in ('left', 'linear', 'right'):
            h['nan_scores (Tier-O clause vacuous)'] = bool(c.get('nan_scores'))
        return h

    def _shrink_single(self, c):
        out = []
        pts, ks = c['points'], c['knees']
        base = {k: v for k, v in c.items() if k in ('points', 'family', 'knees', 'link', 't', 'mode', 'int64')}
        for j in range(len(ks)):
            if len(ks) > 2:
                d = dict(base)
                d['knees'] = ks[:j] + ks[j + 1:]
                out.append(d)
        for j in range(len(pts)):
            if j in ks or len(pts) <= 4:
                continue
            d = dict(base)
            d['points'] = pts[:j] + pts[j + 1:]
            d['knees'] = [k - 1 if k > j else k for k in ks]
            out.append(d)
        return out

    def _sample_single(self, c):
        keys = ['points', 'knees', 'link', 't', 'mode', 'int64', 'labels', 'hull', 'scores', 'r2', 'obs', 'out']
        return {k: c[k] for k in keys if k in c}

    def _describe_single(self, c):
        dt = ', dtype=np.int64' if c.get('int64') else ''
        if c['mode'] == 'corner':
            return ('kneeliverse.postprocessing.filter_clusters_corners(np.array(%s%s), np.array(%s), kneeliverse.clustering.%s_linkage, %r)'
                    % (c['points'], dt, c['knees'], c['link'], c['t']))
        return ('kneeliverse.postprocessing.filter_clusters(np.array(%s%s), np.array(%s), kneeliverse.clustering.%s_linkage, %r, '
                'kneeliverse.knee_ranking.ClusterRanking.%s)' % (c['points'], dt, c['knees'], c['link'], c['t'], c['mode']))


def as_nat_list(a):
    try:
        out = []
        for v in list(a):
            f = float(v)
            if f != int(f) or f < 0:
                return None
            out.append(int(f))
        return out
    except Exception:
        return None


if __name__ == '__main__':
    main(C12)
