# C09 — each single-knee detector returns the interior optimum of its stated criterion
import itertools, math, random, struct
from core import *
import gen

FITS = ['point_fit', 'best_fit']
COSTS = ['rmse', 'rss']
REFS = ['none', 'original', 'adjusted']
LIMITS = [2, 3, 4, 5, 10, 'n']
LM_CONFIGS = [(f, r, l) for f in FITS for r in REFS for l in LIMITS]          # 36
LMG_CONFIGS = [(f, c) for f in FITS for c in COSTS]                           # 4
KNOWN_KEY = 'lmethod.knee:limit<4:IndexError'

# pinned inputs that always run: the D12 replay (Refinement.original used to cycle on it) and friends
PINNED = [
    {'kind': 'lm', 'points': [[2, 6], [5, 4], [7, 10], [10, 19], [11, 4], [14, 2], [17, 10]], 'fit': 'point_fit', 'it': 'original', 'limit': 5, 'family': 'pinned'},
    {'kind': 'lm', 'points': [[2, 6], [5, 4], [7, 10], [10, 19], [11, 4], [14, 2], [17, 10]], 'fit': 'point_fit', 'it': 'adjusted', 'limit': 5, 'family': 'pinned'},
    {'kind': 'lm', 'points': [[2, 6], [5, 4], [7, 10], [10, 19], [11, 4], [14, 2], [17, 10]], 'fit': 'best_fit', 'it': 'original', 'limit': 4, 'family': 'pinned'},
    # integer-typed presentations (counts / sizes as they come out of np.array([[1, 100], [2, 60], ...]))
    {'kind': 'menger', 'points': [[1, 100], [2, 60], [3, 35], [4, 20], [5, 12], [6, 9], [7, 8]], 'dtype': 'int64', 'family': 'pinned'},
    {'kind': 'curv', 'points': [[1, 100], [2, 60], [3, 35], [4, 20], [5, 12], [6, 9], [7, 8]], 'dtype': 'int64', 'family': 'pinned'},
    {'kind': 'dfdt', 'points': [[1, 100], [2, 60], [3, 35], [4, 20], [5, 12], [6, 9], [7, 8]], 'dtype': 'int32', 'family': 'pinned'},
    {'kind': 'lm', 'points': [[1, 100], [2, 60], [3, 35], [4, 20], [5, 12], [6, 9], [7, 8]], 'dtype': 'int64', 'fit': 'best_fit', 'it': 'adjusted', 'limit': 4, 'family': 'pinned'},
]


def pick_dtype(rng, pts):
    """how the points are PRESENTED to the implementation (the model and the oracle tables always get the same values as
    doubles, evaluated on a float64 copy).  Integer-valued curves: a quarter as int64, some as int32 (magnitudes kept small
    enough that integer and double arithmetic agree exactly); a few float32 presentations of float32-representable curves,
    judged on the Tier-S clauses only (float32 arithmetic legitimately moves near-ties)."""
    vals = [v for p in pts for v in p]
    integral = all(math.isfinite(v) and float(v) == int(v) for v in vals)
    r = rng.random()
    if integral and max(abs(v) for v in vals) < 2 ** 26:
        if r < 0.25:
            return 'int64'
        if r < 0.32 and max(abs(v) for v in vals) < 2 ** 15:
            return 'int32'
    # float32 only where single precision is ample (|v| < 4096): with large offsets np.polyfit's float32 rcond already makes
    # Fit.best_fit rank-deficient (IndexError on e.g. x = 4000008..4000012) — a precision limit of the input, reported in C09.md
    if r > 0.94 and all(math.isfinite(v) and abs(v) < 4096 and struct.unpack('f', struct.pack('f', v))[0] == v for v in vals):
        return 'float32'
    return 'float64'


def bytes_curve(rng, n):
    """spacing-like magnitudes: x = cache sizes in bytes (multiples of 64 KiB), y = a miss ratio in [0, 1]: second
    differences are ~1e-10 and smaller, far below any absolute tolerance, yet carry the whole shape"""
    fam, pts = gen.mrc_curve(rng, n)
    step = 65536.0 * rng.choice([1, 1, 4, 16])
    x0 = pts[0][0]
    return 'bytes', [[(p[0] - x0 + 1.0) * step, p[1]] for p in pts]


def cands(m):
    """split points lmethod.get_knee examines on m points"""
    return [2] + list(range(3, m - 2))


class C09:
    id = 'C09'
    judge_module = 'Run.JudgeC09'
    rule = ('generated performance curves (gen.curve families incl. collinear runs, plateaus, zig-zags, huge/tiny magnitudes, elbows) '
            'with n >= 3 (>= 5 for the L-method) x {curvature.knee, dfdt.get_knee, dfdt.knee, menger.knee, lmethod.get_knee x Fit x Cost, '
            'lmethod.knee x Fit x Refinement x limit in {2,3,4,5,10,n}} — configurations enumerated round-robin (every configuration on every '
            'curve of the small-n stratum in the thorough tier); a quarter of the integer-valued curves are presented to every entry point as int64 arrays, some as int32 '
            '(oracle tables always from a float64 copy), a few float32-representable ones as float32 (Tier-S clauses only); spacing-like magnitudes '
            '(x in bytes, 64 KiB steps, y in [0,1]) and large additive offsets included; non-trivial = the optimum is not at the first candidate (loop-free entry points) / '
            'the refinement loop ran at least 2 iterations (dfdt.knee, lmethod.knee); distinct by (entry point, configuration, curve)')
    assumptions = ['Tier O facts are instantiated on binary64: non-NaN doubles are totally pre-ordered, comparisons with NaN are false (both proved from FloatAxioms)',
                   'limit is a non-negative integer; curves are finite with strictly increasing x']
    trusted = ['modelled: the decision layer of curvature.knee, dfdt.get_knee/get_knee_gradient/knee, menger.knee, lmethod.get_knee/knee (Model/Detectors.v)',
               'oracles (not modelled, evaluated by calling the library / its dependency on the same data): uts.gradient.cfd/csd, uts.thresholding.isodata, '
               'menger.menger_curvature, np.polyfit residuals (Fit.best_fit only; the L-method error itself is derived in the model from the points and compared '
               'bit for bit with lmethod.compute_error); the curvature criterion |f\'\'|/(1+f\'^2)^1.5 is evaluated in NumPy by the harness on the uts outputs',
               'loop traces of the implementation are observed through pass-through wrappers on dfdt.get_knee_gradient and lmethod.get_knee (no source hook)']
    timeout = 6.0
    shard = 250

    # ------------------------------------------------------------------ generation
    def generate(self, rng, tier):
        cases = []
        if tier != 'search':
            cases += [dict(c) for c in PINNED]
        ncurves = {'quick': 230, 'search': 200, 'thorough': 2600}.get(tier, 230)
        nmax = {'quick': 12, 'search': 14, 'thorough': 64}.get(tier, 12)
        k_lm = rng.randrange(len(LM_CONFIGS))
        k_lmg = rng.randrange(len(LMG_CONFIGS))
        for j in range(ncurves):
            if tier == 'thorough' and j % 4 == 0:
                n = rng.randint(13, nmax)
            else:
                n = rng.randint(3, min(nmax, 12))
            u = rng.random()
            fam, pts = gen.curve(rng, n) if u < 0.78 else (gen.mrc_curve(rng, n) if u < 0.92 else bytes_curve(rng, n))
            if rng.random() < 0.08:
                # overflow stratum: still a valid curve (finite, increasing x, y >= 0) but the criteria reach inf / NaN
                e = rng.choice([155, 200, 300])
                sx = rng.choice([1.0, 1e-8, 1e8])
                fam, pts = 'extreme', [[x * sx, min(y * 10.0 ** e, 1e308)] for x, y in pts]
            base = {'points': pts, 'family': fam, 'dtype': pick_dtype(rng, pts)}
            for kind in ('curv', 'dfdtg', 'dfdt', 'menger'):
                cases.append(dict(base, kind=kind))
            if n >= 5:
                f, cst = LMG_CONFIGS[k_lmg % len(LMG_CONFIGS)]
                k_lmg += 1
                cases.append(dict(base, kind='lmg', fit=f, cost=cst))
                f, r, l = LM_CONFIGS[k_lm % len(LM_CONFIGS)]
                k_lm += 1
                cases.append(dict(base, kind='lm', fit=f, it=r, limit=(n if l == 'n' else l)))
        # small-n stratum: every L-method configuration on every curve
        nsmall = {'quick': 6, 'search': 4, 'thorough': 150}.get(tier, 6)
        for j in range(nsmall):
            n = rng.randint(5, 9)
            fam, pts = gen.curve(rng, n)
            dt = pick_dtype(rng, pts)
            for f, r, l in LM_CONFIGS:
                cases.append({'points': pts, 'family': fam, 'dtype': dt, 'kind': 'lm', 'fit': f, 'it': r, 'limit': (n if l == 'n' else l)})
            for f, cst in LMG_CONFIGS:
                cases.append({'points': pts, 'family': fam, 'dtype': dt, 'kind': 'lmg', 'fit': f, 'cost': cst})
        # malformed stream (outside the domain: too few points); never a violation by itself
        for n in (2, 3, 4):
            fam, pts = gen.curve(rng, n)
            if n < 3:
                cases.append({'points': pts, 'family': 'short', 'kind': 'curv'})
                cases.append({'points': pts, 'family': 'short', 'kind': 'dfdt'})
            cases.append({'points': pts, 'family': 'short', 'kind': 'lm', 'fit': 'point_fit', 'it': 'adjusted', 'limit': 10})
        return cases

    def warmup(self):
        import numpy as np
        import kneeliverse.lmethod as lm
        import kneeliverse.curvature, kneeliverse.dfdt, kneeliverse.menger
        p = np.array([[0., 1.], [1., 3.], [2., 2.], [3., 5.], [4., 5.5], [5., 9.]])
        for f in lm.Fit:
            call(lm.knee, p, f)       # exceptions of a broken tree must surface as case outcomes, not here

    # ------------------------------------------------------------------ oracle tables (the library's own primitives)
    def _tables(self, c, touched=None):
        import numpy as np
        import uts.gradient as grad
        import uts.thresholding as thresh
        import kneeliverse.menger as menger
        import kneeliverse.lmethod as lm
        pts = np.array(c['points'], dtype=float)
        n = len(pts)
        x = pts[:, 0] if n else np.array([])
        y = pts[:, 1] if n else np.array([])
        kind = c['kind']
        c['n'] = n
        if kind == 'curv':
            try:
                g1 = grad.cfd(x, y)
                g2 = grad.csd(x, y)
                crit = np.absolute(g2) / ((1.0 + g1**2.0)**(1.5))       # the property's stated criterion
                c['curv'] = [float(v) for v in crit]
            except Exception:
                c['curv'] = None
        elif kind in ('dfdtg', 'dfdt'):
            try:
                g = grad.cfd(x, y)
                c['grad'] = [float(v) for v in g]
            except Exception:
                c['grad'] = None
                g = None
            if kind == 'dfdtg':
                c['t'] = float(thresh.isodata(g)) if g is not None else 0.0
            else:
                cs = set([0]) | set(touched or [])
                if n <= 16 or touched is None:
                    cs |= set(range(0, max(0, n - 2)))
                c['iso'] = [[cc, float(thresh.isodata(g[cc:]))] for cc in sorted(cs) if g is not None and 0 <= cc <= n]
        elif kind == 'menger':
            try:
                c['mc'] = [float(menger.menger_curvature(pts[i], pts[i - 1], pts[i + 1])) for i in range(1, n - 1)]
            except Exception:
                c['mc'] = None
        elif kind in ('lmg', 'lm'):
            # the criterion is derived in the model from the points; the only oracle is np.polyfit's residual (best_fit),
            # evaluated directly on the two slices; what lmethod.compute_error returns is recorded for the bit-for-bit conjunct
            fit = lm.Fit[c['fit']]
            if kind == 'lmg':
                cost = lm.Cost[c['cost']]
                ms = [n]
            else:
                cost = lm.Cost.rmse
                ms = set([n]) | set(touched or [])
                if n <= 12 or touched is None:
                    ms |= set(range(3, n + 1))
                ms = sorted(m for m in ms if 3 <= m <= n)
            slices = set()
            cerr = []
            for m in ms:
                xm, ym = x[0:m], y[0:m]
                for i in cands(m):
                    slices.add((0, i + 1))
                    slices.add((i, m))
                    st, out = call(lambda: lm.compute_error(xm, ym, i, xm[-1] - xm[0], fit, cost)[0])
                    cerr.append([m, i, float(out) if st == 'ok' else None])
            c['cerr'] = cerr
            pres = []
            if c['fit'] == 'best_fit':
                for a, b in sorted(slices):
                    st, out = call(lambda: np.polyfit(x[a:b], y[a:b], 1, full=True)[1][0])
                    pres.append([a, b, float(out) if st == 'ok' else None])
            c['pres'] = pres
        return c

    # ------------------------------------------------------------------ the implementation
    def run_impl(self, c):
        import numpy as np
        import kneeliverse.curvature as curvature
        import kneeliverse.dfdt as dfdt
        import kneeliverse.menger as menger
        import kneeliverse.lmethod as lm
        c = dict(c)
        # the array handed to the implementation, in the presentation dtype; _tables works on its own float64 copy
        pts = np.array(c['points'], dtype=float).astype(np.dtype(c.get('dtype', 'float64')))
        n = len(pts)
        kind = c['kind']
        trace = []
        touched = None
        seen = []          # oracle keys the implementation touched (recorded before the call: it may raise)
        if kind == 'curv':
            st, out = call(curvature.knee, pts)
        elif kind == 'dfdtg':
            st, out = call(dfdt.get_knee, pts[:, 0], pts[:, 1])
        elif kind == 'dfdt':
            orig = dfdt.get_knee_gradient

            def w(g):
                seen.append(n - len(g))
                r = orig(g)
                trace.append((n - len(g), as_nat(r)))
                return r
            dfdt.get_knee_gradient = w
            try:
                st, out = call(dfdt.knee, pts)
            finally:
                dfdt.get_knee_gradient = orig
            touched = list(seen)
            c['ks'] = [(r + cc) if r is not None else None for cc, r in trace]
        elif kind == 'menger':
            st, out = call(menger.knee, pts)
        elif kind == 'lmg':
            st, out = call(lm.get_knee, pts[:, 0], pts[:, 1], lm.Fit[c['fit']], lm.Cost[c['cost']])
            if st == 'ok':
                try:
                    out = out[0]
                except Exception:
                    st, out = 'exc', 'BadReturn'
        else:
            orig = lm.get_knee

            def w(xx, yy, *a, **k):
                seen.append(len(xx))
                r = orig(xx, yy, *a, **k)
                trace.append((len(xx), as_nat(r[0])))
                return r
            lm.get_knee = w
            try:
                st, out = call(lm.knee, pts, lm.Fit[c['fit']], lm.Refinement[c['it']], c['limit'])
            finally:
                lm.get_knee = orig
            touched = list(seen)
            c['ks'] = [r for _, r in trace]
        if st == 'ok':
            k = as_nat(out)
            if k is None:
                c['out'] = {'st': 'exc', 'exc': 'BadReturn:%r' % (out,)}
            else:
                c['out'] = {'st': 'ok', 'k': k}
        else:
            c['out'] = {'st': 'exc', 'exc': str(out)}
        if 'ks' in c and any(v is None for v in c['ks']):
            c['ks'] = []
        return self._tables(c, touched)

    def on_timeout(self, c):
        c = dict(c)
        c['out'] = {'st': 'timeout'}
        c['ks'] = []
        import numpy as np
        with np.errstate(all='ignore'):
            import warnings
            with warnings.catch_warnings():
                warnings.simplefilter('ignore')
                return self._tables(c, None)

    # ------------------------------------------------------------------ Gallina terms
    def _iout(self, c):
        o = c['out']
        if o['st'] == 'ok':
            return '(IOk %s %s)' % (cnat(o['k']), cnats(c.get('ks') or []))
        if o['st'] == 'timeout':
            return 'ITimeout'
        return 'IExc'

    def emit(self, c):
        t = self._emit(c)
        return ('CLoose (%s)' % t) if c.get('dtype') == 'float32' else t

    def _emit(self, c):
        kind = c['kind']
        n = cnat(c['n'])
        out = self._iout(c)
        if kind == 'curv':
            return 'CCurv %s %s %s' % (n, copt(c['curv'], cfls), out)
        if kind == 'dfdtg':
            return 'CDfdtG %s %s %s %s' % (n, copt(c['grad'], cfls), fl(c['t']), out)
        if kind == 'dfdt':
            return 'CDfdt %s %s %s %s' % (n, copt(c['grad'], cfls), clist(['(%s, %s)' % (cnat(a), fl(b)) for a, b in c['iso']]), out)
        pts = cpts([[float(a), float(b)] for a, b in c['points']])
        if kind == 'menger':
            return 'CMenger %s %s %s' % (pts, copt(c['mc'], cfls), out)
        fit = {'point_fit': 'FitPoint', 'best_fit': 'FitBest'}[c['fit']]
        pres = ctab3(c['pres'])
        cerr = ctab3(c['cerr'])
        if kind == 'lmg':
            cost = {'rmse': 'CostRmse', 'rss': 'CostRss'}[c['cost']]
            return 'CLmG %s %s %s %s %s %s' % (pts, fit, cost, pres, cerr, out)
        ref = {'none': 'RefNone', 'original': 'RefOriginal', 'adjusted': 'RefAdjusted'}[c['it']]
        return 'CLm %s %s %s %s %s %s %s' % (pts, fit, ref, cnat(c['limit']), pres, cerr, out)

    # ------------------------------------------------------------------ evidence, shrinking, findings
    def nontrivial_key(self, c):
        o = c.get('out', {})
        if o.get('st') != 'ok':
            return None
        kind = c['kind']
        cfg = (c.get('fit'), c.get('cost'), c.get('it'), c.get('limit'), c.get('dtype', 'float64'))
        key = (kind, cfg, tuple(map(tuple, c['points'])))
        if kind in ('dfdt', 'lm'):
            return key if len(c.get('ks') or []) >= 2 else None
        first = {'curv': 1, 'dfdtg': 1, 'menger': 0, 'lmg': 2}[kind]
        return key if o['k'] != first else None

    def classify(self, c):
        o = c.get('out', {})
        h = {'entry point': c['kind'], 'presented as': c.get('dtype', 'float64'), 'n': (min(c.get('n', 0), 64) // 4) * 4, 'family': c.get('family', '?'),
             'outcome': o.get('st', '?') if o.get('st') != 'exc' else 'exc:' + str(o.get('exc'))[:24]}
        if c['kind'] in ('dfdt', 'lm'):
            h['loop iterations'] = len(c.get('ks') or [])
        if c['kind'] == 'lm':
            h['lmethod.knee config'] = '%s/%s/limit=%s' % (c['fit'], c['it'], 'n' if c['limit'] == c.get('n') else c['limit'])
        if c['kind'] == 'lmg':
            h['lmethod.get_knee config'] = '%s/%s' % (c['fit'], c['cost'])
        arr = c.get('curv') or c.get('mc') or c.get('grad') or []
        if c['kind'] in ('lmg', 'lm'):
            arr = [v for _, _, v in c.get('cerr', []) if v is not None]
        h['NaN in criterion table'] = any(isinstance(v, float) and v != v for v in arr)
        return h

    def shrink(self, c):
        out = []
        pts = c['points']
        lo = 5 if c['kind'] in ('lm', 'lmg') else 3
        raw = {k: v for k, v in c.items() if k in ('kind', 'points', 'family', 'fit', 'cost', 'it', 'limit', 'dtype')}
        for j in range(len(pts)):
            if len(pts) > lo:
                d = dict(raw)
                d['points'] = pts[:j] + pts[j + 1:]
                out.append(d)
        return out

    def sample(self, c):
        keys = ['kind', 'points', 'dtype', 'fit', 'cost', 'it', 'limit', 'out', 'ks']
        return {k: c[k] for k in keys if k in c}

    def describe(self, c):
        p = 'np.array(%s, dtype=float)' % (c['points'],) + ('.astype(np.%s)' % c['dtype'] if c.get('dtype', 'float64') != 'float64' else '')
        k = c['kind']
        if k == 'curv':
            return 'kneeliverse.curvature.knee(%s)' % p
        if k == 'dfdtg':
            return 'p = %s; kneeliverse.dfdt.get_knee(p[:,0], p[:,1])' % p
        if k == 'dfdt':
            return 'kneeliverse.dfdt.knee(%s)' % p
        if k == 'menger':
            return 'kneeliverse.menger.knee(%s)' % p
        if k == 'lmg':
            return 'p = %s; kneeliverse.lmethod.get_knee(p[:,0], p[:,1], lmethod.Fit.%s, lmethod.Cost.%s)[0]' % (p, c['fit'], c['cost'])
        return 'kneeliverse.lmethod.knee(%s, lmethod.Fit.%s, lmethod.Refinement.%s, %s)' % (p, c['fit'], c['it'], c['limit'])

    def finding_key(self, c):
        o = c.get('out', {})
        if (c.get('kind') == 'lm' and c.get('it') != 'none' and isinstance(c.get('limit'), int) and c['limit'] < 4
                and o.get('st') == 'exc' and o.get('exc') == 'IndexError' and len(c.get('points', [])) >= 5):
            return KNOWN_KEY
        return None


def as_nat(v):
    try:
        f = float(v)
        if f != int(f) or f < 0:
            return None
        return int(f)
    except Exception:
        return None


def ctab3(tab):
    return clist(['(%s, %s, %s)' % (cnat(a), cnat(b), coval(v)) for a, b, v in tab])


def coval(v):
    return 'ORaise' if v is None else '(OVal %s)' % fl(v)


if __name__ == '__main__':
    main(C09)
