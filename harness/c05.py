# C05 — fixed-size simplification is an exact-size, nested greedy refinement
import math, random
from core import *
import gen

DISTS = ['shortest', 'perpendicular']
ORDERS = ['triangle', 'area', 'segment']
CORD = {'triangle': 'OTriangle', 'area': 'OArea', 'segment': 'OSegment'}
NFULL = 8          # complete O(n^2) oracle tables up to this size; above: the segments of the implementation's chain


# ---------------------------------------------------------------------------------------------
# tie-rich curves (on top of gen.curve): symmetric / periodic integer curves, collinear runs

def tie_curve(rng, n):
    fam = rng.choice(['sym', 'sym', 'periodic', 'periodic', 'vee', 'runs', 'flat', 'twolevel', 'sloped', 'sloped', 'jagged', 'jagged', 'jagged'])
    xs = [float(i) for i in range(n)]
    if fam == 'jagged':
        # non-monotone small-integer zigzags (e.g. y = 4,6,0,1,0,4): points project outside the chord, so the shortest and the
        # perpendicular distance differ and the ordering scores depend on which one is configured
        if rng.random() < 0.5:
            xs = gen.xs_increasing(rng, n, 'int')
        hi = rng.choice([4, 6, 9])
        ys = []
        for i in range(n):
            if rng.random() < 0.35:
                ys.append(float(rng.choice([0, 0, 1])))
            else:
                ys.append(float(rng.randint(0, hi)))
        if n == 6 and rng.random() < 0.1:
            ys = [4.0, 6.0, 0.0, 1.0, 0.0, 4.0]
    elif fam == 'sloped':
        # collinear runs on an irregular integer grid with slopes whose chord distances carry rounding noise
        # (the inputs of the pinned defects D2 / D3: e.g. [[0,0],[1,9],[3,27]])
        xs = gen.xs_increasing(rng, n, 'int')
        m = rng.choice([9.0, 3.0, 7.0, 1.0 / 3.0, 0.1, 2.5])
        kink = rng.randrange(n) if rng.random() < 0.6 else n
        m2 = rng.choice([0.0, m / 3.0, 2.0 * m])
        ys = []
        for i, x in enumerate(xs):
            ys.append(m * x if i <= kink else m * xs[kink] + m2 * (x - xs[kink]))
    elif fam == 'sym':
        half = [float(rng.randint(0, rng.choice([1, 2, 3, 5]))) for _ in range((n + 1) // 2)]
        ys = half + half[:n // 2][::-1]
    elif fam == 'periodic':
        p = rng.choice([2, 3, 4])
        pat = [float(rng.randint(0, 4)) for _ in range(p)]
        ys = [pat[i % p] for i in range(n)]
    elif fam == 'vee':
        c = (n - 1) / 2.0
        s = rng.choice([1.0, 2.0, 0.5])
        ys = [s * abs(i - c) for i in range(n)]
        if rng.random() < 0.5:
            m = max(ys)
            ys = [m - y for y in ys]
    elif fam == 'runs':
        # collinear runs with integer slopes, kept >= 0
        ys = []
        y = float(rng.randint(0, 12))
        slope = rng.choice([-2, -1, 0, 1, 2, 3])
        for i in range(n):
            if i and rng.random() < 0.3:
                slope = rng.choice([-2, -1, 0, 1, 2, 3])
            if i:
                y += slope
            if y < 0:
                y = 0.0
                slope = abs(slope)
            ys.append(float(y))
    elif fam == 'flat':
        v = float(rng.randint(0, 3))
        ys = [v] * n
        if n > 2 and rng.random() < 0.6:
            ys[rng.randrange(n)] = v + 1.0
    else:
        a, b = float(rng.randint(0, 3)), float(rng.randint(0, 3))
        ys = [a if (i // 2) % 2 == 0 else b for i in range(n)]
    return 'tie-' + fam, [[x, y] for x, y in zip(xs, ys)]


def any_curve(rng, n):
    if rng.random() < 0.6:
        return tie_curve(rng, n)
    return gen.curve(rng, n)


# ---------------------------------------------------------------------------------------------
# oracle tables from the library's own primitives

def _dp(rdp, lf, dist):
    return lf.perpendicular_distance_points if dist == 'perpendicular' else lf.shortest_distance_points


def dist_value(rdp, lf, pts, dist, l, r):
    pt = pts[l:r]
    return [float(v) for v in _dp(rdp, lf, dist)(pt, pt[0], pt[-1])]


def order_fn(rdp, lf, dist, order):
    dp = _dp(rdp, lf, dist)
    if order == 'triangle':
        return lambda pt, index: rdp.order_triangle(pt, index, dp)
    if order == 'area':
        return lambda pt, index: rdp.order_area(pt, index, dp)
    return lambda pt, index: rdp.order_segment(pt, index)


def observed_scores(rdp, lf, pts, dist, order, chain_sets):
    """what rdp.order_<order>(points[a:b+1], g-a, distance_points) returns for every split the chain performs:
    [[l, r], score] for the child segments with interior points"""
    f = order_fn(rdp, lf, dist, order)
    out, seen = [], set()
    for S, S1 in zip(chain_sets, chain_sets[1:]):
        if not S or not S1 or len(S1) != len(S) + 1:
            continue
        new = [g for g in S1 if g not in S]
        if len(new) != 1 or sorted(S + new) != S1:
            continue
        g = new[0]
        par = [(a, b) for a, b in zip(S, S[1:]) if a < g < b]
        if not par:
            continue
        a, b = par[0]
        if b + 1 > len(pts) or (a, b) in seen:
            continue
        seen.add((a, b))
        st, res = call(f, pts[a:b + 1], g - a)
        if st != 'ok':
            continue
        lc, rc = res
        if g + 1 - a >= 3:
            out.append([[a, g + 1], float(lc)])
        if b + 1 - g >= 3:
            out.append([[g, b + 1], float(rc)])
    return out


def wide_segments(S):
    return [(a, b + 1) for a, b in zip(S, S[1:]) if b - a >= 2]


def build_tables(rdp, lf, pts, dist, order, index_sets, full):
    """dt: configured distance on every tabulated segment; ct: chord length np.linalg.norm(points[l] - points[r-1]) (order = triangle);
    rt: lf.linear_fit_residuals_points(points[l:r]) (order = segment).  Priorities are DERIVED from these inside Coq."""
    import numpy as np
    n = len(pts)
    segs = set()
    if full:
        for l in range(n):
            for r in range(l + 3, n + 1):
                segs.add((l, r))
    for S in index_sets:
        if S:
            for (l, r) in wide_segments(S):
                if 0 <= l and r <= n:
                    segs.add((l, r))
    dt, ct, rt = [], [], []
    for (l, r) in sorted(segs):
        dt.append([[l, r], dist_value(rdp, lf, pts, dist, l, r)])
        if (l, r) == (0, n):
            continue
        if order == 'triangle':
            ct.append([[l, r], float(np.linalg.norm(pts[l] - pts[r - 1]))])
        elif order == 'segment':
            rt.append([[l, r], float(lf.linear_fit_residuals_points(pts[l:r]))])
    return dt, ct, rt


def as_nat_list(a):
    try:
        out = []
        for v in list(a):
            f = float(v)
            if f != int(f) or f < 0:
                return None
            out.append(int(f))
        return out
    except Exception:
        return None


def as_rows(a):
    try:
        out = []
        for r in list(a):
            l, c = float(r[0]), float(r[1])
            if l != int(l) or c != int(c) or l < 0 or c < 0:
                return None
            out.append([int(l), int(c)])
        return out
    except Exception:
        return None


def as_out(st, out):
    """(reduced, removed) -> [red, rows] or None (exception / malformed)"""
    if st != 'ok':
        return None
    try:
        red, rem = out
        red = as_nat_list(red)
        rem = as_rows(rem) if len(rem) else []
        if red is None or rem is None:
            return None
        return [red, rem]
    except Exception:
        return None


def crows(rows):
    return clist(['(%s, %s)' % (cnat(r[0]), cnat(r[1])) for r in rows])


def cout(o):
    return 'None' if o is None else '(Some (%s, %s))' % (cnats(o[0]), crows(o[1]))


def cdtab(dt):
    return clist(['((%s, %s), %s)' % (cnat(k[0]), cnat(k[1]), cfls(v)) for k, v in dt])


def cptab(pt):
    return clist(['((%s, %s), %s)' % (cnat(k[0]), cnat(k[1]), fl(v)) for k, v in pt])


class C05:
    id = 'C05'
    judge_module = 'Run.JudgeC05'
    rule = ('one case = one curve x distance x order with the whole chain rdp_fixed(points, k), k = 0..n+1; curves: 60% tie-rich '
            '(symmetric / periodic / V-shaped / flat / collinear-run integer curves on a unit grid), 40% the shared families; '
            'incl. jagged non-monotone integer zigzags where points project outside the chord; 2 distances x 3 orders round-robin; non-trivial = the chain has >= 3 distinct sizes; distinct by (points, distance, order)')
    assumptions = ['length/min_points are non-negative integers (the property quantifies over k in 0..n+1)',
                   'shape of the distance oracle: len(distance_points(points[l:r], ...)) = r - l (checked on every table)',
                   'greedy clause: priorities present are non-NaN (Tier O); cases with a NaN priority are judged on size/nesting/farthest only',
                   'farthest clause: the interior distances of the split segment are non-NaN (Tier O), else skipped for that step']
    trusted = ['modelled: rdp._rdp_fixed / rdp_fixed (stack as a Python list, stable list.sort as stable insertion sort, pop() = last)',
               'oracles: lf.shortest_distance_points / perpendicular_distance_points (configured distance), np.linalg.norm of the chord, '
               'lf.linear_fit_residuals_points, evaluated by the harness on the sub-arrays; the ordering scores are DERIVED in Coq '
               '(0.5*chord*max(dist), pairwise np.sum(dist), residual) and compared bit-for-bit with what rdp.order_* returns']
    timeout = 30.0
    shard = 60

    def generate(self, rng, tier):
        cases = []
        nchains, nmax = {'quick': (420, 12), 'search': (150, 10), 'thorough': (5000, 40)}.get(tier, (420, 12))
        cfg = [(d, o) for d in DISTS for o in ORDERS]
        for i in range(nchains):
            if tier == 'thorough' and i % 4 == 0:
                n = rng.randint(13, nmax)
            else:
                n = rng.choice([2, 3, 4, 5, 6, 7, 8, 9, 10, 11, 12]) if i % 7 else rng.choice([2, 3, 4])
            n = min(n, nmax)
            fam, pts = any_curve(rng, n)
            d, o = cfg[i % len(cfg)]
            cases.append({'points': pts, 'family': fam, 'dist': d, 'order': o})
        return cases

    def warmup(self):
        import numpy as np
        import kneeliverse.rdp as rdp
        p = np.array([[0., 1.], [1., 3.], [2., 2.], [3., 5.], [4., 5.]])
        for o in rdp.Order:
            rdp.rdp_fixed(p, 4, rdp.Distance.shortest, o)

    def on_timeout(self, c):
        c = dict(c)
        c['outs'] = [None] * (len(c['points']) + 2)
        c['dt'], c['ct'], c['rt'], c['ot'] = [], [], [], []
        c['timeout'] = True
        return c

    def run_impl(self, c):
        import numpy as np
        import kneeliverse.rdp as rdp
        import kneeliverse.linear_fit as lf
        c = dict(c)
        pts = np.array(c['points'], dtype=float)
        n = len(pts)
        D, O = rdp.Distance[c['dist']], rdp.Order[c['order']]
        outs = []
        for k in range(n + 2):
            st, out = call(rdp.rdp_fixed, pts, k, D, O)
            outs.append(as_out(st, out))
        c['outs'] = outs
        sets = [o[0] for o in outs if o is not None]
        c['dt'], c['ct'], c['rt'] = build_tables(rdp, lf, pts, c['dist'], c['order'], sets, n <= NFULL)
        c['ot'] = observed_scores(rdp, lf, pts, c['dist'], c['order'], [o[0] if o is not None else None for o in outs])
        return c

    def emit(self, c):
        n = len(c['points'])
        return 'CChain %s %s %s %s %s %s %s' % (cnat(n), CORD[c['order']], cdtab(c['dt']), cptab(c['ct']), cptab(c['rt']),
                                                 cptab(c['ot']), clist([cout(o) for o in c['outs']]))

    def nontrivial_key(self, c):
        sizes = {len(o[0]) for o in c['outs'] if o is not None}
        if len(sizes) >= 3:
            return (str(c['points']), c['dist'], c['order'])
        return None

    def classify(self, c):
        n = len(c['points'])
        sc = [v for _, v in c.get('ot', [])]
        return {'n': n if n <= 12 else (n // 8) * 8, 'family': c.get('family', '?'), 'config': c['dist'] + '/' + c['order'],
                'nan_score': any(v != v for v in sc), 'tied_scores': len(set(sc)) < len(sc), 'scores_observed': min(len(sc), 20),
                'exceptions': sum(1 for o in c['outs'] if o is None)}

    def shrink(self, c):
        out = []
        pts = c['points']
        base = {k: c[k] for k in ('points', 'family', 'dist', 'order')}
        if len(pts) > 2:
            for j in range(len(pts)):
                d = dict(base)
                d['points'] = pts[:j] + pts[j + 1:]
                out.append(d)
        return out

    def sample(self, c):
        return {'points': c['points'], 'dist': c['dist'], 'order': c['order'], 'chain': [o[0] if o else None for o in c['outs']]}

    def describe(self, c):
        return ('[kneeliverse.rdp.rdp_fixed(np.array(%s), k, rdp.Distance.%s, rdp.Order.%s) for k in range(%d)]'
                % (c['points'], c['dist'], c['order'], len(c['points']) + 2))


if __name__ == '__main__':
    main(C05)
