# C05 — fixed-size simplification is an exact-size, nested greedy refinement
import math, random
from core import *
import gen

DISTS = ['shortest', 'perpendicular']
ORDERS = ['triangle', 'area', 'segment']
CORD = {'triangle': 'OTriangle', 'area': 'OArea', 'segment': 'OSegment'}
NFULL = 8          # complete O(n^2) oracle tables up to this size; above: the segments of the implementation's chain


# ---------------------------------------------------------------------------------------------
# tie-rich curves (on top of gen.curve): symmetric / periodic integer curves, collinear runs

def tie_curve(rng, n):
    fam = rng.choice(['sym', 'sym', 'periodic', 'periodic', 'vee', 'runs', 'flat', 'twolevel', 'sloped', 'sloped', 'jagged', 'jagged', 'jagged'])
    xs = [float(i) for i in range(n)]
    if fam == 'jagged':
        # non-monotone small-integer zigzags (e.g. y = 4,6,0,1,0,4): points project outside the chord, so the shortest and the
        # perpendicular distance differ and the ordering scores depend on which one is configured
        if rng.random() < 0.5:
            xs = gen.xs_increasing(rng, n, 'int')
        hi = rng.choice([4, 6, 9])
        ys = []
        for i in range(n):
            if rng.random() < 0.35:
                ys.append(float(rng.choice([0, 0, 1])))
            else:
                ys.append(float(rng.randint(0, hi)))
        if n == 6 and rng.random() < 0.1:
            ys = [4.0, 6.0, 0.0, 1.0, 0.0, 4.0]
    elif fam == 'sloped':
        # collinear runs on an irregular integer grid with slopes whose chord distances carry rounding noise
        # (the inputs of the pinned defects D2 / D3: e.g. [[0,0],[1,9],[3,27]])
        xs = gen.xs_increasing(rng, n, 'int')
        m = rng.choice([9.0, 3.0, 7.0, 1.0 / 3.0, 0.1, 2.5])
        kink = rng.randrange(n) if rng.random() < 0.6 else n
        m2 = rng.choice([0.0, m / 3.0, 2.0 * m])
        ys = []
        for i, x in enumerate(xs):
            ys.append(m * x if i <= kink else m * xs[kink] + m2 * (x - xs[kink]))
    elif fam == 'sym':
        half = [float(rng.randint(0, rng.choice([1, 2, 3, 5]))) for _ in range((n + 1) // 2)]
        ys = half + half[:n // 2][::-1]
    elif fam == 'periodic':
        p = rng.choice([2, 3, 4])
        pat = [float(rng.randint(0, 4)) for _ in range(p)]
        ys = [pat[i % p] for i in range(n)]
    elif fam == 'vee':
        c = (n - 1) / 2.0
        s = rng.choice([1.0, 2.0, 0.5])
        ys = [s * abs(i - c) for i in range(n)]
        if rng.random() < 0.5:
            m = max(ys)
            ys = [m - y for y in ys]
    elif fam == 'runs':
        # collinear runs with integer slopes, kept >= 0
        ys = []
        y = float(rng.randint(0, 12))
        slope = rng.choice([-2, -1, 0, 1, 2, 3])
        for i in range(n):
            if i and rng.random() < 0.3:
                slope = rng.choice([-2, -1, 0, 1, 2, 3])
            if i:
                y += slope
            if y < 0:
                y = 0.0
                slope = abs(slope)
            ys.append(float(y))
    elif fam == 'flat':
        v = float(rng.randint(0, 3))
        ys = [v] * n
        if n > 2 and rng.random() < 0.6:
            ys[rng.randrange(n)] = v + 1.0
    else:
        a, b = float(rng.randint(0, 3)), float(rng.randint(0, 3))
        ys = [a if (i // 2) % 2 == 0 else b for i in range(n)]
    return 'tie-' + fam, [[x, y] for x, y in zip(xs, ys)]


def any_curve(rng, n):
    if rng.random() < 0.6:
        return tie_curve(rng, n)
    return gen.curve(rng, n)


# ---------------------------------------------------------------------------------------------
# oracle tables from the library's own primitives

def _dp(rdp, lf, dist):
    return lf.perpendicular_distance_points if dist == 'perpendicular' else lf.shortest_distance_points


def dist_value(rdp, lf, pts, dist, l, r):
    pt = pts[l:r]
    return [float(v) for v in _dp(rdp, lf, dist)(pt, pt[0], pt[-1])]


def order_fn(rdp, lf, dist, order):
    dp = _dp(rdp, lf, dist)
    if order == 'triangle':
        return lambda pt, index: rdp.order_triangle(pt, index, dp)
    if order == 'area':
        return lambda pt, index: rdp.order_area(pt, index, dp)
    return lambda pt, index: rdp.order_segment(pt, index)


def observed_scores(rdp, lf, pts, dist, order, chain_sets):
    """what rdp.order_<order>(points[a:b+1], g-a, distance_points) returns for every split the chain performs:
    [[l, r], score] for the child segments with interior points"""
    f = order_fn(rdp, lf, dist, order)
    out, seen = [], set()
    for S, S1 in zip(chain_sets, chain_sets[1:]):
        if not S or not S1 or len(S1) != len(S) + 1:
            continue
        new = [g for g in S1 if g not in S]
        if len(new) != 1 or sorted(S + new) != S1:
            continue
        g = new[0]
        par = [(a, b) for a, b in zip(S, S[1:]) if a < g < b]
        if not par:
            continue
        a, b = par[0]
        if b + 1 > len(pts) or (a, b) in seen:
            continue
        seen.add((a, b))
        st, res = call(f, pts[a:b + 1], g - a)
        if st != 'ok':
            continue
        lc, rc = res
        if g + 1 - a >= 3:
            out.append([[a, g + 1], float(lc)])
        if b + 1 - g >= 3:
            out.append([[g, b + 1], float(rc)])
    return out


def wide_segments(S):
    return [(a, b + 1) for a, b in zip(S, S[1:]) if b - a >= 2]


def build_tables(rdp, lf, pts, dist, order, index_sets, full):
    """dt: configured distance on every tabulated segment; ct: chord length np.linalg.norm(points[l] - points[r-1]) (order = triangle);
    rt: lf.linear_fit_residuals_points(points[l:r]) (order = segment).  Priorities are DERIVED from these inside Coq."""
    import numpy as np
    n = len(pts)
    segs = set()
    if full:
        for l in range(n):
            for r in range(l + 3, n + 1):
                segs.add((l, r))
    for S in index_sets:
        if S:
            for (l, r) in wide_segments(S):
                if 0 <= l and r <= n:
                    segs.add((l, r))
    dt, ct, rt = [], [], []
    for (l, r) in sorted(segs):
        dt.append([[l, r], dist_value(rdp, lf, pts, dist, l, r)])
        if (l, r) == (0, n):
            continue
        if order == 'triangle':
            ct.append([[l, r], float(np.linalg.norm(pts[l] - pts[r - 1]))])
        elif order == 'segment':
            rt.append([[l, r], float(lf.linear_fit_residuals_points(pts[l:r]))])
    return dt, ct, rt


def as_nat_list(a):
    try:
        out = []
        for v in list(a):
            f = float(v)
            if f != int(f) or f < 0:
                return None
            out.append(int(f))
        return out
    except Exception:
        return None


def as_rows(a):
    try:
        out = []
        for r in list(a):
            l, c = float(r[0]), float(r[1])
            if l != int(l) or c != int(c) or l < 0 or c < 0:
                return None
            out.append([int(l), int(c)])
        return out
    except Exception:
        return None


def as_out(st, out):
    """(reduced, removed) -> [red, rows] or None (exception / malformed)"""
    if st != 'ok':
        return None
    try:
        red, rem = out
        red = as_nat_list(red)
        rem = as_rows(rem) if len(rem) else []
        if red is None or rem is None:
            return None
        return [red, rem]
    except Exception:
        return None


def crows(rows):
    return clist(['(%s, %s)' % (cnat(r[0]), cnat(r[1])) for r in rows])


def cout(o):
    return 'None' if o is None else '(Some (%s, %s))' % (cnats(o[0]), crows(o[1]))


def cdtab(dt):
    return clist(['((%s, %s), %s)' % (cnat(k[0]), cnat(k[1]), cfls(v)) for k, v in dt])


def cptab(pt):
    return clist(['((%s, %s), %s)' % (cnat(k[0]), cnat(k[1]), fl(v)) for k, v in pt])


class C05:
    id = 'C05'
    judge_module = 'Run.JudgeC05'
    rule = ('one case = one curve x distance x order with the whole chain rdp_fixed(points, k), k = 0..n+1; curves: 60% tie-rich '
            '(symmetric / periodic / V-shaped / flat / collinear-run integer curves on a unit grid), 40% the shared families; '
            'same-object stream: 60 (600 thorough) cases interleave the chains of 2-3 configurations (every other one also a second curve refilled in place) '
            'call by call on ONE ndarray object, tables from fresh copies; incl. jagged non-monotone integer zigzags where points project outside the chord; 2 distances x 3 orders round-robin; non-trivial = the chain has >= 3 distinct sizes; distinct by (points, distance, order)')
    assumptions = ['length/min_points are non-negative integers (the property quantifies over k in 0..n+1)',
                   'shape of the distance oracle: len(distance_points(points[l:r], ...)) = r - l (checked on every table)',
                   'greedy clause: priorities present are non-NaN (Tier O); cases with a NaN priority are judged on size/nesting/farthest only',
                   'farthest clause: the interior distances of the split segment are non-NaN (Tier O), else skipped for that step']
    trusted = ['modelled: rdp._rdp_fixed / rdp_fixed (stack as a Python list, stable list.sort as stable insertion sort, pop() = last)',
               'oracles: lf.shortest_distance_points / perpendicular_distance_points (configured distance), np.linalg.norm of the chord, '
               'lf.linear_fit_residuals_points, evaluated by the harness on the sub-arrays; the ordering scores are DERIVED in Coq '
               '(0.5*chord*max(dist), pairwise np.sum(dist), residual) and compared bit-for-bit with what rdp.order_* returns']
    timeout = 30.0
    shard = 60

    def generate(self, rng, tier):
        cases = []
        nchains, nmax = {'quick': (420, 12), 'search': (150, 10), 'thorough': (5000, 40)}.get(tier, (420, 12))
        cfg = [(d, o) for d in DISTS for o in ORDERS]
        for i in range(nchains):
            if tier == 'thorough' and i % 4 == 0:
                n = rng.randint(13, nmax)
            else:
                n = rng.choice([2, 3, 4, 5, 6, 7, 8, 9, 10, 11, 12]) if i % 7 else rng.choice([2, 3, 4])
            n = min(n, nmax)
            fam, pts = any_curve(rng, n)
            d, o = cfg[i % len(cfg)]
            cases.append({'points': pts, 'family': fam, 'dist': d, 'order': o})
        # same-object stream: the chains of 2-3 configurations (and, every other case, of a second curve written into the same
        # buffer in place) interleaved call by call on ONE array object
        nseq = {'quick': 60, 'search': 30, 'thorough': 600}.get(tier, 60)
        for i in range(nseq):
            n = rng.choice([3, 4, 5, 6, 7, 8, 9])
            fam, pts = any_curve(rng, n)
            curves = [pts]
            if i % 2:
                curves.append(any_curve(rng, n)[1])
            cfgs = rng.sample(cfg, rng.choice([2, 3]))
            cases.append({'kind': 'seq', 'curves': curves, 'configs': [list(x) for x in cfgs], 'family': fam, 'sseed': rng.randrange(1 << 30)})
        return cases

    def warmup(self):
        import numpy as np
        import kneeliverse.rdp as rdp
        p = np.array([[0., 1.], [1., 3.], [2., 2.], [3., 5.], [4., 5.]])
        for o in rdp.Order:
            rdp.rdp_fixed(p, 4, rdp.Distance.shortest, o)

    @staticmethod
    def _plan(c):
        """the (curve, distance, order) parts of a case and the order in which the calls are issued on the ONE array object"""
        if c.get('kind') == 'seq':
            parts = [(ci, d, o) for ci in range(len(c['curves'])) for (d, o) in c['configs']]
            n = len(c['curves'][0])
            calls = [(pi, k) for pi in range(len(parts)) for k in range(n + 2)]
            random.Random(c['sseed']).shuffle(calls)
            return c['curves'], parts, calls
        n = len(c['points'])
        return [c['points']], [(0, c['dist'], c['order'])], [(0, k) for k in range(n + 2)]

    def on_timeout(self, c):
        c = dict(c)
        curves, parts, _ = self._plan(c)
        c['parts'] = [{'points': curves[ci], 'dist': d, 'order': o, 'outs': [None] * (len(curves[ci]) + 2),
                       'dt': [], 'ct': [], 'rt': [], 'ot': []} for ci, d, o in parts]
        c['timeout'] = True
        return c

    def run_impl(self, c):
        import numpy as np
        import kneeliverse.rdp as rdp
        import kneeliverse.linear_fit as lf
        c = dict(c)
        curves, parts, calls = self._plan(c)
        # ONE array object serves every call of the case (all k, all configurations; other curves are written into it in place)
        buf = np.array(curves[0], dtype=float)
        cur = 0
        outs = [[None] * (len(curves[ci]) + 2) for ci, _, _ in parts]
        for pi, k in calls:
            ci, d, o = parts[pi]
            if ci != cur:
                buf[:] = np.array(curves[ci], dtype=float)
                cur = ci
            st, out = call(rdp.rdp_fixed, buf, k, rdp.Distance[d], rdp.Order[o])
            outs[pi][k] = as_out(st, out)
        # oracle tables: from a fresh copy of the curve, through the primitives only
        res = []
        for pi, (ci, d, o) in enumerate(parts):
            fresh = np.array(curves[ci], dtype=float)
            n = len(fresh)
            sets = [x[0] for x in outs[pi] if x is not None]
            dt, ct, rt = build_tables(rdp, lf, fresh, d, o, sets, n <= NFULL and c.get('kind') != 'seq')
            ot = observed_scores(rdp, lf, fresh, d, o, [x[0] if x is not None else None for x in outs[pi]])
            res.append({'points': curves[ci], 'dist': d, 'order': o, 'outs': outs[pi], 'dt': dt, 'ct': ct, 'rt': rt, 'ot': ot})
        c['parts'] = res
        return c

    @staticmethod
    def _emit_part(p):
        n = len(p['points'])
        return '%s %s %s %s %s %s %s %s' % (cnat(n), CORD[p['order']], cpts(p['points']), cdtab(p['dt']), cptab(p['ct']), cptab(p['rt']),
                                             cptab(p['ot']), clist([cout(o) for o in p['outs']]))

    def emit(self, c):
        if c.get('kind') == 'seq':
            return 'CSeq %s' % clist(['CH ' + self._emit_part(p) for p in c['parts']])
        return 'CChain ' + self._emit_part(c['parts'][0])

    def nontrivial_key(self, c):
        keys = []
        for p in c['parts']:
            sizes = {len(o[0]) for o in p['outs'] if o is not None}
            if len(sizes) >= 3:
                keys.append((str(p['points']), p['dist'], p['order']))
        return (c.get('kind', 'one'), tuple(keys)) if keys else None

    def classify(self, c):
        p0 = c['parts'][0]
        n = len(p0['points'])
        sc = [v for p in c['parts'] for _, v in p.get('ot', [])]
        return {'kind': c.get('kind', 'one') + ('/refill' if len(c.get('curves', [])) > 1 else ''),
                'n': n if n <= 12 else (n // 8) * 8, 'family': c.get('family', '?'),
                'config': (p0['dist'] + '/' + p0['order']) if c.get('kind') != 'seq' else 'seq x%d' % len(c['parts']),
                'nan_score': any(v != v for v in sc), 'tied_scores': len(set(sc)) < len(sc), 'scores_observed': min(len(sc), 20),
                'exceptions': sum(1 for p in c['parts'] for o in p['outs'] if o is None)}

    def shrink(self, c):
        out = []
        if c.get('kind') == 'seq':
            base = {k: c[k] for k in ('kind', 'curves', 'configs', 'sseed', 'family')}
            if len(c['configs']) > 1:
                for j in range(len(c['configs'])):
                    d = dict(base)
                    d['configs'] = c['configs'][:j] + c['configs'][j + 1:]
                    out.append(d)
            if len(c['curves']) > 1:
                for j in range(len(c['curves'])):
                    d = dict(base)
                    d['curves'] = c['curves'][:j] + c['curves'][j + 1:]
                    out.append(d)
            n = len(c['curves'][0])
            if n > 2:
                for j in range(n):
                    d = dict(base)
                    d['curves'] = [cv[:j] + cv[j + 1:] for cv in c['curves']]
                    out.append(d)
            for s in range(2):
                d = dict(base)
                d['sseed'] = (c['sseed'] * 31 + s + 1) % (1 << 30)
                out.append(d)
            return out
        pts = c['points']
        base = {k: c[k] for k in ('points', 'family', 'dist', 'order')}
        if len(pts) > 2:
            for j in range(len(pts)):
                d = dict(base)
                d['points'] = pts[:j] + pts[j + 1:]
                out.append(d)
        return out

    def sample(self, c):
        return {'kind': c.get('kind', 'one'),
                'parts': [{'points': p['points'], 'dist': p['dist'], 'order': p['order'], 'chain': [o[0] if o else None for o in p['outs']]}
                          for p in c['parts'][:2]]}

    def describe(self, c):
        if c.get('kind') == 'seq':
            curves, parts, calls = self._plan(c)
            return ('ONE array object buf = np.array(curves[0]) with curves=%s; calls in this order (refill buf[:] = curves[i] when the curve changes): %s'
                    % (curves, [('rdp_fixed', 'curve %d' % parts[pi][0], k, parts[pi][1], parts[pi][2]) for pi, k in calls]))
        return ('[kneeliverse.rdp.rdp_fixed(np.array(%s), k, rdp.Distance.%s, rdp.Order.%s) for k in range(%d)]'
                % (c['points'], c['dist'], c['order'], len(c['points']) + 2))


if __name__ == '__main__':
    main(C05)
