# C01 — every simplifier terminates within a linear number of steps with a well-formed (reduced, removed)
import sys, ast, inspect, math, random, signal
from core import *
import gen
from c04 import Oracles, pick_threshold, make_curve, as_nat_list, as_rows, crows, fsame, DISTS, COSTS, GRID, METRIC_CTOR

ORDERS = ['triangle', 'area', 'segment']
CONFIGS = [(d, c, o) for d in DISTS for c in COSTS for o in ORDERS]      # 2 x 5 x 3
DEFAULT = ('shortest', 'smape', 'segment')                               # what min_point_rdp hard-wires
SIMPS = ['rdp', 'rdp_fixed', 'grdp', 'mp_grdp', 'min_point_rdp']
LOOPS = ('rdp', '_rdp_fixed', '_grdp')                                   # the functions of rdp.py that hold the simplifiers' loops
CALL_LIMIT = 3.0                                                         # seconds per simplifier call; a time-out is an output


# ---------------------------------------------------------------------------------------------
# loop-iteration counts of the real code without touching it: sys.monitoring LINE events on the first body line of
# every `while` of kneeliverse/rdp.py (located through ast), per activation (PY_START) of the enclosing function

class LoopCounter:
    TOOL = 3

    def __init__(self, module):
        mon = sys.monitoring
        tree = ast.parse(inspect.getsource(module))
        self.body, self.head = {}, {}
        for node in tree.body:
            if isinstance(node, ast.FunctionDef):
                ws = [w for w in ast.walk(node) if isinstance(w, ast.While)]
                f = getattr(module, node.name, None)
                if ws and hasattr(f, '__code__'):
                    self.body[f.__code__] = {w.body[0].lineno for w in ws}
                    self.head[f.__code__] = {w.lineno for w in ws}
        names = {c.co_name for c in self.body}
        if not all(nm in names for nm in LOOPS):
            raise HarnessError('while loops of %s not found in %s (found %s)' % (LOOPS, module.__file__, sorted(names)))
        self.acts = []
        if mon.get_tool(self.TOOL) is not None:
            mon.free_tool_id(self.TOOL)
        mon.use_tool_id(self.TOOL, 'verif-loopcount')
        mon.register_callback(self.TOOL, mon.events.LINE, self.on_line)
        mon.register_callback(self.TOOL, mon.events.PY_START, self.on_start)
        for code in self.body:
            mon.set_local_events(self.TOOL, code, mon.events.LINE | mon.events.PY_START)

    def on_start(self, code, off):
        self.acts.append([code.co_name, 0, 0])

    def on_line(self, code, line):
        idx = 1 if line in self.body[code] else (2 if line in self.head[code] else 0)
        if not idx:
            return sys.monitoring.DISABLE
        for a in reversed(self.acts):
            if a[0] == code.co_name:
                a[idx] += 1
                break
        return None

    def reset(self):
        self.acts = []

    def iters(self):
        return [a[1] for a in self.acts if a[0] in LOOPS]


_LC = None


def loop_counter():
    global _LC
    if _LC is None:
        import kneeliverse.rdp as rdp
        _LC = LoopCounter(rdp)
    return _LC


def timed(f, *a):
    """call the implementation under its own repeating alarm: ('ok', value) | ('exc', name) | ('timeout', None)"""
    signal.setitimer(signal.ITIMER_REAL, CALL_LIMIT, 0.25)
    try:
        return call(f, *a)
    except Timeout:
        return ('timeout', None)
    finally:
        signal.setitimer(signal.ITIMER_REAL, 0)


def as_out(st, out):
    if st != 'ok':
        return None
    try:
        red, rem = out
        red = as_nat_list(red)
        rem = as_rows(rem) if len(rem) else []
        if red is None or rem is None:
            return None
        return [red, rem]
    except Timeout:
        raise
    except Exception:
        return None


def prio_value(rdp, dp, pts, order, l, r):
    """priority of points[l:r] as rdp.order_* computes it for a child of an enclosing range: as the left child of
    points[l:n] and as the right child of points[0:r] (it is a function of the segment only; both must coincide)"""
    n = len(pts)

    def order_fn(pt, index):
        if order == 'triangle':
            return rdp.order_triangle(pt, index, dp)
        if order == 'area':
            return rdp.order_area(pt, index, dp)
        return rdp.order_segment(pt, index)
    vals = []
    if r < n:
        st, v = call(order_fn, pts[l:n], r - 1 - l)
        if st == 'ok':
            vals.append(float(v[0]))
    if l > 0:
        st, v = call(order_fn, pts[0:r], l)
        if st == 'ok':
            vals.append(float(v[1]))
    if not vals:
        return None, True
    return vals[0], all(fsame(v, vals[0]) or v == vals[0] for v in vals)


def in_domain(t, r2):
    if t != t or t <= 0 or t == math.inf:
        return False
    return t <= 1.0 if r2 else True


BOUNDARY_QUICK = [127, 128, 129, 255, 256, 257]          # index space at integer-width boundaries (uint8 / int8 indices)
BOUNDARY_THOROUGH = [511, 512, 513, 1023, 1024, 1025]
KMAX_BIG = 10                                            # large-n cases: the fixed-size family is kept within S_2 .. S_KMAX_BIG


def big_curve(rng, n):
    """smooth / few-knee performance curves for the large-n stratum (few retained points, so the oracle tables stay small)"""
    fam = rng.choice(['hyper', 'expdecay', 'knees', 'steps'])
    xs = [float(i + 1) for i in range(n)] if rng.random() < 0.7 else gen.xs_increasing(rng, n, 'int')
    if fam == 'hyper':
        a = rng.choice([10.0, 100.0, 1000.0])
        ys = [a / (x - xs[0] + 1.0) for x in xs]
    elif fam == 'expdecay':
        a = rng.uniform(2.0, 12.0) / (xs[-1] - xs[0])
        c0 = rng.choice([0.0, 0.05, 1.0])
        ys = [c0 + math.exp(-a * (x - xs[0])) for x in xs]
    elif fam == 'knees':
        nb = rng.randint(1, 4)
        bps = sorted(rng.sample(range(1, n - 1), nb))
        slopes = sorted([float(rng.choice([1, 2, 3, 5, 8, 13, 21])) for _ in range(nb + 1)], reverse=True)
        ys, y, j = [], 0.0, 0
        for i in range(n):
            if i:
                y += slopes[j] * (xs[i] - xs[i - 1])
            ys.append(y)
            if j < nb and i == bps[j]:
                j += 1
        top = max(ys)
        ys = [top - v for v in ys]               # decreasing, convex, ends at 0
    else:
        levels = sorted({rng.randint(0, 20) for _ in range(rng.randint(2, 5))}, reverse=True)
        cuts = sorted(rng.sample(range(1, n - 1), len(levels) - 1))
        ys, j = [], 0
        for i in range(n):
            if j < len(cuts) and i == cuts[j]:
                j += 1
            ys.append(float(levels[j]))
    return 'big-' + fam, [[float(x), float(y)] for x, y in zip(xs, ys)]


class C01:
    id = 'C01'
    judge_module = 'Run.JudgeC01'
    rule = ('one case = one generated performance curve x one of the 30 configurations (2 distances x 5 metrics x 3 orders, round-robin; '
            'every 6th case the default configuration so that min_point_rdp is also compared with its model) x threshold (from the observed '
            'segment costs / global costs of the curve, their nextafter neighbours, a grid) x k, min_points in 0..n+1 (round-robin) x a '
            'threshold list; all five simplifiers are run, their while-loop iterations counted through sys.monitoring; '
            'plus a same-object stream (one case in nine: every simplifier first runs on a work buffer holding another curve of the same '
            'shape, the buffer is refilled in place and the second call is judged; tables from a separate copy) and an index-boundary '
            'stratum (n in {127,128,129,255,256,257}, thorough also {511,...,1025}; smooth / few-knee curves, parameters kept within '
            'S_2..S_10 so the tables stay small); non-trivial = n >= 3 and rdp.rdp performed at least one split; distinct by (points, configuration, t, k, m)')
    assumptions = ['threshold domain: t > 0 (t <= 1 for R2), evaluated per case as curved(trivial cost) = false; k, min_points >= 0',
                   'shape of the distance primitive: len(distance_points(points[l:r], ..)) = r - l, evaluated per table entry',
                   'cases in which an order priority is NaN are judged on the predicate only for the fixed-size family (Python\'s sort on NaN keys is not modelled)']
    trusted = ['modelled: rdp.rdp (Model/Rdp.v); rdp_fixed / grdp / mp_grdp / min_point_rdp (Model/RdpFixed.v, the fixed-size topic\'s mirror model)',
               'oracles: lf.shortest_distance_points / perpendicular_distance_points, rdp.compute_cost_coef o lf.linear_fit_points, rdp.order_*, '
               'evaluation.compute_global_cost (fresh cache) evaluated by the harness on the sub-arrays / index sets',
               'iteration counts: sys.monitoring LINE events on the first body line of each while loop of kneeliverse/rdp.py (located via ast), '
               'grouped by activation (PY_START) of rdp / _rdp_fixed / _grdp']
    timeout = 60.0
    shard = 60
    nfull = 6

    def generate(self, rng, tier):
        cases = []
        ncases, nmax = {'quick': (360, 12), 'search': (240, 12), 'thorough': (9000, 48)}.get(tier, (360, 12))
        j = 0
        for i in range(ncases):
            if tier == 'thorough':
                n = rng.choice([2, 3, 4, 5, 6, 7, 8, 9, 10, 12, 14, 16]) if rng.random() < 0.8 else rng.randint(17, nmax)
            else:
                n = rng.randint(2, nmax)
            fam, pts = make_curve(rng, n)
            if i % 6 == 5:
                cfg = DEFAULT
            else:
                cfg = CONFIGS[j % len(CONFIGS)]
                j += 1
            # thorough: every configuration on a part of the small-n stratum
            cfgs = CONFIGS if (tier == 'thorough' and n <= 6 and i % 25 == 0) else [cfg]
            for cf in cfgs:
                cases.append({'points': pts, 'family': fam, 'dist': cf[0], 'cost': cf[1], 'order': cf[2],
                              'k': i % (n + 2), 'm': (i // 3) % (n + 2),
                              't_mode': ['obs', 'obs_up', 'glob', 'obs_dn', 'grid', 'glob'][i % 6], 't_seed': rng.randrange(1 << 30)})
            # same-object stream (hidden state keyed on object identity): each simplifier is first run on a work buffer holding
            # another curve of the same shape; the buffer is refilled IN PLACE with this case's curve and the second call is judged
            if i % 9 == 4 and n >= 3:
                cases[-1]['points_a'] = make_curve(rng, n)[1]
        # index-space boundaries: curve sizes around 2^k (the largest index n-1 is the maximum of an 8/16-bit integer type or next to it)
        sizes = BOUNDARY_QUICK + [128, 256] if tier != 'thorough' else BOUNDARY_QUICK * 2 + BOUNDARY_THOROUGH * 2
        big = []
        for b, n in enumerate(sizes):
            fam, pts = big_curve(rng, n)
            cf = DEFAULT if b % 3 == 1 else CONFIGS[(7 * b + j) % len(CONFIGS)]
            big.append({'points': pts, 'family': fam, 'dist': cf[0], 'cost': cf[1], 'order': cf[2], 'kmax': KMAX_BIG,
                        'k': 3 + (b * 5) % (KMAX_BIG - 2), 'm': (b * 3) % (KMAX_BIG + 1), 't_mode': 'big', 't_seed': rng.randrange(1 << 30)})
        step = max(1, len(cases) // (len(big) + 1))
        for b, c in enumerate(big):               # spread over the shards (their tables are large)
            cases.insert(min(len(cases), (b + 1) * step + b), c)
        return cases

    def warmup(self):
        import numpy as np
        import kneeliverse.rdp as rdp
        import kneeliverse.metrics as metrics
        p = np.array([[0., 1.], [1., 3.], [2., 2.], [3., 5.], [4., 1.]])
        for c in metrics.Metrics:
            call(rdp.rdp, p, 0.1 if c is not metrics.Metrics.r2 else 0.9, rdp.Distance.shortest, c)
            call(rdp.grdp, p, 0.1 if c is not metrics.Metrics.r2 else 0.9, rdp.Distance.shortest, c)
        call(rdp.rdp_fixed, p, 4)

    def on_timeout(self, c):
        c = dict(c)
        c.setdefault('t', 0.01)
        c.setdefault('ts', [])
        c.update({'n': len(c['points']), 'dt': [], 'ct': [], 'pt': [], 'gt': [], 'harness_timeout': True,
                  'res': {s: {'out': None, 'iters': [], 'status': 'timeout'} for s in SIMPS}})
        return c

    def run_impl(self, c):
        import numpy as np
        import kneeliverse.rdp as rdp
        import kneeliverse.linear_fit as lf
        import kneeliverse.metrics as metrics
        import kneeliverse.evaluation as evaluation
        c = dict(c)
        orc = Oracles(c['points'], c['dist'], c['cost'])
        pts, n, r2 = orc.points, orc.n, orc.r2
        D, O, M = rdp.Distance[c['dist']], rdp.Order[c['order']], metrics.Metrics[c['cost']]
        rnd = random.Random(c['t_seed'])

        kmax = min(n, c.get('kmax') or n)
        big = kmax < n
        # the implementation's chain rdp_fixed(points, k), k = 2..kmax: where the fixed-size family's oracles are needed
        # (only the index list is used here; the removed table of these calls is not what is judged)
        chain = []
        for k in range(2, kmax + 1):
            st, o = timed(rdp.rdp_fixed, pts, k, D, O)
            red = None
            if st == 'ok':
                try:
                    red = as_nat_list(o[0])
                except Exception:
                    red = None
            chain.append(red or [])
        gt = {}
        for S in chain:
            if len(S) >= 2 and all(0 <= i < n for i in S) and tuple(S) not in gt:
                st, v = timed(evaluation.compute_global_cost, pts, list(S), M)
                if st == 'ok':
                    gt[tuple(S)] = float(v)

        def stops_within(t, cost_r2, table):
            """some chain member within the tables is on the accepting side of t (so global RDP stops there or earlier)"""
            for S in chain:
                v = table.get(tuple(S))
                if v is not None and not ((v < t) if cost_r2 else (v >= t)):
                    return True
            return False

        def big_thresholds(cost_r2):
            out = []
            for S in chain[1:]:
                v = gt.get(tuple(S))
                if v is None or v != v:
                    continue
                t = v if cost_r2 else math.nextafter(v, math.inf)
                if in_domain(t, cost_r2) and stops_within(t, cost_r2, gt):
                    out.append(t)
            return out

        if big and 't' not in c:
            cand = big_thresholds(r2)
            c['t'] = rnd.choice(cand) if cand else (-1e300 if r2 else 1e300)
        if big and 'ts' not in c:
            if (c['dist'], c['cost'], c['order']) == DEFAULT:
                cand = big_thresholds(False)
                c['ts'] = [rnd.choice(cand) for _ in range(rnd.randint(1, 3))] if cand else []
            else:
                c['ts'] = [rnd.choice([0.5, 0.2, 0.1]) for _ in range(rnd.randint(0, 2))]
        if big and not (stops_within(c['t'], r2, gt) and c['k'] <= kmax and c['m'] <= kmax):
            c['skip'] = 'large-n case whose parameters cannot be kept within the tables'
        if 't' not in c:
            if c.get('t_mode') == 'glob':
                cand = []
                for v in gt.values():
                    cand += [v, math.nextafter(v, math.inf), math.nextafter(v, -math.inf)]
                cand = sorted({t for t in cand if in_domain(t, r2)})
                c['t'] = rnd.choice(cand) if cand else rnd.choice(GRID[r2])
            else:
                c['t'] = pick_threshold(orc, c)
        if 'ts' not in c:
            pool = [t for t in GRID[False] if t <= 1.0]
            if not r2:
                pool = pool + [c['t']] * 3
            if (c['dist'], c['cost'], c['order']) == DEFAULT:
                pool = pool + [v for v in gt.values() if in_domain(v, False)]
            ts = [rnd.choice(pool) for _ in range(rnd.randint(0, 3))]
            if ts and rnd.random() < 0.3:
                ts.append(ts[0])
            rnd.shuffle(ts)
            c['ts'] = ts
        t, k, m, ts = c['t'], c['k'], c['m'], c['ts']

        lc = loop_counter()
        # every oracle value above was computed on the oracle's own copy of the curve; in the same-object stream the
        # implementation only ever sees the work buffer `arg`
        reuse = c.get('points_a') is not None and len(c['points_a']) == n
        arg = pts
        if reuse:
            arg = np.empty((n, 2))
            pts_a = np.array(c['points_a'], dtype=float)
        calls = [('rdp', rdp.rdp, (arg, t, D, M)), ('rdp_fixed', rdp.rdp_fixed, (arg, k, D, O)),
                 ('grdp', rdp.grdp, (arg, t, D, M, O)), ('mp_grdp', rdp.mp_grdp, (arg, t, m, D, M, O)),
                 ('min_point_rdp', rdp.min_point_rdp, (arg, list(ts), m))]
        res = {}
        for name, f, args in calls:
            if reuse:
                arg[:] = pts_a
                timed(f, *args)          # the history: same array object, previous contents
                arg[:] = pts             # refilled in place
            lc.reset()
            st, out = timed(f, *args)
            res[name] = {'out': as_out(st, out), 'iters': lc.iters(),
                         'status': 'returned' if st == 'ok' else ('timeout' if st == 'timeout' else 'raised ' + str(out))}
        c['res'] = res
        signal.setitimer(signal.ITIMER_REAL, 45.0)      # guard for the table construction below (core's handler)

        # ---- oracle tables
        if n <= self.nfull:
            orc.complete()
        orc.closure(t)
        red = (res['rdp']['out'] or [None])[0]
        if red:
            for a, b in zip(red, red[1:]):
                if b - a >= 2 and 0 <= a and b + 1 <= n:
                    orc.cost(a, b + 1)
        sets = list(chain) + [r['out'][0] for r in res.values() if r['out']]
        segs = set()
        for S in sets:
            for a, b in zip(S, S[1:]):
                if b - a >= 2 and 0 <= a and b + 1 <= n:
                    segs.add((a, b + 1))
        if n <= self.nfull:
            segs |= {(l, r) for l in range(n) for r in range(l + 3, n + 1)}
        ptab, consistent = [], True
        for (l, r) in sorted(segs):
            orc.dist(l, r)
            v, okc = prio_value(rdp, orc.dfun, pts, c['order'], l, r)
            consistent = consistent and okc
            if v is not None:
                ptab.append([l, r, v])
        for name in ('grdp', 'mp_grdp', 'min_point_rdp'):
            o = res[name]['out']
            if o and len(o[0]) >= 2 and all(0 <= i < n for i in o[0]) and tuple(o[0]) not in gt:
                st, v = call(evaluation.compute_global_cost, pts, list(o[0]), M)
                if st == 'ok':
                    gt[tuple(o[0])] = float(v)
        c['dt'], c['ct'] = orc.tables()
        c['pt'] = ptab
        c['gt'] = [[list(S), v] for S, v in sorted(gt.items())]
        c['n'] = n
        c['prio_consistent'] = consistent
        signal.setitimer(signal.ITIMER_REAL, 0)
        return c

    def emit(self, c):
        n = c.get('n', len(c['points']))
        dt = clist(['(%s, %s, %s)' % (cnat(l), cnat(r), cfls(d)) for l, r, d in c.get('dt', [])])
        ct = clist(['(%s, %s, %s)' % (cnat(l), cnat(r), fl(v)) for l, r, v in c.get('ct', [])])
        pt = clist(['(%s, %s, %s)' % (cnat(l), cnat(r), fl(v)) for l, r, v in c.get('pt', [])])
        gt = clist(['(%s, %s)' % (cnats(S), fl(v)) for S, v in c.get('gt', [])])

        def cres(r):
            o = r['out']
            return '(Res %s %s)' % ('None' if o is None else '(Some (%s, %s))' % (cnats(o[0]), crows(o[1])), cnats(r['iters']))
        dflt = (c['dist'], c['cost'], c['order']) == DEFAULT
        if c.get('skip'):
            n = 0                                   # outside the domain (code 600): never a verdict
        return 'CAll %s %s %s %s %s %s %s %s %s %s %s %s %s %s' % (
            cnat(n), METRIC_CTOR[c['cost']], cpts(c['points']) if n else '[]', fl(c.get('t', 0.01)), cnat(c['k']), cnat(c['m']), cnat(c.get('kmax') or n),
            cfls(c.get('ts', [])), cbool(dflt),
            dt, ct, pt, gt, ' '.join(cres(c['res'][s]) for s in SIMPS))

    def nontrivial_key(self, c):
        o = c['res']['rdp']['out']
        if c.get('n', 0) >= 3 and o and len(o[0]) >= 3:
            return (str(c['points']), c['dist'], c['cost'], c['order'], float(c['t']).hex(), c['k'], c['m'])
        return None

    def classify(self, c):
        n = c.get('n', 0)
        h = {'n': min(n, 64) // 4 * 4, 'config': '%s/%s/%s' % (c['dist'], c['cost'], c['order']), 't_mode': c.get('t_mode'),
             'family': c.get('family'), 'nan_priority': any(v != v for _, _, v in c.get('pt', [])),
             'prio_consistent': c.get('prio_consistent', True), 'len_ts': len(c.get('ts', [])),
             'same_object_refill': c.get('points_a') is not None, 'skipped': bool(c.get('skip')),
             'boundary_n': n if c.get('kmax') else 0, 'table_floats': min(sum(len(d) for _, _, d in c.get('dt', [])) // 1000, 20)}
        for s in SIMPS:
            r = c['res'][s]
            h['status_' + s] = r['status'].split(' ')[0]
        it = c['res']['rdp']['iters']
        h['rdp_iters_at_bound'] = bool(it) and it[0] == 2 * n - 3
        fi = c['res']['rdp_fixed']['iters']
        h['fixed_iters'] = min(sum(fi), 16)
        h['min_point_activations'] = len(c['res']['min_point_rdp']['iters'])
        return h

    def shrink(self, c):
        out = []
        pts = c['points']
        if c.get('kmax'):
            return out        # index-boundary stratum: the size is the point of the case
        base = {k: v for k, v in c.items() if k not in ('dt', 'ct', 'pt', 'gt', 'res', 'n', 'prio_consistent', 'harness_timeout', 'skip')}
        for j in range(len(pts)):
            if len(pts) > 2:
                d = dict(base)
                d['points'] = pts[:j] + pts[j + 1:]
                if c.get('points_a') is not None:
                    d['points_a'] = c['points_a'][:j] + c['points_a'][j + 1:]
                d['k'] = min(c['k'], len(pts))
                d['m'] = min(c['m'], len(pts))
                out.append(d)
        return out

    def sample(self, c):
        return {'points': c['points'] if len(c['points']) <= 64 else c['points'][:8] + ['... %d points' % len(c['points'])], 'points_a': c.get('points_a'), 'config': [c['dist'], c['cost'], c['order']], 't': c.get('t'), 'k': c['k'], 'm': c['m'],
                'ts': c.get('ts'), 'res': c['res']}

    def describe(self, c):
        pre = ''
        if c.get('points_a') is not None:
            pre = ('SAME-OBJECT HISTORY: before each call below, P (one array object) held np.array(%s), the same call was made, and P '
                   'was refilled in place (P[:] = ...) with the points shown.  ' % (c['points_a'],))
        return (pre + 'P = np.array(%s); D, M, O = rdp.Distance.%s, metrics.Metrics.%s, rdp.Order.%s; t = float.fromhex(%r); '
                'rdp.rdp(P, t, D, M); rdp.rdp_fixed(P, %d, D, O); rdp.grdp(P, t, D, M, O); rdp.mp_grdp(P, t, %d, D, M, O); '
                'rdp.min_point_rdp(P, %r, %d)  # statuses: %s'
                % (c['points'], c['dist'], c['cost'], c['order'], float(c.get('t', 0.01)).hex(), c['k'], c['m'], c.get('ts', []), c['m'],
                   {s: c['res'][s]['status'] for s in SIMPS}))


if __name__ == '__main__':
    main(C01)
