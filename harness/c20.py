# C20 — public functions are pure, deterministic, layout-independent and fully linked
#
# Static part (decided by proof): harness/linkfacts.py translates the current source of every module of the package
# into Coq facts; run/C20.<pid>/gen/LinkFactsGen.v holds them together with the per-run theorem
#     linked : check_program_w waived facts = true          (vm_compute; reflexivity; Qed; Print Assumptions)
# and its corollary through the soundness theorem of Props/C20.v.  When `linked` fails, `failing_idx facts`
# (evaluated in the same file) names the dangling references; each becomes an ordinary case (CLink: the single
# reference with the facts it needs) that the Coq judge rejects, so the replay is a normal replay file naming
# module, function, line and reference.  Open findings of known_findings.json are excused by name in the theorem
# (`waived`) and printed as KNOWN-FINDING lines.
#
# Dynamic part (tested, not proved): a broad slice of the public functions on generated valid inputs; arguments
# (bytes of arrays, list contents, default-argument objects) snapshotted before / compared after; the call repeated;
# the input re-presented Fortran-ordered, as a strided view of a larger array, with negative strides, and as int64
# (integer-valued inputs below 2^20).  The judge (all results bit-identical /\ nothing mutated) lives in Coq.
#
# Refinement stream (kind = 'refine'): the public functions that no property C01-C19 models are run on generated inputs and judged
# against the pure Gallina functions of coq/Model/Extras.v (harness/c20x.py builds, runs and emits these cases; Run/JudgeC20.v CRefine
# delegates to Run/JudgeC20X.judge; theorems C20_refine_* in Props/C20.v).
import copy, enum, importlib, inspect, pickle, struct, symtable, types
import core
from core import *
import gen
import linkfacts
import c20x

DIAG = {1: 'name', 2: 'attr', 3: 'arity', 4: 'import'}
DIAG_TEXT = {0: 'resolves',
             1: 'NameError: the name is bound neither in the function, nor in an enclosing function, nor in the module globals, nor in builtins',
             2: 'AttributeError: an attribute of the chain is missing in the symbol table of the module / class / ufunc it is looked up in',
             3: 'TypeError: the call does not match the signature of the package function it resolves to (missing / unexpected / doubly bound argument)',
             4: 'ImportError: the imported module (or the imported name) does not exist in the package or among the installed modules'}

PKG_IMPORT_ERROR = [None]


def _safe_import_impl():
    """core.import_impl, but a package that does not import is an OUTPUT (case CImport), not a crash"""
    if core._IMPORTED:
        return
    if SRC not in sys.path:
        sys.path.insert(0, SRC)
    import logging
    logging.disable(logging.CRITICAL)
    try:
        import kneeliverse  # noqa
        for k in sorted(PKG_MODULES[0] or []):
            importlib.import_module(k)
    except BaseException as e:   # noqa — whatever the package raises while importing
        PKG_IMPORT_ERROR[0] = '%s: %s' % (type(e).__name__, str(e)[:300])
        core._IMPORTED = True
        return
    p = os.path.realpath(os.path.dirname(kneeliverse.__file__))
    if not p.startswith(os.path.realpath(SRC)):
        raise HarnessError('kneeliverse imported from %s, expected %s' % (p, SRC))
    core._IMPORTED = True


PKG_MODULES = [None]
core.import_impl = _safe_import_impl


# ---------------------------------------------------------------------------------------------------------------
# dynamic part: re-presentations of the inputs

TAGS = {0: 'C-ordered float64', 1: 'same call repeated (np.empty returns different garbage, allocator poisoned in between)', 2: 'Fortran-ordered',
        3: 'strided view of a larger array', 4: 'int64', 5: 'negative-stride view',
        6: 'same call after calls of the related functions of the module on sibling inputs (one process; base = the call alone)',
        7: 'same array OBJECTS refilled in place (first used for a sibling curve of the same shape)'}

LINK_EXC = ('NameError', 'UnboundLocalError', 'AttributeError')
ARITY_MSG = re.compile(r'positional argument|required keyword-only argument|unexpected keyword argument|multiple values for (keyword )?argument|'
                       r'takes no (keyword )?arguments|positional-only arguments? passed as keyword|missing \d+ required')


def xcall(f, *a, **k):
    """core.call, but the exception keeps its message and is classified: linking kind = NameError / UnboundLocalError /
    AttributeError / TypeError with an arity or keyword message"""
    try:
        return ('ok', f(*a, **k))
    except Timeout:
        raise
    except RecursionError:
        return ('exc', ('RecursionError', False, '', ''))
    except Exception as e:
        name = type(e).__name__
        msg = str(e)[:240]
        link = isinstance(e, (NameError, AttributeError)) or (isinstance(e, TypeError) and bool(ARITY_MSG.search(msg)))
        origin = ''
        tb = e.__traceback__
        while tb is not None:                      # the innermost frame that belongs to the package
            fn_ = tb.tb_frame.f_code.co_filename
            if (os.sep + 'kneeliverse' + os.sep) in fn_:
                origin = '%s.%s' % (os.path.basename(fn_)[:-3], tb.tb_frame.f_code.co_name)
                msg_line = tb.tb_lineno
            tb = tb.tb_next
        if origin:
            msg += ' [raised in %s, line %d]' % (origin, msg_line)
        return ('exc', (name, bool(link), msg, origin))


def poison(rnd, extra=()):
    """fill NumPy's small-block cache with garbage so that np.empty hands back non-zero memory, different garbage per round"""
    import numpy as np
    fills = [np.nan, 1e300, -7.25e18, 3.0e9 + 0.5, 2.0 ** -1040]
    keep = []
    sizes = list(range(1, 49)) + [int(e) for e in extra if 0 < int(e) < 4096]
    for k in sizes:
        for rep in range(8):
            a = np.empty(k)
            a.fill(fills[(rnd + rep + k) % 5])
            keep.append(a)
    del keep


class empty_garbage:
    """pass-through wrappers around numpy.empty / numpy.empty_like for the duration of one call: the array is returned filled with
    garbage that differs from round to round (np.empty promises nothing about the contents, so this is a legal numpy; a result that
    changes with it reads uninitialised memory).  Allocator reuse alone is not reliable: the last block freed by the function itself is
    what np.empty usually gets back, and that is the same in every call."""
    FILLS = [1e300, -1e300, float('nan'), 0.5, -7.25e18, 3.0e9 + 0.5, 2.0 ** -1040, -0.0]

    def __init__(self, rnd):
        self.rnd = rnd

    def __enter__(self):
        import numpy as np
        self.np = np
        self.orig = (np.empty, np.empty_like)
        rnd, fills, orig = self.rnd, self.FILLS, self.orig

        def fill(a):
            try:
                if a.dtype.kind == 'f':
                    a.fill(fills[rnd % len(fills)])
                elif a.dtype.kind in 'iu':
                    a.fill([2 ** 62 - 1, -(2 ** 61), 123456789, -1, 7][rnd % 5] if a.dtype.itemsize == 8 else [127, -128, 85, -1, 7][rnd % 5])
                elif a.dtype.kind == 'b':
                    a.fill(rnd % 2 == 0)
            except Exception:
                pass
            return a

        def empty(*a, **k):
            return fill(orig[0](*a, **k))

        def empty_like(*a, **k):
            return fill(orig[1](*a, **k))

        np.empty, np.empty_like = empty, empty_like
        return self

    def __exit__(self, *exc):
        self.np.empty, self.np.empty_like = self.orig
        return False


def in_child(fn):
    """run fn() in a forked child of this process; returns its (picklable) value, or ('childerr', text)"""
    r, w = os.pipe()
    pid = os.fork()
    if pid == 0:
        code = 0
        try:
            os.close(r)
            try:
                res = fn()
            except BaseException as e:   # noqa
                res = ('childerr', '%s: %s' % (type(e).__name__, str(e)[:300]))
            with os.fdopen(w, 'wb') as f:
                pickle.dump(res, f)
        except BaseException:            # noqa
            code = 1
        finally:
            os._exit(code)
    os.close(w)
    try:
        with os.fdopen(r, 'rb') as f:
            data = f.read()
    except BaseException:                # noqa — the worker's own time-out: do not leave the child behind
        try:
            os.kill(pid, 9)
        except OSError:
            pass
        os.waitpid(pid, 0)
        raise
    os.waitpid(pid, 0)
    if not data:
        return ('childerr', 'no result from the child process')
    return pickle.loads(data)


class Rec(dict):
    """a case that records which of its fields a call form reads"""
    def __init__(self, *a):
        dict.__init__(self, *a)
        self.used = set()

    def __getitem__(self, k):
        self.used.add(k)
        return dict.__getitem__(self, k)


ENUMS = {'dist': ['shortest', 'perpendicular'], 'distfn': ['shortest_distance_points', 'perpendicular_distance_points'],
         'order': ['triangle', 'area', 'segment'], 'cost': ['smape', 'rpd', 'rmspe', 'rmsle', 'r2'], 'mkcost': ['smape', 'r2', 'rmspe'],
         'r2': ['classic', 'adjusted'], 'strategy': ['knees', 'expected', 'best', 'worst'],
         'linkage': ['single_linkage', 'complete_linkage', 'centroid_linkage', 'average_linkage'],
         'ranking': ['left', 'linear', 'right', 'hull'], 'ranking3': ['left', 'linear', 'right'], 'fit': ['best_fit', 'point_fit'],
         'it': ['none', 'original', 'adjusted'], 'lcost': ['rss', 'rmse'], 'pd': ['Kneedle', 'ZScore', 'Significant', 'All'],
         'cd': ['Increasing', 'Decreasing'], 'cc': ['Counterclockwise', 'Clockwise'], 'outlier': ['zscore', 'iqr', 'hampel'],
         'detector': ['curvature', 'dfdt', 'menger', 'lmethod', 'kneedle'], 'sorted': [True, False], 'vertical': [False, True],
         'extremes': [False, True], 'plot': [False, True]}
# falsy / boundary values of the numeric parameters (dz = 0 and t2 < 3 (multi_knee with the L-method detector re-pushes the same 3-point segment forever) never terminate by construction of the z-method / multi-knee
# loops on the unchanged tree: outside the domain)
BOUNDARY = {'t': [0.0, 1.0, 0], 'tcm': [0.0, 1.0], 'tr2': [0.0, 1.0], 'tcl': [0.0, 1.0], 'tiou': [0.0, 1.0], 'tx': [1.0, 0.5, 1], 'ty': [0.0, 1.0],
            'dx': [0.0, 1.0], 'dy': [0.0, 1.0], 'dz': [1.0, 3.0], 't1': [0.0, 1.0], 'tk': [0, 0.0, 1], 'sens': [0.0, 1, 0], 'k': [0, 1, 2],
            't2': [3, 4], 'limit': [0, 1, 2], 'tlist': [[], [0.0], [1.0, 0.0]], 'index': [1], 'b': [0]}
SIBLING_NUM = {'t': 0.07, 'tcm': 0.2, 'tr2': 0.7, 'tcl': 0.3, 'tiou': 0.2, 'tx': 0.15, 'ty': 0.15, 'dx': 0.15, 'dy': 0.2, 'dz': 0.4, 't1': 0.05, 'tk': 0.7,
               'sens': 1.5, 'k': 4, 't2': 4, 'limit': 7, 'tlist': [0.05, 0.5]}
_USED = {}
_COMBOS = {}


def combo_list(fn):
    """every combination of the Enum / flag options a call form reads, ordered so that the first max(len) entries already show every
    single option (the diagonal), the rest follow in mixed-radix order"""
    if fn not in _COMBOS:
        import itertools
        keys = sorted(k for k in used_keys(fn) if k in ENUMS)
        if not keys:
            _COMBOS[fn] = []
        else:
            diag = [tuple(ENUMS[k][i % len(ENUMS[k])] for k in keys) for i in range(max(len(ENUMS[k]) for k in keys))]
            rest = [t for t in itertools.product(*[ENUMS[k] for k in keys]) if t not in set(diag)]
            _COMBOS[fn] = [dict(zip(keys, t)) for t in diag + rest]
    return _COMBOS[fn]


def used_keys(fn):
    """the case fields a call form reads (dry build, nothing is called)"""
    if fn not in _USED:
        c = Rec(dyn_case(random.Random(0), fn, 'quick', n=8, family='grid'))
        try:
            FUNCS[fn](M(), c, Variant(0, False))
            _USED[fn] = set(c.used)
        except Exception:
            _USED[fn] = set(ENUMS) | set(BOUNDARY)
    return _USED[fn]


class Variant:
    def __init__(self, tag, as_int):
        self.tag = tag
        self.as_int = as_int
        self.tracked = []

    def _mk(self, a):
        import numpy as np
        tag = self.tag
        if tag == 2:
            r = np.asfortranarray(a.copy())
            base = r
        elif tag == 3:
            fill = 7 if a.dtype.kind == 'i' else 7.5
            if a.ndim == 1:
                base = np.full(2 * a.shape[0] + 3, fill, dtype=a.dtype)
                r = base[1:1 + 2 * a.shape[0]:2]
            else:
                base = np.full((2 * a.shape[0] + 3, 2 * a.shape[1] + 3), fill, dtype=a.dtype)
                r = base[1:1 + 2 * a.shape[0]:2, 1:1 + 2 * a.shape[1]:2]
            r[...] = a
        elif tag == 5:
            if a.ndim == 1:
                base = a[::-1].copy()
                r = base[::-1]
            else:
                base = a[::-1, ::-1].copy()
                r = base[::-1, ::-1]
        else:
            r = a.copy(order='C')
            base = r
        self.tracked.append(['arr', r, base, None])
        return r

    def pts(self, data):
        import numpy as np
        a = np.array(data, dtype=np.int64 if self.as_int else np.float64)
        if a.ndim != 2:
            a = a.reshape(-1, 2)
        return self._mk(a)

    def vec(self, data):
        import numpy as np
        return self._mk(np.array(data, dtype=np.int64 if self.as_int else np.float64).reshape(-1))

    def fvec(self, data):          # always float (e.g. fitted values)
        import numpy as np
        return self._mk(np.array(data, dtype=np.float64).reshape(-1))

    def idx(self, data):
        import numpy as np
        return self._mk(np.array(data, dtype=np.int64).reshape(-1))

    def imat(self, data):
        import numpy as np
        return self._mk(np.array(data, dtype=np.int64))

    def lst(self, data):
        l = copy.deepcopy(data)
        self.tracked.append(['lst', l, None, None])
        return l

    def snapshot(self):
        for t in self.tracked:
            if t[0] == 'arr':
                t[3] = (t[1].dtype.str, t[1].shape, t[1].strides, t[1].tobytes(), t[2].tobytes())
            else:
                t[3] = (repr(t[1]), copy.deepcopy(t[1]))

    def unchanged(self):
        for t in self.tracked:
            if t[0] == 'arr':
                if t[3] != (t[1].dtype.str, t[1].shape, t[1].strides, t[1].tobytes(), t[2].tobytes()):
                    return False
            else:
                if t[3][0] != repr(t[1]) or t[3][1] != t[1]:
                    return False
        return True


def fbits(x):
    if x != x:
        return 0x7ff8000000000000
    return struct.unpack('<q', struct.pack('<d', x))[0]


def enc(o, out, budget=[0]):
    import numpy as np
    if len(out) > 4000:
        out.append(99)
        return
    if o is None:
        out.append(0)
    elif isinstance(o, (bool, np.bool_)):
        out += [1, int(o)]
    elif isinstance(o, enum.Enum):
        enc(o.name, out)
    elif isinstance(o, (int, float, np.integer, np.floating)):
        out += [2, fbits(float(o))]
    elif isinstance(o, np.ndarray):
        out += [3, o.ndim] + [int(d) for d in o.shape]
        if o.dtype == object:
            for e in o.ravel():
                enc(e, out)
        else:
            for v in np.ascontiguousarray(o).astype(np.float64).ravel()[:2000]:
                out.append(fbits(float(v)))
    elif isinstance(o, (tuple, list)):
        out += [4, len(o)]
        for e in o:
            enc(e, out)
    elif isinstance(o, dict):
        out += [5, len(o)]
        for k in sorted(o, key=repr):
            enc(k, out)
            enc(o[k], out)
    elif isinstance(o, str):
        b = o.encode('utf-8', 'replace')[:60]
        out += [6, len(b)] + list(b)
    else:
        out.append(9)
        enc(type(o).__name__, out)


def defaults_of(f):
    g = getattr(f, 'py_func', f)
    return (copy.deepcopy(getattr(g, '__defaults__', None)), copy.deepcopy(getattr(g, '__kwdefaults__', None)))


def defaults_same(f, snap):
    g = getattr(f, 'py_func', f)
    now = (getattr(g, '__defaults__', None), getattr(g, '__kwdefaults__', None))
    return repr(now) == repr(snap) and now == snap


class M:
    """the package's modules, imported lazily inside the worker"""
    _names = ['rdp', 'metrics', 'linear_fit', 'evaluation', 'clustering', 'postprocessing', 'knee_ranking', 'convex_hull',
              'zmethod', 'curvature', 'dfdt', 'menger', 'lmethod', 'kneedle', 'multi_knee']

    def __getattr__(self, n):
        if n == 'lf':
            n = 'linear_fit'
        m = importlib.import_module('kneeliverse.' + n)
        setattr(self, n, m)
        return m


def xs(c):
    return [p[0] for p in c['points']]


def ys(c):
    return [p[1] for p in c['points']]


def yhat(c):
    b, m = c['coef']
    return [p[0] * m + b for p in c['points']]


def tcost(c):
    return 1.0 - c['t'] if c['cost'] == 'r2' else c['t']


def knee_pts(c):
    return [c['points'][k] for k in c['knees']]


def _registry():
    R = {}

    def reg(name, build):
        R[name] = build

    # ---- rdp
    reg('rdp.rdp', lambda m, c, V: (m.rdp.rdp, [V.pts(c['points']), tcost(c), m.rdp.Distance[c['dist']], m.metrics.Metrics[c['cost']]], {}))
    reg('rdp.rdp_fixed', lambda m, c, V: (m.rdp.rdp_fixed, [V.pts(c['points']), c['k'], m.rdp.Distance[c['dist']], m.rdp.Order[c['order']]], {}))
    reg('rdp.grdp', lambda m, c, V: (m.rdp.grdp, [V.pts(c['points']), tcost(c), m.rdp.Distance[c['dist']], m.metrics.Metrics[c['cost']], m.rdp.Order[c['order']]], {}))
    reg('rdp.mp_grdp', lambda m, c, V: (m.rdp.mp_grdp, [V.pts(c['points']), tcost(c), c['k'], m.rdp.Distance[c['dist']], m.metrics.Metrics[c['cost']], m.rdp.Order[c['order']]], {}))
    reg('rdp.min_point_rdp', lambda m, c, V: (m.rdp.min_point_rdp, [V.pts(c['points']), V.lst(c['tlist']), c['k']], {}))
    reg('rdp.min_point_rdp/default', lambda m, c, V: (m.rdp.min_point_rdp, [V.pts(c['points'])], {'min_points': c['k']}))
    reg('rdp.mapping', lambda m, c, V: (m.rdp.mapping, [V.idx(c['rknees']), V.idx(c['reduced']), V.imat(c['removed_rows']), c['sorted']], {}))
    reg('rdp.compute_removed_points', lambda m, c, V: (m.rdp.compute_removed_points, [V.pts(c['points']), V.idx(c['reduced'])], {}))
    reg('rdp.compute_cost_coef', lambda m, c, V: (m.rdp.compute_cost_coef, [V.pts(c['points']), tuple(c['coef']), m.metrics.Metrics[c['cost']]], {}))
    reg('rdp.order_triangle', lambda m, c, V: (m.rdp.order_triangle, [V.pts(c['points']), c['index'], getattr(m.lf, c['distfn'])], {}))
    reg('rdp.order_area', lambda m, c, V: (m.rdp.order_area, [V.pts(c['points']), c['index'], getattr(m.lf, c['distfn'])], {}))
    reg('rdp.order_segment', lambda m, c, V: (m.rdp.order_segment, [V.pts(c['points']), c['index']], {}))
    # ---- metrics (numba)
    for fn in ['rmse', 'rmsle', 'rmspe', 'rpd', 'residuals', 'smape']:
        reg('metrics.' + fn, (lambda fn: lambda m, c, V: (getattr(m.metrics, fn), [V.vec(ys(c)), V.fvec(yhat(c))], {}))(fn))
    reg('metrics.r2', lambda m, c, V: (m.metrics.r2, [V.vec(ys(c)), V.fvec(yhat(c)), m.metrics.R2[c['r2']]], {}))
    # ---- linear_fit
    lf1 = ['linear_fit_points', 'linear_hv_residuals_points', 'linear_fit_residuals_points', 'perpendicular_distance']
    for fn in lf1:
        reg('linear_fit.' + fn, (lambda fn: lambda m, c, V: (getattr(m.lf, fn), [V.pts(c['points'])], {}))(fn))
    for fn in ['linear_fit', 'linear_hv_residuals', 'linear_fit_residuals']:
        reg('linear_fit.' + fn, (lambda fn: lambda m, c, V: (getattr(m.lf, fn), [V.vec(xs(c)), V.vec(ys(c))], {}))(fn))
    for fn in ['linear_transform_points', 'rmspe_points', 'rmsle_points', 'smape_points', 'rpd_points', 'rmse_points', 'linear_residuals_points']:
        reg('linear_fit.' + fn, (lambda fn: lambda m, c, V: (getattr(m.lf, fn), [V.pts(c['points']), tuple(c['coef'])], {}))(fn))
    for fn in ['rmspe', 'rmsle', 'smape', 'rpd', 'rmse', 'linear_residuals']:
        reg('linear_fit.' + fn, (lambda fn: lambda m, c, V: (getattr(m.lf, fn), [V.vec(xs(c)), V.vec(ys(c)), tuple(c['coef'])], {}))(fn))
    reg('linear_fit.linear_transform', lambda m, c, V: (m.lf.linear_transform, [V.vec(xs(c)), tuple(c['coef'])], {}))
    reg('linear_fit.linear_fit_transform_points', lambda m, c, V: (m.lf.linear_fit_transform_points, [V.pts(c['points']), c['vertical']], {}))
    reg('linear_fit.linear_fit_transform', lambda m, c, V: (m.lf.linear_fit_transform, [V.vec(xs(c)), V.vec(ys(c)), c['vertical']], {}))
    reg('linear_fit.linear_r2_points', lambda m, c, V: (m.lf.linear_r2_points, [V.pts(c['points']), tuple(c['coef']), m.metrics.R2[c['r2']]], {}))
    reg('linear_fit.linear_r2', lambda m, c, V: (m.lf.linear_r2, [V.vec(xs(c)), V.vec(ys(c)), tuple(c['coef']), m.metrics.R2[c['r2']]], {}))
    reg('linear_fit.r2_points', lambda m, c, V: (m.lf.r2_points, [V.pts(c['points']), m.metrics.R2[c['r2']]], {}))
    reg('linear_fit.r2', lambda m, c, V: (m.lf.r2, [V.vec(xs(c)), V.vec(ys(c)), m.metrics.R2[c['r2']]], {}))
    reg('linear_fit.angle', lambda m, c, V: (m.lf.angle, [tuple(c['coef']), tuple(c['coef2'])], {}))
    reg('linear_fit.shortest_distance_points', lambda m, c, V: (m.lf.shortest_distance_points, [V.pts(c['points']), V.vec(c['points'][0]), V.vec(c['points'][-1])], {}))
    reg('linear_fit.shortest_distance_points/inner', lambda m, c, V: (lambda p: m.lf.shortest_distance_points(p, p[0], p[-1]), [V.pts(c['points'])], {}))
    reg('linear_fit.perpendicular_distance_points', lambda m, c, V: (m.lf.perpendicular_distance_points, [V.pts(c['points']), V.vec(c['points'][0]), V.vec(c['points'][-1])], {}))
    reg('linear_fit.perpendicular_distance_index', lambda m, c, V: (m.lf.perpendicular_distance_index, [V.pts(c['points']), c['b'], c['a']], {}))
    # ---- evaluation
    for fn in ['mae', 'mse', 'rmse', 'rmspe']:
        reg('evaluation.' + fn, (lambda fn: lambda m, c, V: (getattr(m.evaluation, fn), [V.pts(c['points']), V.idx(c['knees']), V.pts(c['expected']), m.evaluation.Strategy[c['strategy']]], {}))(fn))
    reg('evaluation.cm', lambda m, c, V: (m.evaluation.cm, [V.pts(c['points']), V.idx(c['knees']), V.pts(c['expected']), c['tcm']], {}))
    for fn in ['accuracy', 'f1score', 'mcc']:
        reg('evaluation.' + fn, (lambda fn: lambda m, c, V: (getattr(m.evaluation, fn), [V.imat(c['cm'])], {}))(fn))
    reg('evaluation.compute_global_rmse', lambda m, c, V: (m.evaluation.compute_global_rmse, [V.pts(c['points']), V.idx(c['reduced'])], {}))
    reg('evaluation.compute_global_rmse/cache', lambda m, c, V: (m.evaluation.compute_global_rmse, [V.pts(c['points']), V.idx(c['reduced']), {}], {}))
    reg('evaluation.mip', lambda m, c, V: (m.evaluation.mip, [V.pts(c['points']), V.idx(c['reduced3'])], {}))
    reg('evaluation.compute_partial_cost', lambda m, c, V: (m.evaluation.compute_partial_cost, [V.vec(ys(c)), V.fvec(yhat(c)), m.metrics.Metrics[c['cost']]], {}))
    reg('evaluation.compute_global_cost', lambda m, c, V: (m.evaluation.compute_global_cost, [V.pts(c['points']), V.idx(c['reduced']), m.metrics.Metrics[c['cost']]], {}))
    reg('evaluation.compute_global_cost/cache', lambda m, c, V: (m.evaluation.compute_global_cost, [V.pts(c['points']), V.idx(c['reduced']), m.metrics.Metrics[c['cost']], {}], {}))
    reg('evaluation.compute_global_cost/list', lambda m, c, V: (m.evaluation.compute_global_cost, [V.pts(c['points']), V.lst(c['reduced']), m.metrics.Metrics[c['cost']]], {}))
    for fn in ['get_neighbourhood', 'get_neighbourhood_fast', 'get_neighbourhood_binary']:
        reg('evaluation.' + fn, (lambda fn: lambda m, c, V: (getattr(m.evaluation, fn), [V.vec(xs(c)), V.vec(ys(c)), c['a'], c['b'], c['tr2']], {}))(fn))
    for fn in ['get_neighbourhood_points', 'get_neighbourhood_fast_points']:
        reg('evaluation.' + fn, (lambda fn: lambda m, c, V: (getattr(m.evaluation, fn), [V.pts(c['points']), c['a'], c['b'], c['tr2']], {}))(fn))
    reg('evaluation.accuracy_knee', lambda m, c, V: (m.evaluation.accuracy_knee, [V.pts(c['points']), V.idx(c['knees'])], {}))
    reg('evaluation.accuracy_trace', lambda m, c, V: (m.evaluation.accuracy_trace, [V.pts(c['points']), V.idx(c['knees'])], {}))
    # ---- clustering
    for fn in ['single_linkage', 'complete_linkage', 'centroid_linkage', 'average_linkage']:
        reg('clustering.' + fn, (lambda fn: lambda m, c, V: (getattr(m.clustering, fn), [V.pts(knee_pts(c)), c['tcl']], {}))(fn))
    # ---- postprocessing
    reg('postprocessing.filter_corner_knees', lambda m, c, V: (m.postprocessing.filter_corner_knees, [V.pts(c['points']), V.idx(c['knees']), c['tiou']], {}))
    reg('postprocessing.select_corner_knees', lambda m, c, V: (m.postprocessing.select_corner_knees, [V.pts(c['points']), V.idx(c['knees']), c['tiou']], {}))
    reg('postprocessing.filter_worst_knees', lambda m, c, V: (m.postprocessing.filter_worst_knees, [V.pts(c['points']), V.idx(c['knees'])], {}))
    reg('postprocessing.filter_worst_knees/list', lambda m, c, V: (m.postprocessing.filter_worst_knees, [V.pts(c['points']), V.lst(c['knees'])], {}))
    reg('postprocessing.filter_clusters', lambda m, c, V: (m.postprocessing.filter_clusters, [V.pts(c['points']), V.idx(c['knees']), getattr(m.clustering, c['linkage']), c['tcl'], m.knee_ranking.ClusterRanking[c['ranking']]], {}))
    reg('postprocessing.filter_clusters_corners', lambda m, c, V: (m.postprocessing.filter_clusters_corners, [V.pts(c['points']), V.idx(c['knees']), getattr(m.clustering, c['linkage']), c['tcl']], {}))
    reg('postprocessing.add_points_even', lambda m, c, V: (m.postprocessing.add_points_even, [V.pts(c['points']), V.idx(c['reduced']), V.idx(c['rknees']), V.imat(c['removed_rows']), c['tx'], c['ty'], c['extremes']], {}))
    reg('postprocessing.add_points_even_knees', lambda m, c, V: (m.postprocessing.add_points_even_knees, [V.pts(c['points']), V.idx(c['knees']), c['tx'], c['ty'], c['extremes']], {}))
    reg('postprocessing.triangle_area', lambda m, c, V: (m.postprocessing.triangle_area, [V.pts(c['points'][:3])], {}))
    reg('postprocessing.rank_corners_triangle', lambda m, c, V: (m.postprocessing.rank_corners_triangle, [V.pts(c['points']), V.idx(c['knees'])], {}))
    reg('postprocessing.rank_corners', lambda m, c, V: (m.postprocessing.rank_corners, [V.pts(c['points']), V.idx(c['knees'])], {}))
    # ---- knee_ranking
    reg('knee_ranking.distances', lambda m, c, V: (m.knee_ranking.distances, [V.vec(c['points'][c['index']]), V.pts(c['points'])], {}))
    reg('knee_ranking.rect', lambda m, c, V: (m.knee_ranking.rect, [V.vec(c['points'][0]), V.vec(c['points'][c['index']])], {}))
    reg('knee_ranking.rect_overlap', lambda m, c, V: (m.knee_ranking.rect_overlap, [V.vec(c['rects'][0]), V.vec(c['rects'][1]), V.vec(c['rects'][2]), V.vec(c['rects'][3])], {}))
    reg('knee_ranking.distance_to_similarity', lambda m, c, V: (m.knee_ranking.distance_to_similarity, [V.vec(ys(c))], {}))
    reg('knee_ranking.rank', lambda m, c, V: (m.knee_ranking.rank, [V.vec(c['distinct'])], {}))
    reg('knee_ranking.slope_ranking', lambda m, c, V: (m.knee_ranking.slope_ranking, [V.pts(c['points']), V.idx(c['knees']), c['tr2']], {}))
    reg('knee_ranking.smooth_ranking', lambda m, c, V: (m.knee_ranking.smooth_ranking, [V.pts(c['points']), V.idx(c['knees']), m.knee_ranking.ClusterRanking[c['ranking3']]], {}))
    # ---- convex hull
    for fn in ['graham_scan', 'graham_scan_lower', 'graham_scan_upper']:
        reg('convex_hull.' + fn, (lambda fn: lambda m, c, V: (getattr(m.convex_hull, fn), [V.pts(c['points'])], {}))(fn))
    # ---- z-method
    reg('zmethod.knees', lambda m, c, V: (m.zmethod.knees, [V.pts(c['points']), c['dx'], c['dy'], c['dz']], {}))
    reg('zmethod.knees/range', lambda m, c, V: (m.zmethod.knees, [V.pts(c['points']), c['dx'], c['dy'], c['dz'], len(c['points']), V.lst(c['y_range'])], {}))
    reg('zmethod.getPoints', lambda m, c, V: (m.zmethod.getPoints, [V.pts(c['points']), c['dx'], c['dy'], c['dz'], c['plot']], {}))
    reg('zmethod.knees2', lambda m, c, V: (m.zmethod.knees2, [V.pts(c['points']), c['dx'], c['dy'], m.zmethod.Outlier[c['outlier']]], {}))
    reg('zmethod.map_index', lambda m, c, V: (m.zmethod.map_index, [V.vec(xs(c)), V.vec([c['points'][k][0] for k in c['knees']])], {}))
    # ---- detectors
    for mod in ['curvature', 'dfdt', 'menger']:
        reg(mod + '.knee', (lambda mod: lambda m, c, V: (getattr(m, mod).knee, [V.pts(c['points'])], {}))(mod))
        reg(mod + '.multi_knee', (lambda mod: lambda m, c, V: (getattr(m, mod).multi_knee, [V.pts(c['points']), c['t1'], c['t2']], {}))(mod))
    reg('dfdt.get_knee', lambda m, c, V: (m.dfdt.get_knee, [V.vec(xs(c)), V.vec(ys(c))], {}))
    reg('dfdt.get_knee_gradient', lambda m, c, V: (m.dfdt.get_knee_gradient, [V.vec(ys(c))], {}))
    reg('menger.menger_curvature', lambda m, c, V: (m.menger.menger_curvature, [V.vec(c['points'][1]), V.vec(c['points'][0]), V.vec(c['points'][2])], {}))
    reg('lmethod.knee', lambda m, c, V: (m.lmethod.knee, [V.pts(c['points']), m.lmethod.Fit[c['fit']], m.lmethod.Refinement[c['it']], c['limit']], {}))
    reg('lmethod.multi_knee', lambda m, c, V: (m.lmethod.multi_knee, [V.pts(c['points']), c['t1'], c['t2'] + 2], {}))
    reg('lmethod.get_knee', lambda m, c, V: (m.lmethod.get_knee, [V.vec(xs(c)), V.vec(ys(c)), m.lmethod.Fit[c['fit']], m.lmethod.Cost[c['lcost']]], {}))
    reg('lmethod.compute_error', lambda m, c, V: (m.lmethod.compute_error, [V.vec(xs(c)), V.vec(ys(c)), max(2, min(c['index'], len(c['points']) - 3)), c['points'][-1][0] - c['points'][0][0], m.lmethod.Fit[c['fit']], m.lmethod.Cost[c['lcost']]], {}))
    reg('kneedle.knee', lambda m, c, V: (m.kneedle.knee, [V.pts(c['points']), c['tk']], {}))
    reg('kneedle.knees', lambda m, c, V: (m.kneedle.knees, [V.pts(c['points']), c['tk'], c['sens'], m.kneedle.PeakDetection[c['pd']]], {}))
    reg('kneedle.multi_knee', lambda m, c, V: (m.kneedle.multi_knee, [V.pts(c['points']), c['t1'], c['t2']], {}))
    reg('kneedle.differences', lambda m, c, V: (m.kneedle.differences, [V.pts(c['points']), m.kneedle.Direction[c['cd']], m.kneedle.Concavity[c['cc']]], {}))
    reg('multi_knee.multi_knee', lambda m, c, V: (m.multi_knee.multi_knee, [getattr(m, c['detector']).knee, V.pts(c['points']), c['t1'], c['t2'], m.metrics.Metrics[c['mkcost']]], {}))
    return R


FUNCS = _registry()


def is_intvals(c):
    try:
        vals = [v for p in c['points'] for v in p] + [v for p in c['expected'] for v in p] + [v for r in c['rects'] for v in r] + list(c['distinct'])
        return all(float(v).is_integer() and abs(v) < 2 ** 42 for v in vals)
    except Exception:
        return False


DECISION_PREFIXES = ('curvature.', 'dfdt.', 'menger.', 'lmethod.', 'kneedle.', 'multi_knee.', 'clustering.', 'postprocessing.', 'rdp.',
                     'zmethod.', 'convex_hull.', 'evaluation.cm', 'evaluation.get_neighbourhood', 'evaluation.accuracy_',
                     'knee_ranking.slope_ranking', 'knee_ranking.smooth_ranking', 'knee_ranking.rank')


def is_decision(fn):
    """call forms whose result is a decision (an index, a label, a selection), not just a number"""
    return fn.startswith(DECISION_PREFIXES)


def removed_rows(red):
    return [[red[i], red[i + 1] - red[i] - 1] for i in range(len(red) - 1)]


def chord_hug(rng, n=None):
    """small-integer curve that hugs its chord: integer x, chord of NON-integer slope between integer end points,
    y = round(chord) + alternating / random +-1, +-2 perturbations or an S-shape (first half above, second half below, or
    the reverse), so sums of residuals about the chord are near zero and any truncation of an intermediate to the input's
    integer dtype can flip a sign-based decision.  Returns (family, points), all coordinates integer-valued and >= 0."""
    n = n or rng.randint(5, 15)
    xs_, x = [], rng.choice([0, 1, 2])
    for _ in range(n):
        xs_.append(x)
        x += rng.choice([1, 1, 1, 2, 3])
    span = xs_[-1] - xs_[0]
    for _ in range(20):
        rise = rng.choice([-1, 1]) * rng.randint(1, 3 * span)
        if rise % span != 0:
            break
    y0 = rng.randint(0, 6) + (abs(rise) + 3 if rise < 0 else 3)
    chord = [y0 + rise * (v - xs_[0]) / span for v in xs_]
    shape = rng.choice(['alt', 'alt2', 'rand', 'S', 'S-rev', 'bump'])
    ys_ = []
    for i, cv in enumerate(chord):
        if i == 0 or i == n - 1:
            d = 0
        elif shape == 'alt':
            d = 1 if i % 2 else -1
        elif shape == 'alt2':
            d = rng.choice([1, 2]) * (1 if i % 2 else -1)
        elif shape == 'rand':
            d = rng.choice([-2, -1, -1, 0, 1, 1, 2])
        elif shape == 'bump':
            d = rng.choice([-1, 1]) * (2 if i == n // 2 else 0) + rng.choice([-1, 0, 1])
        else:
            sgn = 1 if i < n / 2 else -1
            d = sgn * rng.choice([1, 1, 2]) * (1 if shape == 'S' else -1)
        base = math.floor(cv) if rng.random() < 0.5 else math.ceil(cv)
        ys_.append(max(0, int(base + d)))
    return 'chordhug-' + shape, [[float(a), float(b)] for a, b in zip(xs_, ys_)]


def bumpy_convex(rng, n):
    """a smooth convex decreasing curve with a few points lifted off its lower hull (and a few pushed below it): neighbouring points
    differ in whether they are hull points / corners, which is what hull rankings, corner filters and cluster representatives decide on"""
    integer = rng.random() < 0.5
    a = rng.choice([40.0, 100.0, 250.0])
    xs_ = [float(i) for i in range(n)]
    ys_ = [a / (x + 1.0) for x in xs_]
    dens = rng.choice([0.15, 0.4, 0.6])
    base = list(ys_)
    for i in range(1, n - 1):
        if rng.random() < dens:
            ys_[i] += rng.choice([1.0, 3.0, 3.0, -0.5]) * (base[i - 1] - base[i + 1]) * rng.choice([0.25, 0.5])
    if integer:
        ys_ = [float(round(y * 4)) for y in ys_]
    return 'bumps', [[x, max(0.0, y)] for x, y in zip(xs_, ys_)]


def dyn_case(rng, fn, tier, n=None, family=None, j=None, stream='general'):
    big = tier == 'thorough'
    if n is None:
        n = rng.randint(6, 40 if big and rng.random() < 0.3 else 14)
        if big and rng.random() < 0.2:
            n = rng.randint(3, 7)
    if family == 'chordhug':
        fam, pts = chord_hug(rng, n)
        n = len(pts)
    elif family == 'bumps' or (family is None and rng.random() < 0.2):
        fam, pts = bumpy_convex(rng, n)
    elif family is not None:
        fam, pts = gen.curve(rng, n, family)
    elif rng.random() < 0.55:
        fam, pts = gen.curve(rng, n, rng.choice(['grid', 'plateau', 'zigzag', 'collinear', 'elbow']))
        if not all(float(v).is_integer() for p in pts for v in p):
            pts = [[float(round(p[0])), float(round(p[1] * 4))] for p in pts]
            fam += '/rounded'
            if any(pts[i + 1][0] <= pts[i][0] for i in range(len(pts) - 1)):
                pts = [[float(i), p[1]] for i, p in enumerate(pts)]
    elif rng.random() < 0.3:
        fam, pts = gen.mrc_curve(rng, n)
        fam = 'mrc-' + fam
    else:
        fam, pts = gen.curve(rng, n, rng.choice(['convex', 'uniform', 'collinear', 'elbow', 'scaled', 'grid']))
    integer = all(float(v).is_integer() for p in pts for v in p)
    interior = list(range(1, n - 1))
    if rng.random() < 0.5 and len(interior) >= 4:
        # knees in runs of neighbouring indices: clusters that hold several knees, corners next to each other
        knees = set()
        for _ in range(rng.randint(1, 3)):
            st = rng.choice(interior)
            knees.update(k_ for k_ in range(st, st + rng.randint(2, 5)) if k_ <= n - 2)
        knees = sorted(knees)
    else:
        knees = sorted(rng.sample(interior, rng.randint(1, min(5, len(interior)))))
    red = gen.random_subset_with_ends(rng, n)
    red3 = red if len(red) >= 3 else [0, rng.choice(interior), n - 1]
    rk = sorted(rng.sample(range(len(red)), rng.randint(1, len(red))))
    a = rng.choice(knees)
    exp = []
    for _ in range(rng.randint(1, 4)):
        p = pts[rng.randrange(n)]
        if integer:
            exp.append([p[0] + rng.choice([0, 0, 1, -1, 2]), p[1] + rng.choice([0, 0, 1, -1])])
        else:
            exp.append([p[0] + rng.choice([0, 0.5, -0.25]), p[1] * rng.choice([1.0, 1.0, 0.9, 1.1])])
    if integer:
        rects = [[rng.randint(0, 6), rng.randint(0, 6)] for _ in range(4)]
        rects = [[min(rects[0][0], rects[1][0]), min(rects[0][1], rects[1][1])], [max(rects[0][0], rects[1][0]) + 1, max(rects[0][1], rects[1][1]) + 1],
                 [min(rects[2][0], rects[3][0]), min(rects[2][1], rects[3][1])], [max(rects[2][0], rects[3][0]) + 1, max(rects[2][1], rects[3][1]) + 1]]
        distinct = rng.sample(range(0, 50), n)
    else:
        q = [[rng.uniform(0, 6), rng.uniform(0, 6)] for _ in range(4)]
        rects = [[min(q[0][0], q[1][0]), min(q[0][1], q[1][1])], [max(q[0][0], q[1][0]), max(q[0][1], q[1][1])],
                 [min(q[2][0], q[3][0]), min(q[2][1], q[3][1])], [max(q[2][0], q[3][0]), max(q[2][1], q[3][1])]]
        distinct = [rng.uniform(0, 10) for _ in range(n)]
    tl = [0.01, 0.001, 0.0001, 0.1]
    rng.shuffle(tl)
    x0, x1, y0, y1 = pts[0][0], pts[-1][0], pts[0][1], pts[-1][1]
    mm = (y0 - y1) / (x0 - x1) if x0 != x1 else 0.0
    coef = [y0 - mm * x0, mm] if rng.random() < 0.6 else [float(rng.randint(-3, 3)), rng.choice([-2.0, -0.5, 0.0, 0.25, 1.0])]
    ysort = sorted(p[1] for p in pts)
    c = {'kind': 'dyn', 'fn': fn, 'family': fam, 'points': pts, 'knees': knees, 'reduced': red, 'reduced3': red3,
         'removed_rows': removed_rows(red), 'rknees': rk, 'sorted': rng.random() < 0.5, 'expected': exp, 'rects': rects, 'distinct': distinct,
         't': rng.choice([0.5, 0.1, 0.01, 0.001]), 'k': rng.randint(0, n + 1), 'tlist': tl[:rng.randint(1, 4)],
         'dist': rng.choice(['shortest', 'perpendicular']), 'distfn': rng.choice(['shortest_distance_points', 'perpendicular_distance_points']),
         'order': rng.choice(['triangle', 'area', 'segment']), 'cost': rng.choice(['smape', 'rpd', 'rmspe', 'rmsle', 'r2']),
         'mkcost': rng.choice(['smape', 'r2', 'rmspe']), 'r2': rng.choice(['classic', 'adjusted']),
         'coef': coef, 'coef2': [1.0, rng.choice([-1.5, 0.5, 2.0])], 'index': rng.randint(1, n - 2), 'vertical': rng.random() < 0.5,
         'strategy': rng.choice(['knees', 'expected', 'best', 'worst']), 'tcm': rng.choice([0.01, 0.05, 0.1, 0.3]),
         'cm': [[rng.randint(1, 9), rng.randint(0, 9)], [rng.randint(0, 9), rng.randint(1, 9)]],
         'a': a, 'b': rng.randint(0, a - 1), 'tr2': rng.choice([0.9, 0.8, 0.5, 0.99]),
         'tcl': rng.choice([0.01, 0.05, 0.1, 0.2, 0.5]), 'tiou': rng.choice([0.33, 0.1, 0.5, 0.9]),
         'linkage': rng.choice(['single_linkage', 'complete_linkage', 'centroid_linkage', 'average_linkage']),
         'ranking': rng.choice(['left', 'linear', 'right', 'hull']), 'ranking3': rng.choice(['left', 'linear', 'right']),
         'tx': rng.choice([0.05, 0.1, 0.2]), 'ty': rng.choice([0.05, 0.1, 0.2]), 'extremes': rng.random() < 0.5,
         'dx': rng.choice([0.05, 0.1, 0.2]), 'dy': rng.choice([0.05, 0.1]), 'dz': rng.choice([0.05, 0.25, 0.5]), 'plot': rng.random() < 0.3,
         'y_range': [ysort[-1], ysort[0]], 'outlier': rng.choice(['zscore', 'iqr', 'hampel']),
         't1': rng.choice([0.001, 0.01, 0.1]), 't2': rng.choice([3, 4, 5]),
         'fit': rng.choice(['best_fit', 'point_fit']), 'it': rng.choice(['none', 'original', 'adjusted']), 'limit': rng.choice([5, 6, 10]),
         'lcost': rng.choice(['rss', 'rmse']), 'tk': rng.choice([1.0, 0.5, 0.1]), 'sens': rng.choice([1.0, 0.5, 2.0]),
         'pd': rng.choice(['Kneedle', 'ZScore', 'Significant', 'All']), 'cd': rng.choice(['Increasing', 'Decreasing']),
         'cc': rng.choice(['Counterclockwise', 'Clockwise']), 'detector': rng.choice(['curvature', 'dfdt', 'menger', 'lmethod', 'kneedle'])}
    # thresholds drawn from the values the primitives take on THIS input: the clustering threshold separates two observed knee gaps
    if len(knees) >= 2:
        span = pts[knees[-1]][0] - pts[knees[0]][0]
        gaps = sorted(set((pts[knees[i + 1]][0] - pts[knees[i]][0]) / span for i in range(len(knees) - 1))) if span > 0 else []
        r_ = rng.random()
        if len(gaps) >= 2 and r_ < 0.55:
            i_ = rng.randrange(len(gaps) - 1)
            c['tcl'] = (gaps[i_] + gaps[i_ + 1]) / 2.0          # splits the knees between two observed gap sizes
        elif gaps and r_ < 0.8:
            c['tcl'] = gaps[-1] * 1.25                            # one cluster holds all the knees
        elif gaps and r_ < 0.9:
            c['tcl'] = gaps[rng.randrange(len(gaps))]             # exactly at an observed gap (the >= boundary)
    c['stream'] = stream
    if j is not None:
        # enumerate, do not sample: the j-th case of a call form takes the j-th combination of the Enum / flag options it reads
        combos = combo_list(fn)
        if combos:
            c.update(combos[j % len(combos)])
    if stream == 'boundary':
        jj = j or 0
        for pos, key in enumerate(sorted(k for k in used_keys(fn) if k in BOUNDARY)):
            vals = BOUNDARY[key]
            c[key] = copy.deepcopy(vals[(jj + pos) % len(vals)])
        if jj % 3 == 2 and 'a' not in used_keys(fn):
            c['knees'] = []
    if stream == 'bigint':
        big_ints(rng, c)
    return c


BIG_SCALES = [(2 ** 33, 1, 0, 0), (2 ** 35, 2 ** 20, 0, 0), (1, 2 ** 35, 0, 0), (1, 1, 2 ** 40, 2 ** 39), (2 ** 31 + 1, 3, 7, 2 ** 36)]


def big_ints(rng, c):
    """integer-valued coordinates with magnitudes up to 2^41 (exact in float64): gaps above 3e9 make int32-style and squared int64
    intermediates wrap, offsets near 2^40 expose loss of integer precision"""
    # (x and y gaps are not BOTH large: a product of two coordinate gaps above 2^63 wraps in int64 by the nature of the dtype)
    sx, sy, x0, y0 = rng.choice(BIG_SCALES)
    # not powers of two: squares of multiples of 2^33 wrap to exactly 0 in int64, which hides the wrap-around
    if sx > 1:
        sx = rng.randrange(3 * 10 ** 9, 2 ** 35) | 1
    if sy > 2 ** 30:
        sy = rng.randrange(3 * 10 ** 9, 2 ** 35) | 1
    tr = lambda p: [float(int(p[0]) * sx + x0), float(int(p[1]) * sy + y0)]   # noqa
    pts = [tr(p) for p in c['points']]
    c['points'] = pts
    # expected: the knee points themselves (perfect detection), sometimes one more curve point
    exp = [list(pts[k]) for k in c['knees']]
    rng.shuffle(exp)
    c['expected'] = exp
    c['rects'] = [[float(int(v) * sx) for v in r] for r in c['rects']]
    c['distinct'] = [float(int(v) * sx + x0) for v in c['distinct']]
    ysort = sorted(p[1] for p in pts)
    c['y_range'] = [ysort[-1], ysort[0]]
    c['family'] = str(c['family']) + '/bigint'
    x0_, x1_, y0_, y1_ = pts[0][0], pts[-1][0], pts[0][1], pts[-1][1]
    mm = (y0_ - y1_) / (x0_ - x1_)
    c['coef'] = [y0_ - mm * x0_, mm]


def truncate(c, m):
    """the same call on the first m points (shrinking)"""
    n = len(c['points'])
    if m >= n or m < 6:
        return None
    d = dict(c)
    d['points'] = c['points'][:m]
    d['knees'] = [k for k in c['knees'] if k < m - 1] or [1]
    red = [r for r in c['reduced'] if r < m - 1] + [m - 1]
    d['reduced'] = red
    d['reduced3'] = red if len(red) >= 3 else [0, 1, m - 1]
    d['removed_rows'] = removed_rows(red)
    d['rknees'] = [k for k in c['rknees'] if k < len(red)] or [0]
    d['index'] = min(c['index'], m - 2)
    d['a'] = max(d['knees'])
    d['b'] = min(c['b'], d['a'] - 1)
    d['k'] = min(c['k'], m + 1)
    d['distinct'] = c['distinct'][:m]
    ysort = sorted(p[1] for p in d['points'])
    d['y_range'] = [ysort[-1], ysort[0]]
    return d


# Open finding C20:int64-wraparound (known_findings.json): call forms that compute products / squares in the input's own int64 dtype
# (np.power(points - point, 2) in knee_ranking.distances; the third-party uts.gradient.cfd/csd that curvature / dfdt / zmethod call on
# the caller's integer arrays; the x-on-y fit of linear_hv_residuals / linear_fit_transform(vertical=True)) and therefore answer
# differently for int64 and float64 once |coordinate differences| exceed ~3e9.  They ARE in the big-magnitude stream; a case gets the
# finding key only if the form is listed AND the int64 input has a magnitude above 2^31 AND the int64-vs-float64 comparison is the only
# thing that fails.  Any other form, any smaller magnitude, any other kind of failure is a VIOLATION.
INT64_WRAPAROUND_FORMS = {'curvature.knee', 'curvature.multi_knee', 'dfdt.get_knee', 'dfdt.knee', 'dfdt.multi_knee',
                               'knee_ranking.distances', 'linear_fit.linear_fit_transform', 'linear_fit.linear_fit_transform_points',
                               'linear_fit.linear_hv_residuals', 'linear_fit.linear_hv_residuals_points', 'multi_knee.multi_knee',
                               'zmethod.getPoints', 'zmethod.knees', 'zmethod.knees/range', 'zmethod.knees2'}


def one_run(c, tag, rnd, build_case=None, reuse=None):
    """one call of the case's call form on the re-presentation `tag`; returns [tag, unchanged, encoding, exception or None].
    The allocator is poisoned (different garbage per round) right before the call."""
    m = M()
    build = FUNCS[c['fn']]
    V = Variant(tag if tag < 6 else 0, tag == 4)
    try:
        f, a, kw = build(m, build_case or c, V)
    except (ImportError, AttributeError, KeyError) as e:     # the public function / enum member no longer exists
        return [tag, True, [8] + [ord(ch) for ch in type(e).__name__[:20]], None]
    if reuse is not None:
        a, kw = reuse(V, a, kw)
    V.snapshot()
    dsnap = defaults_of(f)
    n = len(c['points'])
    poison(rnd, [n - 1, n, n + 1, 2 * n, 3 * n, len(c['knees']), len(c['knees']) + 1, len(c['reduced']), len(c['expected'])] + list(range(1, 1 + len(c['knees']))))
    with empty_garbage(rnd):
        st, val = xcall(f, *a, **kw)
    unchanged = V.unchanged() and defaults_same(f, dsnap)
    out = []
    exc = None
    if st == 'ok':
        enc(val, out)
    else:
        out += [7, 1 if val[1] else 0]
        enc(val[0], out)
        exc = '%s: %s' % (val[0], val[2])
        if val[1] and val[3]:
            exc = '@%s:%s@ ' % (val[3], val[0]) + exc
    return [tag, bool(unchanged), out, exc]


def sibling_curve(c):
    """another curve of the same shape and the same x (y reversed and nudged): same n, same knees / reduced / expected"""
    pts = c['points']
    n = len(pts)
    d = dict(c)
    d['points'] = [[pts[i][0], pts[n - 1 - i][1] + float(i % 3)] for i in range(n)]
    ysort = sorted(p[1] for p in d['points'])
    d['y_range'] = [ysort[-1], ysort[0]]
    return d


def affine_sibling(c, ax, bx, ay, by):
    """the case with x -> ax*x + bx and y -> ay*y + by applied to the curve and to the expected points (indices unchanged)"""
    d = dict(c)
    d['points'] = [[ax * p[0] + bx, ay * p[1] + by] for p in c['points']]
    d['expected'] = [[ax * p[0] + bx, ay * p[1] + by] for p in c['expected']]
    ysort = sorted(p[1] for p in d['points'])
    d['y_range'] = [ysort[-1], ysort[0]]
    return d


def refill_siblings(c):
    """curves of the same SHAPE (array shapes) but another x extent / offset, another y extent / offset, another curvature"""
    return [affine_sibling(c, 1000.0, 7.0, 1.0, 0.0), affine_sibling(c, 1.0, 0.0, 1000.0, 5.0), sibling_curve(c),
            affine_sibling(c, 0.001, -3.0, 1.0, 0.0), affine_sibling(c, 1.0, 0.0, 0.001, 0.25), affine_sibling(c, -1.0, 0.0, -1.0, 0.0)]


def run_interference(c):
    """In ONE process: (1) the case's own arrays are built; (2) the same call form is called with exactly one Enum / numeric
    parameter changed at a time ON THE SAME ARRAY OBJECTS; (3) every call form of the same module (the case's own first) is called on
    a sibling curve of the same shape (same knees / reduced / expected / parameters); (4) then the case's call -> tag 6;
    (5) for each refill sibling (x scaled x1000 and shifted, y scaled and shifted, reversed curvature, x / y shrunk x0.001, mirrored):
    arrays first used for that sibling are refilled in place with the case's data and passed again -> one tag-7 run each."""
    m = M()
    fn = c['fn']
    build = FUNCS[fn]
    V0 = Variant(0, False)
    try:
        f, a0, kw0 = build(m, c, V0)
    except (ImportError, AttributeError, KeyError) as e:
        miss = [8] + [ord(ch) for ch in type(e).__name__[:20]]
        return [[6, True, miss, None], [7, True, miss, None]]
    own = [t[1] for t in V0.tracked]

    def substitute(Vx, a, kw, target):
        mp = {}
        for tx, obj in zip(Vx.tracked, target):
            if tx[0] == 'arr' and hasattr(obj, 'shape') and tx[1].shape == obj.shape and tx[1].dtype == obj.dtype:
                mp[id(tx[1])] = obj
        return [mp.get(id(x), x) for x in a], {k: mp.get(id(v), v) for k, v in kw.items()}

    used = used_keys(fn)
    for key in sorted(used):
        if key in ENUMS:
            opts = ENUMS[key]
            alt = opts[(opts.index(c[key]) + 1) % len(opts)] if c[key] in opts else opts[0]
        elif key in SIBLING_NUM:
            alt = copy.deepcopy(SIBLING_NUM[key])
        else:
            continue
        if alt == c[key]:
            continue
        d = dict(c)
        d[key] = alt
        try:
            Vs = Variant(0, False)
            fs, as_, kws = build(m, d, Vs)
            as_, kws = substitute(Vs, as_, kws, own)
            xcall(fs, *as_, **kws)
        except Timeout:
            raise
        except Exception:
            pass
    for sb in refill_siblings(c)[:2]:          # the case's own form on a curve of another x / y extent (fresh arrays)
        try:
            Vg = Variant(0, False)
            fg, ag, kwg = build(m, sb, Vg)
            xcall(fg, *ag, **kwg)
        except Timeout:
            raise
        except Exception:
            pass
    sib = sibling_curve(c)
    mod = fn.split('.')[0]
    related = [fn] + [g for g in sorted(FUNCS) if g.split('.')[0] == mod and g != fn]
    for g in related:
        try:
            Vg = Variant(0, False)
            fg, ag, kwg = FUNCS[g](m, sib, Vg)
            xcall(fg, *ag, **kwg)
        except Timeout:
            raise
        except Exception:
            pass
    # (4) the case's call, on the arrays built first
    V0.snapshot()
    dsnap = defaults_of(f)
    poison(6, [len(c['points']), len(c['knees'])])
    with empty_garbage(6):
        st, val = xcall(f, *a0, **kw0)
    r6 = _entry(6, V0.unchanged() and defaults_same(f, dsnap), st, val)
    # (5) same objects, refilled in place: once per refill sibling; the siblings differ from the case in every quantity a memo keyed on
    # the object's identity could hold (x extent and offset, y extent and offset, curvature / extremes)
    out7 = []
    for rk_, sb in enumerate(refill_siblings(c)):
        try:
            Vr = Variant(0, False)
            fr, ar, kwr = build(m, sb, Vr)
            xcall(fr, *ar, **kwr)
            Vc = Variant(0, False)
            fc, ac, kwc = build(m, c, Vc)
        except Timeout:
            raise
        except Exception:
            continue
        target = []
        for tr_, tc in zip(Vr.tracked, Vc.tracked):
            if tr_[0] == 'arr' and tc[0] == 'arr' and tr_[1].shape == tc[1].shape and tr_[1].dtype == tc[1].dtype:
                tr_[1][...] = tc[1]
                target.append(tr_[1])
            else:
                target.append(None)
        ac, kwc = substitute(Vc, ac, kwc, target)
        poison(7 + rk_, [len(c['points'])])
        with empty_garbage(7 + rk_):
            st, val = xcall(fc, *ac, **kwc)
        out7.append(_entry(7, True, st, val))
    return [r6] + out7


def _entry(tag, unchanged, st, val):
    out = []
    exc = None
    if st == 'ok':
        enc(val, out)
    else:
        out += [7, 1 if val[1] else 0]
        enc(val[0], out)
        exc = '%s: %s' % (val[0], val[2])
        if val[1] and val[3]:
            exc = '@%s:%s@ ' % (val[3], val[0]) + exc
    return [tag, bool(unchanged), out, exc]


# ---------------------------------------------------------------------------------------------------------------
# CPython's own verdict on one reference (the "implementation output" of a link case)

def live_verdict(info):
    import numpy as np
    import builtins as bi
    r = info['ref']
    pkg = info['module'].split('.')[0]
    if r[0] in ('import', 'from') and r[1].split('.')[0] == pkg and PKG_IMPORT_ERROR[0]:
        return None                                      # the package itself does not import: no live verdict on its own modules
    if r[0] == 'import':
        try:
            importlib.import_module(r[1])
            return True
        except Exception:
            return False
    if r[0] == 'from':
        try:
            mod = importlib.import_module(r[1])
        except Exception:
            return False
        if hasattr(mod, r[2]):
            return True
        try:
            importlib.import_module(r[1] + '.' + r[2])
            return True
        except Exception:
            return False
    if PKG_IMPORT_ERROR[0]:
        return None
    try:
        mod = importlib.import_module(info['module'])
        src = open(info['file'], encoding='utf-8').read()
        tab = symtable.symtable(src, info['file'], 'exec')
    except Exception:
        return None
    for kind, simple, line, ctype in info['path']:
        if kind == 'comp' and ctype != 'genexpr':
            continue                                     # inlined into the enclosing scope (PEP 709)
        want = {'lambda': 'lambda', 'comp': 'genexpr'}.get(kind, simple)
        nxt = [ch for ch in tab.get_children() if ch.get_name() == want and ch.get_lineno() == line]
        if len(nxt) != 1:
            return None
        tab = nxt[0]
    x = r[1]
    try:
        sym = tab.lookup(x)
    except KeyError:
        return None
    static = (types.ModuleType, type, np.ufunc)
    if tab.get_type() != 'module' and (sym.is_local() or sym.is_free() or sym.is_parameter()) and not sym.is_global():
        return True                                      # bound in this or an enclosing function: a run-time value
    if x in vars(mod):
        obj = vars(mod)[x]
    elif hasattr(bi, x):
        obj = getattr(bi, x)
    else:
        return False
    if r[0] == 'name':
        return True
    for a in r[2]:
        if not isinstance(obj, static):
            return True
        if not hasattr(obj, a):
            return False
        obj = getattr(obj, a)
    if r[0] == 'call' and not (r[5] or r[6]):
        f = getattr(obj, 'py_func', obj)
        if inspect.isfunction(f) and (getattr(f, '__module__', '') or '').split('.')[0] == info['module'].split('.')[0]:
            try:
                inspect.signature(f).bind(*([None] * r[3]), **{k: None for k in r[4]})
            except TypeError:
                return False
    return True


# ---------------------------------------------------------------------------------------------------------------
class C20:
    id = 'C20'
    judge_module = 'Run.JudgeC20'
    rule = ('static: EVERY reference of every module (names, attribute chains, calls, imports) is in the generated fact file and decided by the theorem '
            '`linked`; in addition every failing reference, every intra-package call and a stratified sample of the others are re-judged one by one as '
            'CLink cases against CPython\'s own verdict; non-trivial = the reference is not resolved by the function\'s own locals, distinct by '
            '(module, scope, reference).  dynamic: public functions round-robin x generated curves (integer-valued and real) x enumerated configurations; '
            'each case = base call, repeated call, Fortran-ordered, strided view, negative-stride view, int64 (integer-valued inputs); non-trivial = the '
            'function returned a value (no exception) on the base input; distinct by (function, input).  refinement (kind = refine): ' + c20x.C20X.rule)
    assumptions = ['dynamic part: integer-valued inputs below 2^20 for the int64 re-presentation; exceptions are outputs (all re-presentations must raise the same type)',
                   'static part: use-before-assignment inside one function (UnboundLocalError) and attributes of run-time values (instances, arrays) are outside the model: '
                   'names bound anywhere in a function are local for the whole function; chains are followed only through modules, classes and ufuncs']
    trusted = ['translated, not hand-written: harness/linkfacts.py (Python ast -> Coq facts, fail-closed on unknown node kinds), validated on every run against CPython '
               '(symtable / getattr / inspect.signature) on the sampled references and against vars()/dir() of the imported package',
               'modelled: CPython name resolution (LEGB), attribute lookup in module / class / ufunc symbol tables (dir() of the installed objects), argument binding',
               'dynamic part (purity / determinism / layout and dtype independence) is TESTED on generated inputs, not proved: level = partial for that half of the statement',
               'refinement stream: ' + '; '.join(c20x.C20X.trusted)]
    timeout = 60.0
    shard = 120
    search_budget = 1

    def __init__(self):
        self.world = None
        self.failing = []
        self.link_note = {}
        self.want_warmup = False
        self.x = c20x.C20X()          # the refinement stream (public functions modelled in coq/Model/Extras.v)

    # ---------------------------------------------------------------- static part: the per-run theorem
    def waivers(self):
        ws = []
        for k in load_known():
            if k.get('property') == self.id and k.get('status', 'open') == 'open' and ':' in k.get('key', ''):
                where, kind = k['key'].rsplit(':', 1)
                code = {v: c for c, v in DIAG.items()}.get(kind)
                if code and '.' in where:
                    mod, scope = where.split('.', 1)
                    ws.append(('kneeliverse.' + mod, scope, code))
        return ws

    def extra_obligations(self, workdir):
        try:
            w = linkfacts.World(REPO).translate()
        except linkfacts.Abort as e:
            raise HarnessError('C20 translator (fail-closed): %s' % e)
        self.world = w
        PKG_MODULES[0] = list(w.modkeys)
        gdir = os.path.join(workdir, 'gen')
        os.makedirs(gdir, exist_ok=True)
        path = os.path.join(gdir, 'LinkFactsGen.v')
        ws = self.waivers()
        try:
            txt = linkfacts.cprogram_file(w.program(), ws)
        except linkfacts.Abort as e:
            raise HarnessError('C20 translator (fail-closed): %s' % e)
        with open(path, 'w') as f:
            f.write(txt)
        rc, out = sh('ulimit -s unlimited 2>/dev/null; cd %s && timeout 1200 coqc -Q %s Knee -w none LinkFactsGen.v' % (gdir, COQ), timeout=1300)
        evs = re.findall(r'=\s*(\[[^\]]*\])\s*:\s*list', out, flags=re.S)
        if len(evs) < 2:
            raise HarnessError('C20: could not evaluate the generated fact file:\n' + out[-3000:])
        stats = [int(x) for x in re.findall(r'\d+', evs[0])]
        fails = [tuple(int(v) for v in t) for t in re.findall(r'\(\s*(\d+)\s*,\s*(\d+)\s*,\s*(\d+)\s*\)', evs[1])]
        if len(stats) < 11 or stats[10] != len(fails):
            raise HarnessError('C20: Coq reports %s failing references, %d were parsed' % (stats[10:11], len(fails)))
        if stats[0] != len(w.lrefs):
            raise HarnessError('C20: Coq sees %d references, the translator %d' % (stats[0], len(w.lrefs)))
        self.failing = []
        for i, ln, code in fails:
            info = w.lref_info(i)
            if info['line'] != ln:
                raise HarnessError('C20: reference %d is at line %d for Coq, %d for the translator' % (i, ln, info['line']))
            self.failing.append((i, code))
        coq_codes = {i: c for i, c in self.failing}
        mirror_diff = [i for i, d in enumerate(w.mirror) if d != coq_codes.get(i, 0)]
        blocks = [b for b in re.split(r'(?=^Closed under the global context|^Axioms:)', out, flags=re.M) if b.startswith('Closed under') or b.startswith('Axioms:')]
        thms = ['linked', 'linked_resolves']
        failed = []
        discharged = 0
        for k, name in enumerate(thms):
            if rc != 0 or k >= len(blocks):
                failed.append(name)
                continue
            bad_ax = []
            if blocks[k].startswith('Axioms:'):
                names = re.findall(r'^([A-Za-z_][A-Za-z0-9_\.\']*)\s*:', blocks[k], flags=re.M)
                bad_ax = [a for a in names if a != 'Axioms' and not axiom_ok(a)]
            if bad_ax:
                failed.append('%s (axiom %s)' % (name, ', '.join(bad_ax)))
            else:
                discharged += 1
        described = []
        for i, code in self.failing:
            info = w.lref_info(i)
            described.append('%s:%s line %d %s -> %s' % (info['module'], info['scope'], info['line'], show_ref(info['ref']), DIAG.get(code, code)))
        if failed:
            failed = ['generated theorem %s does not check (dangling: %s)' % (f, '; '.join(described) or out[-600:]) for f in failed]
        validation = self.validate_against_live()
        cov = {'link_facts': w.counts(),
               'link_stats': dict(zip(['references', 'names', 'attribute_chains', 'calls', 'imports', 'from_imports', 'calls_checked_for_arity',
                                       'modules', 'scopes', 'tables'], stats)),
               'link_failing': described, 'link_waived': ['%s:%s:%s' % (a, b, DIAG[c]) for a, b, c in ws],
               'link_python_mirror_differs_at': mirror_diff,
               'link_translator_vs_live_namespace': validation,
               'link_theorems': thms,
               'level_note': 'static half: proof by computation over facts regenerated from the source (checker proved sound and complete); '
                             'dynamic half: tested on generated inputs (partial)'}
        self.link_note = cov
        return (not failed), {'obligations': len(thms), 'discharged': discharged, 'failed': failed, 'coverage': cov}

    def validate_against_live(self):
        """translator self-check: the statically derived module / class namespaces against the imported package"""
        core.import_impl()
        if PKG_IMPORT_ERROR[0]:
            return {'skipped': 'package does not import: ' + PKG_IMPORT_ERROR[0]}
        w = self.world
        missing, extra = [], []
        for k in w.modkeys:
            try:
                mod = importlib.import_module(k)
            except Exception as e:
                return {'skipped': 'module %s does not import: %s' % (k, type(e).__name__)}
            st = set(n for n, _ in w.own(w.mods[k].mod))
            lv = set(vars(mod))
            missing += ['%s.%s' % (k, n) for n in sorted(lv - st)]
            extra += ['%s.%s' % (k, n) for n in sorted(st - lv) if n not in ('__cached__', '__annotations__', '__path__')]
            for ckey, cs, bases, dsc in w.mods[k].classes:
                if dsc.kind != 'module':
                    continue
                cls = getattr(mod, cs.simple, None)
                if not isinstance(cls, type):
                    continue
                t = w.ext[ckey]
                names = set(n for n, _ in t['own'])
                for b in t['bases']:
                    tb = w.ext.get(b) or {'own': []}
                    names |= set(n for n, _ in tb['own'])
                missing += ['%s.%s' % (ckey, n) for n in sorted(set(dir(cls)) - names)]
        if missing:
            raise HarnessError('C20 translator (fail-closed): names present in the imported package but not in the translated facts: %s' % missing[:20])
        return {'modules_compared': len(w.modkeys), 'names_only_static': extra[:20]}

    # ---------------------------------------------------------------- cases
    def generate(self, rng, tier):
        cases = [{'kind': 'import'}]
        w = self.world
        if w is not None:
            chosen = [i for i, _ in self.failing]
            if tier != 'search':
                calls = [i for i in range(len(w.lrefs)) if w.lref_info(i)['ref'][0] == 'call']
                arity = [i for i in calls if self.is_pkg_call(i)]
                others = [i for i in range(len(w.lrefs)) if i not in set(arity)]
                budget = {'quick': 60, 'thorough': 600}.get(tier, 60)
                by_kind = {}
                for i in others:
                    by_kind.setdefault(w.lref_info(i)['ref'][0], []).append(i)
                pick = []
                for kd in sorted(by_kind):
                    lst = by_kind[kd]
                    rng.shuffle(lst)
                    pick += lst[:max(3, budget // len(by_kind))]
                if tier == 'quick':
                    rng.shuffle(arity)
                    arity = arity[:60]
                chosen += arity + pick
            seen = set()
            for i in chosen:
                if i in seen:
                    continue
                seen.add(i)
                info = w.lref_info(i)
                cases.append({'kind': 'link', 'module': info['module'], 'scope': info['scope'], 'line': info['line'], 'ref': info['ref']})
        if PKG_IMPORT_ERROR[0]:
            return cases
        self.want_warmup = True
        names = sorted(FUNCS)
        count = {}

        def add(fn, stream, **kw):
            jx = count.get(fn, 0)
            count[fn] = jx + 1
            cases.append(dyn_case(rng, fn, tier, j=jx, stream=stream, **kw))

        Q = tier != 'thorough'
        # 1. general round-robin (Enum / flag options of every call form are ENUMERATED through the j-th case of the form, over all streams)
        for rep in range(2 if Q else 30):
            for fn in names:
                add(fn, 'general')
        # 2. dtype stress: small-integer curves that hug their chord (chord_hug), always presented as int64 AND float64: any intermediate
        # that inherits the input's integer dtype is truncated there and flips sign-based decisions.  Decision-making call forms get the larger share.
        hug_dec, hug_other = (5, 3) if Q else (40, 12)
        for fn in names:
            for rep in range(hug_dec if is_decision(fn) else hug_other):
                add(fn, 'chordhug', family='chordhug')
        # 2b. call forms with many option combinations: every combination (up to 16) 3 / 8 times, on the families that stress decisions
        for fn in names:
            nc = len(combo_list(fn))
            if nc >= 6:
                for rep in range(min(nc, 16) * (3 if Q else 8)):
                    add(fn, 'combinations', family=rng.choice(['chordhug', 'chordhug', 'bumps', 'bumps', 'grid', 'plateau']), n=rng.randint(7, 14))
        # 3. falsy / boundary values of every numeric parameter the call form reads (0, 0.0, 1, empty list; empty knee set)
        for rep in range(3 if Q else 9):
            for fn in names:
                if any(k in BOUNDARY for k in used_keys(fn)):
                    add(fn, 'boundary', family=rng.choice(['chordhug', 'grid', 'convex', 'uniform']))
        # 4. interference: related functions of the module on sibling inputs first, same-object refill (see run_interference)
        for rep in range(1 if Q else 8):
            for fn in names:
                for r2_ in range(2 if is_decision(fn) else 1):
                    add(fn, 'interference', family=rng.choice(['chordhug', 'grid', 'convex', 'uniform', 'plateau']), n=rng.randint(6, 12))
        # 5. integer magnitudes up to 2^41 for the int64-vs-float64 comparison
        for rep in range(1 if Q else 8):
            for fn in names:
                if 'points' in used_keys(fn) or 'expected' in used_keys(fn) or 'distinct' in used_keys(fn):
                    for r2_ in range(2 if is_decision(fn) or fn.startswith('evaluation.') else 1):
                        add(fn, 'bigint', family=rng.choice(['chordhug', 'grid', 'plateau']), n=rng.randint(5, 12))
        # 6. layout stress: BLAS / SIMD kernels change path with the operand's size and memory order (the np.dot defect D15 shows
        # only for Fortran-ordered operands of 3 or 7 rows, in about 2% of random inputs), so the distance primitives and the
        # simplifiers that slice 3-point sub-curves get many tiny random-double inputs
        stress = 85 if Q else 1500
        hot = ['linear_fit.shortest_distance_points', 'linear_fit.shortest_distance_points/inner', 'linear_fit.perpendicular_distance_points',
               'rdp.order_triangle', 'rdp.order_area', 'knee_ranking.distances', 'evaluation.mae']
        for k in range(stress):
            for fn in hot[:2]:
                add(fn, 'layout', n=rng.choice([3, 3, 3, 7, 11]), family='uniform')
            add(hot[2 + k % (len(hot) - 2)], 'layout', n=rng.choice([3, 4, 5, 7]), family=rng.choice(['uniform', 'convex']))
        for k in range(stress // 4):
            add(['rdp.rdp', 'rdp.rdp_fixed', 'rdp.grdp', 'rdp.mp_grdp'][k % 4], 'layout', n=rng.randint(5, 12), family='uniform')
        # 7. refinement: the public functions that no property C01-C19 models, against the Gallina functions of Model/Extras.v (harness/c20x.py)
        nrefine = 0
        for xc in self.x.generate(rng, tier):
            cases.append({'kind': 'refine', 'x': xc})
            nrefine += 1
        self.link_note['refine_cases_generated'] = nrefine
        # what was enumerated, for the evidence
        seen, missing, per_class = {}, [], {}
        for c in cases:
            if c.get('kind') != 'dyn':
                continue
            per_class[c['stream']] = per_class.get(c['stream'], 0) + 1
            for k_ in used_keys(c['fn']):
                if k_ in ENUMS:
                    seen.setdefault((c['fn'], k_), set()).add(c[k_])
        for fn in names:
            for k_ in sorted(used_keys(fn)):
                if k_ in ENUMS:
                    missing += ['%s.%s=%s' % (fn, k_, v) for v in ENUMS[k_] if v not in seen.get((fn, k_), set())]
        self.link_note['dyn_cases_generated_by_class'] = per_class
        self.link_note['dyn_enum_options_enumerated'] = sum(len(v) for v in seen.values())
        self.link_note['dyn_enum_options_not_exercised'] = missing
        self.link_note['dyn_call_forms'] = len(names)
        return cases

    def is_pkg_call(self, i):
        w = self.world
        k, si, ri = w.lrefs[i]
        mt = w.mods[k]
        sc = mt.scopes[si]
        r = sc.refs[ri][1]
        k0 = w.m_lookup_name(mt, sc, r[1])
        k1 = w.m_walk(k0, r[2]) if k0 is not None else None
        return k1 is not None and k1[0] == 'F'

    def warmup(self):
        if PKG_IMPORT_ERROR[0] or not self.want_warmup:
            return
        # compile the numba specialisations (dtype x layout) once, before forking.  Only the jitted metrics are called, directly:
        # the parent process must not have run any other package code (fresh-process comparisons fork from it).
        import numpy as np
        try:
            mt = importlib.import_module('kneeliverse.metrics')
        except Exception:
            return
        base = np.arange(1.0, 9.0)
        ys_ = {'fC': base.copy(), 'fA': np.repeat(base, 2)[::2], 'fN': base[::-1].copy()[::-1], 'iC': base.astype(np.int64), 'iA': np.repeat(base.astype(np.int64), 2)[::2],
               'iN': base.astype(np.int64)[::-1].copy()[::-1]}
        hs_ = {'C': base * 0.5 + 1, 'A': np.repeat(base * 0.5 + 1, 2)[::2], 'N': (base * 0.5 + 1)[::-1].copy()[::-1]}
        for fn in ['rmse', 'rmsle', 'rmspe', 'rpd', 'residuals', 'smape', 'r2']:
            f = getattr(mt, fn, None)
            if f is None:
                continue
            for y in ys_.values():
                for h in hs_.values():
                    try:
                        if fn == 'r2':
                            for opt in mt.R2:
                                f(y, h, opt)
                        else:
                            f(y, h)
                            if fn in ('rmspe', 'rpd', 'smape'):
                                f(y, h, 1e-16)
                    except Timeout:
                        raise
                    except Exception:
                        pass

    def on_timeout(self, c):
        c = dict(c)
        if c.get('kind') == 'refine':      # the modelled functions are proved to terminate: a time-out is an output, not a skip
            c['x'] = self.x.on_timeout(c['x'])
            return c
        c['timeout'] = True
        return c

    def run_impl(self, c):
        c = dict(c)
        if c['kind'] == 'import':
            c['ok'] = PKG_IMPORT_ERROR[0] is None
            c['error'] = PKG_IMPORT_ERROR[0]
            return c
        if c['kind'] == 'link':
            w = self.world
            i = w.find_lref(c['module'], c['scope'], c['ref'], c['line'])
            if i is None:
                c['gone'] = True
                return c
            info = w.lref_info(i)
            c['line'] = info['line']
            c['ctx'] = w.mini(i)
            c['mirror'] = w.mirror[i]
            c['live'] = live_verdict(info)
            c['local_only'] = self.local_only(i)
            return c
        # dynamic
        if PKG_IMPORT_ERROR[0]:
            c['skip'] = 'package does not import'
            return c
        if c['kind'] == 'refine':
            c['x'] = self.x.run_impl(c['x'])
            return c
        intv = is_intvals(c)
        c['intvals'] = intv
        if c.get('stream') == 'interference':
            a_ = in_child(lambda: [one_run(c, 0, 0)])
            b_ = in_child(lambda: run_interference(c))
            if isinstance(a_, tuple) or isinstance(b_, tuple):
                raise RuntimeError('interference child failed: %r %r' % (a_, b_))
            runs = a_ + b_
        else:
            runs = [one_run(c, tag, k) for k, tag in enumerate([0, 1, 2, 3, 5] + ([4] if intv else []))]
        c['exc'] = [[t, r[3]] for t, r in zip([r[0] for r in runs], runs) if r[3]]
        c['runs'] = [r[:3] for r in runs]
        c['missing'] = any(r[2][:1] == [8] for r in runs)
        c['raised'] = runs[0][2][0] in (7, 8)
        c['link_exc'] = any(r[2][:2] == [7, 1] for r in runs)
        return c

    def local_only(self, i):
        w = self.world
        k, si, ri = w.lrefs[i]
        sc = w.mods[k].scopes[si]
        r = sc.refs[ri][1]
        return r[0] in ('name', 'attr', 'call') and sc.kind != 'module' and r[1] in sc.final

    def emit(self, c):
        if c.get('timeout') or c.get('gone') or c.get('skip'):
            return 'CSkip'
        if c['kind'] == 'import':
            return 'CImport %s' % cbool(c['ok'])
        if c['kind'] == 'refine':
            return 'CRefine (%s)' % self.x.emit(c['x'])
        if c['kind'] == 'link':
            live = c.get('live')
            return '(CLink %s %s)%%string' % (linkfacts.cprogram_inline(c['ctx']), 'None' if live is None else '(Some %s)' % cbool(live))
        runs = clist(['(%s, %s, %s)' % (cnat(t), cbool(u), clist([cZ(v) for v in r])) for t, u, r in c['runs']])
        return 'CDyn %s%%string %s' % (linkfacts.cstr(c['fn']), runs)

    def nontrivial_key(self, c):
        if c.get('timeout') or c.get('gone') or c.get('skip'):
            return None
        if c['kind'] == 'link':
            return None if c.get('local_only') else ('link', c['module'], c['scope'], json.dumps(c['ref']))
        if c['kind'] == 'dyn':
            return None if c.get('raised') else ('dyn', c['fn'], json.dumps(c['points']), json.dumps(c['knees']))
        if c['kind'] == 'refine':
            k = self.x.nontrivial_key(c['x'])
            return None if k is None else ('refine',) + tuple(k)
        return None

    def classify(self, c):
        if c.get('timeout'):
            return {'kind': 'timeout'}
        if c['kind'] == 'refine':
            return {**self.x.classify(c['x']), 'kind': 'refine'}
        if c['kind'] == 'link':
            return {'kind': 'link', 'link_ref_kind': c['ref'][0], 'link_live_verdict': c.get('live')}
        if c['kind'] == 'dyn':
            d = {'dyn_int64_vs_float64_cases_by_function': c['fn']} if c.get('intvals') else {}
            if c.get('intvals') and str(c.get('family', '')).startswith('chordhug'):
                d['dyn_chord_hugging_int_cases_by_function'] = c['fn']
            d['dyn_cases_by_class'] = c.get('stream', 'general')
            for t_, e_ in c.get('exc') or []:
                d['dyn_exception_on_base_input'] = e_.split(':')[0]
                break
            if c.get('stream') in ('interference', 'boundary', 'bigint'):
                d['dyn_%s_cases_by_function' % c['stream']] = c['fn']
            return {**d, 'kind': 'dyn', 'dyn_function': c['fn'], 'dyn_int64_variant': c.get('intvals'), 'dyn_outcome': 'function missing' if c.get('missing') else 'raised' if c.get('raised') else 'returned',
                    'dyn_family': c.get('family'), 'n': len(c['points']) // 8 * 8}
        return {'kind': c['kind']}

    def shrink(self, c):
        if c['kind'] == 'refine':
            return [{'kind': 'refine', 'x': d} for d in self.x.shrink(c['x'])]
        if c['kind'] != 'dyn':
            return []
        out = []
        n = len(c['points'])
        for m_ in sorted(set([n // 2, n - 4, n - 2, n - 1])):
            d = truncate(c, m_)
            if d is not None:
                out.append(d)
        return out

    def sample(self, c):
        if c['kind'] == 'link':
            return {k: c[k] for k in ['kind', 'module', 'scope', 'line', 'ref', 'live', 'mirror'] if k in c}
        if c['kind'] == 'dyn':
            return {'kind': 'dyn', 'fn': c['fn'], 'points': c['points'], 'variants': [[t, u, len(r)] for t, u, r in c.get('runs', [])]}
        if c['kind'] == 'refine':
            return {**self.x.sample(c['x']), 'kind': 'refine'}
        return dict(c)

    def describe(self, c):
        if c['kind'] == 'link':
            d = c.get('mirror', '?')
            return ('module %s (%s), function/scope %s, line %s: %s -> %s' %
                    (c['module'], os.path.join(SRC, c['module'].replace('.', '/') + '.py'), c['scope'], c['line'], show_ref(c['ref']), DIAG_TEXT.get(d, d)))
        if c['kind'] == 'import':
            return 'PYTHONPATH=%s python -c "import kneeliverse"  ->  %s' % (SRC, c.get('error'))
        if c['kind'] == 'refine':
            return '[refinement to coq/Model/Extras.v] ' + self.x.describe(c['x'])
        bad = ''
        runs = c.get('runs') or []
        excs = dict((t_, e_) for t_, e_ in (c.get('exc') or []))
        if runs:
            r0 = runs[0][2]
            for t, u, r in runs:
                if not u:
                    bad = 'the call with the %s input MODIFIED an argument or a default-argument object' % TAGS[t]
                    break
                if r[:2] == [7, 1]:
                    bad = 'the call (%s) raised a linking-kind exception on a valid input: %s' % (TAGS[t], excs.get(t, '?'))
                    break
                if r != r0:
                    bad = 'the result for: %s — differs from the result of the base call (%s)' % (TAGS[t], 'the call alone in a forked child' if c.get('stream') == 'interference' else 'C-ordered float64 input')
                    break
        keys = sorted(k for k in c if k not in ('kind', 'fn', 'runs', 'family', 'intvals', 'raised', 'exc'))
        return 'kneeliverse.%s [%s stream] — %s; arguments built by harness/c20.py FUNCS[%r] from %s' % (c['fn'], c.get('stream', 'general'), bad or 'all re-presentations agree', c['fn'],
                                                                                         {k: c[k] for k in keys if k in ('points', 'knees', 'reduced', 'expected') or (k in used_keys(c['fn']) and (k in ENUMS or k in BOUNDARY or k in SIBLING_NUM))})

    def finding_key(self, c):
        if c['kind'] == 'link' and c.get('mirror'):
            return '%s.%s:%s' % (c['module'].split('.', 1)[-1], c['scope'], DIAG.get(c['mirror'], '?'))
        if c['kind'] == 'dyn' and c['fn'] in INT64_WRAPAROUND_FORMS and self.only_int64_differs(c) and self.magnitude(c) > 2 ** 31:
            return 'C20:int64-wraparound'
        if c['kind'] == 'dyn' and c.get('link_exc') and not self.other_failure(c):
            for t_, e_ in c.get('exc') or []:
                if e_.startswith('@'):
                    return e_[1:].split('@', 1)[0]          # <module>.<function that raised>:<exception type>
        return None

    @staticmethod
    def only_int64_differs(c):
        """nothing modified, no linking-kind exception, every run equals the base run except the int64 presentation (tag 4)"""
        runs = c.get('runs') or []
        if not runs or not c.get('intvals'):
            return False
        r0 = runs[0][2]
        bad = [t for t, u, r in runs if (not u) or r[:2] == [7, 1] or r != r0]
        return bad == [4] and all(u for t, u, r in runs) and not any(r[:2] == [7, 1] for t, u, r in runs)

    @staticmethod
    def magnitude(c):
        try:
            return max(abs(v) for p in c['points'] for v in p)
        except Exception:
            return 0

    @staticmethod
    def other_failure(c):
        """besides a linking-kind exception: an argument was modified or two runs differ"""
        runs = c.get('runs') or []
        return any((not u) or r != runs[0][2] for t, u, r in runs)


def show_ref(r):
    if r[0] == 'name':
        return 'name `%s`' % r[1]
    if r[0] == 'attr':
        return 'attribute chain `%s`' % '.'.join([r[1]] + r[2])
    if r[0] == 'call':
        return 'call `%s(%s)`' % ('.'.join([r[1]] + r[2]), ', '.join(['_'] * r[3] + ['%s=_' % k for k in r[4]] + (['*_'] if r[5] else []) + (['**_'] if r[6] else [])))
    if r[0] == 'import':
        return '`import %s`' % r[1]
    return '`from %s import %s`' % (r[1], r[2])


if __name__ == '__main__':
    main(C20)
