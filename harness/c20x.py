# C20X — refinement of the public functions that no property C01-C19 models to the Gallina functions of coq/Model/Extras.v
# (evaluation.get_neighbourhood*, accuracy_knee, accuracy_trace; knee_ranking.slope_ranking; linear_fit.linear_hv_residuals*,
# linear_fit_transform* (vertical or not), angle; zmethod.knees2 (Model/ExtrasZ.v); kneedle.knees / _knees (Model/ExtrasKneedle.v)).  Runs stand-alone (./check C20X) and as the 'refine' stream of C20 (harness/c20.py
# delegates run_impl / emit / ... of its kind = 'refine' cases to this class; Run/JudgeC20.v delegates CRefine to Run/JudgeC20X.judge).
import math, random
from core import *
import gen

NB_FUNCS = ['get_neighbourhood', 'get_neighbourhood_points', 'get_neighbourhood_fast', 'get_neighbourhood_fast_points']
T_GRID = [0.9, 0.8, 0.5, 0.99, 1.0, 0.0, 0.999999, 1.5, -1.0, 0.25]


def nudge(v, d):
    v = float(v)
    if v != v or d == 0:
        return v
    for _ in range(abs(d)):
        v = math.nextafter(v, math.inf if d > 0 else -math.inf)
    return v


def steep(rng, n):
    """not a performance curve: clouds for the horizontal / vertical fit helpers (x need not increase; y range >> x range or the reverse)"""
    kind = rng.choice(['steep', 'flat', 'cloud', 'vertical', 'grid', 'swap'])
    if kind == 'steep':
        xs = [float(i) * rng.choice([1.0, 0.125]) for i in range(n)]
        ys = [float(rng.randint(0, 40)) + 10.0 * i for i in range(n)]
    elif kind == 'flat':
        xs = [float(3 * i + rng.randint(0, 2)) for i in range(n)]
        ys = [float(rng.choice([2, 2, 3])) for _ in range(n)]
    elif kind == 'cloud':
        xs = [rng.uniform(-5, 5) for _ in range(n)]
        ys = [rng.uniform(-5, 5) for _ in range(n)]
    elif kind == 'vertical':
        xs = [float(rng.choice([4, 4, 4, 5])) for _ in range(n)]
        ys = [float(i) + rng.choice([0.0, 0.5]) for i in range(n)]
    elif kind == 'grid':
        xs = [float(rng.randint(0, 4)) for _ in range(n)]
        ys = [float(rng.randint(0, 4)) for _ in range(n)]
    else:
        _, p = gen.curve(rng, n)
        xs, ys = [q[1] for q in p], [q[0] for q in p]
    return 'hv-' + kind, [[float(a), float(b)] for a, b in zip(xs, ys)]


def pick_knees(rng, n, allow_empty=True):
    interior = list(range(1, n))
    r = rng.random()
    if allow_empty and r < 0.06:
        return []
    if r < 0.2:
        return [rng.choice(interior)]
    if r < 0.5 and n >= 6:
        st = rng.randint(1, n - 3)
        return list(range(st, min(n, st + rng.randint(2, 4))))
    return sorted(rng.sample(interior, rng.randint(2, min(6, len(interior)))))


class C20X:
    id = 'C20X'
    judge_module = 'Run.JudgeC20X'
    rule = ('the 15 + 2 public call forms that no property C01-C19 models, round-robin x generated curves (all families of harness/gen.py, plus non-curve '
            'clouds for the horizontal/vertical fit helpers) x index pairs b < a x R2 thresholds drawn from a fixed grid AND from the R2 values the '
            'library itself computes on the windows of the generated input (exactly, and one ulp below / above: the r2 > t boundary); knee sets incl. '
            'empty, singleton and runs of neighbours; angle on slope pairs incl. perpendicular lines (zero denominator), as Python floats and as '
            'np.float64; zmethod.knees2 x its three outlier rules x (dx, dy) steps incl. 0 and 1; kneedle.knees x its four peak selectors x tau (0 = no smoothing) '
            'x sensitivity; non-trivial = the function returned a value and the search range has at least two candidates (neighbourhood), at least two '
            'knees (accuracy / ranking), at least three points (fits), at least one knee returned (knees2, kneedle.knees); distinct by (function, input, parameters)')
    assumptions = ['float64 C-ordered inputs (the other presentations are the C20 dynamic streams); indices below 2^52; knees strictly increasing, '
                   'inside the curve, none at index 0 (get_neighbourhood slices x[a-1:a+1])',
                   'slope_ranking with NaN slopes (overflowing coordinates) is outside the domain; tied slopes are judged on the predicate only '
                   '(np.argsort is unstable on ties): indeterminate']
    trusted = ['modelled: evaluation.get_neighbourhood(_points), get_neighbourhood_binary, get_neighbourhood_fast(_points), accuracy_knee, accuracy_trace; '
               'knee_ranking.slope_ranking; linear_fit.linear_hv_residuals(_points), linear_fit_transform(_points), angle (coq/Model/Extras.v over '
               'Model/LinearFit.v, Model/Metrics.v, Model/Geometry.v rank); every double is compared BIT FOR BIT',
               'oracle: math.atan (libm) at the argument the model computes, for linear_fit.angle only',
               'modelled over oracles: zmethod.knees2 (coq/Model/ExtrasZ.v; oracles uts.gradient.csd, uts.zscore.zscore_array, np.percentile; np.median, the worst / corner '
               'filters, rank_corners, argmax and the fixed-point loop are computed in the model), kneedle.knees and _knees (coq/Model/ExtrasKneedle.v; oracles '
               'uts.ema.ema_linear and the uts peak selectors on the library\'s own difference curve; normalisation, difference curves (compared bit for bit with '
               'kneedle._knees(debug=True)), all_peaks, direction and the unique-merge are computed in the model)']
    timeout = 20.0
    shard = 250

    # ------------------------------------------------------------------ generation
    def generate(self, rng, tier, scale=1.0):
        big = tier == 'thorough'
        cases = []
        nmax = 40 if big else 14

        def curve():
            n = rng.randint(3, nmax if rng.random() < 0.35 else min(nmax, 12))
            if rng.random() < 0.12:
                return gen.wavy_curve(rng, max(n, 4))
            if rng.random() < 0.15:
                return gen.mrc_curve(rng, n)
            return gen.curve(rng, n)

        def tsel(a, b):
            r = rng.random()
            if r < 0.45:
                return ['fixed', rng.choice(T_GRID)]
            i = rng.randint(max(0, b - 1), a)           # a window [i : a+1] of THIS input (b-1 .. a: also just outside the search range)
            return ['r2', i, rng.choice([0, 0, 0, -1, 1])]

        def count(q, t):
            return max(1, int((t if big else q) * scale))

        # 1. neighbourhood searches
        for k in range(count(200, 6000)):
            fam, pts = curve()
            n = len(pts)
            a = rng.randint(1, n - 1)
            b = rng.randint(0, a - 1) if rng.random() < 0.8 else 0
            fn = (NB_FUNCS + ['get_neighbourhood_binary'])[k % 5]
            cases.append({'kind': 'nb', 'fn': fn, 'family': fam, 'points': pts, 'a': a, 'b': b, 'tsel': tsel(a, b)})
        # 2. accuracy heuristics
        for k in range(count(80, 2400)):
            fam, pts = curve()
            kn = pick_knees(rng, len(pts))
            cases.append({'kind': 'acc', 'fn': ['accuracy_knee', 'accuracy_trace'][k % 2], 'family': fam, 'points': pts, 'knees': kn,
                          't': rng.choice([0.9, 0.5, 0.99])})
        # 3. slope ranking
        for k in range(count(90, 2700)):
            fam, pts = curve()
            kn = pick_knees(rng, len(pts))
            j = rng.randrange(len(kn)) if kn else 0
            a = kn[j] if kn else 1
            b = kn[j - 1] if j > 0 else 0
            cases.append({'kind': 'slope', 'fn': 'slope_ranking', 'family': fam, 'points': pts, 'knees': kn, 'a': a, 'b': b, 'tsel': tsel(a, b)})
        # 4. horizontal / vertical fits
        hvf = ['linear_hv_residuals', 'linear_hv_residuals_points', 'linear_fit_transform', 'linear_fit_transform_points']
        for k in range(count(120, 3600)):
            n = rng.randint(1, nmax if rng.random() < 0.3 else 9)
            fam, pts = steep(rng, n) if rng.random() < 0.6 or n < 2 else gen.curve(rng, n)
            cases.append({'kind': 'hv', 'fn': hvf[k % 4], 'family': fam, 'points': pts, 'vertical': (k // 4) % 3 != 0})
        # 5. angle
        slopes = [0.0, 1.0, -1.0, 0.5, -2.0, 2.0, -0.5, 1e-3, -1e3, 3.0, -1.0 / 3.0, 1e200, -1e200, 0.1, -10.0]
        for k in range(count(40, 1200)):
            m1 = rng.choice(slopes) if rng.random() < 0.7 else rng.uniform(-4, 4)
            r = rng.random()
            if r < 0.3 and m1 != 0.0:
                m2 = -1.0 / m1                                  # perpendicular: 1 + m1*m2 is (close to) zero
            elif r < 0.4:
                m2 = m1
            else:
                m2 = rng.choice(slopes) if rng.random() < 0.6 else rng.uniform(-4, 4)
            cases.append({'kind': 'angle', 'fn': 'angle', 'family': 'slopes', 'coef1': [rng.choice([0.0, 1.5, -2.0]), m1],
                          'coef2': [rng.choice([0.0, 3.0]), m2], 'pyfloat': k % 2 == 0})
        # 6. zmethod.knees2: the three outlier rules round-robin; steps from a grid incl. 0 (every knee alone) and 1 (one neighbourhood)
        for k in range(count(90, 2700)):
            r = rng.random()
            if r < 0.3:
                fam, pts = gen.mrc_curve(rng, rng.randint(4, nmax))
            elif r < 0.5:
                fam, pts = gen.wavy_curve(rng, rng.randint(5, nmax))
            else:
                fam, pts = gen.curve(rng, rng.randint(3, nmax))
            cases.append({'kind': 'k2', 'fn': 'knees2', 'family': fam, 'points': pts, 'mode': k % 3,
                          'dx': rng.choice([0.05, 0.1, 0.2, 0.5, 1.0, 0.0, 0.25]), 'dy': rng.choice([0.05, 0.1, 0.2, 0.5, 1.0, 0.0, 0.25])})
        # 7. kneedle.knees (native multi-knee): the four peak selectors round-robin x smoothing tau (0 = no smoothing) x sensitivity
        for k in range(count(80, 2400)):
            r = rng.random()
            if r < 0.35:
                fam, pts = gen.wavy_curve(rng, rng.randint(5, nmax))
            elif r < 0.5:
                fam, pts = gen.mrc_curve(rng, rng.randint(4, nmax))
            else:
                fam, pts = gen.curve(rng, rng.randint(3, nmax))
            cases.append({'kind': 'kn', 'fn': 'knees', 'family': fam, 'points': pts, 'pd': k % 4, 'tau': rng.choice([0.0, 1.0, 1.0, 0.5, 0.1, 2.0]),
                          'sens': rng.choice([1.0, 1.0, 0.5, 2.0, 0.0, 0.1])})
        # 8. outside the domain (the model's enum must say so; never a verdict)
        for k in range(4):
            fam, pts = gen.curve(rng, 6)
            cases.append({'kind': 'nb', 'fn': NB_FUNCS[k], 'family': fam + '/malformed', 'points': pts, 'a': [2, 6, 3, 7][k], 'b': [2, 1, 4, 0][k],
                          'tsel': ['fixed', 0.9]})
        return cases

    def warmup(self):
        import numpy as np
        import kneeliverse.linear_fit as lf
        lf.linear_hv_residuals(np.array([0., 1., 2.]), np.array([0., 1., 5.]))     # numba compiles metrics.residuals once, before forking

    def on_timeout(self, c):
        # every modelled function is proved to terminate (explicit fuel bounds): a time-out is judged like an exception, never skipped
        c = dict(c)
        c['out'], c['exc'] = None, 'timeout'
        if 'tsel' in c and 't' not in c:
            try:
                import numpy as np
                pts = np.array(c['points'], dtype=np.float64).reshape(-1, 2)
                c['t'] = self.threshold(c, np.ascontiguousarray(pts[:, 0]), np.ascontiguousarray(pts[:, 1]))
            except BaseException:    # noqa
                c['t'] = 0.9
        if c['kind'] == 'angle':
            c['atan'] = []
        if c['kind'] == 'k2':
            c.update({'yd2': [], 'z': [], 'q': [0.0, 0.0]})
        if c['kind'] == 'kn':
            c.update({'ds': [], 'dd': [[], []], 'sel': [[], []]})
        return c

    # ------------------------------------------------------------------ the implementation
    def threshold(self, c, x, y):
        import kneeliverse.linear_fit as lf
        sel = c['tsel']
        if sel[0] == 'fixed':
            return float(sel[1])
        i, a = sel[1], c['a']
        xs_, ys_ = x[i:a + 1], y[i:a + 1]
        st, v = call(lambda: lf.linear_r2(xs_, ys_, lf.linear_fit(xs_, ys_)))
        if st != 'ok':
            return 0.9
        return nudge(float(v), sel[2])

    def run_impl(self, c):
        import numpy as np
        import kneeliverse.evaluation as ev
        import kneeliverse.knee_ranking as kr
        import kneeliverse.linear_fit as lf
        c = dict(c)
        k = c['kind']
        if k == 'angle':
            mk = (lambda v: tuple(float(e) for e in v)) if c['pyfloat'] else (lambda v: tuple(np.float64(e) for e in v))
            st, v = call(lf.angle, mk(c['coef1']), mk(c['coef2']))
            c['out'] = float(v) if st == 'ok' else None
            c['exc'] = None if st == 'ok' else v
            m1, m2 = float(c['coef1'][1]), float(c['coef2'][1])
            den = 1.0 + m1 * m2
            tbl = []
            if den != 0.0 or not c['pyfloat']:
                with np.errstate(all='ignore'):
                    arg = float(np.float64(m1 - m2) / np.float64(den))       # IEEE quotient (inf / nan instead of ZeroDivisionError)
                tbl.append([arg, math.atan(arg)])
            c['atan'] = tbl
            return c
        pts = np.array(c['points'], dtype=np.float64).reshape(-1, 2)
        x = np.ascontiguousarray(pts[:, 0])
        y = np.ascontiguousarray(pts[:, 1])
        fn = c['fn']
        if k == 'nb':
            t = self.threshold(c, x, y)
            c['t'] = t
            if fn.endswith('_points'):
                st, v = call(getattr(ev, fn), pts, c['a'], c['b'], t)
            else:
                st, v = call(getattr(ev, fn), x, y, c['a'], c['b'], t)
            if st != 'ok':
                c['out'], c['exc'] = None, v
            elif fn == 'get_neighbourhood_binary':
                c['out'] = int(v)
            else:
                c['out'] = [int(v[0]), float(v[1]), float(v[2])]
        elif k == 'acc':
            st, v = call(getattr(ev, fn), pts, np.array(c['knees'], dtype=np.int64), *([c['t']] if fn == 'accuracy_knee' else []))
            c['out'] = [float(e) for e in v] if st == 'ok' else None
            c['exc'] = None if st == 'ok' else v
        elif k == 'slope':
            t = self.threshold(c, x, y)
            c['t'] = t
            st, v = call(kr.slope_ranking, pts, np.array(c['knees'], dtype=np.int64), t)
            c['out'] = [float(e) for e in np.asarray(v).ravel()] if st == 'ok' else None
            c['exc'] = None if st == 'ok' else v
        elif k == 'k2':
            import kneeliverse.zmethod as zm
            import uts.gradient as grad
            import uts.zscore as uz
            mode = [zm.Outlier.zscore, zm.Outlier.iqr, zm.Outlier.hampel][c['mode']]
            # oracles: direct evaluation of the third-party / NumPy primitives on a fresh copy
            st, yd2 = call(grad.csd, x.copy(), y.copy())
            c['yd2'] = [float(v) for v in yd2] if st == 'ok' else None
            c['z'], c['q'] = [], [0.0, 0.0]
            if st == 'ok' and c['mode'] == 0:
                st2, z = call(uz.zscore_array, x.copy(), np.array(c['yd2']))
                c['z'] = [float(v) for v in z] if st2 == 'ok' else None
            if st == 'ok' and c['mode'] == 1:
                st2, q = call(np.percentile, np.array(c['yd2']), [25, 75])
                c['q'] = [float(q[0]), float(q[1])] if st2 == 'ok' else None
            st, v = call(zm.knees2, pts, c['dx'], c['dy'], mode)
            c['out'] = [int(e) for e in np.asarray(v).ravel()] if st == 'ok' else None
            c['exc'] = None if st == 'ok' else v
            if c['yd2'] is None or c['z'] is None or c['q'] is None:
                c['skip'] = 'an oracle primitive raised'
        elif k == 'kn':
            import kneeliverse.kneedle as kd
            import uts.ema as ema
            import uts.peak_detection as pk
            P_ = kd.PeakDetection[['Kneedle', 'ZScore', 'Significant', 'All'][c['pd']]]
            st, v = call(kd.knees, pts.copy(), c['tau'], c['sens'], P_)
            c['out'] = [int(e) for e in np.asarray(v).ravel()] if st == 'ok' else None
            c['exc'] = None if st == 'ok' else v
            # oracles: the smoothed curve (np.exp inside) and, per concavity, the uts selector on the library's own difference curve
            st, ds = call(ema.ema_linear, pts.copy(), c['tau'])
            ok = st == 'ok'
            c['ds'] = [[float(a_), float(b_)] for a_, b_ in np.asarray(ds).reshape(-1, 2)] if ok else None
            st, coef = call(lf.linear_fit_points, pts.copy())
            cd = kd.Direction.Increasing if (st == 'ok' and coef[1] > 0.0) else kd.Direction.Decreasing
            c['dd'], c['sel'] = [], []
            for cc in (kd.Concavity.Counterclockwise, kd.Concavity.Clockwise):
                st, dbg = call(kd._knees, pts.copy(), c['tau'], cd, cc, c['sens'], P_, True)
                if st != 'ok' or not isinstance(dbg, dict):
                    ok = False
                    break
                dd = np.array(dbg['dd'], dtype=np.float64)
                c['dd'].append([float(e) for e in dd[:, 1]])
                st, peaks = call(pk.all_peaks, dd.copy())
                if st != 'ok':
                    ok = False
                    break
                sel_f = {0: pk.kneedle_peak_detection, 1: pk.significant_zscore_peaks, 2: pk.significant_peaks}.get(c['pd'])
                if sel_f is None:
                    c['sel'].append([])
                else:
                    st, sel = call(sel_f, dd.copy(), np.array(peaks), c['sens'])
                    if st != 'ok':
                        ok = False
                        break
                    c['sel'].append([int(e) for e in np.asarray(sel).ravel()])
            if not ok and c['out'] is not None:
                c['skip'] = 'an oracle primitive raised'
            elif not ok:
                c['skip'] = 'kneedle.knees and its primitives raise on this input'
        else:  # hv
            if fn.startswith('linear_hv'):
                st, v = call(getattr(lf, fn), *([pts] if fn.endswith('_points') else [x, y]))
                c['out'] = float(v) if st == 'ok' else None
            else:
                st, v = call(getattr(lf, fn), *(([pts] if fn.endswith('_points') else [x, y]) + [c['vertical']]))
                if st != 'ok':
                    c['out'] = None
                elif c['vertical']:
                    c['out'] = [[float(e) for e in v[0]], [float(e) for e in v[1]]] if isinstance(v, tuple) and len(v) == 2 else 'shape'
                else:
                    c['out'] = [None, [float(e) for e in v]] if not isinstance(v, tuple) else 'shape'
            c['exc'] = None if st == 'ok' else v
        return c

    # ------------------------------------------------------------------ Coq term
    def emit(self, c):
        if c.get('skip'):
            return 'XSkip'
        k, fn, out = c['kind'], c['fn'], c.get('out')
        if out == 'shape':            # a result of the wrong shape is judged like an exception
            out = None
        if k == 'angle':
            return 'XAngle %s (%s, %s) (%s, %s) %s %s' % (cbool(c['pyfloat']), fl(c['coef1'][0]), fl(c['coef1'][1]), fl(c['coef2'][0]), fl(c['coef2'][1]),
                                                        clist(['(%s, %s)' % (fl(a), fl(b)) for a, b in c['atan']]), copt(out, fl))
        xs_ = cfls([p[0] for p in c['points']])
        ys_ = cfls([p[1] for p in c['points']])
        if k == 'nb':
            if fn == 'get_neighbourhood_binary':
                return 'XNbBin %s %s %s %s %s %s' % (xs_, ys_, cnat(c['a']), cnat(c['b']), fl(c['t']), copt(out, cnat))
            return 'XNb %s %s %s %s %s %s %s' % (cnat(NB_FUNCS.index(fn)), xs_, ys_, cnat(c['a']), cnat(c['b']), fl(c['t']),
                                                 copt(out, lambda o: '(%s, %s, %s)' % (cnat(o[0]), fl(o[1]), fl(o[2]))))
        if k == 'acc':
            return 'XAcc %s %s %s %s' % (cbool(fn == 'accuracy_trace'), cpts(c['points']), cnats(c['knees']), copt(out, cfls))
        if k == 'slope':
            return 'XSlope %s %s %s %s' % (cpts(c['points']), cnats(c['knees']), fl(c['t']), copt(out, cfls))
        if k == 'kn':
            return 'XKn %s %s %s %s %s %s %s %s' % (cpts(c['points']), cpts(c.get('ds') or []), cnat(c['pd']), cfls(c['dd'][0]), cfls(c['dd'][1]),
                                                    cnats(c['sel'][0]), cnats(c['sel'][1]), copt(out, cnats))
        if k == 'k2':
            return 'XK2 %s %s %s %s %s %s (%s, %s) %s' % (cpts(c['points']), fl(c['dx']), fl(c['dy']), cnat(c['mode']), cfls(c.get('yd2') or []),
                                                          cfls(c.get('z') or []), fl((c.get('q') or [0, 0])[0]), fl((c.get('q') or [0, 0])[1]), copt(out, cnats))
        pts_ = cbool(fn.endswith('_points'))
        if fn.startswith('linear_hv'):
            return 'XHv %s %s %s %s' % (pts_, xs_, ys_, copt(out, fl))
        return 'XFt %s %s %s %s %s' % (pts_, xs_, ys_, cbool(c['vertical']),
                                       copt(out, lambda o: '(%s, %s)' % (copt(o[0], cfls), cfls(o[1]))))

    # ------------------------------------------------------------------ evidence, shrinking, replay
    def nontrivial_key(self, c):
        if c.get('out') is None or c.get('out') == 'shape':
            return None
        k = c['kind']
        if k == 'nb' and c['a'] - c['b'] < 2:
            return None
        if k in ('acc', 'slope') and len(c['knees']) < 2:
            return None
        if k == 'hv' and len(c['points']) < 3:
            return None
        if k in ('k2', 'kn') and len(c['out']) < 1:
            return None
        return (c['fn'], json.dumps(c.get('points')), json.dumps([c.get(q) for q in ('a', 'b', 't', 'knees', 'vertical', 'coef1', 'coef2', 'pyfloat', 'mode', 'dx', 'dy', 'pd', 'tau', 'sens')]))

    def classify(self, c):
        d = {'refine_function': c['fn'], 'refine_family': c.get('family'), 'refine_outcome': 'timeout' if c.get('exc') == 'timeout' else 'raised' if c.get('out') is None else 'returned'}
        if c['kind'] in ('nb', 'slope') and 'tsel' in c:
            d['refine_threshold'] = c['tsel'][0] if c['tsel'][0] == 'fixed' else 'window R2 %+d ulp' % c['tsel'][2]
        if c['kind'] == 'nb' and isinstance(c.get('out'), list):
            j = c['out'][0]
            d['refine_neighbourhood_index'] = 'a-1' if j == c['a'] - 1 else 'b' if j == c['b'] else 'a' if j == c['a'] else 'inside'
        if c['kind'] == 'kn':
            d['refine_kneedle_selector'] = ['Kneedle', 'ZScore', 'Significant', 'All'][c['pd']]
            if isinstance(c.get('out'), list):
                d['refine_kneedle_knees'] = min(len(c['out']), 4)
        if c['kind'] == 'k2':
            d['refine_knees2_rule'] = ['zscore', 'iqr', 'hampel'][c['mode']]
            if isinstance(c.get('out'), list):
                d['refine_knees2_knees'] = min(len(c['out']), 4)
        if 'points' in c:
            d['n'] = len(c['points']) // 8 * 8
        return d

    def shrink(self, c):
        out = []
        if c['kind'] == 'angle':
            return out
        pts = c['points']
        n = len(pts)
        top = max([c.get('a', 0)] + list(c.get('knees', [])))
        if n - 1 > top and n > 2 and c['kind'] not in ('k2', 'kn', 'hv'):                      # drop the tail behind the last index used
            d = dict(c)
            d['points'] = pts[:max(top + 1, 2)]
            out.append(d)
            d = dict(c)
            d['points'] = pts[:-1]
            out.append(d)
        lo = c['b'] if c['kind'] == 'nb' else 0
        if c['kind'] == 'nb' and lo > 0:               # drop the head before b
            d = dict(c)
            d['points'] = pts[lo:]
            d['a'], d['b'] = c['a'] - lo, 0
            if c['tsel'][0] == 'r2':
                d['tsel'] = ['fixed', c.get('t', 0.9)]
            out.append(d)
        if c['kind'] in ('nb', 'slope') and c['tsel'][0] == 'r2' and 't' in c:
            d = dict(c)
            d['tsel'] = ['fixed', c['t']]
            out.append(d)
        if c['kind'] in ('acc', 'slope'):
            kn = c['knees']
            for j in range(len(kn)):
                if len(kn) > 1:
                    d = dict(c)
                    d['knees'] = kn[:j] + kn[j + 1:]
                    if c['kind'] == 'slope':
                        d['tsel'] = ['fixed', c.get('t', 0.9)]
                        d['a'], d['b'] = d['knees'][0], 0
                    out.append(d)
        if c['kind'] in ('k2', 'kn'):
            for j in range(n):
                if n > 3:
                    d = dict(c)
                    d['points'] = pts[:j] + pts[j + 1:]
                    out.append(d)
        if c['kind'] == 'hv':
            for j in range(n):
                if n > 1:
                    d = dict(c)
                    d['points'] = pts[:j] + pts[j + 1:]
                    out.append(d)
        return out

    def sample(self, c):
        return {k: c[k] for k in ('kind', 'fn', 'family', 'points', 'a', 'b', 't', 'tsel', 'knees', 'vertical', 'coef1', 'coef2', 'pyfloat', 'mode', 'dx', 'dy', 'pd', 'tau', 'sens', 'out') if k in c}

    def describe(self, c):
        fn, k = c['fn'], c['kind']
        mod = {'nb': 'evaluation', 'acc': 'evaluation', 'slope': 'knee_ranking', 'hv': 'linear_fit', 'angle': 'linear_fit', 'k2': 'zmethod', 'kn': 'kneedle'}[k]
        if k == 'angle':
            ty = 'float' if c['pyfloat'] else 'np.float64'
            return 'kneeliverse.linear_fit.angle(tuple(%s(v) for v in %s), tuple(%s(v) for v in %s)) -> %s' % (ty, c['coef1'], ty, c['coef2'], c.get('out', c.get('exc')))
        p = 'P = np.array(%s); x, y = P[:,0].copy(), P[:,1].copy(); ' % c['points']
        res = c.get('out') if c.get('out') is not None else 'raised %s' % c.get('exc')
        if k == 'nb':
            args = ('P' if fn.endswith('_points') else 'x, y') + ', %d, %d, %r' % (c['a'], c['b'], c.get('t'))
        elif k == 'acc':
            args = 'P, np.array(%s, dtype=int)' % c['knees'] + (', %r' % c['t'] if fn == 'accuracy_knee' else '')
        elif k == 'slope':
            args = 'P, np.array(%s, dtype=int), %r' % (c['knees'], c.get('t'))
        elif k == 'kn':
            args = 'P, %r, %r, kneedle.PeakDetection.%s' % (c['tau'], c['sens'], ['Kneedle', 'ZScore', 'Significant', 'All'][c['pd']])
        elif k == 'k2':
            args = 'P, %r, %r, zmethod.Outlier.%s' % (c['dx'], c['dy'], ['zscore', 'iqr', 'hampel'][c['mode']])
        else:
            args = ('P' if fn.endswith('_points') else 'x, y') + (', %s' % c['vertical'] if 'transform' in fn else '')
        return '%skneeliverse.%s.%s(%s) -> %s' % (p, mod, fn, args, res)


if __name__ == '__main__':
    main(C20X)
