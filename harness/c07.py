# C07 — reduced-space indices map back to exactly the original indices
import itertools, random
from core import *
import gen


class C07:
    id = 'C07'
    judge_module = 'Run.JudgeC07'
    rule = ('index subsets of {0..n-1} containing both ends (exhaustive for small n, sampled above) x ascending position lists '
            'x sorted flag x row permutations, plus (reduced, removed) returned by every simplifier on generated curves; '
            'non-trivial = at least one dropped point and at least two queried positions (mapping) / at least one dropped point (table); '
            'distinct by (reduced set, positions, sorted, row order)')
    assumptions = ['indices fit in a machine integer; removed tables hold integral values (checked per case)']
    trusted = ['modelled: rdp.mapping, rdp.compute_removed_points (integers only); np.argsort modelled as any sorting permutation (theorem C07_any_sort_canonical)']

    def generate(self, rng, tier):
        cases = []
        nmax_exh = {'quick': 7, 'search': 6, 'thorough': 10}.get(tier, 7)
        per_subset = {'quick': 3, 'search': 2, 'thorough': 4}.get(tier, 3)
        for n in range(2, nmax_exh + 1):
            for red in gen.subsets_with_ends(n):
                m = len(red)
                for _ in range(per_subset):
                    ix = sorted(rng.sample(range(m), rng.randint(0, m))) if rng.random() < 0.7 else sorted(rng.choices(range(m), k=rng.randint(1, m + 1)))
                    srt = rng.random() < 0.5
                    cases.append({'kind': 'map', 'n': n, 'red': red, 'I': ix, 'sorted': srt, 'perm_seed': rng.randrange(1 << 30)})
                cases.append({'kind': 'crp', 'n': n, 'red': red})
        nrand = {'quick': 150, 'search': 150, 'thorough': 3000}.get(tier, 150)
        for _ in range(nrand):
            n = rng.randint(8, 60 if tier == 'thorough' else 24)
            red = gen.random_subset_with_ends(rng, n)
            m = len(red)
            ix = sorted(rng.sample(range(m), rng.randint(0, m)))
            cases.append({'kind': 'map', 'n': n, 'red': red, 'I': ix, 'sorted': rng.random() < 0.5, 'perm_seed': rng.randrange(1 << 30)})
        nsimp = {'quick': 120, 'search': 60, 'thorough': 3000}.get(tier, 120)
        simps = ['rdp', 'rdp_fixed', 'grdp', 'mp_grdp', 'min_point_rdp']
        for k in range(nsimp):
            n = rng.randint(2, 40 if tier == 'thorough' else 14)
            fam, pts = gen.curve(rng, n)
            cases.append({'kind': 'simp', 'which': simps[k % 5], 'points': pts, 'family': fam,
                          't': rng.choice([0.5, 0.1, 0.01, 0.001]), 'k': rng.randint(0, n + 1),
                          'dist': rng.choice(['shortest', 'perpendicular']), 'order': rng.choice(['triangle', 'area', 'segment']),
                          'cost': rng.choice(['smape', 'rpd', 'rmspe', 'rmsle', 'r2']), 'pos_seed': rng.randrange(1 << 30)})
        return cases

    def warmup(self):
        import numpy as np
        import kneeliverse.rdp as rdp
        import kneeliverse.metrics as metrics
        p = np.array([[0., 1.], [1., 3.], [2., 2.], [3., 5.]])
        for c in metrics.Metrics:
            rdp.rdp(p, 0.1, cost=c)

    def on_timeout(self, c):
        c = dict(c)
        c['skip'] = 'timeout'
        return c

    def run_impl(self, c):
        import numpy as np
        import kneeliverse.rdp as rdp
        import kneeliverse.metrics as metrics
        c = dict(c)
        if c['kind'] == 'map':
            red = c['red']
            rows = [[red[i], red[i + 1] - red[i] - 1] for i in range(len(red) - 1)]
            if not c['sorted']:
                random.Random(c['perm_seed']).shuffle(rows)
            c['rem'] = rows
            st, out = call(rdp.mapping, np.array(c['I'], dtype=int), np.array(red), np.array(rows), c['sorted'])
            c['out'] = as_nat_list(out) if st == 'ok' else None
        elif c['kind'] == 'crp':
            pts = np.zeros((c['n'], 2))
            st, out = call(rdp.compute_removed_points, pts, np.array(c['red']))
            c['tab'] = as_rows(out) if st == 'ok' else None
        else:
            pts = np.array(c['points'])
            D = rdp.Distance[c['dist']]
            O = rdp.Order[c['order']]
            M = metrics.Metrics[c['cost']]
            t = c['t'] if c['cost'] != 'r2' else 1.0 - c['t']
            w = c['which']
            if w == 'rdp':
                st, out = call(rdp.rdp, pts, t, D, M)
            elif w == 'rdp_fixed':
                st, out = call(rdp.rdp_fixed, pts, c['k'], D, O)
            elif w == 'grdp':
                st, out = call(rdp.grdp, pts, t, D, M, O)
            elif w == 'mp_grdp':
                st, out = call(rdp.mp_grdp, pts, t, c['k'], D, M, O)
            else:
                st, out = call(rdp.min_point_rdp, pts, [0.001, c['t'], 0.01], c['k'])
            if st != 'ok':
                c['skip'] = 'simplifier raised ' + str(out)
                return c
            red, rem = out
            c['n'] = len(pts)
            c['red'] = as_nat_list(red)
            c['tab'] = as_rows(rem)
            # also exercise compute_removed_points and mapping on the simplifier's own output
            st2, out2 = call(rdp.compute_removed_points, pts, np.array(red))
            c['tab2'] = as_rows(out2) if st2 == 'ok' else None
            m = len(c['red'] or [])
            r = random.Random(c['pos_seed'])
            ix = sorted(r.sample(range(m), r.randint(0, m))) if m else []
            c['I'] = ix
            st3, out3 = call(rdp.mapping, np.array(ix, dtype=int), np.array(red), np.array(rem))
            c['out'] = as_nat_list(out3) if st3 == 'ok' else None
        return c

    def emit(self, c):
        if c.get('skip'):
            return 'CRem 0%nat [] []'
        if c['kind'] == 'map':
            return 'CMap %s %s %s %s %s %s' % (cnat(c['n']), cnats(c['red']), crows(c['rem']), cnats(c['I']), cbool(c['sorted']),
                                               copt(c['out'], cnats))
        if c['kind'] == 'crp':
            return 'CRem %s %s %s' % (cnat(c['n']), cnats(c['red']), crows(c['tab'] if c['tab'] is not None else []))
        # simplifier output: three judgements folded into one case list entry each
        return 'CSimp %s %s %s %s %s %s' % (cnat(c['n']), cnats(c['red'] or []), crows(c['tab'] or []), crows(c['tab2'] or []),
                                            cnats(c['I']), copt(c['out'], cnats))

    def nontrivial_key(self, c):
        if c.get('skip'):
            return None
        red = c.get('red') or []
        dropped = (c['n'] - len(red)) if red else 0
        if c['kind'] == 'map':
            if dropped >= 1 and len(c['I']) >= 2:
                return ('map', tuple(red), tuple(c['I']), c['sorted'], str(c['rem']))
            return None
        if dropped >= 1:
            return (c['kind'], c['n'], tuple(red), tuple(c.get('I', [])))
        return None

    def classify(self, c):
        return {'kind': c['kind'] if not c.get('skip') else 'skipped', 'n': min(c.get('n', 0), 64) // 8 * 8}

    def shrink(self, c):
        out = []
        if c['kind'] == 'map':
            for j in range(len(c['I'])):
                d = dict(c)
                d['I'] = c['I'][:j] + c['I'][j + 1:]
                out.append(d)
        elif c['kind'] == 'simp':
            pts = c['points']
            for j in range(len(pts)):
                if len(pts) > 2:
                    d = dict(c)
                    d['points'] = pts[:j] + pts[j + 1:]
                    out.append(d)
        return out

    def sample(self, c):
        keys = ['kind', 'n', 'red', 'I', 'sorted', 'rem', 'out', 'tab', 'which', 'points']
        return {k: c[k] for k in keys if k in c}

    def describe(self, c):
        if c['kind'] == 'map':
            return 'kneeliverse.rdp.mapping(np.array(%s), np.array(%s), np.array(%s), sorted=%s)' % (c['I'], c['red'], c.get('rem'), c['sorted'])
        if c['kind'] == 'crp':
            return 'kneeliverse.rdp.compute_removed_points(np.zeros((%d,2)), np.array(%s))' % (c['n'], c['red'])
        return 'kneeliverse.rdp.%s on points=%s (t=%s k=%s %s %s %s), then compute_removed_points / mapping on its output' % (
            c['which'], c['points'], c['t'], c['k'], c['dist'], c['order'], c['cost'])


def as_nat_list(a):
    try:
        out = []
        for v in list(a):
            f = float(v)
            if f != int(f) or f < 0:
                return None
            out.append(int(f))
        return out
    except Exception:
        return None


def as_rows(a):
    try:
        out = []
        for r in list(a):
            l, c = float(r[0]), float(r[1])
            if l != int(l) or c != int(c) or l < 0 or c < 0:
                return None
            out.append([int(l), int(c)])
        return out
    except Exception:
        return None


def crows(rows):
    return clist(['(%s, %s)' % (cnat(r[0]), cnat(r[1])) for r in rows])


if __name__ == '__main__':
    main(C07)
