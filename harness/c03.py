# C03 — every single-knee detector returns the corner index of an exact two-slope elbow
import random
from core import *

FITS = ['best_fit', 'point_fit']
COSTS = ['rss', 'rmse']
REFS = ['none', 'original', 'adjusted']
# sign classes of (slope1, slope2): rising / falling (monotone), V-shaped, one flat arm
SIGNS = [(1, 1), (-1, -1), (1, -1), (-1, 1), (0, 1), (1, 1), (-1, -1), (0, -1), (1, -1), (-1, 1), (1, 0), (-1, 0)]
LIMITS = [10, 10, 3, 0, 25, 7, 1000]
DETECTORS = (['curvature.knee', 'menger.knee', 'dfdt.knee']
             + ['lmethod.get_knee(%s,%s)' % (f, c) for f in FITS for c in COSTS]
             + ['lmethod.knee(%s,%s)' % (f, r) for f in FITS for r in REFS] + ['kneedle.knee(t=0)'])


def build_points(c):
    """the elbow of a case: x from the gap list, y = yc + m * (x - xc) with m = j/8 (all exact in binary64)"""
    xs = [float(c['x0'])]
    for g in c['gaps']:
        xs.append(xs[-1] + float(g))
    a = c['a']
    xc = xs[a]
    m1, m2 = c['j1'] / 8.0, c['j2'] / 8.0
    ys = [float(c['yc']) + (m1 if i <= a else m2) * (xs[i] - xc) for i in range(len(xs))]
    return [[x, y] for x, y in zip(xs, ys)]


def gaps_pattern(rng, n, kind):
    if kind == 'const':
        k = rng.randint(1, 4)
        return [k] * n
    if kind == 'periodic':
        p = [rng.randint(1, 4) for _ in range(rng.randint(2, 5))]
        return [p[i % len(p)] for i in range(n)]
    if kind == 'extreme':   # alternating 1 and 4, or 4 on one arm and 1 on the other (set by the caller)
        s = rng.choice([(1, 4), (4, 1)])
        return [s[i % 2] for i in range(n)]
    return [rng.randint(1, 4) for _ in range(n)]


def dyadic(rng, bound=4096):
    e = rng.choice([0, 0, 1, 3, 6])
    return rng.randint(-bound * (1 << e), bound * (1 << e)) / float(1 << e)


class C03:
    id = 'C03'
    judge_module = 'Run.JudgeC03'
    rule = ('exact two-slope elbows from the property\'s parameter space: arm lengths 3..400 (quick <= 40), gap patterns over {1,2,3,4} '
            '(constant, periodic, alternating extremes, random), ordered pairs of distinct slopes j/8 with |j| <= 64 enumerated round-robin over the sign '
            'classes (rising, falling, both V orientations, one flat arm) x convex/concave, dyadic offsets <= 2^12; each elbow is run through '
            'curvature.knee, menger.knee, dfdt.knee, lmethod.get_knee (2 fits x 2 costs), lmethod.knee (2 fits x 3 refinements, limit round-robin) and, '
            'when monotone, kneedle.knee(t=0); every elbow is non-trivial; distinct by (arm lengths, slopes, gaps, offsets, limit); '
            'one evaluation = one elbow x 13 (14 when monotone) detector calls')
    assumptions = ['points are exactly representable (dyadic slopes and offsets, integer gaps): checked per case inside Coq by elbowb']
    trusted = ['modelled: uts.gradient.cfd/csd, uts.thresholding.isodata (bit-for-bit on binary64, compared under rtol 1e-9 to the installed uts), '
               'curvature (u**1.5 := sqrt(u*u*u)), Menger (v**2.0 := v*v), L-method (np.polyfit residual := residual of the least-squares line by centred normal equations), '
               'DFDT, Kneedle at t = 0 (ema_linear(.,0) = copy)',
               'the theorems are about the formulas over exact reals (RNum); that the binary64 evaluation also returns the corner is measured by this run, not proved',
               'detectors proved in Coq for all elbows (unbounded arms, arbitrary positive spacings): curvature, Menger, L-method get_knee (2 fits x 2 costs) and knee '
               '(2 fits x 3 refinements, every limit), DFDT (with isodata_two_level for every eps / iteration budget), Kneedle t=0 on monotone elbows; '
               'detectors covered by correspondence only: none']
    timeout = 300.0
    shard = 60

    def generate(self, rng, tier):
        plan = {'quick': [(160, 3, 8), (70, 3, 40)],
                'search': [(100, 3, 8), (40, 3, 40)],
                'thorough': [(12000, 3, 10), (3500, 3, 40), (400, 20, 150), (100, 100, 400)]}.get(tier, [(160, 3, 8), (70, 3, 40)])
        cases = []
        k = 0
        for count, lo, hi in plan:
            for _ in range(count):
                a = rng.choice([lo, rng.randint(lo, hi), rng.randint(lo, hi)])
                b = rng.choice([lo, rng.randint(lo, hi), rng.randint(lo, hi)])
                if hi >= 400 and rng.random() < 0.3:
                    a, b = rng.choice([(400, 3), (3, 400), (400, 400), (400, rng.randint(3, 400))])
                s1, s2 = SIGNS[k % len(SIGNS)]
                mode = (k // len(SIGNS)) % 4
                while True:
                    if mode == 0:      # arbitrary magnitudes
                        u, v = rng.randint(1, 64), rng.randint(1, 64)
                    elif mode == 1:    # neighbouring slopes (weakest corner)
                        u = rng.randint(1, 63)
                        v = u + rng.choice([-1, 1])
                    elif mode == 2:    # extremes
                        u, v = rng.choice([1, 64]), rng.choice([1, 64, rng.randint(1, 64)])
                    else:
                        u, v = rng.randint(1, 16), rng.randint(1, 16)
                    j1, j2 = s1 * u, s2 * v
                    if j1 != j2 and abs(j1) <= 64 and abs(j2) <= 64 and (v >= 1 or s2 == 0):
                        break
                kind = ['const', 'periodic', 'random', 'extreme'][(k // 3) % 4]
                gaps = gaps_pattern(rng, a + b, kind)
                if kind == 'extreme' and rng.random() < 0.5:
                    g1, g2 = rng.choice([(1, 4), (4, 1)])
                    gaps = [g1] * a + [g2] * b
                cases.append({'a': a, 'b': b, 'j1': j1, 'j2': j2, 'gaps': gaps,
                              'x0': rng.choice([0.0, 0.0, 1.0, dyadic(rng)]), 'yc': rng.choice([0.0, dyadic(rng), dyadic(rng)]),
                              'limit': LIMITS[k % len(LIMITS)], 'chk': (a + b) <= 100})
                k += 1
        return cases

    def warmup(self):
        import numpy as np
        import kneeliverse.lmethod as lm
        p = np.array(build_points({'a': 3, 'b': 3, 'j1': 8, 'j2': 1, 'gaps': [1] * 6, 'x0': 0.0, 'yc': 0.0}))
        lm.knee(p)

    def on_timeout(self, c):
        c = dict(c)
        c['timeout'] = True
        c['out'] = [None] * 14
        c['ucfd'] = c['ucsd'] = []
        c['uiso'] = float('nan')
        return c

    def run_impl(self, c):
        import numpy as np
        import uts.gradient as grad
        import uts.thresholding as thresh
        import kneeliverse.curvature as cu
        import kneeliverse.menger as me
        import kneeliverse.dfdt as df
        import kneeliverse.lmethod as lm
        import kneeliverse.kneedle as kn
        c = dict(c)
        pts = np.array(build_points(c), dtype=float)
        x, y = pts[:, 0], pts[:, 1]
        out = []
        out.append(as_index(call(cu.knee, pts)))
        out.append(as_index(call(me.knee, pts)))
        out.append(as_index(call(df.knee, pts)))
        for f in FITS:
            for co in COSTS:
                st, r = call(lm.get_knee, x, y, lm.Fit[f], lm.Cost[co])
                out.append(as_index((st, r[0] if st == 'ok' else r)))
        for f in FITS:
            for r in REFS:
                out.append(as_index(call(lm.knee, pts, lm.Fit[f], lm.Refinement[r], c['limit'])))
        if c['j1'] * c['j2'] >= 0:
            out.append(as_index(call(kn.knee, pts, 0)))
        else:
            out.append(None)
        c['out'] = out
        if c.get('chk'):
            st, g = call(grad.cfd, x, y)
            c['ucfd'] = [float(v) for v in g] if st == 'ok' else []
            st2, g2 = call(grad.csd, x, y)
            c['ucsd'] = [float(v) for v in g2] if st2 == 'ok' else []
            st3, t = call(thresh.isodata, g) if st == 'ok' else ('exc', None)
            c['uiso'] = float(t) if st3 == 'ok' else float('nan')
        else:
            c['ucfd'] = c['ucsd'] = []
            c['uiso'] = 0.0
        return c

    def emit(self, c):
        pts = build_points(c)
        o = c['out']
        on = lambda v: copt(v, cnat)
        return 'CElbow %s %s %s %s %s %s %s %s %s %s %s %s %s %s %s' % (
            cnat(c['a']), fl(c['j1'] / 8.0), fl(c['j2'] / 8.0), cpts(pts), cbool(bool(c.get('chk')) and not c.get('timeout')),
            cfls(c['ucfd']), cfls(c['ucsd']), fl(c['uiso']),
            on(o[0]), on(o[1]), on(o[2]), clist([on(v) for v in o[3:7]]), cnat(c['limit']), clist([on(v) for v in o[7:13]]), on(o[13]))

    def nontrivial_key(self, c):
        return (c['a'], c['b'], c['j1'], c['j2'], tuple(c['gaps']), c['x0'], c['yc'], c['limit'])

    def classify(self, c):
        j1, j2 = c['j1'], c['j2']
        if j1 * j2 < 0:
            shape = 'V' if j1 < 0 else 'peak'
        elif j1 + j2 > 0:
            shape = 'rising'
        else:
            shape = 'falling'
        shape += '-convex' if j1 < j2 else '-concave'
        n = c['a'] + c['b'] + 1
        wrong = [DETECTORS[i] for i, v in enumerate(c['out']) if v != c['a'] and not (i == 13 and j1 * j2 < 0)]
        return {'shape': shape, 'points': (n if n < 16 else n // 16 * 16), 'limit': c['limit'],
                'detectors_not_returning_corner': ','.join(wrong) if wrong else 'none',
                'flat_arm': (j1 == 0 or j2 == 0)}

    def shrink(self, c):
        out = []
        a, b = c['a'], c['b']
        for na, nb in [(3, 3), (a // 2, b), (a, b // 2), (a - 1, b), (a, b - 1)]:
            if na >= 3 and nb >= 3 and (na, nb) != (a, b):
                d = dict(c)
                d['a'], d['b'] = na, nb
                d['gaps'] = c['gaps'][a - na:a] + c['gaps'][a:a + nb]
                out.append(d)
        if any(g != 1 for g in c['gaps']):
            d = dict(c)
            d['gaps'] = [1] * len(c['gaps'])
            out.append(d)
        if c['x0'] != 0.0 or c['yc'] != 0.0:
            d = dict(c)
            d['x0'] = d['yc'] = 0.0
            out.append(d)
        for k in ('out', 'ucfd', 'ucsd', 'uiso', 'timeout'):
            for d in out:
                d.pop(k, None)
        return out

    def sample(self, c):
        return {'corner': c['a'], 'slopes': [c['j1'] / 8.0, c['j2'] / 8.0], 'points': build_points(c)[:12], 'n': c['a'] + c['b'] + 1,
                'limit': c['limit'], 'returned': dict(zip(DETECTORS, c['out']))}

    def describe(self, c):
        wrong = [DETECTORS[i] for i, v in enumerate(c.get('out', [])) if v != c['a'] and not (i == 13 and c['j1'] * c['j2'] < 0)]
        return ('points = np.array(%s); corner index %d; slopes %s, %s; limit=%d; detectors not returning the corner: %s; returned %s'
                % (build_points(c), c['a'], c['j1'] / 8.0, c['j2'] / 8.0, c['limit'], wrong, dict(zip(DETECTORS, c.get('out', [])))))


def as_index(res):
    st, v = res
    if st != 'ok' or v is None:
        return None
    try:
        f = float(v)
        if f != int(f) or f < 0:
            return None
        return int(f)
    except Exception:
        return None


if __name__ == '__main__':
    main(C03)
