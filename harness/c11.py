# C11 — 1-D linkage clustering follows its stated threshold rule
import math, random
from core import *
import gen

LINKS = ['single', 'complete', 'centroid', 'average']
CTOR = {'single': 'Single', 'complete': 'Complete', 'centroid': 'Centroid', 'average': 'Average'}


def observed(lk, xs, t):
    """generator-side replica of the quantity each loop compares with t (used ONLY to aim thresholds at exact
    ties and for the evidence statistics; the verdict uses the Coq model and the real implementation)"""
    import numpy as np
    n = len(xs)
    if n < 2:
        return [], [0] * n
    length = xs[-1] - xs[0]
    ds, labels = [], [0]
    ci = 0
    with np.errstate(all='ignore'):
        if lk == 'single':
            for i in range(1, n):
                d = float(np.float64(math.fabs(xs[i] - xs[i - 1])) / np.float64(length))
                ds.append(d)
                if d >= t:
                    ci += 1
                labels.append(ci)
        elif lk == 'complete':
            a = 0
            for i in range(1, n):
                d = float(np.float64(math.fabs(xs[i] - xs[a])) / np.float64(length))
                ds.append(d)
                if d >= t:
                    ci += 1
                    a = i
                labels.append(ci)
        elif lk == 'centroid':
            c, s = xs[0], 1
            for i in range(1, n):
                d = float(np.float64(math.fabs(xs[i] - c)) / np.float64(length))
                ds.append(d)
                if d < t:
                    c = (s / (s + 1)) * c + (1 / (s + 1)) * xs[i]
                    s += 1
                else:
                    ci += 1
                    c, s = xs[i], 1
                labels.append(ci)
        else:
            idx = 0
            arr = np.array(xs, dtype=float)
            for i in range(1, n):
                cp = arr[idx:i]
                d = float(np.sum(np.abs(cp - arr[i])) / (len(cp) * np.float64(length)))
                ds.append(d)
                if d >= t:
                    ci += 1
                    idx = i
                labels.append(ci)
    return ds, labels


def xs_family(rng, n, fam):
    if fam in ('unit', 'int', 'float'):
        return gen.xs_increasing(rng, n, fam)
    if fam == 'dyadic':          # multiples of 1/8: many exactly equal normalised gaps
        x = rng.randint(0, 8) / 8.0
        out = []
        for _ in range(n):
            out.append(x)
            x += rng.choice([1, 1, 2, 2, 3, 4, 8, 16]) / 8.0
        return out
    if fam == 'clustered':       # tight groups separated by wide gaps (long clusters: centroid / average drift)
        x = float(rng.randint(0, 3))
        out = []
        for _ in range(n):
            out.append(x)
            x += rng.choice([0.5, 1.0, 1.0, 1.5]) if rng.random() < 0.75 else float(rng.choice([10, 16, 25, 40]))
        return out
    if fam == 'geometric':
        x = 1.0
        out = []
        r = rng.choice([1.5, 2.0, 1.1])
        for _ in range(n):
            out.append(x)
            x *= r
        return out
    # scaled: large / tiny magnitudes (no overflow of the x range)
    s = 10.0 ** rng.choice([-150, -30, -8, 8, 30, 150])
    return [x * s for x in gen.xs_increasing(rng, n, rng.choice(['int', 'float']))]


FAMS = ['unit', 'int', 'float', 'dyadic', 'clustered', 'geometric', 'scaled']
GRID = [0.01, 0.05, 0.1, 0.2, 0.25, 0.5, 1.0]


def pick_t(rng, lk, xs):
    """threshold from the normalised distances the loop actually compares (exact tie), a nextafter neighbour, or the grid"""
    t0 = rng.choice(GRID + [math.inf, math.inf])
    ds, _ = observed(lk, xs, t0)
    ds = [d for d in ds if d == d and 0 < d < math.inf]
    mode = rng.choice(['tie', 'tie', 'tie', 'below', 'above', 'grid'])
    if not ds or mode == 'grid':
        return rng.choice(GRID), 'grid'
    d = rng.choice(ds)
    if rng.random() < 0.5:
        # second stage: distances observed under t = d (the state the tie will actually be met in)
        ds2, _ = observed(lk, xs, d)
        ds2 = [v for v in ds2 if v == v and 0 < v < math.inf]
        if ds2:
            d = rng.choice(ds2)
    if mode == 'below':
        v = math.nextafter(d, 0.0)
        return (v, 'below') if v > 0 else (d, 'tie')
    if mode == 'above':
        return math.nextafter(d, math.inf), 'above'
    return d, 'tie'


def pick_t2(rng, lk, xs, t):
    mode = rng.choice(['same', 'next', 'obs', 'obs', 'double', 'grid'])
    if mode == 'same':
        return t
    if mode == 'next':
        return math.nextafter(t, math.inf)
    if mode == 'double':
        return t * 2
    if mode == 'obs':
        ds, _ = observed(lk, xs, t)
        ds = [d for d in ds if d == d and t <= d < math.inf]
        if ds:
            d = rng.choice(ds)
            return rng.choice([d, d, math.nextafter(d, math.inf)])
    g = [v for v in GRID if v >= t]
    return rng.choice(g) if g else t


class C11:
    id = 'C11'
    judge_module = 'Run.JudgeC11'
    rule = ('strictly increasing x (families unit/int/float/dyadic/clustered/geometric/scaled; float64 and int64 arrays) x 4 linkages '
            '(round-robin) x thresholds drawn from the normalised distances the loop compares (exact ties), their nextafter '
            'neighbours and a grid, each with a second threshold t2 >= t (monotonicity on the implementation); '
            'non-trivial = at least 2 clusters and (an exact tie distance == t or a cluster of size >= 3); '
            'distinct by (linkage, xs, t, t2); a same-object stream (about 1 case in 6): ONE points buffer serves 3-5 calls (any linkage, '
            'varying t), refilled IN PLACE by a sibling x sequence between some calls, every call judged on the contents it was given, '
            'the buffer compared with its snapshot after every call; a malformed stream (n < 2, non-increasing x, t <= 0) is judged outside the domain')
    assumptions = ['x strictly increasing, n >= 2, t > 0 (judged per case; others are counted as outside the domain)',
                   'int64 inputs have |x| < 2^50 so the integer arithmetic NumPy performs is exact in binary64']
    trusted = ['modelled: clustering.single_linkage / complete_linkage / centroid_linkage / average_linkage; '
               'np.sum as NumPy pairwise summation (NpList.np_sum); Python int/int as the binary64 quotient']
    timeout = 20.0
    shard = 300

    def generate(self, rng, tier):
        cases = []
        ncurves = {'quick': 420, 'search': 300, 'thorough': 5200}.get(tier, 420)
        nmax = {'quick': 12, 'search': 12, 'thorough': 64}.get(tier, 12)
        k = 0
        for c in range(ncurves):
            fam = FAMS[c % len(FAMS)]
            if tier == 'thorough' and c % 40 == 0:
                n = rng.randint(130, 300)      # exercises the recursive branch of the pairwise sum (average linkage)
            elif rng.random() < 0.15:
                n = rng.randint(2, 4)
            else:
                n = rng.randint(2, nmax)
            xs = xs_family(rng, n, fam)
            isint = all(float(x).is_integer() and abs(x) < 2 ** 50 for x in xs)
            for lk in LINKS:
                t, tmode = pick_t(rng, lk, xs)
                t2 = pick_t2(rng, lk, xs, t)
                cases.append({'xs': xs, 'lk': lk, 't': t, 't2': t2, 'family': fam, 'tmode': tmode,
                              'dtype': 'int' if (isint and k % 3 == 0) else 'float'})
                k += 1
        # same-object multi-call stream (about one case in six): ONE points buffer serves 3-5 calls (any linkage, varying t),
        # refilled in place by a sibling x sequence of the same length between some calls; every call is judged against the
        # model on the contents the buffer held at that call, and the buffer is compared with its snapshot after every call
        nseq = len(cases) // 6
        for m in range(nseq):
            n = rng.randint(2, min(nmax, 24))
            seqs = [xs_family(rng, n, rng.choice(FAMS[:6])) for _ in range(rng.randint(2, 3))]
            steps, cur = [], 0
            for j in range(rng.randint(3, 5)):
                if j > 0 and rng.random() < 0.55:
                    cur = rng.choice([q for q in range(len(seqs)) if q != cur])
                lk = rng.choice(LINKS)
                steps.append({'lk': lk, 'seq': cur, 't': pick_t(rng, lk, seqs[cur])[0]})
            if len({st['seq'] for st in steps}) < 2:
                steps[-1]['seq'] = (steps[-1]['seq'] + 1) % len(seqs)
                steps[-1]['t'] = pick_t(rng, steps[-1]['lk'], seqs[steps[-1]['seq']])[0]
            isint = all(float(x).is_integer() and abs(x) < 2 ** 50 for q in seqs for x in q)
            cases.append({'kind': 'seq', 'seqs': seqs, 'steps': steps, 'family': 'sameobject',
                          'dtype': 'int' if (isint and m % 2 == 0) else 'float'})
        # malformed stream: never a verdict, only model-vs-code bookkeeping where the domain ends
        for j in range({'quick': 24, 'search': 8, 'thorough': 200}.get(tier, 24)):
            lk = LINKS[j % 4]
            kind = j // 4 % 4
            if kind == 0:
                xs = [] if j % 8 < 4 else [float(rng.randint(0, 5))]
            elif kind == 1:
                xs = [float(rng.randint(0, 6)) for _ in range(rng.randint(2, 8))]
            elif kind == 2:
                xs = [1.0, 1.0, 1.0]
            else:
                xs = gen.xs_increasing(rng, rng.randint(2, 8), 'int')
            t = rng.choice([0.0, -0.5, 0.2]) if kind == 3 else rng.choice(GRID)
            cases.append({'xs': xs, 'lk': lk, 't': t, 't2': t, 'family': 'malformed', 'tmode': 'grid', 'dtype': 'float'})
        return cases

    def on_timeout(self, c):
        c = dict(c)
        c['out'] = None
        c['out2'] = None
        c['timeout'] = True
        return c

    def run_impl(self, c):
        import numpy as np
        import kneeliverse.clustering as cl
        c = dict(c)
        if c.get('kind') == 'seq':
            def arr(xs):
                if c['dtype'] == 'int':
                    return np.array([[int(x), 0] for x in xs], dtype=np.int64).reshape(len(xs), 2)
                return np.array([[x, 0.5] for x in xs], dtype=float).reshape(len(xs), 2)
            snaps = [arr(q) for q in c['seqs']]
            cur = c['steps'][0]['seq']
            buf = snaps[cur].copy()                      # THE one points object every call receives
            outs, intact = [], True
            for st in c['steps']:
                if st['seq'] != cur:
                    cur = st['seq']
                    buf[:] = snaps[cur]                  # refill in place
                r = call(getattr(cl, st['lk'] + '_linkage'), buf, st['t'])
                outs.append(as_labels(r[1]) if r[0] == 'ok' else None)
                if not (np.array_equal(buf, snaps[cur]) and buf.dtype == snaps[cur].dtype):
                    intact = False
                    buf[:] = snaps[cur]
            c['outs'] = outs
            c['intact'] = intact
            return c
        f = getattr(cl, c['lk'] + '_linkage')
        xs = c['xs']
        if c['dtype'] == 'int':
            pts = np.array([[int(x), 0] for x in xs], dtype=np.int64).reshape(len(xs), 2)
        else:
            pts = np.array([[x, 0.5] for x in xs], dtype=float).reshape(len(xs), 2)
        st, out = call(f, pts, c['t'])
        c['out'] = as_labels(out) if st == 'ok' else None
        st2, out2 = call(f, pts, c['t2'])
        c['out2'] = as_labels(out2) if st2 == 'ok' else None
        return c

    def emit(self, c):
        if c.get('kind') == 'seq':
            outs = c.get('outs') or [None] * len(c['steps'])
            return 'CLinkSeq %s %s' % (clist(['(%s, %s, %s, %s)' % (CTOR[st['lk']], cfls(c['seqs'][st['seq']]), fl(st['t']), copt(o, cnats))
                                               for st, o in zip(c['steps'], outs)]), cbool(c.get('intact', False)))
        return 'CLink %s %s %s %s %s %s' % (CTOR[c['lk']], cfls(c['xs']), fl(c['t']), fl(c['t2']),
                                            copt(c.get('out'), cnats), copt(c.get('out2'), cnats))

    def _stats(self, c):
        ds, labels = observed(c['lk'], c['xs'], c['t'])
        tie = any(d == c['t'] for d in ds)
        sizes = {}
        for l in labels:
            sizes[l] = sizes.get(l, 0) + 1
        return tie, (max(labels) + 1 if labels else 0), (max(sizes.values()) if sizes else 0)

    def nontrivial_key(self, c):
        if c.get('kind') == 'seq':
            if not c.get('outs') or any(o is None for o in c['outs']):
                return None
            # non-trivial: some call's labels differ from what the previous contents of the buffer would have given
            for a, b in zip(c['steps'], c['steps'][1:]):
                if a['seq'] != b['seq'] and observed(b['lk'], c['seqs'][a['seq']], b['t'])[1] != observed(b['lk'], c['seqs'][b['seq']], b['t'])[1]:
                    return ('seq', str(c['seqs']), str(c['steps']))
            return None
        if c['family'] == 'malformed' or c.get('out') is None:
            return None
        tie, ncl, big = self._stats(c)
        if ncl >= 2 and (tie or big >= 3):
            return (c['lk'], tuple(c['xs']), c['t'], c['t2'])
        return None

    def classify(self, c):
        if c.get('kind') == 'seq':
            return {'family': 'sameobject', 'seq_calls': len(c['steps']), 'dtype': c['dtype'],
                    'seq_refills': sum(1 for a, b in zip(c['steps'], c['steps'][1:]) if a['seq'] != b['seq'])}
        if c['family'] == 'malformed':
            return {'family': 'malformed'}
        tie, ncl, big = self._stats(c)
        return {'family': c['family'], 'linkage': c['lk'], 'n': min(len(c['xs']), 64) // 4 * 4, 'threshold': c['tmode'],
                'exact_tie': tie, 'clusters': min(ncl, 8), 'dtype': c['dtype'],
                'fewer_clusters_at_t2': (c.get('out') and c.get('out2') and max(c['out2']) < max(c['out'])) and True or False}

    def shrink(self, c):
        if c.get('kind') == 'seq':
            return [dict(c, steps=c['steps'][:j] + c['steps'][j + 1:]) for j in range(len(c['steps'])) if len(c['steps']) > 1]
        out = []
        xs = c['xs']
        for j in range(len(xs)):
            if len(xs) > 2:
                d = dict(c)
                d['xs'] = xs[:j] + xs[j + 1:]
                out.append(d)
        if c['t2'] != c['t']:
            d = dict(c)
            d['t2'] = c['t']
            out.append(d)
        return out

    def sample(self, c):
        if c.get('kind') == 'seq':
            return {k: c[k] for k in ['kind', 'seqs', 'steps', 'dtype', 'outs', 'intact'] if k in c}
        return {k: c[k] for k in ['lk', 'xs', 't', 't2', 'dtype', 'family', 'tmode', 'out', 'out2'] if k in c}

    def describe(self, c):
        if c.get('kind') == 'seq':
            mk = 'np.array([[int(x), 0] for x in q], dtype=np.int64)' if c['dtype'] == 'int' else 'np.array([[x, 0.5] for x in q])'
            lines = ['import numpy as np, kneeliverse.clustering as cl', 'seqs = [%s for q in %s]' % (mk, c['seqs']),
                     'buf = seqs[%d].copy()   # ONE points object' % c['steps'][0]['seq']]
            cur = c['steps'][0]['seq']
            for st in c['steps']:
                if st['seq'] != cur:
                    cur = st['seq']
                    lines.append('buf[:] = seqs[%d]   # refill in place' % cur)
                lines.append('print(cl.%s_linkage(buf, %r), np.array_equal(buf, seqs[%d]))' % (st['lk'], st['t'], cur))
            return '; '.join(lines)
        arr = ('np.array([[int(x), 0] for x in %s], dtype=np.int64)' if c['dtype'] == 'int' else 'np.array([[x, 0.5] for x in %s])') % c['xs']
        return 'kneeliverse.clustering.%s_linkage(%s, t) for t=%r and t=%r' % (c['lk'], arr, c['t'], c['t2'])


def as_labels(a):
    try:
        out = []
        for v in list(a):
            f = float(v)
            if f != int(f) or f < 0:
                return None
            out.append(int(f))
        return out
    except Exception:
        return None


if __name__ == '__main__':
    main(C11)
