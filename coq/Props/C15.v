(* Props/C15.v — property C15: the global reconstruction cost matches its definition and is cache-transparent.
   Only statements, each closed by `exact`, with its assumptions printed.
   Oracles (universally quantified): segerr l r = the partial cost of the end-point fit of points[l:r+1],
   tss = the total sum of squares, sqerr l r = the residual sum of squares of that fit. *)
From Coq Require Import Reals ZArith List Arith Bool PrimFloat.
From Knee Require Import Num NumFloat NumR NpList Model.GlobalCost Proofs.ListFacts Proofs.NpSumR
  Proofs.GlobalCostFacts Proofs.GlobalCostReal.
Import ListNotations.

(* ---- cache_inv.  Tier S (every Num, every oracle valuation, every breakpoint list, every metric):
   a dict that agrees with the oracles on its domain yields exactly the defining value = the fresh-dict value,
   still agrees afterwards, and was only extended *)
Theorem C15_cache_inv : forall (N : Num) n segerr tss m (c : @cache N) red,
  cache_ok n segerr tss c ->
  fst (gcost n segerr tss m c red) = gcost_spec n segerr tss m red /\
  fst (gcost n segerr tss m c red) = gcost_fresh n segerr tss m red /\
  cache_ok n segerr tss (snd (gcost n segerr tss m c red)) /\
  (exists ext, fst (snd (gcost n segerr tss m c red)) = fst c ++ ext).
Proof. exact @cache_inv. Qed.
Print Assumptions C15_cache_inv.

(* ---- cache_transparent.  Tier S, induction over ANY query history: the values obtained on one shared dict are
   (Leibniz-)equal to the values obtained with a fresh dict per query, and the dict agrees with the oracles throughout *)
Theorem C15_cache_transparent : forall (N : Num) n segerr tss m qs (c : @cache N),
  cache_ok n segerr tss c ->
  map fst (run_shared n segerr tss m c qs) = map (gcost_fresh n segerr tss m) qs /\
  Forall (fun r => cache_ok n segerr tss (snd r)) (run_shared n segerr tss m c qs).
Proof. exact @cache_transparent. Qed.
Print Assumptions C15_cache_transparent.

(* the instance the correspondence run judges: binary64, starting from the empty dict — bit-for-bit *)
Theorem C15_cache_transparent_float : forall n segerr tss m qs,
  map fst (@run_shared FloatNum n segerr tss m empty_cache qs) = map (@gcost_fresh FloatNum n segerr tss m) qs.
Proof. exact (fun n segerr tss m qs => proj1 (@cache_transparent FloatNum n segerr tss m qs empty_cache (cache_ok_empty n segerr tss))). Qed.
Print Assumptions C15_cache_transparent_float.

(* the dict only grows along a history *)
Theorem C15_cache_grows : forall (N : Num) n segerr tss m qs (c : @cache N),
  Forall (fun r => exists ext, fst (snd r) = fst c ++ ext) (run_shared n segerr tss m c qs).
Proof. exact @cache_grows. Qed.
Print Assumptions C15_cache_grows.

(* ---- gcost_def.  Tier S: value = the metric's normalisation (R2 clipped at 0 by `finish`) of the NumPy sum of the
   segment errors — two-point segments contribute the literal 0 — with divisor n + #segments - 1 *)
Theorem C15_gcost_def : forall (N : Num) n segerr tss m red,
  @gcost_fresh N n segerr tss m red =
  finish m (np_sum (map (fun k => if seg_len n (fst k) (snd k) <=? 2 then zero else segerr (fst k) (snd k)) (segments red)))
           (Z.of_nat n + Z.of_nat (length red - 1) - 1)%Z tss.
Proof. exact @gcost_def. Qed.
Print Assumptions C15_gcost_def.

(* the closed model (oracles := the formulas of the end-point fit and the five partial costs) *)
Theorem C15_gcost_closed_def : forall (N : Num) m (pts : list (@pt N)) red,
  gcost_closed m pts red =
  finish m (np_sum (map (fun k => if seg_len (length pts) (fst k) (snd k) <=? 2 then zero else segerr_formula m pts (fst k) (snd k))
                        (segments red)))
           (Z.of_nat (length pts) + Z.of_nat (length red - 1) - 1)%Z (tss_formula pts).
Proof. exact (fun N m pts red => @gcost_def N (length pts) (segerr_formula m pts) (tss_formula pts) m red). Qed.
Print Assumptions C15_gcost_closed_def.

(* ---- gcost_nonneg.  The only law used is `0 < 0 = false`; whatever the dict holds *)
Theorem C15_gcost_nonneg : forall (N : Num) n segerr tss m (c : @cache N) red,
  ltb (@zero N) zero = false -> ltb (fst (gcost n segerr tss m c red)) zero = false.
Proof. exact @gcost_nonneg. Qed.
Print Assumptions C15_gcost_nonneg.
Theorem C15_gcost_nonneg_float : forall n segerr tss m c red,
  PrimFloat.ltb (fst (@gcost FloatNum n segerr tss m c red)) 0%float = false.
Proof. exact (fun n segerr tss m c red => @gcost_nonneg FloatNum n segerr tss m c red eq_refl). Qed.
Print Assumptions C15_gcost_nonneg_float.
(* Tier A *)
Theorem C15_gcost_nonneg_R : forall n (segerr : nat -> nat -> R) (tss : R) m (c : @cache RNum) red,
  (0 <= fst (@gcost RNum n segerr tss m c red))%R.
Proof. exact gcost_nonneg_R. Qed.
Print Assumptions C15_gcost_nonneg_R.

(* ---- gcost_all_breakpoints.  Tier A: every point a breakpoint => 0, and 1 for R2 *)
Theorem C15_gcost_all_breakpoints : forall n (segerr : nat -> nat -> R) (tss : R) m,
  @gcost_fresh RNum n segerr tss m (seq 0 n) = match m with MR2 => 1%R | _ => 0%R end.
Proof. exact gcost_all_breakpoints_R. Qed.
Print Assumptions C15_gcost_all_breakpoints.
(* its structural half, Tier S: every segment error of the all-points list is the literal zero *)
Theorem C15_all_breakpoints_segments : forall (N : Num) n segerr k,
  seg_values (@seg_fresh N n segerr) (seq 0 k) = repeat zero (k - 1).
Proof. exact @seg_values_all_points. Qed.
Print Assumptions C15_all_breakpoints_segments.

(* ---- global RMSE.  Tier S: cache transparency of compute_global_rmse over any history *)
Theorem C15_grmse_transparent : forall (N : Num) n sqerr qs c,
  agrees sqerr c ->
  map fst (@rmse_shared N n sqerr c qs) = map (grmse_fresh n sqerr) qs.
Proof. exact @grmse_transparent. Qed.
Print Assumptions C15_grmse_transparent.

(* Tier A: with the end-point-fit residuals as segment errors, the global RMSE of a well-formed breakpoint list on a
   curve with strictly increasing x is the RMSE of the curve against its piecewise-linear interpolation, every point
   counted once ... *)
Theorem C15_grmse_is_rmse_of_interpolation : forall (pts : list rpt) red,
  SI red -> hd 1 red = 0 -> last red 0 = length pts - 1 -> 1 <= length pts ->
  xs_increasing pts ->
  @grmse_closed RNum pts red = @rmse_interp RNum pts red.
Proof. exact grmse_is_rmse_of_interpolation. Qed.
Print Assumptions C15_grmse_is_rmse_of_interpolation.
(* ... where the line of a segment is the interpolation between its two breakpoints *)
Theorem C15_line_interpolates : forall (pts : list rpt) l r,
  l <= r < length pts -> @px RNum pts l <> @px RNum pts r ->
  @line_at RNum (@endpoint_fit RNum (@segment_of RNum pts l r)) (@px RNum pts l) = @py RNum pts l /\
  @line_at RNum (@endpoint_fit RNum (@segment_of RNum pts l r)) (@px RNum pts r) = @py RNum pts r.
Proof.
  exact (fun pts l r H Hx => conj (eq_trans (f_equal (fun c => @line_at RNum c _) (endpoint_fit_R pts l r H Hx)) (line_left pts l r))
                                  (eq_trans (f_equal (fun c => @line_at RNum c _) (endpoint_fit_R pts l r H Hx)) (line_right pts l r Hx))).
Qed.
Print Assumptions C15_line_interpolates.

(* ---- mip_def.  Tier S: MIP (and its MAD) is the median over the interior breakpoints i of
   RMSE(reduced without i) - RMSE(reduced), each RMSE being the fresh-dict value, although the code shares one dict *)
Theorem C15_mip_def : forall (N : Num) n sqerr red,
  @mip N n sqerr red =
  mad_of (map (fun i => grmse_fresh n sqerr (delete_at i red) -! grmse_fresh n sqerr red)%num (seq 1 (length red - 2))).
Proof. exact @mip_def. Qed.
Print Assumptions C15_mip_def.

(* ---- non-vacuity: concrete instances, evaluated on binary64 (values as returned by the package) *)
Definition ex_pts : list (float * float) :=
  [(0, 1); (1, 3); (2, 2); (3, 5); (4, 0x1.6p+2); (6, 9)]%float.
Example C15_example_values :
  f_same (@gcost_closed FloatNum MRpd ex_pts [0; 2; 5]) 0x1.b6db6db6db6dbp-4 = true /\
  f_same (@gcost_closed FloatNum MR2 ex_pts [0; 2; 5]) 0x1.d162944030e85p-1 = true /\
  f_same (@gcost_closed FloatNum MR2 ex_pts (seq 0 6)) 1 = true /\
  f_same (@grmse_closed FloatNum ex_pts [0; 2; 5]) 0x1.9821756ceb856p-1 = true.
Proof. vm_compute. auto. Qed.
(* a history with hits and misses on one dict: 3 queries, 5 distinct segments cached, same values as fresh *)
Example C15_example_history :
  let f := @segerr_formula FloatNum MSmape ex_pts in
  let t := @tss_formula FloatNum ex_pts in
  let run := @run_shared FloatNum 6 f t MSmape empty_cache [[0; 2; 5]; [0; 2; 3; 5]; [0; 2; 5]] in
  map (fun r => length (fst (snd r))) run = [2; 4; 4] /\
  list_all2 f_same (map fst run) (map (@gcost_fresh FloatNum 6 f t MSmape) [[0; 2; 5]; [0; 2; 3; 5]; [0; 2; 5]]) = true.
Proof. vm_compute. auto. Qed.
Example C15_example_mip :
  let m := @mip FloatNum 6 (@sqerr_formula FloatNum ex_pts) [0; 2; 3; 5] in
  f_same (fst m) 0x1.a1d4c58d5b31cp-4 = true /\ f_same (snd m) 0x1.626e50dc2ec40p-8 = true.
Proof. vm_compute. auto. Qed.
