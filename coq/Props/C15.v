(* Props/C15.v — property C15: the global reconstruction cost matches its definition and is cache-transparent.
   Only statements, each closed by `exact`, with its assumptions printed. *)
From Coq Require Import ZArith List Arith Bool.
From Knee Require Import Num NumFloat NpList Model.GlobalCost Proofs.GlobalCostFacts.
Import ListNotations.

(* Tier S (every Num, every oracle valuation segerr / tss, every breakpoint list, every metric):
   a dict that agrees with the oracles on its domain yields exactly the defining value = the fresh-dict value,
   still agrees afterwards, and was only extended *)
Theorem C15_cache_inv : forall (N : Num) n segerr tss m (c : @cache N) red,
  cache_ok n segerr tss c ->
  fst (gcost n segerr tss m c red) = gcost_spec n segerr tss m red /\
  fst (gcost n segerr tss m c red) = gcost_fresh n segerr tss m red /\
  cache_ok n segerr tss (snd (gcost n segerr tss m c red)) /\
  (exists ext, fst (snd (gcost n segerr tss m c red)) = fst c ++ ext).
Proof. exact @cache_inv. Qed.
Print Assumptions C15_cache_inv.

(* Tier S, induction over ANY query history: the values obtained on one shared dict are (Leibniz-)equal to the
   values obtained with a fresh dict per query *)
Theorem C15_cache_transparent : forall (N : Num) n segerr tss m qs (c : @cache N),
  cache_ok n segerr tss c ->
  map fst (run_shared n segerr tss m c qs) = map (gcost_fresh n segerr tss m) qs /\
  Forall (fun r => cache_ok n segerr tss (snd r)) (run_shared n segerr tss m c qs).
Proof. exact @cache_transparent. Qed.
Print Assumptions C15_cache_transparent.
