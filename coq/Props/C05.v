(* Props/C05.v — property C05: fixed-size simplification is an exact-size, nested greedy refinement.
   Only statements, each closed by `exact`, with its assumptions printed.  The model is Model/RdpFixed.v
   (rdp._rdp_fixed / rdp_fixed); dist, prio are ORACLES (any valuation), eps is any value, n any size. *)
From Coq Require Import ZArith List Arith Bool PrimFloat.
From Knee Require Import Num NumFloat NpList OrdLaws FloatOrder Model.Mapping Model.RdpFixed Model.RdpFixedSpec
     Proofs.ListFacts Proofs.MappingFacts Proofs.RdpFixedLists Proofs.RdpFixedFacts Proofs.RdpFixedBool Run.JudgeC05.
Import ListNotations.
Local Open Scope num_scope.

(* Tier S.  rdp_fixed(points, k) returns (fuel n suffices) a well-formed reduction with exactly min(max(k,2), n) indices *)
Theorem C05_fixed_size : forall (N : Num) n (eps : T N) dist prio,
  2 <= n -> (forall l r, l + 3 <= r -> r <= n -> length (dist l r) = r - l) ->
  forall fuel k, n <= fuel ->
  exists red, rdp_fixed n eps dist prio fuel k = Some (red, rows red) /\ WF n red /\
              length red = Nat.min (Nat.max k 2) n.
Proof. exact @fixed_size. Qed.
Print Assumptions C05_fixed_size.

(* Tier S.  S_{k+1} is S_k with one index inserted strictly inside a retained segment (a,b); the index is
   a + split_guarded(dist a (b+1)): the middle if every distance is < eps, else the interior arg-max *)
Theorem C05_fixed_nested : forall (N : Num) n (eps : T N) dist prio,
  2 <= n -> (forall l r, l + 3 <= r -> r <= n -> length (dist l r) = r - l) ->
  forall fuel k, n <= fuel -> 2 <= k -> k < n ->
  exists red a b,
    rdp_fixed n eps dist prio fuel k = Some (red, rows red) /\ In (a, b) (adj_pairs red) /\ a + 2 <= b /\
    a < a + split_guarded eps (dist a (b + 1)) < b /\
    rdp_fixed n eps dist prio fuel (k + 1) =
      Some (insert_nat (a + split_guarded eps (dist a (b + 1))) red,
            rows (insert_nat (a + split_guarded eps (dist a (b + 1))) red)).
Proof. exact @fixed_nested. Qed.
Print Assumptions C05_fixed_nested.

(* Tier O on the priorities present (those of the retained segments with interior points along the chain).
   The split segment has maximal priority among the retained segments with interior points *)
Theorem C05_fixed_greedy : forall (N : Num) n (eps : T N) dist prio,
  2 <= n -> (forall l r, l + 3 <= r -> r <= n -> length (dist l r) = r - l) ->
  forall fuel k,
  TotalPreorderOn (@notnan N) -> notnan (@zero N) ->
  (forall j a b, In (a, b) (adj_pairs (red_of (rdp_fixed n eps dist prio fuel j))) -> a + 2 <= b -> notnan (prio a (b + 1))) ->
  n <= fuel -> 2 <= k -> k < n ->
  exists red a b,
    rdp_fixed n eps dist prio fuel k = Some (red, rows red) /\ In (a, b) (adj_pairs red) /\ a + 2 <= b /\
    rdp_fixed n eps dist prio fuel (k + 1) =
      Some (insert_nat (a + split_guarded eps (dist a (b + 1))) red,
            rows (insert_nat (a + split_guarded eps (dist a (b + 1))) red)) /\
    forall a' b', In (a', b') (adj_pairs red) -> a' + 2 <= b' ->
      (a' = a /\ b' = b) \/ prio a' (b' + 1) <=?! prio a (b + 1) = true.
Proof. exact @fixed_greedy. Qed.
Print Assumptions C05_fixed_greedy.

(* Tier O on the non-NaN interior distances.  The eps-guard picks the middle; otherwise no interior point is
   farther than the chosen one *)
Theorem C05_fixed_farthest : forall (N : Num) (eps : T N) (d : list (T N)),
  TotalPreorderOn (@notnan N) ->
  (all_lt d eps = true -> split_guarded eps d = length d / 2) /\
  (all_lt d eps = false -> Forall notnan (interior d) ->
   Forall (fun x => x <=?! nth (split_guarded eps d) d zero = true) (interior d)).
Proof. exact @fixed_farthest. Qed.
Print Assumptions C05_fixed_farthest.

(* the split index is strictly interior whatever the distances are (NaN included) *)
Theorem C05_split_interior : forall (N : Num) (eps : T N) (d : list (T N)),
  3 <= length d -> 1 <= split_guarded eps d <= length d - 2.
Proof. exact @split_interior. Qed.
Print Assumptions C05_split_interior.

(* the boolean predicate the correspondence run judges the implementation with (Model/RdpFixedSpec.v: chain_code = 0
   iff sizes, nesting, greedy and farthest clauses hold along the chain) is true of the model's own chain.
   ordered = true adds the greedy clause and needs the priorities present to be non-NaN. *)
Theorem C05_chain_holds : forall (N : Num) n (eps : T N) dist prio,
  2 <= n -> (forall l r, l + 3 <= r -> r <= n -> length (dist l r) = r - l) ->
  TotalPreorderOn (@notnan N) ->
  forall fuel ordered, n <= fuel ->
  (ordered = true ->
   notnan (@zero N) /\
   forall j a b, In (a, b) (adj_pairs (red_of (rdp_fixed n eps dist prio fuel j))) -> a + 2 <= b -> notnan (prio a (b + 1))) ->
  chain_code n eps dist prio ordered (map (rdp_fixed n eps dist prio fuel) (seq 0 (n + 2))) = 0.
Proof. exact @chain_code_model. Qed.
Print Assumptions C05_chain_holds.

(* on binary64 the order hypothesis is a theorem (FloatOrder.v) *)
Theorem C05_chain_holds_float : forall n (eps : float) dist prio,
  2 <= n -> (forall l r, l + 3 <= r -> r <= n -> length (dist l r) = r - l) ->
  forall fuel ordered, n <= fuel ->
  (ordered = true ->
   @notnan FloatNum (@zero FloatNum) /\
   forall j a b, In (a, b) (adj_pairs (red_of (@rdp_fixed FloatNum n eps dist prio fuel j))) -> a + 2 <= b ->
                 @notnan FloatNum (prio a (b + 1))) ->
  @chain_code FloatNum n eps dist prio ordered (map (@rdp_fixed FloatNum n eps dist prio fuel) (seq 0 (n + 2))) = 0.
Proof. exact (fun n eps dist prio Hn Hs => @chain_code_model FloatNum n eps dist prio Hn Hs float_total_preorder). Qed.
Print Assumptions C05_chain_holds_float.

(* non-vacuity: a real symmetric curve ([[0,3],[1,1],[2,2],[3,2],[4,1],[5,3]], shortest distance, triangle order) with tied
   priorities; tables = the library's primitives, outs = what rdp.rdp_fixed returned for k = 0..7.  The model reproduces the
   chain (agree = 0) and the predicate holds (0); the shape and order hypotheses are satisfied (checked inside judge). *)
Example C05_example :
  judge (CChain 6%nat [((0%nat, 3%nat), [0x0.0p+0%float; 0x1.5775c544ff263p+0%float; 0x0.0p+0%float]); ((0%nat, 4%nat), [0x0.0p+0%float; 0x1.94c583ada5b52p+0%float; 0x1.43d136248490ep-2%float; 0x0.0p+0%float]); ((0%nat, 5%nat), [0x0.0p+0%float; 0x1.5775c544ff263p+0%float; 0x0.0p+0%float; 0x1.c9f25c5bfeddap-2%float; 0x0.0p+0%float]); ((0%nat, 6%nat), [0x0.0p+0%float; 0x1.0000000000000p+1%float; 0x1.0000000000000p+0%float; 0x1.0000000000000p+0%float; 0x1.0000000000000p+1%float; 0x0.0p+0%float]); ((1%nat, 4%nat), [0x0.0p+0%float; 0x1.c9f25c5bfedd9p-2%float; 0x0.0p+0%float]); ((1%nat, 5%nat), [0x0.0p+0%float; 0x1.0000000000000p+0%float; 0x1.0000000000000p+0%float; 0x0.0p+0%float]); ((1%nat, 6%nat), [0x0.0p+0%float; 0x1.c9f25c5bfedd9p-2%float; 0x0.0p+0%float; 0x1.5775c544ff263p+0%float; 0x0.0p+0%float]); ((2%nat, 5%nat), [0x0.0p+0%float; 0x1.c9f25c5bfedd9p-2%float; 0x0.0p+0%float]); ((2%nat, 6%nat), [0x0.0p+0%float; 0x1.43d136248490fp-2%float; 0x1.94c583ada5b52p+0%float; 0x0.0p+0%float]); ((3%nat, 6%nat), [0x0.0p+0%float; 0x1.5775c544ff263p+0%float; 0x0.0p+0%float])] [((0%nat, 3%nat), 0x1.8000000000000p+0%float); ((0%nat, 4%nat), 0x1.4000000000000p+1%float); ((0%nat, 5%nat), 0x1.8000000000000p+1%float); ((1%nat, 4%nat), 0x1.0000000000000p-1%float); ((1%nat, 5%nat), 0x1.8000000000000p+0%float); ((1%nat, 6%nat), 0x1.8000000000000p+1%float); ((2%nat, 5%nat), 0x1.0000000000000p-1%float); ((2%nat, 6%nat), 0x1.4000000000000p+1%float); ((3%nat, 6%nat), 0x1.8000000000000p+0%float)] [(Some ([0%nat; 5%nat], [(0%nat, 4%nat)])); (Some ([0%nat; 5%nat], [(0%nat, 4%nat)])); (Some ([0%nat; 5%nat], [(0%nat, 4%nat)])); (Some ([0%nat; 1%nat; 5%nat], [(0%nat, 0%nat); (1%nat, 3%nat)])); (Some ([0%nat; 1%nat; 4%nat; 5%nat], [(0%nat, 0%nat); (1%nat, 2%nat); (4%nat, 0%nat)])); (Some ([0%nat; 1%nat; 2%nat; 4%nat; 5%nat], [(0%nat, 0%nat); (1%nat, 0%nat); (2%nat, 1%nat); (4%nat, 0%nat)])); (Some ([0%nat; 1%nat; 2%nat; 3%nat; 4%nat; 5%nat], [(0%nat, 0%nat); (1%nat, 0%nat); (2%nat, 0%nat); (3%nat, 0%nat); (4%nat, 0%nat)])); (Some ([0%nat; 1%nat; 2%nat; 3%nat; 4%nat; 5%nat], [(0%nat, 0%nat); (1%nat, 0%nat); (2%nat, 0%nat); (3%nat, 0%nat); (4%nat, 0%nat)]))]) = 0%Z.
Proof. vm_compute. reflexivity. Qed.
