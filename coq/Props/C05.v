(* Props/C05.v — property C05: fixed-size simplification is an exact-size, nested greedy refinement.
   Only statements, each closed by `exact`, with its assumptions printed.  The model is Model/RdpFixed.v
   (rdp._rdp_fixed / rdp_fixed); dist, prio are ORACLES (any valuation), eps is any value, n any size. *)
From Coq Require Import List Arith Bool.
From Knee Require Import Num NumFloat NpList OrdLaws FloatOrder Model.Mapping Model.RdpFixed Model.RdpFixedSpec
     Proofs.ListFacts Proofs.MappingFacts Proofs.RdpFixedLists Proofs.RdpFixedFacts.
Import ListNotations.
Local Open Scope num_scope.

(* Tier S.  rdp_fixed(points, k) returns (fuel n suffices) a well-formed reduction with exactly min(max(k,2), n) indices *)
Theorem C05_fixed_size : forall (N : Num) n (eps : T N) dist prio,
  2 <= n -> (forall l r, l + 3 <= r -> r <= n -> length (dist l r) = r - l) ->
  forall fuel k, n <= fuel ->
  exists red, rdp_fixed n eps dist prio fuel k = Some (red, rows red) /\ WF n red /\
              length red = Nat.min (Nat.max k 2) n.
Proof. exact @fixed_size. Qed.
Print Assumptions C05_fixed_size.

(* Tier S.  S_{k+1} is S_k with one index inserted strictly inside a retained segment (a,b); the index is
   a + split_guarded(dist a (b+1)): the middle if every distance is < eps, else the interior arg-max *)
Theorem C05_fixed_nested : forall (N : Num) n (eps : T N) dist prio,
  2 <= n -> (forall l r, l + 3 <= r -> r <= n -> length (dist l r) = r - l) ->
  forall fuel k, n <= fuel -> 2 <= k -> k < n ->
  exists red a b,
    rdp_fixed n eps dist prio fuel k = Some (red, rows red) /\ In (a, b) (adj_pairs red) /\ a + 2 <= b /\
    a < a + split_guarded eps (dist a (b + 1)) < b /\
    rdp_fixed n eps dist prio fuel (k + 1) =
      Some (insert_nat (a + split_guarded eps (dist a (b + 1))) red,
            rows (insert_nat (a + split_guarded eps (dist a (b + 1))) red)).
Proof. exact @fixed_nested. Qed.
Print Assumptions C05_fixed_nested.

(* Tier O on the priorities present.  The split segment has maximal priority among the retained segments
   with interior points *)
Theorem C05_fixed_greedy : forall (N : Num) n (eps : T N) dist prio,
  2 <= n -> (forall l r, l + 3 <= r -> r <= n -> length (dist l r) = r - l) ->
  forall fuel k,
  TotalPreorderOn (@notnan N) -> notnan (@zero N) -> (forall l r, notnan (prio l r)) ->
  n <= fuel -> 2 <= k -> k < n ->
  exists red a b,
    rdp_fixed n eps dist prio fuel k = Some (red, rows red) /\ In (a, b) (adj_pairs red) /\ a + 2 <= b /\
    rdp_fixed n eps dist prio fuel (k + 1) =
      Some (insert_nat (a + split_guarded eps (dist a (b + 1))) red,
            rows (insert_nat (a + split_guarded eps (dist a (b + 1))) red)) /\
    forall a' b', In (a', b') (adj_pairs red) -> a' + 2 <= b' ->
      (a' = a /\ b' = b) \/ prio a' (b' + 1) <=?! prio a (b + 1) = true.
Proof. exact @fixed_greedy. Qed.
Print Assumptions C05_fixed_greedy.

(* Tier O on the non-NaN interior distances.  The eps-guard picks the middle; otherwise no interior point is
   farther than the chosen one *)
Theorem C05_fixed_farthest : forall (N : Num) (eps : T N) (d : list (T N)),
  TotalPreorderOn (@notnan N) ->
  (all_lt d eps = true -> split_guarded eps d = length d / 2) /\
  (all_lt d eps = false -> Forall notnan (interior d) ->
   Forall (fun x => x <=?! nth (split_guarded eps d) d zero = true) (interior d)).
Proof. exact @fixed_farthest. Qed.
Print Assumptions C05_fixed_farthest.

(* the split index is strictly interior whatever the distances are (NaN included) *)
Theorem C05_split_interior : forall (N : Num) (eps : T N) (d : list (T N)),
  3 <= length d -> 1 <= split_guarded eps d <= length d - 2.
Proof. exact @split_interior. Qed.
Print Assumptions C05_split_interior.
