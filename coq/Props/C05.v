(* Props/C05.v — property C05: fixed-size simplification is an exact-size, nested greedy refinement.
   Only statements, each closed by `exact`, with its assumptions printed.  The model is Model/RdpFixed.v
   (rdp._rdp_fixed / rdp_fixed); dist, prio are ORACLES (any valuation), eps is any value, n any size. *)
From Coq Require Import ZArith List Arith Bool PrimFloat.
From Knee Require Import Num NumFloat NpList OrdLaws FloatOrder Model.Mapping Model.RdpFixed Model.RdpFixedPrio Model.RdpFixedSpec
     Proofs.ListFacts Proofs.MappingFacts Proofs.RdpFixedLists Proofs.RdpFixedFacts Proofs.RdpFixedBool Run.JudgeC05.
Import ListNotations.
Local Open Scope num_scope.

(* Tier S.  rdp_fixed(points, k) returns (fuel n suffices) a well-formed reduction with exactly min(max(k,2), n) indices *)
Theorem C05_fixed_size : forall (N : Num) n (eps : T N) dist prio,
  2 <= n -> (forall l r, l + 3 <= r -> r <= n -> length (dist l r) = r - l) ->
  forall fuel k, n <= fuel ->
  exists red, rdp_fixed n eps dist prio fuel k = Some (red, rows red) /\ WF n red /\
              length red = Nat.min (Nat.max k 2) n.
Proof. exact @fixed_size. Qed.
Print Assumptions C05_fixed_size.

(* Tier S.  S_{k+1} is S_k with one index inserted strictly inside a retained segment (a,b); the index is
   a + split_guarded(dist a (b+1)): the middle if every distance is < eps, else the interior arg-max *)
Theorem C05_fixed_nested : forall (N : Num) n (eps : T N) dist prio,
  2 <= n -> (forall l r, l + 3 <= r -> r <= n -> length (dist l r) = r - l) ->
  forall fuel k, n <= fuel -> 2 <= k -> k < n ->
  exists red a b,
    rdp_fixed n eps dist prio fuel k = Some (red, rows red) /\ In (a, b) (adj_pairs red) /\ a + 2 <= b /\
    a < a + split_guarded eps (dist a (b + 1)) < b /\
    rdp_fixed n eps dist prio fuel (k + 1) =
      Some (insert_nat (a + split_guarded eps (dist a (b + 1))) red,
            rows (insert_nat (a + split_guarded eps (dist a (b + 1))) red)).
Proof. exact @fixed_nested. Qed.
Print Assumptions C05_fixed_nested.

(* Tier O on the priorities present (those of the retained segments with interior points along the chain).
   The split segment has maximal priority among the retained segments with interior points *)
Theorem C05_fixed_greedy : forall (N : Num) n (eps : T N) dist prio,
  2 <= n -> (forall l r, l + 3 <= r -> r <= n -> length (dist l r) = r - l) ->
  forall fuel k,
  TotalPreorderOn (@notnan N) -> notnan (@zero N) ->
  (forall j a b, In (a, b) (adj_pairs (red_of (rdp_fixed n eps dist prio fuel j))) -> a + 2 <= b -> notnan (prio a (b + 1))) ->
  n <= fuel -> 2 <= k -> k < n ->
  exists red a b,
    rdp_fixed n eps dist prio fuel k = Some (red, rows red) /\ In (a, b) (adj_pairs red) /\ a + 2 <= b /\
    rdp_fixed n eps dist prio fuel (k + 1) =
      Some (insert_nat (a + split_guarded eps (dist a (b + 1))) red,
            rows (insert_nat (a + split_guarded eps (dist a (b + 1))) red)) /\
    forall a' b', In (a', b') (adj_pairs red) -> a' + 2 <= b' ->
      (a' = a /\ b' = b) \/ prio a' (b' + 1) <=?! prio a (b + 1) = true.
Proof. exact @fixed_greedy. Qed.
Print Assumptions C05_fixed_greedy.

(* Tier O on the non-NaN interior distances.  The eps-guard picks the middle; otherwise no interior point is
   farther than the chosen one *)
Theorem C05_fixed_farthest : forall (N : Num) (eps : T N) (d : list (T N)),
  TotalPreorderOn (@notnan N) ->
  (all_lt d eps = true -> split_guarded eps d = length d / 2) /\
  (all_lt d eps = false -> Forall notnan (interior d) ->
   Forall (fun x => x <=?! nth (split_guarded eps d) d zero = true) (interior d)).
Proof. exact @fixed_farthest. Qed.
Print Assumptions C05_fixed_farthest.

(* the split index is strictly interior whatever the distances are (NaN included) *)
Theorem C05_split_interior : forall (N : Num) (eps : T N) (d : list (T N)),
  3 <= length d -> 1 <= split_guarded eps d <= length d - 2.
Proof. exact @split_interior. Qed.
Print Assumptions C05_split_interior.

(* the boolean predicate the correspondence run judges the implementation with (Model/RdpFixedSpec.v: chain_code = 0
   iff sizes, nesting, greedy and farthest clauses hold along the chain) is true of the model's own chain.
   ordered = true adds the greedy clause and needs the priorities present to be non-NaN. *)
Theorem C05_chain_holds : forall (N : Num) n (eps : T N) dist prio,
  2 <= n -> (forall l r, l + 3 <= r -> r <= n -> length (dist l r) = r - l) ->
  TotalPreorderOn (@notnan N) ->
  forall fuel ordered, n <= fuel ->
  (ordered = true ->
   notnan (@zero N) /\
   forall j a b, In (a, b) (adj_pairs (red_of (rdp_fixed n eps dist prio fuel j))) -> a + 2 <= b -> notnan (prio a (b + 1))) ->
  chain_code n eps dist prio ordered (map (rdp_fixed n eps dist prio fuel) (seq 0 (n + 2))) = 0.
Proof. exact @chain_code_model. Qed.
Print Assumptions C05_chain_holds.

(* on binary64 the order hypothesis is a theorem (FloatOrder.v) *)
Theorem C05_chain_holds_float : forall n (eps : float) dist prio,
  2 <= n -> (forall l r, l + 3 <= r -> r <= n -> length (dist l r) = r - l) ->
  forall fuel ordered, n <= fuel ->
  (ordered = true ->
   @notnan FloatNum (@zero FloatNum) /\
   forall j a b, In (a, b) (adj_pairs (red_of (@rdp_fixed FloatNum n eps dist prio fuel j))) -> a + 2 <= b ->
                 @notnan FloatNum (prio a (b + 1))) ->
  @chain_code FloatNum n eps dist prio ordered (map (@rdp_fixed FloatNum n eps dist prio fuel) (seq 0 (n + 2))) = 0.
Proof. exact (fun n eps dist prio Hn Hs => @chain_code_model FloatNum n eps dist prio Hn Hs float_total_preorder). Qed.
Print Assumptions C05_chain_holds_float.

(* the stated ordering scores: triangle = 0.5 * chord * max(configured distance), area = pairwise sum of the configured
   distances, segment = fit residual (Model/RdpFixed.v prio_derived).  The theorems are generic in `prio`, hence hold for it. *)
Theorem C05_fixed_greedy_derived : forall (N : Num) n (eps : T N) dist ord chord resid,
  2 <= n -> (forall l r, l + 3 <= r -> r <= n -> length (dist l r) = r - l) ->
  forall fuel k,
  TotalPreorderOn (@notnan N) -> notnan (@zero N) ->
  (forall j a b, In (a, b) (adj_pairs (red_of (rdp_fixed n eps dist (prio_derived ord chord resid dist) fuel j))) -> a + 2 <= b ->
                 notnan (prio_derived ord chord resid dist a (b + 1))) ->
  n <= fuel -> 2 <= k -> k < n ->
  exists red a b,
    rdp_fixed n eps dist (prio_derived ord chord resid dist) fuel k = Some (red, rows red) /\ In (a, b) (adj_pairs red) /\ a + 2 <= b /\
    rdp_fixed n eps dist (prio_derived ord chord resid dist) fuel (k + 1) =
      Some (insert_nat (a + split_guarded eps (dist a (b + 1))) red,
            rows (insert_nat (a + split_guarded eps (dist a (b + 1))) red)) /\
    forall a' b', In (a', b') (adj_pairs red) -> a' + 2 <= b' ->
      (a' = a /\ b' = b) \/ prio_derived ord chord resid dist a' (b' + 1) <=?! prio_derived ord chord resid dist a (b + 1) = true.
Proof. exact (fun N n eps dist ord chord resid => @fixed_greedy N n eps dist (prio_derived ord chord resid dist)). Qed.
Print Assumptions C05_fixed_greedy_derived.

(* ... and with the residual itself computed in-model from the points (Model/RdpFixedPrio.v prio_closed: the only oracles left
   are the configured distance table and the chord norm) *)
Theorem C05_fixed_greedy_closed : forall (N : Num) n (eps : T N) (pts : list (T N * T N)) dist ord chord,
  2 <= n -> (forall l r, l + 3 <= r -> r <= n -> length (dist l r) = r - l) ->
  forall fuel k,
  TotalPreorderOn (@notnan N) -> notnan (@zero N) ->
  (forall j a b, In (a, b) (adj_pairs (red_of (rdp_fixed n eps dist (prio_closed pts ord chord dist) fuel j))) -> a + 2 <= b ->
                 notnan (prio_closed pts ord chord dist a (b + 1))) ->
  n <= fuel -> 2 <= k -> k < n ->
  exists red a b,
    rdp_fixed n eps dist (prio_closed pts ord chord dist) fuel k = Some (red, rows red) /\ In (a, b) (adj_pairs red) /\ a + 2 <= b /\
    rdp_fixed n eps dist (prio_closed pts ord chord dist) fuel (k + 1) =
      Some (insert_nat (a + split_guarded eps (dist a (b + 1))) red,
            rows (insert_nat (a + split_guarded eps (dist a (b + 1))) red)) /\
    forall a' b', In (a', b') (adj_pairs red) -> a' + 2 <= b' ->
      (a' = a /\ b' = b) \/ prio_closed pts ord chord dist a' (b' + 1) <=?! prio_closed pts ord chord dist a (b + 1) = true.
Proof. exact (fun N n eps pts dist ord chord => @fixed_greedy N n eps dist (prio_closed pts ord chord dist)). Qed.
Print Assumptions C05_fixed_greedy_closed.

Theorem C05_chain_holds_derived_float : forall n (eps : float) dist ord chord resid,
  2 <= n -> (forall l r, l + 3 <= r -> r <= n -> length (dist l r) = r - l) ->
  forall fuel ordered, n <= fuel ->
  (ordered = true ->
   @notnan FloatNum (@zero FloatNum) /\
   forall j a b, In (a, b) (adj_pairs (red_of (@rdp_fixed FloatNum n eps dist (@prio_derived FloatNum ord chord resid dist) fuel j))) ->
                 a + 2 <= b -> @notnan FloatNum (@prio_derived FloatNum ord chord resid dist a (b + 1))) ->
  @chain_code FloatNum n eps dist (@prio_derived FloatNum ord chord resid dist) ordered
     (map (@rdp_fixed FloatNum n eps dist (@prio_derived FloatNum ord chord resid dist) fuel) (seq 0 (n + 2))) = 0.
Proof. exact (fun n eps dist ord chord resid Hn Hs =>
               @chain_code_model FloatNum n eps dist (@prio_derived FloatNum ord chord resid dist) Hn Hs float_total_preorder). Qed.
Print Assumptions C05_chain_holds_derived_float.

(* non-vacuity: real curves (shortest distance, triangle order); tables = the library's primitives (configured distance, chord
   lengths), scores DERIVED in Coq, ot = what rdp.order_triangle returned for the splits, outs = what rdp.rdp_fixed returned for
   k = 0..7.  judge = 0: the model with derived priorities reproduces the chain, the predicate holds, the returned scores are the
   stated ones bit-for-bit.  First: symmetric with tied priorities; second: the jagged curve y = 4,6,0,1,0,4, on which points
   project outside chords (shortest <> perpendicular distance). *)
Example C05_example :
  judge (CChain 6%nat OTriangle [(0x0.0p+0%float, 0x1.8000000000000p+1%float); (0x1.0000000000000p+0%float, 0x1.0000000000000p+0%float); (0x1.0000000000000p+1%float, 0x1.0000000000000p+1%float); (0x1.8000000000000p+1%float, 0x1.0000000000000p+1%float); (0x1.0000000000000p+2%float, 0x1.0000000000000p+0%float); (0x1.4000000000000p+2%float, 0x1.8000000000000p+1%float)] [((0%nat, 3%nat), [0x0.0p+0%float; 0x1.5775c544ff263p+0%float; 0x0.0p+0%float]); ((0%nat, 4%nat), [0x0.0p+0%float; 0x1.94c583ada5b52p+0%float; 0x1.43d136248490ep-2%float; 0x0.0p+0%float]); ((0%nat, 5%nat), [0x0.0p+0%float; 0x1.5775c544ff263p+0%float; 0x0.0p+0%float; 0x1.c9f25c5bfeddap-2%float; 0x0.0p+0%float]); ((0%nat, 6%nat), [0x0.0p+0%float; 0x1.0000000000000p+1%float; 0x1.0000000000000p+0%float; 0x1.0000000000000p+0%float; 0x1.0000000000000p+1%float; 0x0.0p+0%float]); ((1%nat, 4%nat), [0x0.0p+0%float; 0x1.c9f25c5bfedd9p-2%float; 0x0.0p+0%float]); ((1%nat, 5%nat), [0x0.0p+0%float; 0x1.0000000000000p+0%float; 0x1.0000000000000p+0%float; 0x0.0p+0%float]); ((1%nat, 6%nat), [0x0.0p+0%float; 0x1.c9f25c5bfedd9p-2%float; 0x0.0p+0%float; 0x1.5775c544ff263p+0%float; 0x0.0p+0%float]); ((2%nat, 5%nat), [0x0.0p+0%float; 0x1.c9f25c5bfedd9p-2%float; 0x0.0p+0%float]); ((2%nat, 6%nat), [0x0.0p+0%float; 0x1.43d136248490fp-2%float; 0x1.94c583ada5b52p+0%float; 0x0.0p+0%float]); ((3%nat, 6%nat), [0x0.0p+0%float; 0x1.5775c544ff263p+0%float; 0x0.0p+0%float])] [((0%nat, 3%nat), 0x1.1e3779b97f4a8p+1%float); ((0%nat, 4%nat), 0x1.94c583ada5b53p+1%float); ((0%nat, 5%nat), 0x1.1e3779b97f4a8p+2%float); ((1%nat, 4%nat), 0x1.1e3779b97f4a8p+1%float); ((1%nat, 5%nat), 0x1.8000000000000p+1%float); ((1%nat, 6%nat), 0x1.1e3779b97f4a8p+2%float); ((2%nat, 5%nat), 0x1.1e3779b97f4a8p+1%float); ((2%nat, 6%nat), 0x1.94c583ada5b53p+1%float); ((3%nat, 6%nat), 0x1.1e3779b97f4a8p+1%float)] [] [((1%nat, 6%nat), 0x1.8000000000000p+1%float); ((1%nat, 5%nat), 0x1.8000000000000p+0%float); ((2%nat, 5%nat), 0x1.0000000000000p-1%float)] [(Some ([0%nat; 5%nat], [(0%nat, 4%nat)])); (Some ([0%nat; 5%nat], [(0%nat, 4%nat)])); (Some ([0%nat; 5%nat], [(0%nat, 4%nat)])); (Some ([0%nat; 1%nat; 5%nat], [(0%nat, 0%nat); (1%nat, 3%nat)])); (Some ([0%nat; 1%nat; 4%nat; 5%nat], [(0%nat, 0%nat); (1%nat, 2%nat); (4%nat, 0%nat)])); (Some ([0%nat; 1%nat; 2%nat; 4%nat; 5%nat], [(0%nat, 0%nat); (1%nat, 0%nat); (2%nat, 1%nat); (4%nat, 0%nat)])); (Some ([0%nat; 1%nat; 2%nat; 3%nat; 4%nat; 5%nat], [(0%nat, 0%nat); (1%nat, 0%nat); (2%nat, 0%nat); (3%nat, 0%nat); (4%nat, 0%nat)])); (Some ([0%nat; 1%nat; 2%nat; 3%nat; 4%nat; 5%nat], [(0%nat, 0%nat); (1%nat, 0%nat); (2%nat, 0%nat); (3%nat, 0%nat); (4%nat, 0%nat)]))]) = 0%Z.
Proof. vm_compute. reflexivity. Qed.
Example C05_example_jagged :
  judge (CChain 6%nat OTriangle [(0x0.0p+0%float, 0x1.0000000000000p+2%float); (0x1.0000000000000p+0%float, 0x1.8000000000000p+2%float); (0x1.0000000000000p+1%float, 0x0.0p+0%float); (0x1.8000000000000p+1%float, 0x1.0000000000000p+0%float); (0x1.0000000000000p+2%float, 0x0.0p+0%float); (0x1.4000000000000p+2%float, 0x1.0000000000000p+2%float)] [((0%nat, 3%nat), [0x0.0p+0%float; 0x1.1e3779b97f4a8p+1%float; 0x0.0p+0%float]); ((0%nat, 4%nat), [0x0.0p+0%float; 0x1.1e3779b97f4a8p+1%float; 0x1.6a09e667f3bcdp+0%float; 0x0.0p+0%float]); ((0%nat, 5%nat), [0x0.0p+0%float; 0x1.1e3779b97f4a7p+1%float; 0x1.6a09e667f3bccp+0%float; 0x0.0p+0%float; 0x0.0p+0%float]); ((0%nat, 6%nat), [0x0.0p+0%float; 0x1.0000000000000p+1%float; 0x1.0000000000000p+2%float; 0x1.8000000000000p+1%float; 0x1.0000000000000p+2%float; 0x0.0p+0%float]); ((1%nat, 4%nat), [0x0.0p+0%float; 0x1.6a09e667f3bccp+0%float; 0x1.0000000000000p-52%float]); ((1%nat, 5%nat), [0x0.0p+0%float; 0x1.c9f25c5bfeddap+0%float; 0x1.c9f25c5bfeddcp-2%float; 0x0.0p+0%float]); ((1%nat, 6%nat), [0x0.0p+0%float; 0x1.3ad69f7f3f385p+2%float; 0x1.c9f25c5bfeddap+1%float; 0x1.07e0f66afed07p+2%float; 0x0.0p+0%float]); ((2%nat, 5%nat), [0x0.0p+0%float; 0x1.0000000000000p+0%float; 0x0.0p+0%float]); ((2%nat, 6%nat), [0x0.0p+0%float; 0x1.999999999999cp-3%float; 0x1.999999999999ap+0%float; 0x1.0000000000000p-51%float]); ((3%nat, 6%nat), [0x0.0p+0%float; 0x1.6a09e667f3bcdp+0%float; 0x0.0p+0%float])] [((0%nat, 3%nat), 0x1.1e3779b97f4a8p+2%float); ((0%nat, 4%nat), 0x1.0f876ccdf6cd9p+2%float); ((0%nat, 5%nat), 0x1.6a09e667f3bcdp+2%float); ((1%nat, 4%nat), 0x1.58a68a4a8d9f3p+2%float); ((1%nat, 5%nat), 0x1.ad5336963eefcp+2%float); ((1%nat, 6%nat), 0x1.1e3779b97f4a8p+2%float); ((2%nat, 5%nat), 0x1.0000000000000p+1%float); ((2%nat, 6%nat), 0x1.4000000000000p+2%float); ((3%nat, 6%nat), 0x1.cd82b446159f3p+1%float)] [] [((0%nat, 3%nat), 0x1.4000000000001p+2%float); ((2%nat, 6%nat), 0x1.0000000000000p+2%float); ((2%nat, 5%nat), 0x1.0000000000000p+0%float)] [(Some ([0%nat; 5%nat], [(0%nat, 4%nat)])); (Some ([0%nat; 5%nat], [(0%nat, 4%nat)])); (Some ([0%nat; 5%nat], [(0%nat, 4%nat)])); (Some ([0%nat; 2%nat; 5%nat], [(0%nat, 1%nat); (2%nat, 2%nat)])); (Some ([0%nat; 1%nat; 2%nat; 5%nat], [(0%nat, 0%nat); (1%nat, 0%nat); (2%nat, 2%nat)])); (Some ([0%nat; 1%nat; 2%nat; 4%nat; 5%nat], [(0%nat, 0%nat); (1%nat, 0%nat); (2%nat, 1%nat); (4%nat, 0%nat)])); (Some ([0%nat; 1%nat; 2%nat; 3%nat; 4%nat; 5%nat], [(0%nat, 0%nat); (1%nat, 0%nat); (2%nat, 0%nat); (3%nat, 0%nat); (4%nat, 0%nat)])); (Some ([0%nat; 1%nat; 2%nat; 3%nat; 4%nat; 5%nat], [(0%nat, 0%nat); (1%nat, 0%nat); (2%nat, 0%nat); (3%nat, 0%nat); (4%nat, 0%nat)]))]) = 0%Z.
Proof. vm_compute. reflexivity. Qed.
(* same-object stream: two curves x two configurations (segment order: the residual is computed in-model from the points and the
   library's value must match bit-for-bit), all calls interleaved on one array object *)
Example C05_example_seq :
  judge (CSeq [CH 5%nat OSegment [(0x0.0p+0%float, 0x1.0000000000000p+2%float); (0x1.0000000000000p+0%float, 0x1.8000000000000p+2%float); (0x1.0000000000000p+1%float, 0x0.0p+0%float); (0x1.8000000000000p+1%float, 0x1.0000000000000p+0%float); (0x1.0000000000000p+2%float, 0x0.0p+0%float)] [((0%nat, 5%nat), [0x0.0p+0%float; 0x1.1e3779b97f4a7p+1%float; 0x1.6a09e667f3bccp+0%float; 0x0.0p+0%float; 0x0.0p+0%float]); ((1%nat, 5%nat), [0x0.0p+0%float; 0x1.c9f25c5bfeddap+0%float; 0x1.c9f25c5bfeddcp-2%float; 0x0.0p+0%float]); ((2%nat, 5%nat), [0x0.0p+0%float; 0x1.0000000000000p+0%float; 0x0.0p+0%float])] [] [((1%nat, 5%nat), 0x1.1000000000000p+4%float); ((2%nat, 5%nat), 0x1.0000000000000p+0%float)] [((1%nat, 5%nat), 0x1.1000000000000p+4%float); ((2%nat, 5%nat), 0x1.0000000000000p+0%float)] [(Some ([0%nat; 4%nat], [(0%nat, 3%nat)])); (Some ([0%nat; 4%nat], [(0%nat, 3%nat)])); (Some ([0%nat; 4%nat], [(0%nat, 3%nat)])); (Some ([0%nat; 1%nat; 4%nat], [(0%nat, 0%nat); (1%nat, 2%nat)])); (Some ([0%nat; 1%nat; 2%nat; 4%nat], [(0%nat, 0%nat); (1%nat, 0%nat); (2%nat, 1%nat)])); (Some ([0%nat; 1%nat; 2%nat; 3%nat; 4%nat], [(0%nat, 0%nat); (1%nat, 0%nat); (2%nat, 0%nat); (3%nat, 0%nat)])); (Some ([0%nat; 1%nat; 2%nat; 3%nat; 4%nat], [(0%nat, 0%nat); (1%nat, 0%nat); (2%nat, 0%nat); (3%nat, 0%nat)]))]; CH 5%nat OArea [(0x0.0p+0%float, 0x1.0000000000000p+2%float); (0x1.0000000000000p+0%float, 0x1.8000000000000p+2%float); (0x1.0000000000000p+1%float, 0x0.0p+0%float); (0x1.8000000000000p+1%float, 0x1.0000000000000p+0%float); (0x1.0000000000000p+2%float, 0x0.0p+0%float)] [((0%nat, 5%nat), [0x0.0p+0%float; 0x1.0f876ccdf6cd9p+1%float; 0x1.6a09e667f3bccp+0%float; 0x0.0p+0%float; 0x0.0p+0%float]); ((1%nat, 5%nat), [0x0.0p+0%float; 0x1.c9f25c5bfedd9p+0%float; 0x1.c9f25c5bfedd9p-2%float; 0x0.0p+0%float]); ((2%nat, 5%nat), [0x0.0p+0%float; 0x1.0000000000000p+0%float; 0x0.0p+0%float])] [] [] [((1%nat, 5%nat), 0x1.1e3779b97f4a8p+1%float); ((2%nat, 5%nat), 0x1.0000000000000p+0%float)] [(Some ([0%nat; 4%nat], [(0%nat, 3%nat)])); (Some ([0%nat; 4%nat], [(0%nat, 3%nat)])); (Some ([0%nat; 4%nat], [(0%nat, 3%nat)])); (Some ([0%nat; 1%nat; 4%nat], [(0%nat, 0%nat); (1%nat, 2%nat)])); (Some ([0%nat; 1%nat; 2%nat; 4%nat], [(0%nat, 0%nat); (1%nat, 0%nat); (2%nat, 1%nat)])); (Some ([0%nat; 1%nat; 2%nat; 3%nat; 4%nat], [(0%nat, 0%nat); (1%nat, 0%nat); (2%nat, 0%nat); (3%nat, 0%nat)])); (Some ([0%nat; 1%nat; 2%nat; 3%nat; 4%nat], [(0%nat, 0%nat); (1%nat, 0%nat); (2%nat, 0%nat); (3%nat, 0%nat)]))]; CH 5%nat OSegment [(0x0.0p+0%float, 0x1.8000000000000p+1%float); (0x1.0000000000000p+0%float, 0x1.0000000000000p+0%float); (0x1.0000000000000p+1%float, 0x1.0000000000000p+1%float); (0x1.8000000000000p+1%float, 0x1.0000000000000p+1%float); (0x1.0000000000000p+2%float, 0x1.0000000000000p+0%float)] [((0%nat, 5%nat), [0x0.0p+0%float; 0x1.5775c544ff263p+0%float; 0x0.0p+0%float; 0x1.c9f25c5bfeddap-2%float; 0x0.0p+0%float]); ((1%nat, 5%nat), [0x0.0p+0%float; 0x1.0000000000000p+0%float; 0x1.0000000000000p+0%float; 0x0.0p+0%float]); ((2%nat, 5%nat), [0x0.0p+0%float; 0x1.c9f25c5bfedd9p-2%float; 0x0.0p+0%float])] [] [((1%nat, 5%nat), 0x1.0000000000000p+1%float); ((2%nat, 5%nat), 0x1.0000000000000p-2%float)] [((1%nat, 5%nat), 0x1.0000000000000p+1%float); ((2%nat, 5%nat), 0x1.0000000000000p-2%float)] [(Some ([0%nat; 4%nat], [(0%nat, 3%nat)])); (Some ([0%nat; 4%nat], [(0%nat, 3%nat)])); (Some ([0%nat; 4%nat], [(0%nat, 3%nat)])); (Some ([0%nat; 1%nat; 4%nat], [(0%nat, 0%nat); (1%nat, 2%nat)])); (Some ([0%nat; 1%nat; 2%nat; 4%nat], [(0%nat, 0%nat); (1%nat, 0%nat); (2%nat, 1%nat)])); (Some ([0%nat; 1%nat; 2%nat; 3%nat; 4%nat], [(0%nat, 0%nat); (1%nat, 0%nat); (2%nat, 0%nat); (3%nat, 0%nat)])); (Some ([0%nat; 1%nat; 2%nat; 3%nat; 4%nat], [(0%nat, 0%nat); (1%nat, 0%nat); (2%nat, 0%nat); (3%nat, 0%nat)]))]; CH 5%nat OArea [(0x0.0p+0%float, 0x1.8000000000000p+1%float); (0x1.0000000000000p+0%float, 0x1.0000000000000p+0%float); (0x1.0000000000000p+1%float, 0x1.0000000000000p+1%float); (0x1.8000000000000p+1%float, 0x1.0000000000000p+1%float); (0x1.0000000000000p+2%float, 0x1.0000000000000p+0%float)] [((0%nat, 5%nat), [0x0.0p+0%float; 0x1.5775c544ff263p+0%float; 0x0.0p+0%float; 0x1.c9f25c5bfedd9p-2%float; 0x0.0p+0%float]); ((1%nat, 5%nat), [0x0.0p+0%float; 0x1.0000000000000p+0%float; 0x1.0000000000000p+0%float; 0x0.0p+0%float]); ((2%nat, 5%nat), [0x0.0p+0%float; 0x1.c9f25c5bfedd9p-2%float; 0x0.0p+0%float])] [] [] [((1%nat, 5%nat), 0x1.0000000000000p+1%float); ((2%nat, 5%nat), 0x1.c9f25c5bfedd9p-2%float)] [(Some ([0%nat; 4%nat], [(0%nat, 3%nat)])); (Some ([0%nat; 4%nat], [(0%nat, 3%nat)])); (Some ([0%nat; 4%nat], [(0%nat, 3%nat)])); (Some ([0%nat; 1%nat; 4%nat], [(0%nat, 0%nat); (1%nat, 2%nat)])); (Some ([0%nat; 1%nat; 2%nat; 4%nat], [(0%nat, 0%nat); (1%nat, 0%nat); (2%nat, 1%nat)])); (Some ([0%nat; 1%nat; 2%nat; 3%nat; 4%nat], [(0%nat, 0%nat); (1%nat, 0%nat); (2%nat, 0%nat); (3%nat, 0%nat)])); (Some ([0%nat; 1%nat; 2%nat; 3%nat; 4%nat], [(0%nat, 0%nat); (1%nat, 0%nat); (2%nat, 0%nat); (3%nat, 0%nat)]))]]) = 0%Z.
Proof. vm_compute. reflexivity. Qed.
