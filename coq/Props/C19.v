(* Props/C19.v — property C19: knee-evaluation scores obey their accounting identities.
   Only statements, each closed by `exact`, with its assumptions printed.
   cm_core n xs kxs exs t is evaluation.cm on a curve of n points with x column xs, knee x's kxs = points[knees][:,0]
   and expected x's exs; the nearest-neighbour search of the error scores sees the oracle dist i j =
   np.linalg.norm(b - a[i], axis=1)[j] (universally quantified in the Tier-S theorems). *)
From Coq Require Import Reals ZArith List Arith Bool PrimFloat.
From Knee Require Import Num NumFloat NumR NpList Model.Scores Proofs.NpSumR Proofs.ScoresFacts Proofs.ScoresReal Proofs.ScoresPerfect.
Import ListNotations.

(* ---- cm_identities.  Tier S (every Num: any rounding, NaN, any tolerance, any inputs with at least one knee):
   TP + FN = |E|, TP + FP = |K|, the entries sum to n *)
Theorem C19_cm_identities : forall (N : Num) n (xs kxs exs : list (T N)) t,
  kxs <> [] ->
  let r := cm_core n xs kxs exs t in
  c_tp r + c_fn r = length exs /\ c_tp r + c_fp r = length kxs /\
  (Z.of_nat (c_tp r) + Z.of_nat (c_fp r) + Z.of_nat (c_fn r) + c_tn r = Z.of_nat n)%Z.
Proof. exact @cm_identities. Qed.
Print Assumptions C19_cm_identities.

(* ---- cm_is_greedy.  Tier S: the matching behind TP is the stated greedy matching (each expected point, in order,
   claims its nearest knee in x if within the tolerance and still unclaimed) ... *)
Theorem C19_cm_is_greedy : forall (N : Num) n (xs kxs exs : list (T N)) t,
  let r := cm_core n xs kxs exs t in
  c_match r = greedy_spec kxs (cm_dx xs) t exs 0 [] /\ c_tp r = length (c_match r).
Proof. exact @cm_is_greedy. Qed.
Print Assumptions C19_cm_is_greedy.

(* ... and, loop-free: it is one-to-one, TP = |M|, FN = |E| - |M|, and (j, k) is in M iff k is the nearest knee of
   expected point j (first arg-min of |kx - px|/dx), within the tolerance (`<=`), and not matched to an earlier j' *)
Theorem C19_cm_matching_char : forall (N : Num) n (xs kxs exs : list (T N)) t,
  let r := cm_core n xs kxs exs t in
  let dx := cm_dx xs in
  NoDup (map fst (c_match r)) /\ NoDup (map snd (c_match r)) /\
  c_tp r = length (c_match r) /\ c_fn r = length exs - length (c_match r) /\
  forall j k, In (j, k) (c_match r) <->
    (j < length exs /\ k = cand kxs dx exs j /\ within kxs dx t exs j = true /\
     forall j', j' < j -> ~ In (j', k) (c_match r)).
Proof. exact @cm_matching_char. Qed.
Print Assumptions C19_cm_matching_char.

(* ---- the error scores.  Tier S (definitional refinement, every neighbour oracle): each score is the mean
   per-coordinate nearest-neighbour error from the side the strategy selects *)
Theorem C19_mae_spec : forall (N : Num) dist s (kp ex : list (@point N)),
  mae dist s kp ex = mean_err_spec dist l1_term (fst (sides s kp ex)) (snd (sides s kp ex)).
Proof. exact @mae_spec. Qed.
Print Assumptions C19_mae_spec.
Theorem C19_mse_spec : forall (N : Num) dist s (kp ex : list (@point N)),
  mse dist s kp ex = mean_err_spec dist l2_term (fst (sides s kp ex)) (snd (sides s kp ex)).
Proof. exact @mse_spec. Qed.
Print Assumptions C19_mse_spec.
Theorem C19_rmspe_spec : forall (N : Num) dist s (kp ex : list (@point N)),
  rmspe dist s kp ex = rmspe_spec dist (fst (sides s kp ex)) (snd (sides s kp ex)).
Proof. exact @rmspe_is_spec. Qed.
Print Assumptions C19_rmspe_spec.
Theorem C19_rmse_is_sqrt_mse : forall (N : Num) dist s (kp ex : list (@point N)),
  rmse dist s kp ex = sqrt (mse dist s kp ex).
Proof. exact @rmse_is_sqrt_mse. Qed.
Print Assumptions C19_rmse_is_sqrt_mse.
(* the side: knees / expected / the smaller side / the larger side, the expected points on ties *)
Theorem C19_sides_spec : forall (A : Type) (s : strategy) (kp ex : list A),
  let a := fst (sides s kp ex) in let b := snd (sides s kp ex) in
  ((a, b) = (kp, ex) \/ (a, b) = (ex, kp)) /\
  match s with
  | SKnees => a = kp
  | SExpected => a = ex
  | SBest => length a = Nat.min (length kp) (length ex) /\ (length kp = length ex -> a = ex)
  | SWorst => length a = Nat.max (length kp) (length ex) /\ (length kp = length ex -> a = ex)
  end.
Proof. exact @sides_spec. Qed.
Print Assumptions C19_sides_spec.

(* ---- Tier A (RNum).  Signs, for every neighbour oracle *)
Theorem C19_scores_nonneg : forall (dist : nat -> nat -> R) s (kp ex : list (@point RNum)),
  kp <> [] -> ex <> [] ->
  (0 <= @mae RNum dist s kp ex /\ 0 <= @mse RNum dist s kp ex /\ 0 <= @rmse RNum dist s kp ex /\ 0 <= @rmspe RNum dist s kp ex)%R.
Proof.
  exact (fun dist s kp ex Hk He => conj (mae_nonneg dist s kp ex Hk He) (conj (mse_nonneg dist s kp ex Hk He)
           (conj (rmse_nonneg dist s kp ex) (rmspe_nonneg dist s kp ex)))).
Qed.
Print Assumptions C19_scores_nonneg.

(* all four vanish when every point of the iterated side occurs in the searched side (neighbours by Euclidean distance) *)
Theorem C19_scores_zero_on_exact : forall (s : strategy) (kp ex : list (@point RNum)),
  let a := fst (sides s kp ex) in let b := snd (sides s kp ex) in
  (forall p, In p a -> In p b) ->
  let dist := @dist_closed RNum a b in
  @mae RNum dist s kp ex = 0%R /\ @mse RNum dist s kp ex = 0%R /\ @rmse RNum dist s kp ex = 0%R /\ @rmspe RNum dist s kp ex = 0%R.
Proof. exact scores_zero_on_exact. Qed.
Print Assumptions C19_scores_zero_on_exact.
(* in particular when E is exactly the knee points (as a set, any order), for every strategy *)
Theorem C19_scores_zero_when_expected_is_knees : forall (s : strategy) (kp ex : list (@point RNum)),
  (forall p, In p kp <-> In p ex) ->
  let dist := @dist_closed RNum (fst (sides s kp ex)) (snd (sides s kp ex)) in
  @mae RNum dist s kp ex = 0%R /\ @mse RNum dist s kp ex = 0%R /\ @rmse RNum dist s kp ex = 0%R /\ @rmspe RNum dist s kp ex = 0%R.
Proof. exact scores_zero_when_expected_is_knees. Qed.
Print Assumptions C19_scores_zero_when_expected_is_knees.

(* ---- Tier A over non-negative integers embedded in R: ranges when the denominator is non-zero *)
Theorem C19_accuracy_range : forall tp fp fn tn : Z,
  (0 <= tp)%Z -> (0 <= fp)%Z -> (0 <= fn)%Z -> (0 <= tn)%Z -> (tp + tn + fp + fn <> 0)%Z ->
  (0 <= @accuracy RNum tp fp fn tn <= 1)%R.
Proof. exact accuracy_range. Qed.
Print Assumptions C19_accuracy_range.
Theorem C19_f1_range : forall tp fp fn : Z,
  (0 <= tp)%Z -> (0 <= fp)%Z -> (0 <= fn)%Z -> (2 * tp + fp + fn <> 0)%Z ->
  (0 <= @f1score RNum tp fp fn <= 1)%R.
Proof. exact f1_range. Qed.
Print Assumptions C19_f1_range.
Theorem C19_mcc_range : forall tp fp fn tn : Z,
  (0 <= tp)%Z -> (0 <= fp)%Z -> (0 <= fn)%Z -> (0 <= tn)%Z -> (0 < (tp + fp) * (tp + fn) * (tn + fp) * (tn + fn))%Z ->
  (-1 <= @mcc RNum tp fp fn tn <= 1)%R.
Proof. exact mcc_range. Qed.
Print Assumptions C19_mcc_range.
(* the identity behind it *)
Theorem C19_mcc_identity : forall a b c d : Z,
  ((a + b) * (a + c) * (d + b) * (d + c) - (a * d - b * c) * (a * d - b * c) =
   4 * a * b * c * d + (a * d + b * c) * (a * b + c * d + a * c + b * d) + (a * c + b * d) * (a * b + c * d))%Z.
Proof. exact mcc_identity. Qed.
Print Assumptions C19_mcc_identity.
(* all three are 1 on perfect detection (FP = FN = 0, TP > 0; TN > 0 for MCC, whose denominator is 0 otherwise) *)
Theorem C19_perfect_scores : forall tp tn : Z, (0 < tp)%Z -> (0 <= tn)%Z ->
  @accuracy RNum tp 0 0 tn = 1%R /\ @f1score RNum tp 0 0 = 1%R /\ ((0 < tn)%Z -> @mcc RNum tp 0 0 tn = 1%R).
Proof. exact perfect_scores. Qed.
Print Assumptions C19_perfect_scores.

(* ... and perfect detection is what cm reports when E is exactly the knee points: knee x's pairwise distinct (distinct
   knees on a curve with strictly increasing x), the expected x's are the same set without repetition (any order),
   t >= 0, non-degenerate x range  =>  cm = [[|K|, 0], [0, n - |K|]].  Tier A *)
Theorem C19_cm_perfect : forall n (xs kxs exs : list R) (t : R),
  kxs <> [] -> NoDup kxs -> NoDup exs -> (forall x, In x exs <-> In x kxs) -> (0 <= t)%R -> (0 < @cm_dx RNum xs)%R ->
  let r := @cm_core RNum n xs kxs exs t in
  c_tp r = length kxs /\ c_fp r = 0 /\ c_fn r = 0 /\ c_tn r = (Z.of_nat n - Z.of_nat (length kxs))%Z.
Proof. exact cm_perfect. Qed.
Print Assumptions C19_cm_perfect.

(* ---- non-vacuity: concrete instances on binary64 (values as returned by the package) *)
Definition ex_pts : list (float * float) := [(0, 1); (1, 3); (2, 2); (3, 5); (4, 0x1.6p+2); (6, 9)]%float.
Definition ex_exp : list (float * float) := [(1, 3); (0x1.8cccccccccccdp+1, 5); (9, 9)]%float.
Example C19_example_cm :
  let r := @cm FloatNum ex_pts [1; 3] ex_exp 0x1.999999999999ap-5%float in
  (c_tp r, c_fp r, c_fn r, c_tn r, c_match r) = (2, 0, 1, 3%Z, [(0, 0); (1, 1)]).
Proof. vm_compute. reflexivity. Qed.
(* a duplicate claim: the second expected point nearest to knee 0 is refused *)
Example C19_example_duplicate :
  let r := @cm FloatNum ex_pts [1; 3] [(1, 3); (1, 3)]%float 0x1.999999999999ap-5%float in
  (c_tp r, c_fp r, c_fn r, c_tn r, c_match r) = (1, 1, 1, 3%Z, [(0, 0)]).
Proof. vm_compute. reflexivity. Qed.
Example C19_example_scores :
  let kp := @knee_points FloatNum ex_pts [1; 3] in
  f_same (@mae FloatNum (@dist_closed FloatNum kp ex_exp) SKnees kp ex_exp) 0x1.99999999999a0p-6%float = true /\
  f_same (@accuracy FloatNum 2 0 1 3) 0x1.aaaaaaaaaaaabp-1%float = true /\
  f_same (@mcc FloatNum 2 0 0 4) 1%float = true.
Proof. vm_compute. auto. Qed.
