(* Props/C19.v — TEMPORARY placeholder while the proofs are being written *)
From Coq Require Import List.
From Knee Require Import Num Model.Scores.
Theorem C19_rmse_is_sqrt_mse : forall (N : Num) dist s kp ex, @rmse N dist s kp ex = sqrt (@mse N dist s kp ex).
Proof. exact (fun N dist s kp ex => eq_refl). Qed.
Print Assumptions C19_rmse_is_sqrt_mse.
