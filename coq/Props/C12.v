(* Props/C12.v — property C12: cluster filtering keeps one best-ranked knee per cluster.
   Only statements, each closed by `exact`, with its assumptions printed.
   Model: Model/ClusterFilter.v (postprocessing.filter_clusters in its four ranking modes, filter_clusters_corners).
   `sorter` is np.argsort (ANY permutation that sorts), `score` is kr.smooth_ranking per cluster, `hull` is
   graham_scan_lower, `sdist` the sums of shortest distances: all universally quantified.  The label list is what the
   clustering function returned; its shape `labels_ok` (first 0, steps 0/+1, one per knee) is C11's labels_shape. *)
From Coq Require Import List Arith Bool Permutation PrimFloat.
From Knee Require Import Num NumFloat NpList OrdLaws Model.ClusterFilter Proofs.ClusterFilterFacts Proofs.ClusterFilterFloat.
Import ListNotations.

(* Tier S — left / linear / right: no exception, and the result is a strictly increasing subset of the knees whose
   i-th element belongs to cluster i (i = 0 .. max label).  Only hypotheses on the oracles: `sorter` returns a
   permutation of the positions, `score` returns one value per member of a multi-member cluster. *)
Theorem C12_fc_one_per_cluster :
  forall (N : Num) (sorter : list (T N) -> list nat) (score : list nat -> list (T N)) (hull : list nat)
         (sdist : nat -> nat -> T N) (xs : list (T N)),
  (forall l, Permutation (sorter l) (seq 0 (length l))) ->
  forall (m : fmode) (labels knees : list nat),
  labels_ok labels knees = true -> strictly_increasing knees = true -> 2 <= length knees ->
  (is_hull m = false -> forall i, i <= max_label labels -> 2 <= length (members labels knees i) ->
     length (score (members labels knees i)) = length (members labels knees i)) ->
  is_hull m = false ->
  exists res, filter_clusters sorter score hull sdist xs m labels knees = Some res /\
              one_per_cluster_b labels knees res = true.
Proof. exact @fc_one_per_cluster_thm. Qed.
Print Assumptions C12_fc_one_per_cluster.

(* ... which says: exactly one returned knee in every cluster *)
Theorem C12_one_per_cluster_count : forall labels knees out,
  one_per_cluster_b labels knees out = true ->
  forall i, i <= max_label labels -> count_in labels knees out i = 1.
Proof. exact one_per_cluster_count. Qed.
Print Assumptions C12_one_per_cluster_count.

(* Tier O — in every multi-member cluster whose scores are all non-NaN the kept member attains the maximum score,
   for ANY permutation `sorter` that sorts (np.argsort is unstable on ties) *)
Theorem C12_fc_best :
  forall (N : Num) (sorter : list (T N) -> list nat) (score : list nat -> list (T N)) (hull : list nat)
         (sdist : nat -> nat -> T N) (xs : list (T N)),
  (forall l, Permutation (sorter l) (seq 0 (length l))) ->
  forall (m : fmode) (labels knees : list nat),
  labels_ok labels knees = true -> strictly_increasing knees = true -> 2 <= length knees ->
  (is_hull m = false -> forall i, i <= max_label labels -> 2 <= length (members labels knees i) ->
     length (score (members labels knees i)) = length (members labels knees i)) ->
  TotalPreorderOn (@notnan N) ->
  (forall l, Forall notnan l -> adj_sorted l (sorter l)) ->
  is_hull m = false ->
  exists res, filter_clusters sorter score hull sdist xs m labels knees = Some res /\
              best_b true score labels knees res = true.
Proof. exact @fc_best_thm. Qed.
Print Assumptions C12_fc_best.

(* how the code selects: kr.rank (inverse of the sorting permutation) followed by np.argmax is the LAST position
   of the sorting permutation *)
Theorem C12_rank_argmax_last : forall perm m,
  Permutation perm (seq 0 m) -> 0 < m -> argmax_nat (rank_of perm) = last perm 0 /\ last perm 0 < m.
Proof. exact rank_argmax_last. Qed.
Print Assumptions C12_rank_argmax_last.

(* Tier S — hull mode completes and returns a strictly increasing subset of the knees, cluster ids strictly
   increasing along it (at most one per cluster), every returned knee from a cluster whose index span holds a
   lower-hull index; for every hull list, distance oracle, curve *)
Theorem C12_fc_hull :
  forall (N : Num) (sorter : list (T N) -> list nat) (score : list nat -> list (T N)) (hull : list nat)
         (sdist : nat -> nat -> T N) (xs : list (T N)) (labels knees : list nat),
  (forall l, Permutation (sorter l) (seq 0 (length l))) ->
  labels_ok labels knees = true -> strictly_increasing knees = true -> 2 <= length knees ->
  exists res, filter_clusters sorter score hull sdist xs MHull labels knees = Some res /\
              hull_ok_b hull labels knees res = true.
Proof. exact @fc_hull_clean. Qed.
Print Assumptions C12_fc_hull.

Theorem C12_hull_count : forall hull labels knees out,
  hull_ok_b hull labels knees out = true ->
  forall i, count_in labels knees out i <= 1 /\
            (span_has_hull hull (members labels knees i) = false -> count_in labels knees out i = 0).
Proof. exact hull_ok_count. Qed.
Print Assumptions C12_hull_count.

(* corner variant: Tier S structure, Tier O maximal corner-triangle score (np.argmax: no sort involved) *)
Theorem C12_fcc_one_per_cluster :
  forall (N : Num) (xs ys : list (T N)) (labels knees : list nat),
  labels_ok labels knees = true -> strictly_increasing knees = true ->
  exists res, filter_clusters_corners xs ys labels knees = Some res /\ one_per_cluster_b labels knees res = true.
Proof. exact @fcc_one_per_cluster_thm. Qed.
Print Assumptions C12_fcc_one_per_cluster.

Theorem C12_fcc_best :
  forall (N : Num) (xs ys : list (T N)) (labels knees : list nat),
  labels_ok labels knees = true -> strictly_increasing knees = true ->
  TotalPreorderOn (@notnan N) ->
  exists res, filter_clusters_corners xs ys labels knees = Some res /\
              best_b false (fun c => map (tri_score xs ys) c) labels knees res = true.
Proof. exact @fcc_best_thm. Qed.
Print Assumptions C12_fcc_best.

(* the hypotheses on `sorter` are satisfiable: the executable stable sort (NaN last) is a permutation for every
   input and sorts every non-NaN input *)
Theorem C12_sorter_perm : forall (N : Num) (l : list (T N)), Permutation (argsort_stable l) (seq 0 (length l)).
Proof. exact @argsort_stable_perm. Qed.
Print Assumptions C12_sorter_perm.
Theorem C12_sorter_sorted : forall (N : Num), TotalPreorderOn (@notnan N) ->
  forall l : list (T N), Forall notnan l -> adj_sorted l (argsort_stable l).
Proof. exact @argsort_stable_sorted. Qed.
Print Assumptions C12_sorter_sorted.

(* closed instances on binary64 (order laws of non-NaN doubles proved in FloatOrder.v): the model the
   correspondence run executes satisfies both predicates the implementation is judged with *)
Theorem C12_fc_best_float :
  forall (score : list nat -> list (T FloatNum)) (hull : list nat) (sdist : nat -> nat -> T FloatNum)
         (xs : list (T FloatNum)) (m : fmode) (labels knees : list nat),
  labels_ok labels knees = true -> strictly_increasing knees = true -> 2 <= length knees ->
  (forall i, i <= max_label labels -> 2 <= length (members labels knees i) ->
             length (score (members labels knees i)) = length (members labels knees i)) ->
  is_hull m = false ->
  exists res, filter_clusters (@argsort_stable FloatNum) score hull sdist xs m labels knees = Some res /\
              one_per_cluster_b labels knees res = true /\ best_b true score labels knees res = true.
Proof. exact fc_best_float. Qed.
Print Assumptions C12_fc_best_float.

Theorem C12_fcc_best_float : forall (xs ys : list (T FloatNum)) (labels knees : list nat),
  labels_ok labels knees = true -> strictly_increasing knees = true ->
  exists res, filter_clusters_corners xs ys labels knees = Some res /\
              one_per_cluster_b labels knees res = true /\
              best_b false (fun c => map (tri_score xs ys) c) labels knees res = true.
Proof. exact fcc_best_float. Qed.
Print Assumptions C12_fcc_best_float.

(* ---- the ranking score DERIVED from its stated definition (round 2): `smooth_score r2 ys m` = fit quality x relative
   height, with peak = max height of the cluster's knees, weights |peak - y_k| normalised by their sum when non-zero,
   fit = r2 of the left / right slice (linear: their mean); the only oracle is r2 = lf.r2 of a slice (np.corrcoef).
   The theorems above are generic in `score`; instantiated, the shape hypothesis disappears. *)
Theorem C12_fc_smooth_one_per_cluster :
  forall (N : Num) (r2 : nat -> nat -> T N) (ys : list (T N)) (sorter : list (T N) -> list nat) (hull : list nat)
         (sdist : nat -> nat -> T N) (xs : list (T N)),
  (forall l, Permutation (sorter l) (seq 0 (length l))) ->
  forall (m : fmode) (labels knees : list nat),
  labels_ok labels knees = true -> strictly_increasing knees = true -> 2 <= length knees -> is_hull m = false ->
  exists res, filter_clusters sorter (smooth_score r2 ys m) hull sdist xs m labels knees = Some res /\
              one_per_cluster_b labels knees res = true.
Proof. exact @fc_smooth_one_per_cluster. Qed.
Print Assumptions C12_fc_smooth_one_per_cluster.

Theorem C12_fc_smooth_best :
  forall (N : Num) (r2 : nat -> nat -> T N) (ys : list (T N)) (sorter : list (T N) -> list nat) (hull : list nat)
         (sdist : nat -> nat -> T N) (xs : list (T N)),
  (forall l, Permutation (sorter l) (seq 0 (length l))) ->
  forall (m : fmode) (labels knees : list nat),
  labels_ok labels knees = true -> strictly_increasing knees = true -> 2 <= length knees ->
  TotalPreorderOn (@notnan N) -> (forall l, Forall notnan l -> adj_sorted l (sorter l)) -> is_hull m = false ->
  exists res, filter_clusters sorter (smooth_score r2 ys m) hull sdist xs m labels knees = Some res /\
              best_b true (smooth_score r2 ys m) labels knees res = true.
Proof. exact @fc_smooth_best. Qed.
Print Assumptions C12_fc_smooth_best.

(* hull mode, Tier O: the kept member of every ranked multi-member cluster attains the maximum of the similarity the code
   sorts (max error - error; error = sums of shortest distances x normalised lengths, computed in the model) *)
Theorem C12_fc_hull_best :
  forall (N : Num) (sorter : list (T N) -> list nat) (hull : list nat) (sdist : nat -> nat -> T N) (xs : list (T N)),
  (forall l, Permutation (sorter l) (seq 0 (length l))) ->
  forall (labels knees : list nat),
  labels_ok labels knees = true -> strictly_increasing knees = true -> 2 <= length knees ->
  forall (score : list nat -> list (T N)),
  TotalPreorderOn (@notnan N) -> (forall l, Forall notnan l -> adj_sorted l (sorter l)) ->
  exists res, filter_clusters sorter score hull sdist xs MHull labels knees = Some res /\
              best_b true (hull_score hull sdist xs) labels knees res = true.
Proof. exact @fc_hull_best. Qed.
Print Assumptions C12_fc_hull_best.

(* closed binary64 instances: these are the model and the predicates the correspondence run evaluates *)
Theorem C12_fc_smooth_best_float :
  forall (r2 : nat -> nat -> T FloatNum) (ys : list (T FloatNum)) (hull : list nat) (sdist : nat -> nat -> T FloatNum)
         (xs : list (T FloatNum)) (m : fmode) (labels knees : list nat),
  labels_ok labels knees = true -> strictly_increasing knees = true -> 2 <= length knees -> is_hull m = false ->
  exists res, filter_clusters (@argsort_stable FloatNum) (smooth_score r2 ys m) hull sdist xs m labels knees = Some res /\
              one_per_cluster_b labels knees res = true /\ best_b true (smooth_score r2 ys m) labels knees res = true.
Proof. exact fc_smooth_best_float. Qed.
Print Assumptions C12_fc_smooth_best_float.

Theorem C12_fc_hull_best_float :
  forall (score : list nat -> list (T FloatNum)) (hull : list nat) (sdist : nat -> nat -> T FloatNum)
         (xs : list (T FloatNum)) (labels knees : list nat),
  labels_ok labels knees = true -> strictly_increasing knees = true -> 2 <= length knees ->
  exists res, filter_clusters (@argsort_stable FloatNum) score hull sdist xs MHull labels knees = Some res /\
              hull_ok_b hull labels knees res = true /\ best_b true (hull_score hull sdist xs) labels knees res = true.
Proof. exact fc_hull_best_float. Qed.
Print Assumptions C12_fc_hull_best_float.

(* non-vacuity: 8 points, knees 1,2,3 | 5,6 in two clusters, evaluated on binary64 *)
Definition ex_xs : list (T FloatNum) := [0; 1; 2; 3; 4; 5; 6; 7]%float.
Definition ex_ys : list (T FloatNum) := [9; 6; 4; 3; 2.5; 2; 1.75; 1.5]%float.
Definition ex_score (c : list nat) : list (T FloatNum) :=
  if nat_list_eqb c [1; 2; 3] then [0.25; 0.5; 0.125]%float else [0.5; 0.5]%float.
Example C12_example :
  labels_ok [0; 0; 0; 1; 1] [1; 2; 3; 5; 6] = true /\
  filter_clusters (@argsort_stable FloatNum) ex_score [0; 3; 7] (fun _ _ => 1%float) ex_xs MLinear [0; 0; 0; 1; 1] [1; 2; 3; 5; 6]
    = Some [2; 6] /\
  one_per_cluster_b [0; 0; 0; 1; 1] [1; 2; 3; 5; 6] [2; 6] = true /\
  best_b true ex_score [0; 0; 0; 1; 1] [1; 2; 3; 5; 6] [2; 6] = true /\
  best_b true ex_score [0; 0; 0; 1; 1] [1; 2; 3; 5; 6] [1; 6] = false /\
  filter_clusters (@argsort_stable FloatNum) ex_score [0; 3; 7] (fun _ _ => 1%float) ex_xs MHull [0; 0; 0; 1; 1] [1; 2; 3; 5; 6]
    = Some [3] /\
  hull_ok_b [0; 3; 7] [0; 0; 0; 1; 1] [1; 2; 3; 5; 6] [3] = true /\
  hull_ok_b [0; 3; 7] [0; 0; 0; 1; 1] [1; 2; 3; 5; 6] [3; 5] = false /\
  filter_clusters_corners ex_xs ex_ys [0; 0; 0; 1; 1] [1; 2; 3; 5; 6] = Some [1; 5].
Proof. vm_compute. repeat split; reflexivity. Qed.

(* derived score on a cluster whose peak is NOT its first knee (y = 6, 8, 3 at knees 1, 2, 3; all fits 1):
   weights |8-6|, 0, |8-3| over 7 — the third knee wins; with peak = y[first knee] the second would *)
Definition ex_ys2 : list (T FloatNum) := [9; 6; 8; 3; 2.5; 2; 1.75; 1.5]%float.
Definition ex_r2 : nat -> nat -> T FloatNum := fun _ _ => 1%float.
Example C12_example_derived :
  smooth_score ex_r2 ex_ys2 MLeft [1; 2; 3] = [0x1.2492492492492p-2; 0; 0x1.6db6db6db6db7p-1]%float /\
  filter_clusters (@argsort_stable FloatNum) (smooth_score ex_r2 ex_ys2 MLeft) [] (fun _ _ => 1%float) ex_xs
    MLeft [0; 0; 0; 1; 1] [1; 2; 3; 5; 6] = Some [3; 6] /\
  best_b true (smooth_score ex_r2 ex_ys2 MLeft) [0; 0; 0; 1; 1] [1; 2; 3; 5; 6] [2; 6] = false.
Proof. vm_compute. repeat split; reflexivity. Qed.
