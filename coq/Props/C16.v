(* Props/C16.v — property C16: regression metrics and linear-fit helpers equal their mathematical definitions.
   Only statements, each closed by `exact`, with its assumptions printed.  Tier A (RNum). *)
From Coq Require Import Reals List ZArith PrimFloat.
From Knee Require Import Num NumR NumFloat NpList Model.Metrics Model.LinearFit Proofs.MetricsFacts Proofs.LinearFitFacts Proofs.LinearFitGeneric.
Import ListNotations.
Local Open Scope R_scope.

(* ---- each metric unfolds to its textbook formula, eps included ---- *)
Theorem C16_rmse_def : forall y yh : list R,
  @rmse RNum y yh = sqrtR (Rsum (zipR (fun a b => (a - b) * (a - b)) y yh) / INR (length (combine y yh))).
Proof. exact rmse_def. Qed.
Print Assumptions C16_rmse_def.
Theorem C16_residuals_def : forall y yh : list R, @residuals RNum y yh = Rsum (zipR (fun a b => (a - b) * (a - b)) y yh).
Proof. exact residuals_def. Qed.
Print Assumptions C16_residuals_def.
Theorem C16_rmsle_def : forall y yh : list R,
  @rmsle RNum y yh
  = sqrtR (Rsum (zipR (fun a b => (Rpower.ln (a + 1) - Rpower.ln (b + 1)) * (Rpower.ln (a + 1) - Rpower.ln (b + 1))) y yh)
           / INR (length (combine y yh))).
Proof. exact rmsle_def. Qed.
Print Assumptions C16_rmsle_def.
Theorem C16_rmspe_def : forall (y yh : list R) (eps : R),
  @rmspe RNum y yh eps
  = sqrtR (Rsum (zipR (fun a b => ((a - b) / (a + eps)) * ((a - b) / (a + eps))) y yh) / INR (length (combine y yh))).
Proof. exact rmspe_def. Qed.
Print Assumptions C16_rmspe_def.
Theorem C16_rpd_def : forall (y yh : list R) (eps : R),
  @rpd RNum y yh eps = Rsum (zipR (fun a b => Rabs ((a - b) / (Rmax a b + eps))) y yh) / INR (length (combine y yh)).
Proof. exact rpd_def. Qed.
Print Assumptions C16_rpd_def.
Theorem C16_smape_def : forall (y yh : list R) (eps : R),
  @smape RNum y yh eps = Rsum (zipR (fun a b => 2 * Rabs (b - a) / (Rabs a + Rabs b + eps)) y yh) / INR (length (combine y yh)).
Proof. exact smape_def. Qed.
Print Assumptions C16_smape_def.
(* R2 = 1 - RSS/TSS with TSS about the mean of y (1 - RSS when TSS = 0) *)
Theorem C16_r2_def : forall y yh : list R,
  @r2 RNum y yh R2classic
  = if Req_EM_T (Rsum (map (fun a => (a - Rsum y / INR (length y)) * (a - Rsum y / INR (length y))) y)) 0
    then 1 - Rsum (zipR (fun a b => (a - b) * (a - b)) y yh)
    else 1 - Rsum (zipR (fun a b => (a - b) * (a - b)) y yh)
             / Rsum (map (fun a => (a - Rsum y / INR (length y)) * (a - Rsum y / INR (length y))) y).
Proof. exact r2_def. Qed.
Print Assumptions C16_r2_def.
Theorem C16_r2_adjusted_def : forall y yh : list R,
  @r2 RNum y yh R2adjusted = 1 - (1 - @r2 RNum y yh R2classic) * ((INR (length y) - 1) / (INR (length y) - 2)).
Proof. exact r2_adjusted_of_classic. Qed.
Print Assumptions C16_r2_adjusted_def.

(* ---- rmse, smape, residuals are symmetric ---- *)
Theorem C16_rmse_sym : forall y yh : list R, @rmse RNum y yh = @rmse RNum yh y.
Proof. exact rmse_sym. Qed.
Print Assumptions C16_rmse_sym.
Theorem C16_smape_sym : forall (y yh : list R) (eps : R), @smape RNum y yh eps = @smape RNum yh y eps.
Proof. exact smape_sym. Qed.
Print Assumptions C16_smape_sym.
Theorem C16_residuals_sym : forall y yh : list R, @residuals RNum y yh = @residuals RNum yh y.
Proof. exact residuals_sym. Qed.
Print Assumptions C16_residuals_sym.

(* ---- every error metric is >= 0 and vanishes at y = y_hat; smape <= 2; R2 <= 1 (and 1 at y = y_hat) ---- *)
Theorem C16_errors_nonneg : forall (y yh : list R) (eps : R), 0 < eps ->
  0 <= @rmse RNum y yh /\ 0 <= @rmsle RNum y yh /\ 0 <= @rmspe RNum y yh eps /\ 0 <= @rpd RNum y yh eps /\
  0 <= @residuals RNum y yh /\ 0 <= @smape RNum y yh eps.
Proof.
  exact (fun y yh eps He => conj (rmse_nonneg y yh) (conj (rmsle_nonneg y yh) (conj (rmspe_nonneg y yh eps)
         (conj (rpd_nonneg y yh eps) (conj (residuals_nonneg y yh) (smape_nonneg y yh eps He)))))).
Qed.
Print Assumptions C16_errors_nonneg.
Theorem C16_errors_zero : forall (y : list R) (eps : R),
  @rmse RNum y y = 0 /\ @rmsle RNum y y = 0 /\ @rmspe RNum y y eps = 0 /\ @rpd RNum y y eps = 0 /\
  @residuals RNum y y = 0 /\ @smape RNum y y eps = 0 /\ @r2 RNum y y R2classic = 1.
Proof.
  exact (fun y eps => conj (rmse_zero y) (conj (rmsle_zero y) (conj (rmspe_zero y eps) (conj (rpd_zero y eps)
         (conj (residuals_zero y) (conj (smape_zero y eps) (r2_one y))))))).
Qed.
Print Assumptions C16_errors_zero.
Theorem C16_smape_range : forall (y yh : list R) (eps : R), 0 < eps -> 0 <= @smape RNum y yh eps <= 2.
Proof. exact smape_range. Qed.
Print Assumptions C16_smape_range.
Theorem C16_r2_le_1 : forall y yh : list R, @r2 RNum y yh R2classic <= 1.
Proof. exact r2_le_1. Qed.
Print Assumptions C16_r2_le_1.
Theorem C16_r2_adjusted_le_1 : forall y yh : list R, (3 <= length y)%nat -> @r2 RNum y yh R2adjusted <= 1.
Proof. exact r2_adjusted_le_1. Qed.
Print Assumptions C16_r2_adjusted_le_1.

(* ---- the linear-fit wrappers are the same metrics applied to m*x + b ---- *)
Theorem C16_wrappers : forall (P : list (R * R)) (b m eps : R) k,
  @rmse_points RNum P (b, m) = @rmse RNum (map snd P) (map (fun xi => m * xi + b) (map fst P)) /\
  @rmsle_points RNum P (b, m) = @rmsle RNum (map snd P) (map (fun xi => m * xi + b) (map fst P)) /\
  @rmspe_points RNum P (b, m) eps = @rmspe RNum (map snd P) (map (fun xi => m * xi + b) (map fst P)) eps /\
  @smape_points RNum P (b, m) eps = @smape RNum (map snd P) (map (fun xi => m * xi + b) (map fst P)) eps /\
  @rpd_points RNum P (b, m) eps = @rpd RNum (map snd P) (map (fun xi => m * xi + b) (map fst P)) eps /\
  @linear_residuals_points RNum P (b, m) = @residuals RNum (map snd P) (map (fun xi => m * xi + b) (map fst P)) /\
  @linear_r2_points RNum P (b, m) k = @r2 RNum (map snd P) (map (fun xi => m * xi + b) (map fst P)) k.
Proof. exact points_wrappers. Qed.
Print Assumptions C16_wrappers.
(* Tier S: the same for EVERY numeric instance (binary64 with every rounding, NaN, inf) and EVERY eps (0, negative, NaN
   included): wrapper = the same metric with the same eps on linear_transform of the first column — the bit-for-bit
   "wrapper = metric" conjuncts of the judge, also judged at the explicit eps = 0 *)
Theorem C16_wrappers_every_num : forall (N : Num) (P : list (T N * T N)) (c : T N * T N) (eps : T N),
  @rmse_points N P c = @rmse N (map snd P) (@linear_transform N (map fst P) c) /\
  @rmsle_points N P c = @rmsle N (map snd P) (@linear_transform N (map fst P) c) /\
  @rmspe_points N P c eps = @rmspe N (map snd P) (@linear_transform N (map fst P) c) eps /\
  @smape_points N P c eps = @smape N (map snd P) (@linear_transform N (map fst P) c) eps /\
  @rpd_points N P c eps = @rpd N (map snd P) (@linear_transform N (map fst P) c) eps /\
  @linear_residuals_points N P c = @residuals N (map snd P) (@linear_transform N (map fst P) c) /\
  @linear_fit_residuals_points N P =
    @residuals N (map snd P) (@linear_transform N (map fst P) (@linear_fit N (map fst P) (map snd P))) /\
  @linear_transform_points N P c = @linear_transform N (map fst P) c.
Proof. exact @points_wrappers_gen. Qed.
Print Assumptions C16_wrappers_every_num.
(* non-vacuity on binary64 at eps = 0: the wrapper and the metric give the same double (here a division by y = 0 -> inf) *)
Example C16_wrappers_eps0_example :
  @smape_points FloatNum [(0, 0); (1, 2); (2, 1)]%float (0.5, 0.25)%float 0%float
  = @smape FloatNum [0; 2; 1]%float (@linear_transform FloatNum [0; 1; 2]%float (0.5, 0.25)%float) 0%float /\
  f_isnan (@smape_points FloatNum [(0, 0); (1, 2); (2, 1)]%float (0.5, 0.25)%float 0%float) = false.
Proof. vm_compute. split; reflexivity. Qed.
Theorem C16_linear_transform : forall (x : list R) (b m : R), @linear_transform RNum x (b, m) = map (fun xi => m * xi + b) x.
Proof. exact linear_transform_R. Qed.
Print Assumptions C16_linear_transform.

(* ---- the end-point fit passes through the first and the last point ---- *)
Theorem C16_endpoint_fit_interpolates : forall x y : list R,
  hd 0 x <> last x 0 ->
  let '(b, m) := @linear_fit RNum x y in m * hd 0 x + b = hd 0 y /\ m * last x 0 + b = last y 0.
Proof. exact endpoint_fit_interpolates. Qed.
Print Assumptions C16_endpoint_fit_interpolates.
Theorem C16_endpoint_fit_transform : forall x y : list R,
  x <> [] -> hd 0 x <> last x 0 ->
  let yh := @linear_transform RNum x (@linear_fit RNum x y) in hd 0 yh = hd 0 y /\ last yh 0 = last y 0.
Proof. exact endpoint_fit_transform. Qed.
Print Assumptions C16_endpoint_fit_transform.

(* ---- best-fit R2 = squared Pearson correlation; adjusted variants ---- *)
Theorem C16_bestfit_r2_is_pearson_sq : forall x y : list R,
  (3 <= length x)%nat -> 0 < Sxy x x -> 0 < Sxy y y ->
  @bestfit_r2 RNum x y R2classic = (Sxy x y / sqrtR (Sxy x x * Sxy y y)) * (Sxy x y / sqrtR (Sxy x x * Sxy y y)).
Proof. exact bestfit_r2_is_pearson_sq. Qed.
Print Assumptions C16_bestfit_r2_is_pearson_sq.
Theorem C16_bestfit_r2_adjusted : forall x y : list R,
  @bestfit_r2 RNum x y R2adjusted = 1 - (1 - @bestfit_r2 RNum x y R2classic) * ((INR (length x) - 1) / (INR (length x) - 2)).
Proof. exact bestfit_r2_adjusted_of_classic. Qed.
Print Assumptions C16_bestfit_r2_adjusted.
Theorem C16_r2_points : forall (P : list (R * R)) k,
  @r2_points RNum P k = if Nat.leb (length P) 2 then 1 else @bestfit_r2 RNum (map fst P) (map snd P) k.
Proof. exact r2_points_spec. Qed.
Print Assumptions C16_r2_points.
(* stretch: pearson^2 = 1 - RSS_lsq/TSS — best-fit R2 is metrics.r2 of the least-squares line; hence in [0, 1] *)
Theorem C16_bestfit_r2_is_lsq_r2 : forall x y : list R,
  length x = length y -> (3 <= length x)%nat -> 0 < Sxy x x -> 0 < Sxy y y ->
  @bestfit_r2 RNum x y R2classic = @r2 RNum y (@linear_transform RNum x (@lsq_fit RNum x y)) R2classic.
Proof. exact bestfit_r2_is_lsq_r2. Qed.
Print Assumptions C16_bestfit_r2_is_lsq_r2.
Theorem C16_bestfit_r2_range : forall x y : list R,
  length x = length y -> (3 <= length x)%nat -> 0 < Sxy x x -> 0 < Sxy y y -> 0 <= @bestfit_r2 RNum x y R2classic <= 1.
Proof. exact bestfit_r2_range. Qed.
Print Assumptions C16_bestfit_r2_range.

(* ---- non-vacuity: the same Gallina terms evaluated on doubles ---- *)
Example C16_example :
  let y := [1; 2; 4]%float in let yh := [1.5; 2; 3]%float in
  @residuals FloatNum y yh = 1.25%float /\
  (PrimFloat.leb (@smape FloatNum y yh 1e-16%float) 2 = true) /\
  @linear_fit FloatNum [0; 1; 2]%float [1; 5; 7]%float = (1, 3)%float /\
  @linear_transform FloatNum [0; 1; 2]%float (@linear_fit FloatNum [0; 1; 2]%float [1; 5; 7]%float) = [1; 4; 7]%float /\
  @bestfit_r2 FloatNum [0; 1; 2]%float [1; 3; 5]%float R2classic = 1%float.
Proof. vm_compute. repeat split. Qed.
