(* Props/C07.v — property C07: reduced-space indices map back to exactly the original indices.
   Only statements, each closed by `exact`, with its assumptions printed. *)
From Coq Require Import List Arith Permutation.
From Knee Require Import NpList Model.Mapping Proofs.ListFacts Proofs.MappingFacts.
Import ListNotations.

(* mapping(I, reduced, removed) = reduced[I] for every well-formed reduction and ascending I *)
Theorem C07_mapping_correct : forall n red I,
  WF n red -> ND I -> Forall (fun i => i < length red) I ->
  mapping I red (rows red) true = Some (map (fun i => nth i red 0) I).
Proof. exact mapping_correct. Qed.
Print Assumptions C07_mapping_correct.

(* sorted=False: the same for any row order of the removed table *)
Theorem C07_mapping_unsorted : forall n red rem' I,
  WF n red -> Permutation rem' (rows red) -> ND I -> Forall (fun i => i < length red) I ->
  mapping I red rem' false = Some (map (fun i => nth i red 0) I).
Proof. exact mapping_unsorted. Qed.
Print Assumptions C07_mapping_unsorted.

(* ... and for EVERY result np.argsort may produce (any permutation that orders the left indices) *)
Theorem C07_any_sort_canonical : forall red rem' sorted_rem,
  SI red -> Permutation rem' (rows red) -> Permutation sorted_rem rem' ->
  SIrows sorted_rem \/ (forall a b l1 l2, sorted_rem = l1 ++ a :: b :: l2 -> fst a <= fst b) ->
  sorted_rem = rows red.
Proof. exact any_row_sort_canonical. Qed.
Print Assumptions C07_any_sort_canonical.

(* compute_removed_points derives exactly that table from any well-formed index set *)
Theorem C07_compute_removed : forall n red, WF n red -> compute_removed n red = rows red.
Proof. exact compute_removed_rows. Qed.
Print Assumptions C07_compute_removed.

(* retained + dropped = n, one row per retained segment *)
Theorem C07_rows_account : forall n red, WF n red -> 1 <= n ->
  length red + fold_right (fun r s => snd r + s) 0 (rows red) = n /\ length (rows red) = length red - 1.
Proof. exact rows_account. Qed.
Print Assumptions C07_rows_account.

(* non-vacuity: a concrete reduction meeting the hypotheses, evaluated *)
Example C07_example :
  WFb 9 [0; 3; 4; 8] = true /\
  mapping [1; 2; 3] [0; 3; 4; 8] (rows [0; 3; 4; 8]) true = Some [3; 4; 8] /\
  mapping [0; 2] [0; 3; 4; 8] [(4, 3); (0, 2); (3, 0)] false = Some [0; 4].
Proof. vm_compute. auto. Qed.
