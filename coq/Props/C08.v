(* Props/C08.v — property C08: the end-to-end pipeline yields valid, ordered knees of the original curve.
   Only statements, each closed by `exact`, with its assumptions printed. *)
From Coq Require Import List Arith Bool PrimFloat.
From Knee Require Import Num NumFloat NpList OrdLaws FloatOrder Model.Mapping Model.Pipeline
     Proofs.ListFacts Proofs.MappingFacts Proofs.PipelineFacts.
Import ListNotations.

(* The composition theorem, for every numeric instance N, every curve (heights yo), every simplifier output
   that is a well-formed reduction (C01), every multi-knee output that is strictly increasing inside the
   reduced curve (C02), every corner filter and cluster filter that only select from their input (C13, C12),
   under Tier O on the compared heights: the pipeline completes; the output is reduced[k3], strictly
   increasing, made of retained simplification points; each stage is a subsequence of its input; heights are
   non-increasing from the worst-knee filter onwards, also on the original curve. *)
Theorem C08_pipeline_ok : forall (N : Num) (n : nat) (red : list nat) (yo : nat -> T N) (knees : list nat)
    (f_corner f_cluster : list nat -> list nat) (P : T N -> Prop),
  WF n red -> SI knees -> Forall (fun i => i < length red) knees ->
  (forall l, Sub (f_corner l) l) -> (forall l, Sub (f_cluster l) l) ->
  TotalPreorderOn P -> (forall j, In j knees -> P (reduced_height yo red j)) ->
  let yr := reduced_height yo red in
  let k1 := filter_worst yr knees in let k2 := f_corner k1 in let k3 := f_cluster k2 in
  exists out,
    pipeline red (rows red) yo knees f_corner f_cluster = Some out /\
    out = map (fun j => nth j red 0) k3 /\
    SI out /\ Forall (fun i => In i red /\ i < n) out /\
    Sub k1 knees /\ Sub k2 k1 /\ Sub k3 k2 /\
    NonInc yr k1 /\ NonInc yr k2 /\ NonInc yr k3 /\ NonInc yo out.
Proof. exact @pipeline_ok. Qed.
Print Assumptions C08_pipeline_ok.

(* the same on binary64 with the order hypothesis discharged: heights that are not NaN *)
Theorem C08_pipeline_ok_float : forall (n : nat) (red : list nat) (yo : nat -> float) (knees : list nat)
    (f_corner f_cluster : list nat -> list nat),
  WF n red -> SI knees -> Forall (fun i => i < length red) knees ->
  (forall l, Sub (f_corner l) l) -> (forall l, Sub (f_cluster l) l) ->
  (forall j, In j knees -> f_isnan (@reduced_height FloatNum yo red j) = false) ->
  let yr := @reduced_height FloatNum yo red in
  let k1 := @filter_worst FloatNum yr knees in let k2 := f_corner k1 in let k3 := f_cluster k2 in
  exists out,
    @pipeline FloatNum red (rows red) yo knees f_corner f_cluster = Some out /\
    out = map (fun j => nth j red 0) k3 /\
    SI out /\ Forall (fun i => In i red /\ i < n) out /\
    Sub k1 knees /\ Sub k2 k1 /\ Sub k3 k2 /\
    @NonInc FloatNum yr k1 /\ @NonInc FloatNum yr k2 /\ @NonInc FloatNum yr k3 /\ @NonInc FloatNum yo out.
Proof. exact pipeline_ok_float. Qed.
Print Assumptions C08_pipeline_ok_float.

(* the worst-knee stage, Tier S (any arithmetic, NaN included): a subsequence whose consecutive members passed the code's test *)
Theorem C08_worst_stage : forall (N : Num) (y : nat -> T N) ks,
  Sub (filter_worst y ks) ks /\ NonInc y (filter_worst y ks).
Proof. exact @worst_stage. Qed.
Print Assumptions C08_worst_stage.

(* the boolean predicates the judge evaluates on the implementation's values mean what the theorem says *)
Theorem C08_predicates_sound : forall (N : Num) (y : nat -> T N) l1 l2,
  (subseqb l1 l2 = true -> Sub l1 l2) /\ (nonincb y l1 = true <-> NonInc y l1).
Proof. exact @predicates_sound. Qed.
Print Assumptions C08_predicates_sound.

(* non-vacuity: a concrete run on doubles (8-point curve, reduction [0;2;3;5;7], knees at reduced positions 1,2,3) *)
Example C08_example :
  let yo := fun i => nth i [9; 8; 6; 7; 5; 2; 2; 1]%float 0%float in
  let red := [0; 2; 3; 5; 7] in
  WFb 8 red = true /\
  @filter_worst FloatNum (@reduced_height FloatNum yo red) [1; 2; 3] = [1; 3] /\
  @pipeline FloatNum red (rows red) yo [1; 2; 3] (fun l => l) (fun l => tl l) = Some [5].
Proof. vm_compute. auto. Qed.
