(* Props/C08.v — property C08: the end-to-end pipeline yields valid, ordered knees of the original curve.
   Only statements, each closed by `exact`, with its assumptions printed. *)
From Coq Require Import List Arith Bool PrimFloat.
From Knee Require Import Num NumFloat NpList OrdLaws FloatOrder Model.Mapping Model.Pipeline
     Proofs.ListFacts Proofs.MappingFacts Proofs.PipelineFacts.
Import ListNotations.

(* The composition theorem, for every numeric instance N, every curve (heights yo), every simplifier output
   that is a well-formed reduction (C01), every multi-knee output that is strictly increasing inside the
   reduced curve (C02), every corner filter and cluster filter that only select from their input (C13, C12),
   under Tier O on the compared heights: the pipeline completes; the output is reduced[k3], strictly
   increasing, made of retained simplification points; each stage is a subsequence of its input; heights are
   non-increasing from the worst-knee filter onwards, also on the original curve. *)
Theorem C08_pipeline_ok : forall (N : Num) (n : nat) (red : list nat) (yo : nat -> T N) (knees : list nat)
    (f_corner f_cluster : list nat -> list nat) (P : T N -> Prop),
  WF n red -> SI knees -> Forall (fun i => i < length red) knees ->
  (forall l, Sub (f_corner l) l) -> (forall l, Sub (f_cluster l) l) ->
  TotalPreorderOn P -> (forall j, In j knees -> P (reduced_height yo red j)) ->
  let yr := reduced_height yo red in
  let k1 := filter_worst yr knees in let k2 := f_corner k1 in let k3 := f_cluster k2 in
  exists out,
    pipeline red (rows red) yo knees f_corner f_cluster = Some out /\
    out = map (fun j => nth j red 0) k3 /\
    SI out /\ Forall (fun i => In i red /\ i < n) out /\
    Sub k1 knees /\ Sub k2 k1 /\ Sub k3 k2 /\
    NonInc yr k1 /\ NonInc yr k2 /\ NonInc yr k3 /\ NonInc yo out.
Proof. exact @pipeline_ok. Qed.
Print Assumptions C08_pipeline_ok.

(* the same on binary64 with the order hypothesis discharged: heights that are not NaN *)
Theorem C08_pipeline_ok_float : forall (n : nat) (red : list nat) (yo : nat -> float) (knees : list nat)
    (f_corner f_cluster : list nat -> list nat),
  WF n red -> SI knees -> Forall (fun i => i < length red) knees ->
  (forall l, Sub (f_corner l) l) -> (forall l, Sub (f_cluster l) l) ->
  (forall j, In j knees -> f_isnan (@reduced_height FloatNum yo red j) = false) ->
  let yr := @reduced_height FloatNum yo red in
  let k1 := @filter_worst FloatNum yr knees in let k2 := f_corner k1 in let k3 := f_cluster k2 in
  exists out,
    @pipeline FloatNum red (rows red) yo knees f_corner f_cluster = Some out /\
    out = map (fun j => nth j red 0) k3 /\
    SI out /\ Forall (fun i => In i red /\ i < n) out /\
    Sub k1 knees /\ Sub k2 k1 /\ Sub k3 k2 /\
    @NonInc FloatNum yr k1 /\ @NonInc FloatNum yr k2 /\ @NonInc FloatNum yr k3 /\ @NonInc FloatNum yo out.
Proof. exact pipeline_ok_float. Qed.
Print Assumptions C08_pipeline_ok_float.

(* the worst-knee stage, Tier S (any arithmetic, NaN included): a subsequence whose consecutive members passed the code's test *)
Theorem C08_worst_stage : forall (N : Num) (y : nat -> T N) ks,
  Sub (filter_worst y ks) ks /\ NonInc y (filter_worst y ks).
Proof. exact @worst_stage. Qed.
Print Assumptions C08_worst_stage.

(* the boolean predicates the judge evaluates on the implementation's values mean what the theorem says *)
Theorem C08_predicates_sound : forall (N : Num) (y : nat -> T N) l1 l2,
  (subseqb l1 l2 = true -> Sub l1 l2) /\ (nonincb y l1 = true <-> NonInc y l1).
Proof. exact @predicates_sound. Qed.
Print Assumptions C08_predicates_sound.

(* non-vacuity: a concrete run on doubles (8-point curve, reduction [0;2;3;5;7], knees at reduced positions 1,2,3) *)
Example C08_example :
  let yo := fun i => nth i [9; 8; 6; 7; 5; 2; 2; 1]%float 0%float in
  let red := [0; 2; 3; 5; 7] in
  WFb 8 red = true /\
  @filter_worst FloatNum (@reduced_height FloatNum yo red) [1; 2; 3] = [1; 3] /\
  @pipeline FloatNum red (rows red) yo [1; 2; 3] (fun l => l) (fun l => tl l) = Some [5].
Proof. vm_compute. auto. Qed.

(* =====================================================================================================================
   The stage hypotheses DISCHARGED by the concrete models of the other properties (Model/PipelineClosed.v,
   Proofs/PipelineClosedFacts.v).  Sub = subsequence (Proofs/PipelineFacts.v); a stage is list nat -> option (list nat)
   (None = the stage raised). *)
From Coq Require Import Permutation.
From Knee Require Import Model.Filters Model.ClusterFilter Model.Clustering Model.MultiKnee Model.Hull Model.Rdp Model.RdpFixed
     Model.PipelineClosed Proofs.MultiKneeFacts Proofs.PipelineClosedFacts.


(* C13: the corner-filter model (IoU computed in the model, bit-exact) never raises, only selects from its input, and
   keeps exactly the knees the code's test keeps — for every Num (NaN / overflow included), curve, threshold, knee list *)
Theorem C08_corner_stage : forall (N : Num) (pr : list (@Filters.point N)) (t : T N) (l : list nat),
  exists r, corner_stage pr t l = Some r /\ r = filter_corner pr l t /\ Sub r l /\ corner_rule_b pr t l r = true.
Proof. exact @corner_stage_ok. Qed.
Print Assumptions C08_corner_stage.

(* C12: the cluster-filter model, all four ranking modes, for every label list of the right shape (one label per knee,
   first 0, steps 0/+1), every permutation-valued sorter (np.argsort), every score oracle with one value per member of a
   multi-member cluster (not needed in hull mode), every hull list and distance oracle: completes and only selects from
   its input; with >= 2 knees its result satisfies C12's predicate of the mode (one per cluster / hull_ok) *)
Theorem C08_cluster_stage : forall (N : Num) (sorter : list (T N) -> list nat) (score : list nat -> list (T N))
    (hull : list nat) (sdist : nat -> nat -> T N) (xs : list (T N)) (m : fmode),
  (forall l, Permutation (sorter l) (seq 0 (length l))) ->
  (is_hull m = false -> forall c, 2 <= length c -> length (score c) = length c) ->
  forall labels knees, labels_ok labels knees = true -> SI knees ->
  exists res, filter_clusters sorter score hull sdist xs m labels knees = Some res /\ Sub res knees /\
              (2 <= length knees ->
               (if is_hull m then hull_ok_b hull labels knees res else one_per_cluster_b labels knees res) = true).
Proof. exact @fc_stage. Qed.
Print Assumptions C08_cluster_stage.

(* ... as a stage around any clustering callable whose labels have that shape (the callable is not consulted for <= 1 knee) *)
Theorem C08_cluster_stage_callable : forall (N : Num) (sorter : list (T N) -> list nat) (score : list nat -> list (T N))
    (hull : list nat) (sdist : nat -> nat -> T N) (xs : list (T N)) (m : fmode),
  (forall l, Permutation (sorter l) (seq 0 (length l))) ->
  (is_hull m = false -> forall c, 2 <= length c -> length (score c) = length c) ->
  forall lab : list nat -> option (list nat),
  (forall l, l <> [] -> exists labels, lab l = Some labels /\ labels_ok labels l = true) ->
  forall l, SI l -> exists res, cluster_stage sorter score hull sdist xs m lab l = Some res /\ Sub res l.
Proof. exact @cluster_stage_ok. Qed.
Print Assumptions C08_cluster_stage_callable.

(* C11: the four linkage models, applied to the x of the knees, return labels of that shape (computed in the model) *)
Theorem C08_c11_labels_ok : forall (N : Num) (lk : linkage) (xs : list (T N)) (t : T N) (l : list nat),
  l <> [] -> exists labels, c11_labels lk xs t l = Some labels /\ labels_ok labels l = true.
Proof. exact @c11_labels_ok. Qed.
Print Assumptions C08_c11_labels_ok.

(* the worst-knee loop of Model/Pipeline.v is C13's filter_worst on points[reduced] *)
Theorem C08_worst_is_C13 : forall (N : Num) (xo yo : nat -> T N) (red knees : list nat),
  Forall (fun j => j < length red) knees ->
  Filters.filter_worst (reduced_points xo yo red) knees = Pipeline.filter_worst (reduced_height yo red) knees.
Proof. exact @worst_is_C13. Qed.
Print Assumptions C08_worst_is_C13.

(* the packaged conclusion `pipeline_post` is the conclusion of C08_pipeline_ok *)
Theorem C08_pipeline_post_meaning : forall (N : Num) n red (yo : nat -> T N) knees k1 k2 k3 out,
  pipeline_post n red yo knees k1 k2 k3 out <->
  (k1 = Pipeline.filter_worst (reduced_height yo red) knees /\
   out = map (fun j => nth j red 0) k3 /\
   SI out /\ Forall (fun i => In i red /\ i < n) out /\
   Sub k1 knees /\ Sub k2 k1 /\ Sub k3 k2 /\
   NonInc (reduced_height yo red) k1 /\ NonInc (reduced_height yo red) k2 /\ NonInc (reduced_height yo red) k3 /\
   NonInc yo out).
Proof. exact pipeline_post_iff. Qed.
Print Assumptions C08_pipeline_post_meaning.

(* the composition theorem for stages that may raise, whose specification is required only on inputs the pipeline can
   feed them (strictly increasing positions inside the reduced curve) *)
Theorem C08_pipeline_opt_ok : forall (N : Num) (n : nat) (red : list nat) (yo : nat -> T N) (knees : list nat)
    (f_corner f_cluster : list nat -> option (list nat)) (P : T N -> Prop),
  WF n red -> SI knees -> Forall (fun i => i < length red) knees ->
  (forall l, SI l -> Forall (fun i => i < length red) l -> exists r, f_corner l = Some r /\ Sub r l) ->
  (forall l, SI l -> Forall (fun i => i < length red) l -> exists r, f_cluster l = Some r /\ Sub r l) ->
  TotalPreorderOn P -> (forall j, In j knees -> P (reduced_height yo red j)) ->
  exists k1 k2 k3 out,
    f_corner k1 = Some k2 /\ f_cluster k2 = Some k3 /\
    pipeline_opt red (rows red) yo knees f_corner f_cluster = Some out /\
    pipeline_post n red yo knees k1 k2 k3 out.
Proof. exact @pipeline_opt_ok. Qed.
Print Assumptions C08_pipeline_opt_ok.

(* pipeline_ok instantiated with the two concrete filters — NO hypothesis on the filters remains: worst-knee filter,
   C13 corner filter, C12 cluster filter (any mode) over C11 labels (any linkage), mapping.  Remaining hypotheses: the
   simplifier's and detector's conclusions (discharged below), the shapes of the two oracles (sorter returns a
   permutation, one score per cluster member), Tier O on the compared heights.  Last clause: the coordinates of every
   output index are those of its reduced-space knee. *)
Theorem C08_pipeline_filters_closed : forall (N : Num) (n : nat) (red : list nat) (xo yo : nat -> T N) (knees : list nat)
    (tc : T N) (lk : linkage) (tl : T N) (sorter : list (T N) -> list nat) (score : list nat -> list (T N))
    (hull : list nat) (sdist : nat -> nat -> T N) (m : fmode) (P : T N -> Prop),
  WF n red -> SI knees -> Forall (fun i => i < length red) knees ->
  (forall l, Permutation (sorter l) (seq 0 (length l))) ->
  (is_hull m = false -> forall c, 2 <= length c -> length (score c) = length c) ->
  TotalPreorderOn P -> (forall j, In j knees -> P (reduced_height yo red j)) ->
  exists k1 k2 k3 out,
    k2 = filter_corner (reduced_points xo yo red) k1 tc /\
    cluster_stage sorter score hull sdist (map fst (reduced_points xo yo red)) m
                  (c11_labels lk (map fst (reduced_points xo yo red)) tl) k2 = Some k3 /\
    pipeline_filters red (rows red) xo yo knees tc lk tl sorter score hull sdist m = Some out /\
    pipeline_post n red yo knees k1 k2 k3 out /\
    map (fun i => (xo i, yo i)) out = map (Filters.pt (reduced_points xo yo red)) k3.
Proof. exact @pipeline_filters_ok. Qed.
Print Assumptions C08_pipeline_filters_closed.

(* the same on binary64 with the executable stable sort as np.argsort and the order hypothesis discharged: this is the
   model the correspondence run evaluates *)
Theorem C08_pipeline_filters_closed_float : forall (n : nat) (red : list nat) (xo yo : nat -> float) (knees : list nat)
    (tc : float) (lk : linkage) (tl : float) (score : list nat -> list float)
    (hull : list nat) (sdist : nat -> nat -> float) (m : fmode),
  WF n red -> SI knees -> Forall (fun i => i < length red) knees ->
  (is_hull m = false -> forall c, 2 <= length c -> length (score c) = length c) ->
  (forall j, In j knees -> f_isnan (@reduced_height FloatNum yo red j) = false) ->
  let pr := @reduced_points FloatNum xo yo red in
  exists k1 k2 k3 out,
    k2 = @filter_corner FloatNum pr k1 tc /\
    @cluster_stage FloatNum (@argsort_stable FloatNum) score hull sdist (map fst pr) m
                   (@c11_labels FloatNum lk (map fst pr) tl) k2 = Some k3 /\
    @pipeline_filters FloatNum red (rows red) xo yo knees tc lk tl (@argsort_stable FloatNum) score hull sdist m = Some out /\
    @pipeline_post FloatNum n red yo knees k1 k2 k3 out /\
    map (fun i => (xo i, yo i)) out = map (@Filters.pt FloatNum pr) k3.
Proof. exact pipeline_filters_ok_float. Qed.
Print Assumptions C08_pipeline_filters_closed_float.

(* C02: the multi-knee model's output satisfies the two hypotheses on the knees (n' = length of the reduced curve), for
   every straightness / single-knee oracle pair answering inside its slice (C02's own hypothesis knee_in_range) *)
Theorem C08_multiknee_stage : forall (N : Num) (cost : mk_cost) (straight : nat -> nat -> T N)
    (knee1 : nat -> nat -> option nat) (t1 : T N) (t2 lo n' : nat),
  knee_in_range knee1 t2 lo n' ->
  exists ks tr, multi_knee cost straight knee1 t1 t2 n' = Some (ks, tr) /\ SI ks /\ Forall (fun i => i < n') ks.
Proof. exact @multiknee_stage. Qed.
Print Assumptions C08_multiknee_stage.

(* C01: each of the five simplifier models returns a well-formed reduction with removed = rows reduced, under that
   model's own oracle-shape hypothesis (len(distance_points(points[l:r])) = r - l) and threshold domain *)
Theorem C08_simplifier_stage : forall (N : Num) (n : nat) (dist : nat -> nat -> list (T N)),
  2 <= n -> (forall l r, l + 3 <= r -> r <= n -> length (dist l r) = r - l) ->
  (forall segcost r2 t, Rdp.curved r2 t (trivial_cost r2) = false ->
     exists red, drop_vis (rdp dist segcost r2 t n) = Some (red, rows red) /\ WF n red) /\
  (forall eps prio fuel k, n <= fuel ->
     exists red, rdp_fixed n eps dist prio fuel k = Some (red, rows red) /\ WF n red) /\
  (forall eps prio gcost is_r2 t fuel, n <= fuel ->
     exists red, grdp n eps dist prio gcost is_r2 t fuel = Some (red, rows red) /\ WF n red) /\
  (forall eps prio gcost is_r2 t fuel mp, n <= fuel ->
     exists red, mp_grdp n eps dist prio gcost is_r2 t fuel mp = Some (red, rows red) /\ WF n red) /\
  (forall eps prio gcost fuel ts mp, n <= fuel ->
     exists red, min_point_rdp n eps dist prio gcost fuel ts mp = Some (red, rows red) /\ WF n red).
Proof. exact simplifier_stage. Qed.
Print Assumptions C08_simplifier_stage.

(* the whole pipeline behind ANY simplifier output that is a well-formed reduction: multi-knee model on the reduced
   curve (oracles are functions of the reduction), worst / corner / cluster filters (labels by the C11 model, lower hull
   by the C18 model), mapping *)
Theorem C08_pipeline_closed : forall (N : Num) (n : nat) (simp : option (list nat * list row)) (red : list nat)
    (mkc : mk_cost) (straightR : list nat -> nat -> nat -> T N) (knee1R : list nat -> nat -> nat -> option nat)
    (t1 : T N) (t2 lo : nat) (xo yo : nat -> T N) (tc : T N) (lk : linkage) (tl : T N)
    (sorter : list (T N) -> list nat) (scoreR : list nat -> list nat -> list (T N))
    (sdistR : list nat -> nat -> nat -> T N) (m : fmode) (P : T N -> Prop),
  simp = Some (red, rows red) -> WF n red ->
  knee_in_range (knee1R red) t2 lo (length red) ->
  (forall l, Permutation (sorter l) (seq 0 (length l))) ->
  (is_hull m = false -> forall c, 2 <= length c -> length (scoreR red c) = length c) ->
  TotalPreorderOn P -> (forall i, i < n -> P (yo i)) ->
  exists knees tr k1 k2 k3 out,
    multi_knee mkc (straightR red) (knee1R red) t1 t2 (length red) = Some (knees, tr) /\
    pipeline_closed simp mkc straightR knee1R t1 t2 xo yo tc lk tl sorter scoreR sdistR m = Some out /\
    pipeline_post n red yo knees k1 k2 k3 out /\
    k2 = filter_corner (reduced_points xo yo red) k1 tc /\
    map (fun i => (xo i, yo i)) out = map (Filters.pt (reduced_points xo yo red)) k3.
Proof. exact @pipeline_closed_ok. Qed.
Print Assumptions C08_pipeline_closed.

(* what `closed_post` says about a simplifier output *)
Theorem C08_closed_post_meaning : forall (N : Num) n mkc (straightR : list nat -> nat -> nat -> T N) knee1R t1 t2 xo yo
    tc lk tl sorter scoreR sdistR m simp,
  closed_post n mkc straightR knee1R t1 t2 xo yo tc lk tl sorter scoreR sdistR m simp <->
  exists red knees tr k1 k2 k3 out,
    simp = Some (red, rows red) /\ WF n red /\
    multi_knee mkc (straightR red) (knee1R red) t1 t2 (length red) = Some (knees, tr) /\
    pipeline_closed simp mkc straightR knee1R t1 t2 xo yo tc lk tl sorter scoreR sdistR m = Some out /\
    pipeline_post n red yo knees k1 k2 k3 out /\
    k2 = filter_corner (reduced_points xo yo red) k1 tc /\
    map (fun i => (xo i, yo i)) out = map (Filters.pt (reduced_points xo yo red)) k3.
Proof. exact closed_post_iff. Qed.
Print Assumptions C08_closed_post_meaning.

(* FULLY CLOSED: each simplifier model in front.  Hypotheses left = the oracle-shape hypotheses of C01 / C02 / C12
   (distance arrays have one entry per point; the single-knee oracle answers inside its slice; np.argsort returns a
   permutation; one score per cluster member) + the simplifier's threshold domain + Tier O on the heights. *)
Theorem C08_pipeline_closed_rdp : forall (N : Num) (n : nat) (mkc : mk_cost) (straightR : list nat -> nat -> nat -> T N)
    (knee1R : list nat -> nat -> nat -> option nat) (t1 : T N) (t2 lo : nat) (xo yo : nat -> T N)
    (tc : T N) (lk : linkage) (tl : T N) (sorter : list (T N) -> list nat)
    (scoreR : list nat -> list nat -> list (T N)) (sdistR : list nat -> nat -> nat -> T N) (m : fmode) (P : T N -> Prop),
  (forall red, knee_in_range (knee1R red) t2 lo (length red)) ->
  (forall l, Permutation (sorter l) (seq 0 (length l))) ->
  (is_hull m = false -> forall red c, 2 <= length c -> length (scoreR red c) = length c) ->
  TotalPreorderOn P -> (forall i, i < n -> P (yo i)) ->
  forall dist : nat -> nat -> list (T N),
  2 <= n -> (forall l r, l + 3 <= r -> r <= n -> length (dist l r) = r - l) ->
  forall (segcost : nat -> nat -> T N) (r2 : bool) (t : T N),
  Rdp.curved r2 t (trivial_cost r2) = false ->
  closed_post n mkc straightR knee1R t1 t2 xo yo tc lk tl sorter scoreR sdistR m (drop_vis (rdp dist segcost r2 t n)).
Proof. exact @pipeline_closed_rdp. Qed.
Print Assumptions C08_pipeline_closed_rdp.

Theorem C08_pipeline_closed_rdp_fixed : forall (N : Num) (n : nat) (mkc : mk_cost) (straightR : list nat -> nat -> nat -> T N)
    (knee1R : list nat -> nat -> nat -> option nat) (t1 : T N) (t2 lo : nat) (xo yo : nat -> T N)
    (tc : T N) (lk : linkage) (tl : T N) (sorter : list (T N) -> list nat)
    (scoreR : list nat -> list nat -> list (T N)) (sdistR : list nat -> nat -> nat -> T N) (m : fmode) (P : T N -> Prop),
  (forall red, knee_in_range (knee1R red) t2 lo (length red)) ->
  (forall l, Permutation (sorter l) (seq 0 (length l))) ->
  (is_hull m = false -> forall red c, 2 <= length c -> length (scoreR red c) = length c) ->
  TotalPreorderOn P -> (forall i, i < n -> P (yo i)) ->
  forall dist : nat -> nat -> list (T N),
  2 <= n -> (forall l r, l + 3 <= r -> r <= n -> length (dist l r) = r - l) ->
  forall (eps : T N) (prio : nat -> nat -> T N) (fuel k : nat), n <= fuel ->
  closed_post n mkc straightR knee1R t1 t2 xo yo tc lk tl sorter scoreR sdistR m (rdp_fixed n eps dist prio fuel k).
Proof. exact @pipeline_closed_rdp_fixed. Qed.
Print Assumptions C08_pipeline_closed_rdp_fixed.

Theorem C08_pipeline_closed_grdp : forall (N : Num) (n : nat) (mkc : mk_cost) (straightR : list nat -> nat -> nat -> T N)
    (knee1R : list nat -> nat -> nat -> option nat) (t1 : T N) (t2 lo : nat) (xo yo : nat -> T N)
    (tc : T N) (lk : linkage) (tl : T N) (sorter : list (T N) -> list nat)
    (scoreR : list nat -> list nat -> list (T N)) (sdistR : list nat -> nat -> nat -> T N) (m : fmode) (P : T N -> Prop),
  (forall red, knee_in_range (knee1R red) t2 lo (length red)) ->
  (forall l, Permutation (sorter l) (seq 0 (length l))) ->
  (is_hull m = false -> forall red c, 2 <= length c -> length (scoreR red c) = length c) ->
  TotalPreorderOn P -> (forall i, i < n -> P (yo i)) ->
  forall dist : nat -> nat -> list (T N),
  2 <= n -> (forall l r, l + 3 <= r -> r <= n -> length (dist l r) = r - l) ->
  forall (eps : T N) (prio : nat -> nat -> T N) (gcost : list nat -> T N) (is_r2 : bool) (t : T N) (fuel : nat), n <= fuel ->
  closed_post n mkc straightR knee1R t1 t2 xo yo tc lk tl sorter scoreR sdistR m (grdp n eps dist prio gcost is_r2 t fuel).
Proof. exact @pipeline_closed_grdp. Qed.
Print Assumptions C08_pipeline_closed_grdp.

Theorem C08_pipeline_closed_mp_grdp : forall (N : Num) (n : nat) (mkc : mk_cost) (straightR : list nat -> nat -> nat -> T N)
    (knee1R : list nat -> nat -> nat -> option nat) (t1 : T N) (t2 lo : nat) (xo yo : nat -> T N)
    (tc : T N) (lk : linkage) (tl : T N) (sorter : list (T N) -> list nat)
    (scoreR : list nat -> list nat -> list (T N)) (sdistR : list nat -> nat -> nat -> T N) (m : fmode) (P : T N -> Prop),
  (forall red, knee_in_range (knee1R red) t2 lo (length red)) ->
  (forall l, Permutation (sorter l) (seq 0 (length l))) ->
  (is_hull m = false -> forall red c, 2 <= length c -> length (scoreR red c) = length c) ->
  TotalPreorderOn P -> (forall i, i < n -> P (yo i)) ->
  forall dist : nat -> nat -> list (T N),
  2 <= n -> (forall l r, l + 3 <= r -> r <= n -> length (dist l r) = r - l) ->
  forall (eps : T N) (prio : nat -> nat -> T N) (gcost : list nat -> T N) (is_r2 : bool) (t : T N) (fuel mp : nat), n <= fuel ->
  closed_post n mkc straightR knee1R t1 t2 xo yo tc lk tl sorter scoreR sdistR m (mp_grdp n eps dist prio gcost is_r2 t fuel mp).
Proof. exact @pipeline_closed_mp_grdp. Qed.
Print Assumptions C08_pipeline_closed_mp_grdp.

Theorem C08_pipeline_closed_min_point_rdp : forall (N : Num) (n : nat) (mkc : mk_cost) (straightR : list nat -> nat -> nat -> T N)
    (knee1R : list nat -> nat -> nat -> option nat) (t1 : T N) (t2 lo : nat) (xo yo : nat -> T N)
    (tc : T N) (lk : linkage) (tl : T N) (sorter : list (T N) -> list nat)
    (scoreR : list nat -> list nat -> list (T N)) (sdistR : list nat -> nat -> nat -> T N) (m : fmode) (P : T N -> Prop),
  (forall red, knee_in_range (knee1R red) t2 lo (length red)) ->
  (forall l, Permutation (sorter l) (seq 0 (length l))) ->
  (is_hull m = false -> forall red c, 2 <= length c -> length (scoreR red c) = length c) ->
  TotalPreorderOn P -> (forall i, i < n -> P (yo i)) ->
  forall dist : nat -> nat -> list (T N),
  2 <= n -> (forall l r, l + 3 <= r -> r <= n -> length (dist l r) = r - l) ->
  forall (eps : T N) (prio : nat -> nat -> T N) (gcost : list nat -> T N) (fuel : nat) (ts : list (T N)) (mp : nat), n <= fuel ->
  closed_post n mkc straightR knee1R t1 t2 xo yo tc lk tl sorter scoreR sdistR m (min_point_rdp n eps dist prio gcost fuel ts mp).
Proof. exact @pipeline_closed_min_point_rdp. Qed.
Print Assumptions C08_pipeline_closed_min_point_rdp.

(* binary64 instances (executable stable sort as np.argsort; heights not NaN): rdp.rdp and rdp.rdp_fixed in front *)
Theorem C08_pipeline_closed_rdp_float : forall (n : nat) (mkc : mk_cost) (straightR : list nat -> nat -> nat -> float)
    (knee1R : list nat -> nat -> nat -> option nat) (t1 : float) (t2 lo : nat) (xo yo : nat -> float)
    (tc : float) (lk : linkage) (tl : float) (scoreR : list nat -> list nat -> list float)
    (sdistR : list nat -> nat -> nat -> float) (m : fmode)
    (dist : nat -> nat -> list float) (segcost : nat -> nat -> float) (r2 : bool) (t : float),
  (forall red, knee_in_range (knee1R red) t2 lo (length red)) ->
  (is_hull m = false -> forall red c, 2 <= length c -> length (scoreR red c) = length c) ->
  (forall i, i < n -> f_isnan (yo i) = false) ->
  2 <= n -> (forall l r, l + 3 <= r -> r <= n -> length (dist l r) = r - l) ->
  @Rdp.curved FloatNum r2 t (@trivial_cost FloatNum r2) = false ->
  @closed_post FloatNum n mkc straightR knee1R t1 t2 xo yo tc lk tl (@argsort_stable FloatNum) scoreR sdistR m
    (drop_vis (@rdp FloatNum dist segcost r2 t n)).
Proof. exact pipeline_closed_rdp_float. Qed.
Print Assumptions C08_pipeline_closed_rdp_float.

Theorem C08_pipeline_closed_rdp_fixed_float : forall (n : nat) (mkc : mk_cost) (straightR : list nat -> nat -> nat -> float)
    (knee1R : list nat -> nat -> nat -> option nat) (t1 : float) (t2 lo : nat) (xo yo : nat -> float)
    (tc : float) (lk : linkage) (tl : float) (scoreR : list nat -> list nat -> list float)
    (sdistR : list nat -> nat -> nat -> float) (m : fmode)
    (dist : nat -> nat -> list float) (eps : float) (prio : nat -> nat -> float) (fuel k : nat),
  (forall red, knee_in_range (knee1R red) t2 lo (length red)) ->
  (is_hull m = false -> forall red c, 2 <= length c -> length (scoreR red c) = length c) ->
  (forall i, i < n -> f_isnan (yo i) = false) ->
  2 <= n -> (forall l r, l + 3 <= r -> r <= n -> length (dist l r) = r - l) ->
  n <= fuel ->
  @closed_post FloatNum n mkc straightR knee1R t1 t2 xo yo tc lk tl (@argsort_stable FloatNum) scoreR sdistR m
    (@rdp_fixed FloatNum n eps dist prio fuel k).
Proof. exact pipeline_closed_rdp_fixed_float. Qed.
Print Assumptions C08_pipeline_closed_rdp_fixed_float.

(* non-vacuity of the closed pipeline on doubles: 10-point curve, reduction [0;2;3;5;6;7;9] (reduced curve
   (0,20) (2,11) (3,6) (5,5) (6,2) (7,2.5) (9,0.5)); the single-knee oracle answers the middle of every slice of >= 3 points.
   multi-knee: positions 1,2,3,5; worst-knee keeps all four (heights 11, 6, 5, 2.5); the corner filter at t = 0.33 drops
   position 3 (IoU exactly 0.5; kept IoUs 0.238.., 0.055.., 0.3); single linkage at t = 0.3 on x = 2, 3, 7 labels 0,0,1;
   linear ranking keeps the better-scored member 2 of cluster {1,2} and the singleton 5; mapping gives original indices 3, 7.
   Second line: the filters alone on knees 1..5 (worst-knee drops position 5, height 2.5 > 2), hull ranking. *)
Definition ex_xo := fun i => nth i [0; 1; 2; 3; 4; 5; 6; 7; 8; 9]%float 0%float.
Definition ex_yo := fun i => nth i [20; 12; 11; 6; 7; 5; 2; 2.5; 1; 0.5]%float 0%float.
Definition ex_red := [0; 2; 3; 5; 6; 7; 9].
Definition ex_score (c : list nat) : list float := map (fun k => nth k [0; 0.25; 0.5; 0.125; 0.75; 0.1; 0]%float 0%float) c.
Definition ex_knee1 (red : list nat) (l r : nat) : option nat := if 3 <=? r - l then Some ((r - l) / 2) else None.
Example C08_closed_example :
  WFb 10 ex_red = true /\
  @pipeline_closed FloatNum (Some (ex_red, rows ex_red)) MkSmape (fun _ _ _ => 1%float) ex_knee1 0.5%float 2 ex_xo ex_yo
     0.33%float Single 0.3%float (@argsort_stable FloatNum) (fun _ => ex_score) (fun _ _ _ => 1%float) MLinear = Some [3; 7] /\
  @pipeline_filters FloatNum ex_red (rows ex_red) ex_xo ex_yo [1; 2; 3; 4; 5] 0.33%float Single 0.3%float (@argsort_stable FloatNum)
     ex_score (@graham_scan_lower FloatNum (@reduced_points FloatNum ex_xo ex_yo ex_red)) (fun _ _ => 1%float) MHull = Some [3; 6] /\
  @filter_corner FloatNum (@reduced_points FloatNum ex_xo ex_yo ex_red) [1; 2; 3; 4] 0.33%float = [1; 2; 4] /\
  @corner_rule_b FloatNum (@reduced_points FloatNum ex_xo ex_yo ex_red) 0.33%float [1; 2; 3; 4] [1; 2; 4] = true /\
  @corner_rule_b FloatNum (@reduced_points FloatNum ex_xo ex_yo ex_red) 0.33%float [1; 2; 3; 4] [1; 2; 3; 4] = false /\
  @c11_labels FloatNum Single (map fst (@reduced_points FloatNum ex_xo ex_yo ex_red)) 0.3%float [1; 2; 4] = Some [0; 0; 1].
Proof. vm_compute. repeat split; reflexivity. Qed.
