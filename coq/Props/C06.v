(* Props/C06.v — property C06: global RDP stops at the first refinement whose global cost meets the threshold.
   Only statements, each closed by `exact`, with its assumptions printed.  Model: Model/RdpFixed.v
   (rdp._grdp / grdp / mp_grdp / min_point_rdp); dist, prio, gcost are ORACLES (any valuation, NaN included).
   All Tier S.  `curved is_r2 t c` is the code's own test (c < t for R2, c >= t otherwise): the accepting side
   of t is `curved = false`. *)
From Coq Require Import ZArith List Arith Bool PrimFloat.
From Knee Require Import Num NpList Model.Mapping Model.RdpFixed Model.RdpFixedSpec
     Proofs.ListFacts Proofs.MappingFacts Proofs.RdpFixedFacts Proofs.RdpFixedBool Run.JudgeC05 Run.JudgeC06.
Import ListNotations.

(* grdp = S_{k*}: k* the least k in [2,n] whose fixed-size result S_k is on the accepting side of t, else n (all points) *)
Theorem C06_grdp_first_accepting : forall (N : Num) n (eps : T N) dist prio gcost,
  2 <= n -> (forall l r, l + 3 <= r -> r <= n -> length (dist l r) = r - l) ->
  forall is_r2 t fuel, n <= fuel ->
  exists k,
    (2 <= k <= n /\
     (forall j, 2 <= j < k -> curved is_r2 t (gcost (red_of (rdp_fixed n eps dist prio fuel j))) = true) /\
     (curved is_r2 t (gcost (red_of (rdp_fixed n eps dist prio fuel k))) = false \/ k = n)) /\
    grdp n eps dist prio gcost is_r2 t fuel = rdp_fixed n eps dist prio fuel k.
Proof. exact @grdp_first_accepting_stmt. Qed.
Print Assumptions C06_grdp_first_accepting.

(* mp_grdp = S_{max(k*, min(m, n))} *)
Theorem C06_mp_grdp_spec : forall (N : Num) n (eps : T N) dist prio gcost,
  2 <= n -> (forall l r, l + 3 <= r -> r <= n -> length (dist l r) = r - l) ->
  forall is_r2 t fuel m, n <= fuel ->
  exists k,
    (2 <= k <= n /\
     (forall j, 2 <= j < k -> curved is_r2 t (gcost (red_of (rdp_fixed n eps dist prio fuel j))) = true) /\
     (curved is_r2 t (gcost (red_of (rdp_fixed n eps dist prio fuel k))) = false \/ k = n)) /\
    mp_grdp n eps dist prio gcost is_r2 t fuel m = rdp_fixed n eps dist prio fuel (Nat.max k (Nat.min m n)).
Proof. exact @mp_grdp_spec_stmt. Qed.
Print Assumptions C06_mp_grdp_spec.

(* ... and that k* is unique, so both theorems speak about the same index *)
Theorem C06_first_accepting_unique : forall (N : Num) n (eps : T N) dist prio gcost,
  2 <= n -> forall is_r2 t fuel k k',
  first_acc_k n eps dist prio gcost is_r2 t fuel k -> first_acc_k n eps dist prio gcost is_r2 t fuel k' -> k = k'.
Proof. exact @first_acc_k_unique. Qed.
Print Assumptions C06_first_accepting_unique.

(* min_point_rdp: thresholds in descending order; the first whose global-RDP result has >= m indices, else rdp_fixed m *)
Theorem C06_min_point_rdp_spec : forall (N : Num) n (eps : T N) dist prio gcost,
  2 <= n -> (forall l r, l + 3 <= r -> r <= n -> length (dist l r) = r - l) ->
  forall fuel ts m, n <= fuel ->
  min_point_rdp n eps dist prio gcost fuel ts m =
    match find (fun o => m <=? length (red_of o))
               (map (fun t => grdp n eps dist prio gcost false t fuel) (sort_desc ts)) with
    | Some o => o
    | None => rdp_fixed n eps dist prio fuel m
    end.
Proof. exact @min_point_rdp_spec_stmt. Qed.
Print Assumptions C06_min_point_rdp_spec.

(* every one of them returns within fuel n with a well-formed reduction and its removed table (C01, fixed family) *)
Theorem C06_grdp_total : forall (N : Num) n (eps : T N) dist prio,
  2 <= n -> (forall l r, l + 3 <= r -> r <= n -> length (dist l r) = r - l) ->
  forall gcost is_r2 t fuel, n <= fuel ->
  exists red, grdp n eps dist prio gcost is_r2 t fuel = Some (red, rows red) /\ WF n red.
Proof. exact @grdp_total. Qed.
Print Assumptions C06_grdp_total.

(* the boolean predicates the correspondence run judges the implementation with (Model/RdpFixedSpec.v) are true of the
   model's outputs, for every oracle valuation: chain = the model's own fixed-size chain [S_2; ...; S_n] *)
Theorem C06_grdp_ok_model : forall (N : Num) n (eps : T N) dist prio gcost,
  2 <= n -> (forall l r, l + 3 <= r -> r <= n -> length (dist l r) = r - l) ->
  forall is_r2 t fuel, n <= fuel ->
  grdp_ok gcost is_r2 t (RdpFixedBool.model_chain n eps dist prio fuel) (grdp n eps dist prio gcost is_r2 t fuel) = true.
Proof. exact @grdp_ok_model. Qed.
Print Assumptions C06_grdp_ok_model.
Theorem C06_mp_grdp_ok_model : forall (N : Num) n (eps : T N) dist prio gcost,
  2 <= n -> (forall l r, l + 3 <= r -> r <= n -> length (dist l r) = r - l) ->
  forall is_r2 t fuel m, n <= fuel ->
  mp_grdp_ok n gcost is_r2 t m (RdpFixedBool.model_chain n eps dist prio fuel) (mp_grdp n eps dist prio gcost is_r2 t fuel m) = true.
Proof. exact @mp_grdp_ok_model. Qed.
Print Assumptions C06_mp_grdp_ok_model.
Theorem C06_min_point_ok_model : forall (N : Num) n (eps : T N) dist prio gcost,
  2 <= n -> (forall l r, l + 3 <= r -> r <= n -> length (dist l r) = r - l) ->
  forall ts fuel m, n <= fuel ->
  min_point_ok n gcost false ts m (RdpFixedBool.model_chain n eps dist prio fuel) (min_point_rdp n eps dist prio gcost fuel ts m) = true.
Proof. exact @min_point_ok_model. Qed.
Print Assumptions C06_min_point_ok_model.

(* non-vacuity: the curve [[0,3],[1,1],[2,2],[3,2],[4,1],[5,3]] with the default configuration (shortest, segment, smape):
   tables = the library's primitives (priorities derived from the residual table), the chain and the query outputs are what the implementation returned; thresholds
   include exact ties with observed global costs (which are not monotone along the chain here).  judge = 0: the model
   reproduces every output and the predicates hold. *)
Example C06_example :
  judge (CG 6%nat false OSegment [(0x0.0p+0%float, 0x1.8000000000000p+1%float); (0x1.0000000000000p+0%float, 0x1.0000000000000p+0%float); (0x1.0000000000000p+1%float, 0x1.0000000000000p+1%float); (0x1.8000000000000p+1%float, 0x1.0000000000000p+1%float); (0x1.0000000000000p+2%float, 0x1.0000000000000p+0%float); (0x1.4000000000000p+2%float, 0x1.8000000000000p+1%float)] [((0%nat, 3%nat), [0x0.0p+0%float; 0x1.5775c544ff263p+0%float; 0x0.0p+0%float]); ((0%nat, 4%nat), [0x0.0p+0%float; 0x1.94c583ada5b52p+0%float; 0x1.43d136248490ep-2%float; 0x0.0p+0%float]); ((0%nat, 5%nat), [0x0.0p+0%float; 0x1.5775c544ff263p+0%float; 0x0.0p+0%float; 0x1.c9f25c5bfeddap-2%float; 0x0.0p+0%float]); ((0%nat, 6%nat), [0x0.0p+0%float; 0x1.0000000000000p+1%float; 0x1.0000000000000p+0%float; 0x1.0000000000000p+0%float; 0x1.0000000000000p+1%float; 0x0.0p+0%float]); ((1%nat, 4%nat), [0x0.0p+0%float; 0x1.c9f25c5bfedd9p-2%float; 0x0.0p+0%float]); ((1%nat, 5%nat), [0x0.0p+0%float; 0x1.0000000000000p+0%float; 0x1.0000000000000p+0%float; 0x0.0p+0%float]); ((1%nat, 6%nat), [0x0.0p+0%float; 0x1.c9f25c5bfedd9p-2%float; 0x0.0p+0%float; 0x1.5775c544ff263p+0%float; 0x0.0p+0%float]); ((2%nat, 5%nat), [0x0.0p+0%float; 0x1.c9f25c5bfedd9p-2%float; 0x0.0p+0%float]); ((2%nat, 6%nat), [0x0.0p+0%float; 0x1.43d136248490fp-2%float; 0x1.94c583ada5b52p+0%float; 0x0.0p+0%float]); ((3%nat, 6%nat), [0x0.0p+0%float; 0x1.5775c544ff263p+0%float; 0x0.0p+0%float])] [] [((0%nat, 3%nat), 0x1.2000000000000p+1%float); ((0%nat, 4%nat), 0x1.71c71c71c71c6p+1%float); ((0%nat, 5%nat), 0x1.4000000000000p+1%float); ((1%nat, 4%nat), 0x1.0000000000000p-2%float); ((1%nat, 5%nat), 0x1.0000000000000p+1%float); ((1%nat, 6%nat), 0x1.4000000000000p+1%float); ((2%nat, 5%nat), 0x1.0000000000000p-2%float); ((2%nat, 6%nat), 0x1.71c71c71c71c9p+1%float); ((3%nat, 6%nat), 0x1.2000000000000p+1%float)] [([0%nat; 5%nat], 0x1.dddddddddddddp-2%float); ([0%nat; 1%nat; 5%nat], 0x1.4e5e0a72f0539p-3%float); ([0%nat; 1%nat; 4%nat; 5%nat], 0x1.5555555555555p-3%float); ([0%nat; 1%nat; 2%nat; 4%nat; 5%nat], 0x1.0410410410410p-5%float); ([0%nat; 1%nat; 2%nat; 3%nat; 4%nat; 5%nat], 0x0.0p+0%float)] [[0%nat; 5%nat]; [0%nat; 1%nat; 5%nat]; [0%nat; 1%nat; 4%nat; 5%nat]; [0%nat; 1%nat; 2%nat; 4%nat; 5%nat]; [0%nat; 1%nat; 2%nat; 3%nat; 4%nat; 5%nat]] [QGrdp 0x1.ddddddddddddep-2%float (Some ([0%nat; 5%nat], [(0%nat, 4%nat)])); QMp 0x1.ddddddddddddep-2%float 3%nat (Some ([0%nat; 1%nat; 5%nat], [(0%nat, 0%nat); (1%nat, 3%nat)])); QMp 0x1.ddddddddddddep-2%float 5%nat (Some ([0%nat; 1%nat; 2%nat; 4%nat; 5%nat], [(0%nat, 0%nat); (1%nat, 0%nat); (2%nat, 1%nat); (4%nat, 0%nat)])); QGrdp 0x1.5555555555555p-3%float (Some ([0%nat; 1%nat; 5%nat], [(0%nat, 0%nat); (1%nat, 3%nat)])); QMp 0x1.5555555555555p-3%float 4%nat (Some ([0%nat; 1%nat; 4%nat; 5%nat], [(0%nat, 0%nat); (1%nat, 2%nat); (4%nat, 0%nat)])); QMin [0x1.4e5e0a72f0538p-3%float; 0x1.0000000000000p-1%float; 0x1.0000000000000p-1%float; 0x1.5555555555555p-3%float; 0x0.0000000000001p-1022%float] 2%nat (Some ([0%nat; 5%nat], [(0%nat, 4%nat)])); QMin [0x1.4e5e0a72f0538p-3%float] 2%nat (Some ([0%nat; 1%nat; 2%nat; 4%nat; 5%nat], [(0%nat, 0%nat); (1%nat, 0%nat); (2%nat, 1%nat); (4%nat, 0%nat)])); QMin [0x1.5555555555554p-3%float; 0x1.5555555555554p-3%float] 2%nat (Some ([0%nat; 1%nat; 5%nat], [(0%nat, 0%nat); (1%nat, 3%nat)]))]) = 0%Z.
Proof. vm_compute. reflexivity. Qed.
(* same-object stream: three configurations with different metrics queried one after the other on one array object *)
Example C06_example_seq :
  judge (CSeq [PG 5%nat false OSegment [(0x0.0p+0%float, 0x1.0000000000000p+2%float); (0x1.0000000000000p+0%float, 0x1.8000000000000p+2%float); (0x1.0000000000000p+1%float, 0x0.0p+0%float); (0x1.8000000000000p+1%float, 0x1.0000000000000p+0%float); (0x1.0000000000000p+2%float, 0x0.0p+0%float)] [((0%nat, 5%nat), [0x0.0p+0%float; 0x1.1e3779b97f4a7p+1%float; 0x1.6a09e667f3bccp+0%float; 0x0.0p+0%float; 0x0.0p+0%float]); ((1%nat, 5%nat), [0x0.0p+0%float; 0x1.c9f25c5bfeddap+0%float; 0x1.c9f25c5bfeddcp-2%float; 0x0.0p+0%float]); ((2%nat, 5%nat), [0x0.0p+0%float; 0x1.0000000000000p+0%float; 0x0.0p+0%float])] [] [((1%nat, 5%nat), 0x1.1000000000000p+4%float); ((2%nat, 5%nat), 0x1.0000000000000p+0%float)] [([0%nat; 4%nat], 0x1.fc6c495f85237p+52%float); ([0%nat; 1%nat; 4%nat], 0x1.d01fe3eaa494cp+53%float); ([0%nat; 1%nat; 2%nat; 4%nat], 0x1.83091e6a7f7e6p-2%float); ([0%nat; 1%nat; 2%nat; 3%nat; 4%nat], 0x0.0p+0%float)] [[0%nat; 4%nat]; [0%nat; 1%nat; 4%nat]; [0%nat; 1%nat; 2%nat; 4%nat]; [0%nat; 1%nat; 2%nat; 3%nat; 4%nat]] [QGrdp 0x1.0624dd2f1a9fcp-10%float (Some ([0%nat; 1%nat; 2%nat; 3%nat; 4%nat], [(0%nat, 0%nat); (1%nat, 0%nat); (2%nat, 0%nat); (3%nat, 0%nat)])); QMp 0x1.0624dd2f1a9fcp-10%float 4%nat (Some ([0%nat; 1%nat; 2%nat; 3%nat; 4%nat], [(0%nat, 0%nat); (1%nat, 0%nat); (2%nat, 0%nat); (3%nat, 0%nat)])); QGrdp 0x1.d01fe3eaa494dp+53%float (Some ([0%nat; 4%nat], [(0%nat, 3%nat)])); QMp 0x1.d01fe3eaa494dp+53%float 3%nat (Some ([0%nat; 1%nat; 4%nat], [(0%nat, 0%nat); (1%nat, 2%nat)]))]; PG 5%nat false OSegment [(0x0.0p+0%float, 0x1.0000000000000p+2%float); (0x1.0000000000000p+0%float, 0x1.8000000000000p+2%float); (0x1.0000000000000p+1%float, 0x0.0p+0%float); (0x1.8000000000000p+1%float, 0x1.0000000000000p+0%float); (0x1.0000000000000p+2%float, 0x0.0p+0%float)] [((0%nat, 5%nat), [0x0.0p+0%float; 0x1.1e3779b97f4a7p+1%float; 0x1.6a09e667f3bccp+0%float; 0x0.0p+0%float; 0x0.0p+0%float]); ((1%nat, 5%nat), [0x0.0p+0%float; 0x1.c9f25c5bfeddap+0%float; 0x1.c9f25c5bfeddcp-2%float; 0x0.0p+0%float]); ((2%nat, 5%nat), [0x0.0p+0%float; 0x1.0000000000000p+0%float; 0x0.0p+0%float])] [] [((1%nat, 5%nat), 0x1.1000000000000p+4%float); ((2%nat, 5%nat), 0x1.0000000000000p+0%float)] [([0%nat; 4%nat], 0x1.1111111111111p-1%float); ([0%nat; 1%nat; 4%nat], 0x1.c71c71c71c71cp-2%float); ([0%nat; 1%nat; 2%nat; 4%nat], 0x1.2492492492492p-2%float); ([0%nat; 1%nat; 2%nat; 3%nat; 4%nat], 0x0.0p+0%float)] [[0%nat; 4%nat]; [0%nat; 1%nat; 4%nat]; [0%nat; 1%nat; 2%nat; 4%nat]; [0%nat; 1%nat; 2%nat; 3%nat; 4%nat]] [QMp 0x1.2492492492493p-2%float 1%nat (Some ([0%nat; 1%nat; 2%nat; 4%nat], [(0%nat, 0%nat); (1%nat, 0%nat); (2%nat, 1%nat)])); QGrdp 0x1.c71c71c71c71cp-2%float (Some ([0%nat; 1%nat; 2%nat; 4%nat], [(0%nat, 0%nat); (1%nat, 0%nat); (2%nat, 1%nat)])); QMp 0x1.c71c71c71c71cp-2%float 0%nat (Some ([0%nat; 1%nat; 2%nat; 4%nat], [(0%nat, 0%nat); (1%nat, 0%nat); (2%nat, 1%nat)])); QGrdp 0x1.2492492492493p-2%float (Some ([0%nat; 1%nat; 2%nat; 4%nat], [(0%nat, 0%nat); (1%nat, 0%nat); (2%nat, 1%nat)])); QMin [0x1.0000000000000p-1%float; 0x1.47ae147ae147bp-7%float; 0x1.999999999999ap-4%float; 0x1.a36e2eb1c432dp-14%float; 0x1.0000000000000p-1%float] 6%nat (Some ([0%nat; 1%nat; 2%nat; 3%nat; 4%nat], [(0%nat, 0%nat); (1%nat, 0%nat); (2%nat, 0%nat); (3%nat, 0%nat)]))]; PG 5%nat true OArea [(0x0.0p+0%float, 0x1.0000000000000p+2%float); (0x1.0000000000000p+0%float, 0x1.8000000000000p+2%float); (0x1.0000000000000p+1%float, 0x0.0p+0%float); (0x1.8000000000000p+1%float, 0x1.0000000000000p+0%float); (0x1.0000000000000p+2%float, 0x0.0p+0%float)] [((0%nat, 5%nat), [0x0.0p+0%float; 0x1.0f876ccdf6cd9p+1%float; 0x1.6a09e667f3bccp+0%float; 0x0.0p+0%float; 0x0.0p+0%float]); ((1%nat, 5%nat), [0x0.0p+0%float; 0x1.c9f25c5bfedd9p+0%float; 0x1.c9f25c5bfedd9p-2%float; 0x0.0p+0%float]); ((2%nat, 5%nat), [0x0.0p+0%float; 0x1.0000000000000p+0%float; 0x0.0p+0%float])] [] [] [([0%nat; 4%nat], 0x1.18e38e38e38e4p-1%float); ([0%nat; 1%nat; 4%nat], 0x1.a38e38e38e38ep-2%float); ([0%nat; 1%nat; 2%nat; 4%nat], 0x1.ee38e38e38e39p-1%float); ([0%nat; 1%nat; 2%nat; 3%nat; 4%nat], 0x1.0000000000000p+0%float)] [[0%nat; 4%nat]; [0%nat; 1%nat; 4%nat]; [0%nat; 1%nat; 2%nat; 4%nat]; [0%nat; 1%nat; 2%nat; 3%nat; 4%nat]] [QMp 0x1.ee38e38e38e3ap-1%float 3%nat (Some ([0%nat; 1%nat; 2%nat; 3%nat; 4%nat], [(0%nat, 0%nat); (1%nat, 0%nat); (2%nat, 0%nat); (3%nat, 0%nat)])); QGrdp 0x1.18e38e38e38e4p-1%float (Some ([0%nat; 4%nat], [(0%nat, 3%nat)])); QGrdp 0x1.ee38e38e38e3ap-1%float (Some ([0%nat; 1%nat; 2%nat; 3%nat; 4%nat], [(0%nat, 0%nat); (1%nat, 0%nat); (2%nat, 0%nat); (3%nat, 0%nat)])); QMp 0x1.18e38e38e38e4p-1%float 2%nat (Some ([0%nat; 4%nat], [(0%nat, 3%nat)]))]]) = 0%Z.
Proof. vm_compute. reflexivity. Qed.
