(* Props/C06.v — property C06: global RDP stops at the first refinement whose global cost meets the threshold.
   Only statements, each closed by `exact`, with its assumptions printed.  Model: Model/RdpFixed.v
   (rdp._grdp / grdp / mp_grdp / min_point_rdp); dist, prio, gcost are ORACLES (any valuation, NaN included).
   All Tier S.  `curved is_r2 t c` is the code's own test (c < t for R2, c >= t otherwise): the accepting side
   of t is `curved = false`. *)
From Coq Require Import List Arith Bool.
From Knee Require Import Num NpList Model.Mapping Model.RdpFixed Model.RdpFixedSpec
     Proofs.ListFacts Proofs.MappingFacts Proofs.RdpFixedFacts.
Import ListNotations.

(* grdp = S_{k*}: k* the least k in [2,n] whose fixed-size result S_k is on the accepting side of t, else n (all points) *)
Theorem C06_grdp_first_accepting : forall (N : Num) n (eps : T N) dist prio gcost,
  2 <= n -> (forall l r, l + 3 <= r -> r <= n -> length (dist l r) = r - l) ->
  forall is_r2 t fuel, n <= fuel ->
  exists k,
    (2 <= k <= n /\
     (forall j, 2 <= j < k -> curved is_r2 t (gcost (red_of (rdp_fixed n eps dist prio fuel j))) = true) /\
     (curved is_r2 t (gcost (red_of (rdp_fixed n eps dist prio fuel k))) = false \/ k = n)) /\
    grdp n eps dist prio gcost is_r2 t fuel = rdp_fixed n eps dist prio fuel k.
Proof. exact @grdp_first_accepting_stmt. Qed.
Print Assumptions C06_grdp_first_accepting.

(* mp_grdp = S_{max(k*, min(m, n))} *)
Theorem C06_mp_grdp_spec : forall (N : Num) n (eps : T N) dist prio gcost,
  2 <= n -> (forall l r, l + 3 <= r -> r <= n -> length (dist l r) = r - l) ->
  forall is_r2 t fuel m, n <= fuel ->
  exists k,
    (2 <= k <= n /\
     (forall j, 2 <= j < k -> curved is_r2 t (gcost (red_of (rdp_fixed n eps dist prio fuel j))) = true) /\
     (curved is_r2 t (gcost (red_of (rdp_fixed n eps dist prio fuel k))) = false \/ k = n)) /\
    mp_grdp n eps dist prio gcost is_r2 t fuel m = rdp_fixed n eps dist prio fuel (Nat.max k (Nat.min m n)).
Proof. exact @mp_grdp_spec_stmt. Qed.
Print Assumptions C06_mp_grdp_spec.

(* ... and that k* is unique, so both theorems speak about the same index *)
Theorem C06_first_accepting_unique : forall (N : Num) n (eps : T N) dist prio gcost,
  2 <= n -> forall is_r2 t fuel k k',
  first_acc_k n eps dist prio gcost is_r2 t fuel k -> first_acc_k n eps dist prio gcost is_r2 t fuel k' -> k = k'.
Proof. exact @first_acc_k_unique. Qed.
Print Assumptions C06_first_accepting_unique.

(* min_point_rdp: thresholds in descending order; the first whose global-RDP result has >= m indices, else rdp_fixed m *)
Theorem C06_min_point_rdp_spec : forall (N : Num) n (eps : T N) dist prio gcost,
  2 <= n -> (forall l r, l + 3 <= r -> r <= n -> length (dist l r) = r - l) ->
  forall fuel ts m, n <= fuel ->
  min_point_rdp n eps dist prio gcost fuel ts m =
    match find (fun o => m <=? length (red_of o))
               (map (fun t => grdp n eps dist prio gcost false t fuel) (sort_desc ts)) with
    | Some o => o
    | None => rdp_fixed n eps dist prio fuel m
    end.
Proof. exact @min_point_rdp_spec_stmt. Qed.
Print Assumptions C06_min_point_rdp_spec.

(* every one of them returns within fuel n with a well-formed reduction and its removed table (C01, fixed family) *)
Theorem C06_grdp_total : forall (N : Num) n (eps : T N) dist prio,
  2 <= n -> (forall l r, l + 3 <= r -> r <= n -> length (dist l r) = r - l) ->
  forall gcost is_r2 t fuel, n <= fuel ->
  exists red, grdp n eps dist prio gcost is_r2 t fuel = Some (red, rows red) /\ WF n red.
Proof. exact @grdp_total. Qed.
Print Assumptions C06_grdp_total.
