(* Props/C18.v — property C18: the convex-hull routines return the true hull.
   Only statements, each closed by `exact`, with its assumptions printed. *)
From Coq Require Import Reals ZArith List Arith Bool Permutation Sorted PrimFloat.
From Knee Require Import Num NumFloat NumR NpList Model.Hull Model.HullExact Proofs.ListFacts Proofs.HullScan Proofs.HullFacts Proofs.HullCorrect Proofs.HullExactFacts Proofs.HullGraham Proofs.HullGrahamFull.
Import ListNotations.

(* ---- Tier S: every Num, every orientation oracle cc (so: the doubles _ccw really computes, NaN included) *)

(* chain_shape: graham_scan_lower / graham_scan_upper return a strictly increasing index chain from 0 to n-1
   (the model is structurally recursive: termination and "the bottom of the stack is never popped" are built in) *)
Theorem C18_chain_shape_lower : forall (N : Num) (cc : nat -> nat -> nat -> T N) n,
  2 <= n -> chainb n (lower_with cc n) = true.
Proof. exact @chain_shape_lower. Qed.
Print Assumptions C18_chain_shape_lower.

Theorem C18_chain_shape_upper : forall (N : Num) (cc : nat -> nat -> nat -> T N) n,
  2 <= n -> chainb n (upper_with cc n) = true.
Proof. exact @chain_shape_upper. Qed.
Print Assumptions C18_chain_shape_upper.

(* chain_turns: every consecutive triple of the returned chain fails the code's own pop test
   (`_ccw(a, b, c) <= 0`, resp. `_ccw(c, b, a) <= 0`): the chain turns strictly *)
Theorem C18_chain_turns_lower : forall (N : Num) (cc : nat -> nat -> nat -> T N) n,
  2 <= n -> turnsb (lower_test cc) (lower_with cc n) = true.
Proof. exact @chain_turns_lower. Qed.
Print Assumptions C18_chain_turns_lower.

Theorem C18_chain_turns_upper : forall (N : Num) (cc : nat -> nat -> nat -> T N) n,
  2 <= n -> turnsb (upper_test cc) (upper_with cc n) = true.
Proof. exact @chain_turns_upper. Qed.
Print Assumptions C18_chain_turns_upper.

(* graham_total, for EVERY arrangement sp of the indices (hence for whatever order the comparator sort
   produces): the stack scan completes, never underflows, and returns a duplicate-free subsequence of sp from
   sp[0] to sp[-1] in which every triple pushed by the loop failed the `>= 0` pop test *)
Theorem C18_graham_with_total : forall (N : Num) (cc : nat -> nat -> nat -> T N) sp,
  NoDup sp -> 3 <= length sp ->
  let out := graham_with cc sp in
  (exists pos, SI pos /\ Forall (fun p => p < length sp) pos /\ out = map (fun p => nth p sp 0) pos)
  /\ NoDup out /\ incl out sp /\ hd 0 out = hd 0 sp /\ last out 0 = last sp 0 /\ 2 <= length out
  /\ turnsb (gtest cc) (tl out) = true.
Proof. exact @graham_with_total. Qed.
Print Assumptions C18_graham_with_total.

(* graham_total, closed model: on >= 3 pairwise distinct rows graham_scan completes for every distance oracle *)
Theorem C18_graham_total : forall (N : Num) (pts : list (@pt N)) (dist : nat -> T N),
  distinctb pts = true -> 3 <= length pts ->
  exists sp out, graham_sorted pts dist = Some sp /\ Permutation sp (seq 0 (length pts)) /\
    graham_scan pts dist = Some out /\ out = graham_with (ccw_idx pts) sp /\
    graham_structb pts out = true /\ turnsb (gtest (ccw_idx pts)) (tl out) = true.
Proof. exact @graham_total. Qed.
Print Assumptions C18_graham_total.

(* ---- Tier A: real arithmetic (ccw := the cross product of _ccw evaluated on RNum), strictly increasing x *)

(* lower_hull_correct: the returned chain is a strictly increasing chain 0..n-1, every point lies on or above the
   chain edge spanning it, consecutive edges turn strictly counter-clockwise, and the chain IS the brute-force
   hull chain (the indices that are strictly below every segment spanning them) *)
Theorem C18_lower_hull_correct : forall pts : list (R * R),
  @x_increasing RNum pts = true -> 2 <= length pts ->
  @lower_geomb RNum pts (@graham_scan_lower RNum pts) = true.
Proof. exact lower_hull_correct. Qed.
Print Assumptions C18_lower_hull_correct.

(* ... and it is the unique strictly convex chain with every point on or above it *)
Theorem C18_lower_hull_unique : forall (pts : list (R * R)) out,
  @x_increasing RNum pts = true -> 2 <= length pts ->
  chainb (length pts) out = true -> @coversb RNum (@nonneg RNum) pts out = true ->
  @convexb RNum (@pos RNum) pts out = true -> out = @graham_scan_lower RNum pts.
Proof. exact lower_hull_unique. Qed.
Print Assumptions C18_lower_hull_unique.

(* upper hull: on or below, strictly clockwise *)
Theorem C18_upper_hull_correct : forall pts : list (R * R),
  @x_increasing RNum pts = true -> 2 <= length pts ->
  @upper_geomb RNum pts (@graham_scan_upper RNum pts) = true.
Proof. exact upper_hull_correct. Qed.
Print Assumptions C18_upper_hull_correct.

Theorem C18_upper_hull_unique : forall (pts : list (R * R)) out,
  @x_increasing RNum pts = true -> 2 <= length pts ->
  chainb (length pts) out = true -> @coversb RNum (@nonpos RNum) pts out = true ->
  @convexb RNum (@negt RNum) pts out = true -> out = @graham_scan_upper RNum pts.
Proof. exact upper_hull_unique. Qed.
Print Assumptions C18_upper_hull_unique.

(* the judge evaluates the geometric predicates in exact integer arithmetic (binary64 coordinates scaled by a power
   of two): that evaluation IS the real-number predicate of the theorems above on the same points *)
Theorem C18_lower_geomb_exact : forall (zpts : list (Z * Z)) out,
  @lower_geomb ZNum zpts out = @lower_geomb RNum (map IZRp zpts) out.
Proof. exact lower_geomb_exact. Qed.
Print Assumptions C18_lower_geomb_exact.

Theorem C18_upper_geomb_exact : forall (zpts : list (Z * Z)) out,
  @upper_geomb ZNum zpts out = @upper_geomb RNum (map IZRp zpts) out.
Proof. exact upper_geomb_exact. Qed.
Print Assumptions C18_upper_geomb_exact.

(* hence on integer (= dyadic) coordinates the EXACT model returns the true hull chain *)
Theorem C18_lower_hull_correct_exact : forall zpts : list (Z * Z),
  @x_increasing ZNum zpts = true -> 2 <= length zpts ->
  @lower_geomb ZNum zpts (@graham_scan_lower ZNum zpts) = true.
Proof. exact lower_hull_correct_exact. Qed.
Print Assumptions C18_lower_hull_correct_exact.

Theorem C18_upper_hull_correct_exact : forall zpts : list (Z * Z),
  @x_increasing ZNum zpts = true -> 2 <= length zpts ->
  @upper_geomb ZNum zpts (@graham_scan_upper ZNum zpts) = true.
Proof. exact upper_hull_correct_exact. Qed.
Print Assumptions C18_upper_hull_correct_exact.

(* graham_general_position: real arithmetic, >= 3 pairwise distinct points, no three collinear, EVERY distance oracle:
   graham_scan completes and graham_gpb holds of its result, i.e. the returned indices are exactly the extreme vertices of
   the convex hull (brute force: a supporting line through the point and another input point, and not strictly between
   two input points), the first is the pivot the code selects, and the closed polygon turns strictly clockwise *)
Theorem C18_graham_general_position : forall (pts : list (R * R)) (dist : nat -> R),
  @distinctb RNum pts = true -> @general_positionb RNum pts = true -> 3 <= length pts ->
  exists out, @graham_scan RNum pts dist = Some out /\ @graham_gpb RNum pts out = true.
Proof. exact graham_general_position. Qed.
Print Assumptions C18_graham_general_position.

(* ... with the structure behind it: the pivot is the lexicographically smallest point (leftmost, then lowest), the
   comparator sort arranges the other points strictly clockwise around it, the result is a subsequence of that
   arrangement, and all its consecutive triples turn strictly clockwise *)
Theorem C18_graham_angular_structure : forall (pts : list (R * R)) (dist : nat -> R),
  @distinctb RNum pts = true -> @general_positionb RNum pts = true -> 3 <= length pts ->
  exists sp out, @graham_sorted RNum pts dist = Some sp /\ @graham_scan RNum pts dist = Some out /\
    let p0 := @pivot_min RNum pts in
    hd 0 sp = p0 /\ hd 0 out = p0 /\
    (forall j, j < length pts -> ~ lexlt (nth j pts (0%R, 0%R)) (nth p0 pts (0%R, 0%R))) /\
    StronglySorted (fun i j => (@ccw_idx RNum pts p0 i j < 0)%R) (tl sp) /\
    (exists pos, SI pos /\ out = map (fun p => nth p sp 0) pos) /\
    tripb (fun a b c => @negt RNum (@ccw_idx RNum pts a b c)) out = true.
Proof. exact graham_general_position_partial. Qed.
Print Assumptions C18_graham_angular_structure.

(* The degenerate-input clause of graham_scan ("every extreme vertex is returned and only boundary points are", collinear
   triples allowed) is NOT a theorem here: C18_graham_total gives its structural part (completes, valid indices, no
   duplicates, from the pivot), and graham_degenb is evaluated per case against the brute-force hull inside Coq
   (conjunct 3 of Run/JudgeC18.judge, exact integer arithmetic) — a test, labelled as such.  Full statement:
     forall pts dist, distinctb pts = true -> 3 <= length pts -> (dist orders collinear points by distance from the pivot) ->
       exists out, graham_scan pts dist = Some out /\ graham_degenb pts out = true.                                   *)

(* the judge's exact-integer evaluation of the graham_scan predicates is their real-number value on the same points *)
Theorem C18_graham_gpb_exact : forall (zpts : list (Z * Z)) out,
  @graham_gpb ZNum zpts out = @graham_gpb RNum (map IZRp zpts) out.
Proof. exact graham_gpb_exact. Qed.
Print Assumptions C18_graham_gpb_exact.

Theorem C18_general_positionb_exact : forall zpts : list (Z * Z),
  @general_positionb ZNum zpts = @general_positionb RNum (map IZRp zpts).
Proof. exact general_positionb_exact. Qed.
Print Assumptions C18_general_positionb_exact.

Theorem C18_distinctb_exact : forall zpts : list (Z * Z),
  @distinctb ZNum zpts = @distinctb RNum (map IZRp zpts).
Proof. exact distinctb_exact. Qed.
Print Assumptions C18_distinctb_exact.

(* non-vacuity: concrete inputs meeting the hypotheses, evaluated (exact integers / doubles) *)
Example C18_example_chain :
  let pts : list (@pt ZNum) := [(0, 3); (1, 1); (2, 2); (3, 0); (4, 0); (5, 4)]%Z in
  @x_increasing ZNum pts = true /\
  @graham_scan_lower ZNum pts = [0; 1; 3; 4; 5] /\ @lower_geomb ZNum pts [0; 1; 3; 4; 5] = true /\
  @graham_scan_upper ZNum pts = [0; 5] /\ @upper_geomb ZNum pts [0; 5] = true /\
  @lower_geomb ZNum pts [0; 3; 4; 5] = false.
Proof. vm_compute. repeat split. Qed.
Example C18_example_graham :
  let pts : list (@pt FloatNum) := [(1, 1); (0, 0); (2, 2); (0, 2); (2, 0); (1, 0); (0, 1)]%float in
  @distinctb FloatNum pts = true /\
  @graham_scan FloatNum pts (fun i => nth i [0x1.6a09e667f3bcdp+0; 0; 0x1.6a09e667f3bcdp+1; 2; 2; 1; 1]%float 0%float)
    = Some [1; 6; 3; 2; 4].
Proof. vm_compute. repeat split. Qed.
