(* Props/C18.v — property C18: the convex-hull routines return the true hull.
   Only statements, each closed by `exact`, with its assumptions printed. *)
From Coq Require Import List Arith Bool Permutation.
From Knee Require Import Num NumFloat NpList Model.Hull Proofs.ListFacts Proofs.HullScan Proofs.HullFacts.
Import ListNotations.

(* ---- Tier S: every Num, every orientation oracle cc (so: the doubles _ccw really computes, NaN included) *)

(* chain_shape: graham_scan_lower / graham_scan_upper return a strictly increasing index chain from 0 to n-1
   (the model is structurally recursive: termination and "the bottom of the stack is never popped" are built in) *)
Theorem C18_chain_shape_lower : forall (N : Num) (cc : nat -> nat -> nat -> T N) n,
  2 <= n -> chainb n (lower_with cc n) = true.
Proof. exact @chain_shape_lower. Qed.
Print Assumptions C18_chain_shape_lower.

Theorem C18_chain_shape_upper : forall (N : Num) (cc : nat -> nat -> nat -> T N) n,
  2 <= n -> chainb n (upper_with cc n) = true.
Proof. exact @chain_shape_upper. Qed.
Print Assumptions C18_chain_shape_upper.

(* chain_turns: every consecutive triple of the returned chain fails the code's own pop test
   (`_ccw(a, b, c) <= 0`, resp. `_ccw(c, b, a) <= 0`): the chain turns strictly *)
Theorem C18_chain_turns_lower : forall (N : Num) (cc : nat -> nat -> nat -> T N) n,
  2 <= n -> turnsb (lower_test cc) (lower_with cc n) = true.
Proof. exact @chain_turns_lower. Qed.
Print Assumptions C18_chain_turns_lower.

Theorem C18_chain_turns_upper : forall (N : Num) (cc : nat -> nat -> nat -> T N) n,
  2 <= n -> turnsb (upper_test cc) (upper_with cc n) = true.
Proof. exact @chain_turns_upper. Qed.
Print Assumptions C18_chain_turns_upper.

(* graham_total, for EVERY arrangement sp of the indices (hence for whatever order the comparator sort
   produces): the stack scan completes, never underflows, and returns a duplicate-free subsequence of sp from
   sp[0] to sp[-1] in which every triple pushed by the loop failed the `>= 0` pop test *)
Theorem C18_graham_with_total : forall (N : Num) (cc : nat -> nat -> nat -> T N) sp,
  NoDup sp -> 3 <= length sp ->
  let out := graham_with cc sp in
  (exists pos, SI pos /\ Forall (fun p => p < length sp) pos /\ out = map (fun p => nth p sp 0) pos)
  /\ NoDup out /\ incl out sp /\ hd 0 out = hd 0 sp /\ last out 0 = last sp 0 /\ 2 <= length out
  /\ turnsb (gtest cc) (tl out) = true.
Proof. exact @graham_with_total. Qed.
Print Assumptions C18_graham_with_total.

(* graham_total, closed model: on >= 3 pairwise distinct rows graham_scan completes for every distance oracle *)
Theorem C18_graham_total : forall (N : Num) (pts : list (@pt N)) (dist : nat -> T N),
  distinctb pts = true -> 3 <= length pts ->
  exists sp out, graham_sorted pts dist = Some sp /\ Permutation sp (seq 0 (length pts)) /\
    graham_scan pts dist = Some out /\ out = graham_with (ccw_idx pts) sp /\
    graham_structb pts out = true /\ turnsb (gtest (ccw_idx pts)) (tl out) = true.
Proof. exact @graham_total. Qed.
Print Assumptions C18_graham_total.
