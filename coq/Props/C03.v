(* Props/C03.v — property C03: every single-knee detector returns the corner index of an exact
   two-slope elbow.  Tier A: theorems over exact reals (RNum) about the formulas the code evaluates,
   for unbounded arm lengths and arbitrary positive spacings.  `elbow pts c m1 m2` (Proofs/ElbowBase.v):
   x_0 < ... < x_{n-1};  y_i = y_c + m1 (x_i - x_c) for i <= c,  y_c + m2 (x_i - x_c) for i >= c;
   m1 <> m2;  3 <= c <= n - 4.
   Only statements, each closed by `exact`, with its assumptions printed. *)
From Coq Require Import Reals List PrimFloat.
From Knee Require Import Num NumR NumFloat NpList Model.Uts Model.DetectorsFormula
  Proofs.ElbowBase Proofs.ElbowCurvature Proofs.ElbowMenger Proofs.ElbowLmethod Proofs.ElbowDfdt Proofs.ElbowKneedle
  Run.JudgeC03.
Import ListNotations.
Local Open Scope R_scope.

(* ---- curvature: csd vanishes on collinear triples, is 2(m2-m1)/(x_{c+1}-x_{c-1}) <> 0 at c; curvature.knee = c *)
Theorem C03_csd_elbow : forall (pts : list (R * R)) (c : nat) (m1 m2 : R), elbow pts c m1 m2 ->
  (forall i, (1 <= i)%nat -> (i + 1 < length pts)%nat -> i <> c -> nth i (@csd RNum pts) 0 = 0) /\
  nth c (@csd RNum pts) 0 = 2 * (m2 - m1) / (PX pts (c + 1) - PX pts (c - 1)) /\
  nth c (@csd RNum pts) 0 <> 0.
Proof. exact (fun pts c m1 m2 E => conj (csd_elbow_off pts c m1 m2 E)
               (conj (csd_elbow_corner pts c m1 m2 E) (csd_elbow_corner_nonzero pts c m1 m2 E))). Qed.
Print Assumptions C03_csd_elbow.

Theorem C03_curvature_elbow : forall (pts : list (R * R)) (c : nat) (m1 m2 : R),
  elbow pts c m1 m2 -> @curvature_knee RNum pts = c.
Proof. exact curvature_elbow. Qed.
Print Assumptions C03_curvature_elbow.

(* ---- Menger: 0 on collinear triples, > 0 at c; menger.knee = c *)
Theorem C03_menger_array_elbow : forall (pts : list (R * R)) (c : nat) (m1 m2 : R), elbow pts c m1 m2 ->
  (forall i, (i < length pts)%nat -> i <> c -> @nth R i (@menger_array RNum pts) 0 = 0) /\
  0 < @nth R c (@menger_array RNum pts) 0.
Proof. exact (fun pts c m1 m2 E => conj (menger_array_off pts c m1 m2 E) (menger_array_corner pts c m1 m2 E)). Qed.
Print Assumptions C03_menger_array_elbow.

Theorem C03_menger_elbow : forall (pts : list (R * R)) (c : nat) (m1 m2 : R),
  elbow pts c m1 m2 -> @menger_knee RNum pts = c.
Proof. exact menger_elbow. Qed.
Print Assumptions C03_menger_elbow.

(* ---- L-method: the two-line error is 0 at the split c and > 0 at every other split 2..n-3 (both fits, both costs) *)
Theorem C03_lmethod_error_elbow : forall (pts : list (R * R)) (c : nat) (m1 m2 : R) (fit : Fit) (cost : Cost),
  elbow pts c m1 m2 ->
  lerr pts fit cost c = 0 /\
  (forall i, (2 <= i)%nat -> (i + 3 <= length pts)%nat -> i <> c -> 0 < lerr pts fit cost i).
Proof. exact (fun pts c m1 m2 fit cost E =>
               conj (lerr_corner pts c m1 m2 (elbow_welbow _ _ _ _ E) fit cost)
                    (lerr_off pts c m1 m2 (elbow_welbow _ _ _ _ E) fit cost)). Qed.
Print Assumptions C03_lmethod_error_elbow.

Theorem C03_lmethod_elbow_pointfit_rmse : forall (pts : list (R * R)) (c : nat) (m1 m2 : R),
  elbow pts c m1 m2 -> @lmethod_get_knee RNum pts point_fit rmse = c.
Proof. exact lmethod_elbow_pointfit_rmse. Qed.
Print Assumptions C03_lmethod_elbow_pointfit_rmse.
Theorem C03_lmethod_elbow_pointfit_rss : forall (pts : list (R * R)) (c : nat) (m1 m2 : R),
  elbow pts c m1 m2 -> @lmethod_get_knee RNum pts point_fit rss = c.
Proof. exact lmethod_elbow_pointfit_rss. Qed.
Print Assumptions C03_lmethod_elbow_pointfit_rss.
Theorem C03_lmethod_elbow_bestfit_rmse : forall (pts : list (R * R)) (c : nat) (m1 m2 : R),
  elbow pts c m1 m2 -> @lmethod_get_knee RNum pts best_fit rmse = c.
Proof. exact lmethod_elbow_bestfit_rmse. Qed.
Print Assumptions C03_lmethod_elbow_bestfit_rmse.
Theorem C03_lmethod_elbow_bestfit_rss : forall (pts : list (R * R)) (c : nat) (m1 m2 : R),
  elbow pts c m1 m2 -> @lmethod_get_knee RNum pts best_fit rss = c.
Proof. exact lmethod_elbow_bestfit_rss. Qed.
Print Assumptions C03_lmethod_elbow_bestfit_rss.

(* the refinement loop re-finds c on the truncated curve and stops: every fit, every refinement, every limit *)
Theorem C03_lmethod_refine_elbow : forall (pts : list (R * R)) (c : nat) (m1 m2 : R) (fit : Fit) (it : Refinement) (limit : nat),
  elbow pts c m1 m2 -> @lmethod_knee RNum pts fit it limit = Some c.
Proof. exact lmethod_refine_elbow. Qed.
Print Assumptions C03_lmethod_refine_elbow.

(* ---- DFDT: cfd of an elbow is m1 (c times), one g strictly between, m2 (n-1-c times) *)
Theorem C03_cfd_elbow : forall (pts : list (R * R)) (c : nat) (m1 m2 : R), elbow pts c m1 m2 ->
  @cfd RNum pts = two_level m1 (corner_gradient pts c m1 m2) m2 c (length pts - 1 - c) /\
  between m1 (corner_gradient pts c m1 m2) m2.
Proof. exact (fun pts c m1 m2 E => conj (cfd_elbow pts c m1 m2 E) (corner_gradient_between pts c m1 m2 E)). Qed.
Print Assumptions C03_cfd_elbow.

(* ISODATA on `p copies of u, one g strictly between, q copies of v` (p, q >= 1), for every eps and every positive
   iteration budget, returns TA = ((p u + g)/(p+1) + v)/2 or TB = (u + (g + q v)/(q+1))/2, and g is strictly closer
   to the result than u and v — whichever way the loop exits *)
Theorem C03_isodata_two_level : forall (u g v : R) (p q : nat), between u g v -> (1 <= p)%nat -> (1 <= q)%nat ->
  forall (eps : R) (max_iter : nat), (1 <= max_iter)%nat ->
  let T := @isodata_fuel RNum max_iter (two_level u g v p q) eps in
  (T = TA u g v p \/ T = TB u g v q) /\ Rabs (g - T) < Rabs (u - T) /\ Rabs (g - T) < Rabs (v - T).
Proof. exact isodata_two_level. Qed.
Print Assumptions C03_isodata_two_level.

Theorem C03_dfdt_elbow : forall (pts : list (R * R)) (c : nat) (m1 m2 eps : R),
  elbow pts c m1 m2 -> @dfdt_knee RNum eps pts = Some c.
Proof. exact dfdt_elbow. Qed.
Print Assumptions C03_dfdt_elbow.

(* ---- Kneedle at t = 0 on monotone elbows *)
Theorem C03_kneedle_elbow : forall (pts : list (R * R)) (c : nat) (m1 m2 : R) (expm : R -> R),
  elbow pts c m1 m2 -> (0 <= m1 /\ 0 <= m2) \/ (m1 <= 0 /\ m2 <= 0) ->
  @kneedle_knee RNum expm pts 0 = Some c.
Proof. exact kneedle_elbow. Qed.
Print Assumptions C03_kneedle_elbow.

(* ---- non-vacuity: the hypothesis is satisfiable over the reals ... *)
Theorem C03_elbow_example : elbow elbow_example 3 (-2) (-1 / 4).
Proof. exact elbow_example_ok. Qed.
Print Assumptions C03_elbow_example.

(* ... and the same elbow in binary64: the boolean form of the hypothesis holds and every model returns index 3 *)
Definition fex : list (float * float) :=
  [(0, 11); (1, 9); (3, 5); (4, 3); (6, 2.5); (7, 2.25); (9, 1.75); (10, 1.5)]%float.
Example C03_example_float :
  elbowb fex 3 (-2)%float (-0.25)%float = true /\ monotoneb (-2)%float (-0.25)%float = true /\
  forallb (fun o => opt_eqb o (Some 3%nat)) (model_outputs fex 10 true) = true /\
  length (model_outputs fex 10 true) = 14%nat.
Proof. vm_compute. auto. Qed.
(* a V-shaped elbow (slopes of opposite sign): every detector except Kneedle *)
Definition fexV : list (float * float) :=
  [(0, 8); (2, 4); (3, 2); (4, 0); (5, 0.5); (7, 1.5); (8, 2); (12, 4)]%float.
Example C03_example_float_V :
  elbowb fexV 3 (-2)%float (0.5)%float = true /\ monotoneb (-2)%float (0.5)%float = false /\
  forallb (fun o => opt_eqb o (Some 3%nat)) (model_outputs fexV 3 false) = true.
Proof. vm_compute. auto. Qed.
