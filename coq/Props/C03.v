(* Props/C03.v — property C03: every single-knee detector returns the corner index of an exact
   two-slope elbow.  Theorems over exact reals (RNum), unbounded arm lengths, arbitrary positive
   spacings.  Only statements, each closed by `exact`, with its assumptions printed. *)
From Coq Require Import Reals List PrimFloat.
From Knee Require Import Num NumR NumFloat NpList Model.Uts Model.DetectorsFormula
  Proofs.ElbowBase Proofs.ElbowCurvature Proofs.ElbowMenger Run.JudgeC03.
Import ListNotations.

(* curvature.knee *)
Theorem C03_curvature_elbow : forall (pts : list (R * R)) (c : nat) (m1 m2 : R),
  elbow pts c m1 m2 -> @curvature_knee RNum pts = c.
Proof. exact curvature_elbow. Qed.
Print Assumptions C03_curvature_elbow.

(* menger.knee *)
Theorem C03_menger_elbow : forall (pts : list (R * R)) (c : nat) (m1 m2 : R),
  elbow pts c m1 m2 -> @menger_knee RNum pts = c.
Proof. exact menger_elbow. Qed.
Print Assumptions C03_menger_elbow.

(* non-vacuity: the hypothesis is satisfiable over the reals ... *)
Theorem C03_elbow_example : elbow elbow_example 3 (-2) (-1 / 4).
Proof. exact elbow_example_ok. Qed.
Print Assumptions C03_elbow_example.

(* ... and the same elbow in binary64: the boolean form of the hypothesis holds and every model returns index 3 *)
Definition fex : list (float * float) :=
  [(0, 11); (1, 9); (3, 5); (4, 3); (6, 2.5); (7, 2.25); (9, 1.75); (10, 1.5)]%float.
Example C03_example_float :
  elbowb fex 3 (-2)%float (-0.25)%float = true /\
  @curvature_knee FloatNum fex = 3 /\ @menger_knee FloatNum fex = 3.
Proof. vm_compute. auto. Qed.
