(* temporary stub *)
Theorem C11_stub : True. Proof. exact I. Qed.
Print Assumptions C11_stub.
