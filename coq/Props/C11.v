(* Props/C11.v — property C11: 1-D linkage clustering follows its stated threshold rule.
   Only statements, each closed by `exact`, with its assumptions printed. *)
From Coq Require Import List Arith Bool Reals PrimFloat.
From Knee Require Import Num NumFloat NumR NpList Model.Clustering Proofs.ClusteringFacts Proofs.ClusteringMonoFloat.
Import ListNotations.

(* Tier S (every Num, hence binary64 with every rounding / NaN / overflow): on a non-empty array each linkage
   returns labels satisfying the boolean predicate that also judges the implementation:
   one label per point, first 0, steps 0/1, and label i = label (i-1) + [the code's comparison of t with link_dist i] *)
Theorem C11_linkage_rule : forall (N : Num) lk (xs : list (T N)) t,
  xs <> [] -> exists lab, linkage_labels lk xs t = Some lab /\ c11_holdsb lk xs t lab = true.
Proof. exact @linkage_rule. Qed.
Print Assumptions C11_linkage_rule.

(* Tier S: one label per point, the first is 0, consecutive labels differ by 0 or 1 (clusters are contiguous runs) *)
Theorem C11_labels_shape : forall (N : Num) lk (xs : list (T N)) t lab,
  linkage_labels lk xs t = Some lab ->
  length lab = length xs /\ hd 1 lab = 0 /\
  (forall i, S i < length lab -> nth (S i) lab 0 = nth i lab 0 \/ nth (S i) lab 0 = S (nth i lab 0)).
Proof. exact @labels_shape. Qed.
Print Assumptions C11_labels_shape.

(* Tier S: the label increases at i iff the code's comparison succeeds on link_dist i — the gap to the previous point
   (single), the distance to the first member (complete), to the running centroid (centroid), the mean distance to the
   members (average) of the cluster of point i-1, each divided by the x range.  newb is `leb t d` (i.e. d >= t, not >)
   for single/complete/average and `negb (ltb d t)` for centroid *)
Theorem C11_new_cluster_iff : forall (N : Num) lk (xs : list (T N)) t lab,
  linkage_labels lk xs t = Some lab ->
  forall i, 1 <= i -> i < length xs ->
    (nth i lab 0 = S (nth (i - 1) lab 0) <-> newb lk t (link_dist lk xs lab i) = true) /\
    (nth i lab 0 = nth (i - 1) lab 0 <-> newb lk t (link_dist lk xs lab i) = false).
Proof. exact @new_cluster_iff. Qed.
Print Assumptions C11_new_cluster_iff.

(* Tier O on binary64: unless t or the distance is NaN, the comparison is `t <= distance` for all four linkages *)
Theorem C11_new_cluster_geb_float : forall lk (t d : float),
  f_isnan t = false -> f_isnan d = false -> @newb FloatNum lk t d = PrimFloat.leb t d.
Proof. exact newb_geb_float. Qed.
Print Assumptions C11_new_cluster_geb_float.

(* Tier A (RNum): on strictly increasing x with at least two points the number of single- and complete-linkage
   clusters does not increase when t grows (complete linkage: anchor dominance) *)
Theorem C11_single_complete_monotone : forall (lk : linkage) (xs : list R) (t t' : R) lab lab',
  lk = Single \/ lk = Complete ->
  incrR xs -> 2 <= length xs -> (t <= t')%R ->
  @linkage_labels RNum lk xs t = Some lab -> @linkage_labels RNum lk xs t' = Some lab' ->
  nclusters lab' <= nclusters lab.
Proof. exact single_complete_monotone. Qed.
Print Assumptions C11_single_complete_monotone.

(* Tier O on binary64 itself (not only over the reals): for EVERY array of doubles — no ordering hypothesis, every rounding of the
   gaps and of the x range, NaN / inf / zero range included — and every pair of doubles with t <= t' (as the primitive comparison,
   which excludes NaN thresholds), single linkage produces at most as many clusters at t' as at t.  The gap of point i does not
   depend on t, and on doubles  t <= t' /\ t' <= d  implies  t <= d  (FloatOrder.float_total_preorder). *)
Theorem C11_single_monotone_float : forall (xs : list float) (t t' : float) lab lab',
  PrimFloat.leb t t' = true ->
  @linkage_labels FloatNum Single xs t = Some lab -> @linkage_labels FloatNum Single xs t' = Some lab' ->
  nclusters lab' <= nclusters lab.
Proof. exact single_monotone_float. Qed.
Print Assumptions C11_single_monotone_float.

(* non-vacuity: x range 12.5; the complete-linkage distance of the last point to its anchor (x = 10) is exactly 0.2:
   at t = 0.2 it starts a cluster (>=), at the next double above 0.2 it does not; the average-linkage distance of
   point 3 is exactly 0.16 and t = 0.16 splits there; the predicate accepts the model's labels and rejects others *)
Definition ex_xs : list float := [0; 1; 2; 3; 10; 11; 12.5]%float.
Example C11_example :
  @linkage_labels FloatNum Complete ex_xs 0.2%float = Some [0; 0; 0; 1; 2; 2; 3] /\
  @linkage_labels FloatNum Complete ex_xs 0x1.999999999999bp-3%float = Some [0; 0; 0; 1; 2; 2; 2] /\
  @link_dist FloatNum Complete ex_xs [0; 0; 0; 1; 2; 2; 3] 6 = 0.2%float /\
  @linkage_labels FloatNum Single ex_xs 0.16%float = Some [0; 0; 0; 0; 1; 1; 1] /\
  @linkage_labels FloatNum Centroid ex_xs 0.16%float = Some [0; 0; 0; 1; 2; 2; 3] /\
  @linkage_labels FloatNum Average ex_xs 0.16%float = Some [0; 0; 0; 1; 2; 2; 3] /\
  @link_dist FloatNum Average ex_xs [0; 0; 0; 1; 2; 2; 3] 3 = 0.16%float /\
  @c11_holdsb FloatNum Average ex_xs 0.16%float [0; 0; 0; 1; 2; 2; 3] = true /\
  @c11_holdsb FloatNum Average ex_xs 0.16%float [0; 0; 0; 0; 1; 1; 2] = false /\
  @c11_holdsb FloatNum Complete ex_xs 0.2%float [0; 0; 0; 1; 2; 2; 2] = false.
Proof. vm_compute. repeat split. Qed.

(* the hypotheses of the monotonicity theorem are satisfiable *)
Example C11_example_incr : incrR [0; 1; 3; 4]%R /\ 2 <= length [0; 1; 3; 4]%R.
Proof. cbn. repeat split; try Lra.lra; Lia.lia. Qed.
(* the hypotheses of the binary64 monotonicity theorem are satisfiable, with a strict decrease *)
Example C11_example_mono_float :
  PrimFloat.leb 0.16%float 0.2%float = true /\
  nclusters [0; 0; 0; 0; 1; 1; 1] = 2 /\
  @linkage_labels FloatNum Single ex_xs 0.6%float = Some [0; 0; 0; 0; 0; 0; 0].
Proof. vm_compute. repeat split. Qed.
