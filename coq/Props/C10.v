From Coq Require Import ZArith List Arith.
From Knee Require Import Num NpList Model.Zmethod Proofs.ZmethodFacts.
Import ListNotations.
Theorem C10_search_lt : forall (N : Num) (xs : list (T N)) i v k, search xs i v = Some k -> i <= k < i + length xs.
Proof. exact @search_lt. Qed.
Print Assumptions C10_search_lt.
