(* Props/C10.v — property C10: Z-method knees are valid, height-ordered and mutually separated.
   Only statements, each closed by `exact`, with its assumptions printed.

   Model: Model/Zmethod.v (zmethod.getPoints / map_index / knees).  The z-score column of the rows is an oracle
   (any values).  `ord` is the order in which the candidate outliers of a round are processed (np.argsort, unstable
   on ties): every theorem holds for EVERY `ord` that returns a permutation of its argument. *)
From Coq Require Import Reals ZArith List Arith Bool Permutation Sorted PrimFloat.
From Knee Require Import Num NumFloat NumR NpList OrdLaws Model.Zmethod
  Proofs.ZmethodCand Proofs.ZmethodFacts Proofs.ZmethodOutput Proofs.ZmethodFloat Proofs.ZmethodR Proofs.ZmethodSet.
Import ListNotations.

(* z_inv (Tier S).  When the main loop stops with remaining rows `pts` and selected outliers `outs`:
   every remaining row is outside the x-band AND the y-band of every outlier (the code's own np.where mask);
   for two outliers o1 (earlier) and o2 (later): o2 passed the explicit test |y2 - y1| >= h, and in x either o2 passed
   o1's band filter or both come from one round's groups that the code found separated by a gap >= w;
   outliers are points of the curve; the remaining rows are a sub-array of the input. *)
Theorem C10_z_inv : forall (N : Num) (w h dz minz : T N) (rows : list row) (ord : nat -> list row -> list row),
  (forall j l, Permutation (ord j l) l) ->
  forall fuel thr pts outs k,
  loop w h dz minz ord fuel 0 thr rows [] = RDone (pts, outs) k ->
  (forall r o, In r pts -> In o outs -> keep w h o (xy r) = true)
  /\ ForallOrdPairs (fun o1 o2 : pt => YS h o1 o2 /\ XS w rows o1 o2) outs
  /\ (forall o, In o outs -> In o (map xy rows))
  /\ (exists f, pts = filter f rows).
Proof. exact @z_inv_loop. Qed.
Print Assumptions C10_z_inv.

(* ... the same for any two indices that zmethod.knees returns (integer abscissae represented exactly) *)
Theorem C10_z_inv_knees : forall (N : Num) (ord : nat -> list row -> list row),
  (forall j l, Permutation (ord j l) l) ->
  forall ks, StronglySorted Z.lt ks ->
  (forall k, In k ks -> @truncZ N (ofZ k) = Some k) ->
  (forall a b, In a ks -> In b ks -> @ltb N (ofZ a) (ofZ b) = (a <? b)%Z) ->
  forall rows : list row, map rx rows = map (@ofZ N) ks ->
  forall fuel dx dy dz xmax yr ix k p,
  params rows dx dy xmax yr = Some (Some p) ->
  knees ord fuel rows dx dy dz xmax yr = RDone ix k ->
  let o := fun i => (yat (map rx rows) i, yat (map ry rows) i) in
  ForallOrdPairs (fun a b =>
      (YS (zp_h p) (o a) (o b) /\ XS (zp_w p) rows (o a) (o b)) \/
      (YS (zp_h p) (o b) (o a) /\ XS (zp_w p) rows (o b) (o a))) ix
  /\ Forall (fun i => i < length rows) ix.
Proof. exact @z_output_pairs. Qed.
Print Assumptions C10_z_inv_knees.

(* z_separated (Tier A, reals): hence any two selected outliers are >= w apart in x and >= h apart in y *)
Theorem C10_z_separated_outliers : forall (w h : R) (rows : list (@row RNum)),
  StronglySorted Rlt (map (@rx RNum) rows) ->
  forall dz minz ord fuel thr pts outs k,
  (forall j l, Permutation (ord j l) l) ->
  @loop RNum w h dz minz ord fuel 0 thr rows [] = RDone (pts, outs) k ->
  ForallOrdPairs (fun o1 o2 : R * R => (w <= Rabs (fst o1 - fst o2))%R /\ (h <= Rabs (snd o1 - snd o2))%R) outs.
Proof. exact z_separated_loop. Qed.
Print Assumptions C10_z_separated_outliers.

(* z_separated for the value of zmethod.knees, with the predicate the run evaluates on the implementation's output:
   w = max(1, floor(x_max dx)) and h = (y_max - y_min) dy are the parameters `params` computes *)
Theorem C10_z_separated : forall ord : nat -> list (@row RNum) -> list (@row RNum),
  (forall j l, Permutation (ord j l) l) ->
  forall ks, StronglySorted Z.lt ks ->
  forall rows : list (@row RNum), map (@rx RNum) rows = map IZR ks ->
  forall fuel dx dy dz xmax yr ix k p,
  @params RNum rows dx dy xmax yr = Some (Some p) ->
  @knees RNum ord fuel rows dx dy dz xmax yr = RDone ix k ->
  @xsep_ok RNum (zp_w p) (map (@rx RNum) rows) ix = true /\ @ysep_ok RNum (zp_h p) (map (@ry RNum) rows) ix = true.
Proof. exact z_separated. Qed.
Print Assumptions C10_z_separated.

(* the y-separation already holds in every arithmetic (Tier S): it is the code's own float test *)
Theorem C10_z_ysep : forall (N : Num) (ord : nat -> list row -> list row),
  (forall j l, Permutation (ord j l) l) ->
  forall ks, StronglySorted Z.lt ks ->
  (forall k, In k ks -> @truncZ N (ofZ k) = Some k) ->
  (forall a b, In a ks -> In b ks -> @ltb N (ofZ a) (ofZ b) = (a <? b)%Z) ->
  forall rows : list row, map rx rows = map (@ofZ N) ks ->
  forall fuel dx dy dz xmax yr ix k p,
  params rows dx dy xmax yr = Some (Some p) ->
  knees ord fuel rows dx dy dz xmax yr = RDone ix k ->
  ysep_ok (zp_h p) (map ry rows) ix = true.
Proof. exact @z_output_ysep. Qed.
Print Assumptions C10_z_ysep.

(* z_total (Tier S): under the two boolean preconditions the run evaluates — (i) the threshold schedule 3, 3-dz, ... is
   <= min z from step K to step K + n + 2, (ii) no row survives its own band filter — zmethod.knees stops within
   K + n + 2 rounds (fuel K + n + 2 is never exhausted), for every processing order *)
Theorem C10_z_total : forall (N : Num) (ord : nat -> list (@row N) -> list (@row N)) (rows : list (@row N)) (dx dy dz : T N) xmax yr p K,
  (forall j l, Permutation (ord j l) l) ->
  params rows dx dy xmax yr = Some (Some p) ->
  sched_ok dz (zp_minz p) K (length rows + 2) = true -> self_removed (zp_w p) (zp_h p) rows = true ->
  match knees ord (K + length rows + 2) rows dx dy dz xmax yr with
  | RFuel => False
  | RErr => True
  | RDone _ k => k <= K + length rows + 2
  end.
Proof. exact @z_total. Qed.
Print Assumptions C10_z_total.

(* z_total_R (Tier A): on the reals both preconditions hold with K = ceil((3 - min z)/dz) whenever dz > 0 and w > 0 *)
Theorem C10_z_total_R_pre : forall (w h dz minz : R) (rows : list (@row RNum)) m,
  (0 < dz)%R -> (0 < w)%R ->
  @sched_ok RNum dz minz (K_R dz minz) m = true /\ @self_removed RNum w h rows = true.
Proof. exact z_total_pre_R. Qed.
Print Assumptions C10_z_total_R_pre.

Theorem C10_z_total_R : forall ord (rows : list (@row RNum)) (dx dy dz : R) xmax yr p,
  (forall j l, Permutation (ord j l) l) ->
  @params RNum rows dx dy xmax yr = Some (Some p) -> (0 < dz)%R -> (0 < zp_w p)%R ->
  let B := (K_R dz (zp_minz p) + length rows + 2)%nat in
  match @knees RNum ord B rows dx dy dz xmax yr with
  | RFuel => False
  | RErr => True
  | RDone _ k => k <= B
  end.
Proof. exact z_total_knees_R. Qed.
Print Assumptions C10_z_total_R.

(* ... and w >= 1 by construction *)
Theorem C10_width_pos : forall (rows : list (@row RNum)) dx dy xmax yr p,
  @params RNum rows dx dy xmax yr = Some (Some p) -> (1 <= zp_w p)%R.
Proof. exact params_w_pos. Qed.
Print Assumptions C10_width_pos.

(* z_output (Tier S): the indices are valid and strictly increasing; each returned height passed the sweep's test
   `not (y > running minimum)` against its left neighbour, the first one against 1.0 *)
Theorem C10_z_output_S : forall (N : Num) (ord : nat -> list row -> list row),
  (forall j l, Permutation (ord j l) l) ->
  forall ks, StronglySorted Z.lt ks ->
  (forall k, In k ks -> @truncZ N (ofZ k) = Some k) ->
  (forall a b, In a ks -> In b ks -> @ltb N (ofZ a) (ofZ b) = (a <? b)%Z) ->
  forall rows : list row, map rx rows = map (@ofZ N) ks ->
  forall fuel dx dy dz xmax yr ix k,
  knees ord fuel rows dx dy dz xmax yr = RDone ix k ->
  valid_ix (length rows) ix = true /\ DescIx rows one ix.
Proof. exact @z_output_S. Qed.
Print Assumptions C10_z_output_S.

(* z_output (Tier O): if the heights and 1.0 are totally pre-ordered by the comparison, heights are non-increasing
   from left to right for ALL pairs and none exceeds 1.0 — the predicate the run evaluates *)
Theorem C10_z_output_O : forall (N : Num) (ord : nat -> list row -> list row),
  (forall j l, Permutation (ord j l) l) ->
  forall ks, StronglySorted Z.lt ks ->
  (forall k, In k ks -> @truncZ N (ofZ k) = Some k) ->
  (forall a b, In a ks -> In b ks -> @ltb N (ofZ a) (ofZ b) = (a <? b)%Z) ->
  forall rows : list row, map rx rows = map (@ofZ N) ks ->
  forall P : T N -> Prop, TotalPreorderOn P ->
  forall fuel dx dy dz xmax yr ix k,
  P one -> Forall P (map ry rows) ->
  knees ord fuel rows dx dy dz xmax yr = RDone ix k ->
  heights_ok (map ry rows) ix = true.
Proof. exact @z_output_O. Qed.
Print Assumptions C10_z_output_O.

(* ... on binary64 the order hypothesis is discharged (FloatOrder.v) for non-NaN heights *)
Theorem C10_z_output_float : forall ord : nat -> list (@row FloatNum) -> list (@row FloatNum),
  (forall j l, Permutation (ord j l) l) ->
  forall ks, StronglySorted Z.lt ks ->
  (forall k, In k ks -> @truncZ FloatNum (ofZ k) = Some k) ->
  (forall a b, In a ks -> In b ks -> @ltb FloatNum (ofZ a) (ofZ b) = (a <? b)%Z) ->
  forall rows, map rx rows = map (@ofZ FloatNum) ks ->
  forallb (fun y => negb (f_isnan y)) (map ry rows) = true ->
  forall fuel dx dy dz xmax yr ix k,
  knees ord fuel rows dx dy dz xmax yr = RDone ix k ->
  valid_ix (length rows) ix = true /\ heights_ok (map ry rows) ix = true.
Proof. exact z_output_float. Qed.
Print Assumptions C10_z_output_float.

(* the set-valued executable model used by the correspondence run only contains results of `knees` under admissible
   processing orders, so all of the above holds of each of its members *)
Theorem C10_set_sound : forall (N : Num) fuel (rows : list (@row N)) (dx dy dz : T N) xmax yr rs r,
  knees_set fuel rows dx dy dz xmax yr = Some rs -> In r rs ->
  exists ord, (forall j l, Permutation (ord j l) l) /\ knees ord fuel rows dx dy dz xmax yr = r.
Proof. exact @knees_set_sound. Qed.
Print Assumptions C10_set_sound.

(* non-vacuity: a 9-point curve (z-scores from uts), dx = 1/4, dy = 1/8, dz = 1/2: the preconditions of z_total hold with
   K = 13, the model returns the knees [0; 2; 4; 8] (as zmethod.knees does) and the run's predicate holds *)
Definition ex_ks : list Z := [0; 1; 2; 4; 5; 7; 8; 9; 11]%Z.
Definition ex_ys : list float :=
  [0x1.0000000000000p+0; 0x1.ccccccccccccdp-1; 0x1.0000000000000p-1; 0x1.ccccccccccccdp-2; 0x1.999999999999ap-3;
   0x1.851eb851eb852p-3; 0x1.999999999999ap-4; 0x1.999999999999ap-4; 0x1.999999999999ap-5]%float.
Definition ex_zs : list float :=
  [(-0x1.823cfb6633268p+1); (-0x1.823cfb6633268p+1); 0x1.5618c16925fd8p+1; (-0x1.7733ece6efdc4p+0); 0x1.c6a85548078c6p+0;
   (-0x1.000550554c540p-1); 0x1.046f5621cda4fp+0; (-0x1.6121cfe86947ap-4); (-0x1.6121cfe86947ap-4)]%float.
Definition ex_rows : list (@row FloatNum) := combine (combine (map (@ofZ FloatNum) ex_ks) ex_ys) ex_zs.
Example C10_example :
  match @params FloatNum ex_rows 0.25%float 0.125%float None None with
  | Some (Some p) =>
      @sched_ok FloatNum 0.5%float (zp_minz p) 13 (length ex_rows + 2)
      && @self_removed FloatNum (zp_w p) (zp_h p) ex_rows
      && match @knees_set FloatNum (13 + length ex_rows + 2) ex_rows 0.25%float 0.125%float 0.5%float None None with
         | Some [RDone ix k] => nat_list_eqb ix [0; 2; 4; 8] && (k <=? 13 + 9 + 2)
         | _ => false
         end
      && @valid_ix 9 [0; 2; 4; 8] && @heights_ok FloatNum ex_ys [0; 2; 4; 8]
      && @xsep_ok FloatNum (zp_w p) (map (@ofZ FloatNum) ex_ks) [0; 2; 4; 8]
      && @ysep_ok FloatNum (zp_h p) ex_ys [0; 2; 4; 8]
  | _ => false
  end = true.
Proof. vm_compute. reflexivity. Qed.
