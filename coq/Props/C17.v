(* Props/C17.v — property C17: geometric and ranking primitives equal their geometric definitions.
   Only statements, each closed by `exact`, with its assumptions printed.
   Tier A (RNum) except perp_index_is_subrange and rank_* (Tier S: every N : Num, every sorting permutation). *)
From Coq Require Import Reals List ZArith Permutation PrimFloat.
From Knee Require Import Num NumR NumFloat NpList OrdLaws FloatOrder Model.LinearFit Model.Geometry Proofs.MetricsFacts Proofs.LinearFitFacts Proofs.GeometryFacts.
Import ListNotations.
Local Open Scope R_scope.

(* ---- shortest distance = Euclidean distance to the closed segment a-b (squared form) ---- *)
Theorem C17_shortest_is_segment_distance : forall a b p : R * R, a <> b ->
  let r := @shortest_one RNum a b p in
  let u := proj_param a b p in          (* parameter of the orthogonal projection of p on the line a b *)
  0 <= r /\
  (u <= 0 -> r * r = dist2 p a) /\
  (1 <= u -> r * r = dist2 p b) /\
  (0 <= u <= 1 -> r * r = crossR (vsubR p a) (vsubR b a) * crossR (vsubR p a) (vsubR b a) / dist2 b a) /\
  (forall lam, 0 <= lam <= 1 -> r * r <= dist2 p (on_line a b lam)).
Proof. exact shortest_is_segment_distance. Qed.
Print Assumptions C17_shortest_is_segment_distance.
Theorem C17_shortest_degenerate : forall a p : R * R,
  let r := @shortest_one RNum a a p in 0 <= r /\ r * r = dist2 p a.
Proof. exact shortest_degenerate. Qed.
Print Assumptions C17_shortest_degenerate.

(* ---- perpendicular distance = distance to the infinite line through a and b ---- *)
Theorem C17_perp_is_line_distance : forall a b p : R * R, a <> b ->
  let r := @perp_one RNum a b p in
  0 <= r /\
  r * r = crossR (vsubR p a) (vsubR b a) * crossR (vsubR p a) (vsubR b a) / dist2 b a /\
  (forall lam, r * r <= dist2 p (on_line a b lam)) /\
  r * r = dist2 p (on_line a b (proj_param a b p)).
Proof. exact perp_is_line_distance. Qed.
Print Assumptions C17_perp_is_line_distance.
(* for a sub-range: the distances of exactly that sub-range (any arithmetic) *)
Theorem C17_perp_index_is_subrange : forall (N : Num) (P : list (@pt N)) (lft rgt : nat),
  (lft <= rgt)%nat -> (rgt < length P)%nat ->
  length (perpendicular_distance_index P lft rgt) = (rgt - lft + 1)%nat /\
  forall k, (k <= rgt - lft)%nat ->
    nth k (perpendicular_distance_index P lft rgt) Num.zero
    = perp_one (nth lft P pzero) (nth rgt P pzero) (nth (lft + k) P pzero).
Proof. exact (@perp_index_is_subrange). Qed.
Print Assumptions C17_perp_index_is_subrange.
Theorem C17_perpendicular_distance_whole : forall (N : Num) (P : list (@pt N)),
  perpendicular_distance P = perpendicular_distance_points P (nth 0 P pzero) (nth (length P - 1) P pzero).
Proof. exact (@perpendicular_distance_whole). Qed.
Print Assumptions C17_perpendicular_distance_whole.

(* ---- rectangle overlap is the intersection over union ---- *)
Theorem C17_rect_spec : forall p1 p2 : R * R,
  @rect RNum p1 p2 = ((Rmin (fst p1) (fst p2), Rmin (snd p1) (snd p2)), (Rmax (fst p1) (fst p2), Rmax (snd p1) (snd p2)))
  /\ wf_rect (fst (@rect RNum p1 p2)) (snd (@rect RNum p1 p2)).
Proof. exact rect_spec. Qed.
Print Assumptions C17_rect_spec.
Theorem C17_rect_overlap_def : forall amin amax bmin bmax : R * R,
  wf_rect amin amax -> wf_rect bmin bmax ->
  let ov := ix amin amax bmin bmax * iy amin amax bmin bmax in        (* area of the intersection *)
  @rect_overlap RNum amin amax bmin bmax
  = if Rlt_dec 0 ov then ov / (area amin amax + area bmin bmax - ov) else 0.
Proof. exact rect_overlap_def. Qed.
Print Assumptions C17_rect_overlap_def.
Theorem C17_iou_sym : forall amin amax bmin bmax : R * R,
  @rect_overlap RNum amin amax bmin bmax = @rect_overlap RNum bmin bmax amin amax.
Proof. exact iou_sym. Qed.
Print Assumptions C17_iou_sym.
Theorem C17_iou_range : forall amin amax bmin bmax : R * R,
  wf_rect amin amax -> wf_rect bmin bmax -> 0 <= @rect_overlap RNum amin amax bmin bmax <= 1.
Proof. exact iou_range. Qed.
Print Assumptions C17_iou_range.
Theorem C17_iou_identical : forall lo hi : R * R,
  fst lo < fst hi -> snd lo < snd hi -> @rect_overlap RNum lo hi lo hi = 1.
Proof. exact iou_identical. Qed.
Print Assumptions C17_iou_identical.
Theorem C17_iou_disjoint : forall amin amax bmin bmax : R * R,
  fst amax <= fst bmin \/ fst bmax <= fst amin \/ snd amax <= snd bmin \/ snd bmax <= snd amin ->
  @rect_overlap RNum amin amax bmin bmax = 0.
Proof. exact iou_disjoint. Qed.
Print Assumptions C17_iou_disjoint.
Theorem C17_iou_degenerate : forall amin amax bmin bmax : R * R,
  wf_rect amin amax -> wf_rect bmin bmax -> area amin amax = 0 -> @rect_overlap RNum amin amax bmin bmax = 0.
Proof. exact iou_degenerate. Qed.
Print Assumptions C17_iou_degenerate.

(* ---- Menger curvature is the reciprocal circumradius 4 Area / (a b c) ---- *)
Theorem C17_menger_is_inverse_circumradius : forall f g h : R * R,
  @menger_curvature RNum f g h = 4 * tri_area f g h / (side f g * side g h * side h f).
Proof. exact menger_is_inverse_circumradius. Qed.
Print Assumptions C17_menger_is_inverse_circumradius.
Theorem C17_menger_circumradius : forall f g h : R * R,
  cross3 f g h <> 0 -> f <> g -> g <> h -> h <> f ->
  0 < @menger_curvature RNum f g h /\
  / @menger_curvature RNum f g h = side f g * side g h * side h f / (4 * tri_area f g h).
Proof. exact menger_circumradius. Qed.
Print Assumptions C17_menger_circumradius.
Theorem C17_menger_symmetric : forall f g h : R * R,
  @menger_curvature RNum f g h = @menger_curvature RNum g f h /\
  @menger_curvature RNum f g h = @menger_curvature RNum f h g /\
  @menger_curvature RNum f g h = @menger_curvature RNum g h f.
Proof. exact (fun f g h => conj (menger_swap12 f g h) (conj (menger_swap23 f g h) (menger_rotate f g h))). Qed.
Print Assumptions C17_menger_symmetric.
Theorem C17_menger_collinear : forall f g h : R * R, cross3 f g h = 0 -> @menger_curvature RNum f g h = 0.
Proof. exact menger_collinear. Qed.
Print Assumptions C17_menger_collinear.

(* ---- rank: for EVERY permutation that sorts (np.argsort is not stable), a permutation of 0..n-1 ordering the values ---- *)
Theorem C17_rank_perm : forall (N : Num) (a : list (T N)) (temp : list nat), sorts a temp ->
  let r := rank_of_perm temp in
  length r = length a /\
  (forall k, (k < length a)%nat -> nth (nth k temp 0%nat) r 0%nat = k) /\
  Permutation r (seq 0 (length a)) /\
  (forall i j, (i < length a)%nat -> (j < length a)%nat -> (nth i r 0 < nth j r 0)%nat ->
               Num.leb (nth i a Num.zero) (nth j a Num.zero) = true).
Proof. exact (@rank_perm). Qed.
Print Assumptions C17_rank_perm.
Theorem C17_rank_okb_holds : forall (N : Num) (a : list (T N)) (temp : list nat),
  sorts a temp -> rank_okb a (rank_of_perm temp) = true.
Proof. exact (@rank_okb_holds). Qed.
Print Assumptions C17_rank_okb_holds.
Theorem C17_rank_okb_sound : forall (N : Num) (a : list (T N)) (r : list nat), rank_okb a r = true ->
  Permutation r (seq 0 (length a)) /\
  (forall i j, (i < length a)%nat -> (j < length a)%nat -> (nth i r 0 < nth j r 0)%nat ->
               Num.leb (nth i a Num.zero) (nth j a Num.zero) = true).
Proof. exact (@rank_okb_sound). Qed.
Print Assumptions C17_rank_okb_sound.

(* Tier O: the stable sort of the executable model is one such permutation, so the model's rank satisfies the predicate *)
Theorem C17_rank_model : forall (N : Num) (P : T N -> Prop), TotalPreorderOn P ->
  forall a : list (T N), Forall P a -> sorts a (argsort_stable a) /\ rank_okb a (rank a) = true.
Proof. exact (fun N P HP a Ha => conj (@argsort_stable_sorts N P HP a Ha) (@rank_model_ok N P HP a Ha)). Qed.
Print Assumptions C17_rank_model.
Theorem C17_rank_model_float : forall a : list float,
  Forall (@notnan FloatNum) a -> rank_okb (N := FloatNum) a (@rank FloatNum a) = true.
Proof. exact (@rank_model_ok FloatNum (@notnan FloatNum) float_total_preorder). Qed.
Print Assumptions C17_rank_model_float.

(* ---- distances, distance_to_similarity, triangle_area, _ccw ---- *)
Theorem C17_distances : forall (q : R * R) (P : list (R * R)),
  length (@distances RNum q P) = length P /\
  forall k, (k < length P)%nat ->
    let r := nth k (@distances RNum q P) 0 in let p := nth k P (0, 0) in
    0 <= r /\ r * r = (fst p - fst q) * (fst p - fst q) + (snd p - snd q) * (snd p - snd q).
Proof.
  exact (fun q P => conj (proj1 (distances_map q P))
          (fun k Hk => eq_ind_r (fun r => 0 <= r /\ r * r = _) (distances_def q (nth k P (0, 0))) (proj2 (distances_map q P) k Hk))).
Qed.
Print Assumptions C17_distances.
Theorem C17_distance_to_similarity : forall l : list R, l <> [] ->
  let m := @py_max_list RNum l in
  In m l /\ (forall x, In x l -> x <= m) /\
  @distance_to_similarity RNum l = map (fun x => m - x) l /\
  Forall (fun s => 0 <= s) (@distance_to_similarity RNum l).
Proof. exact distance_to_similarity_def. Qed.
Print Assumptions C17_distance_to_similarity.
Theorem C17_triangle_area : forall p0 p1 p2 : R * R,
  @triangle_area RNum p0 p1 p2 = ((fst p1 - fst p0) * (snd p2 - snd p0) - (fst p2 - fst p0) * (snd p1 - snd p0)) / 2
  /\ Rabs (@triangle_area RNum p0 p1 p2) = tri_area p0 p1 p2
  /\ @triangle_area RNum p0 p2 p1 = - @triangle_area RNum p0 p1 p2
  /\ @triangle_area RNum p1 p2 p0 = @triangle_area RNum p0 p1 p2.
Proof.
  exact (fun p0 p1 p2 => conj (triangle_area_def p0 p1 p2) (conj (triangle_area_abs p0 p1 p2)
          (conj (triangle_area_antisym p0 p1 p2) (triangle_area_cyclic p0 p1 p2)))).
Qed.
Print Assumptions C17_triangle_area.
Theorem C17_ccw : forall a b c : R * R,
  @ccw RNum a b c = 2 * @triangle_area RNum a b c /\ @ccw RNum a c b = - @ccw RNum a b c.
Proof. exact (fun a b c => conj (ccw_is_twice_area a b c) (ccw_antisym a b c)). Qed.
Print Assumptions C17_ccw.

(* ---- non-vacuity: the same Gallina terms evaluated on doubles ---- *)
Example C17_example :
  @shortest_distance_points FloatNum [(0, 3); (2, 4); (9, 0)]%float (0, 0)%float (4, 0)%float = [3; 4; 5]%float /\
  @perpendicular_distance_points FloatNum [(0, 3); (2, 4); (9, 0)]%float (0, 0)%float (4, 0)%float = [3; 4; 0]%float /\
  @rect_overlap FloatNum (0, 0)%float (2, 2)%float (1, 1)%float (3, 3)%float = (1 / 7)%float /\
  @menger_curvature FloatNum (0, 0)%float (1, 1)%float (2, 0)%float = 1%float /\
  @rank FloatNum [3; 1; 2]%float = [2; 0; 1]%nat /\
  sortsb (N := FloatNum) [3; 1; 2]%float [1; 2; 0]%nat = true /\
  rank_okb (N := FloatNum) [3; 1; 2]%float [2; 0; 1]%nat = true.
Proof. vm_compute. repeat split. Qed.
(* the hypothesis of C17_rank_perm is satisfiable: [1; 2; 0] sorts [3; 1; 2] *)
Example C17_sorts_example : sorts (N := FloatNum) [3; 1; 2]%float [1; 2; 0]%nat.
Proof. exact (sortsb_sound (N := FloatNum) [3; 1; 2]%float [1; 2; 0]%nat eq_refl). Qed.
