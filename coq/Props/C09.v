(* Props/C09.v — property C09: each single-knee detector terminates and returns the interior optimum of its
   stated criterion.  Only statements, each closed by `exact`, with its assumptions printed.
   Tier S: every Num / every oracle valuation (NaN, exceptions included).  Tier O: TotalPreorderOn notnan
   (+ NanUnordered for arrays holding NaN); both are PROVED for binary64 and the `_float` theorems are closed. *)
From Coq Require Import ZArith List Arith Bool PrimFloat.
From Knee Require Import Num NumFloat NpList OrdLaws FloatOrder Model.Detectors Model.DetectorsError Proofs.ListFacts Proofs.ArgFacts Proofs.DetectorsFacts.
Import ListNotations.
Local Open Scope num_scope.

(* ------------------------------------------------------------------ np.argmax / np.argmin *)
(* Tier S: the index is in range *)
Theorem C09_argmax_lt : forall (N : Num) (l : list (T N)), l <> [] -> argmax l < length l.
Proof. exact @argmax_lt. Qed.
Print Assumptions C09_argmax_lt.
Theorem C09_argmin_lt : forall (N : Num) (l : list (T N)), l <> [] -> argmin l < length l.
Proof. exact @argmin_lt. Qed.
Print Assumptions C09_argmin_lt.
(* Tier O: first index attaining the maximum / minimum of a NaN-free array *)
Theorem C09_np_argmax_spec : forall N : Num, TotalPreorderOn (@notnan N) ->
  forall l : list (T N), l <> [] -> Forall notnan l ->
  argmax l < length l /\
  Forall (fun x => x <=?! nth (argmax l) l zero = true) l /\
  Forall (fun x => x <?! nth (argmax l) l zero = true) (firstn (argmax l) l).
Proof. exact @np_argmax_spec. Qed.
Print Assumptions C09_np_argmax_spec.
Theorem C09_np_argmin_spec : forall N : Num, TotalPreorderOn (@notnan N) ->
  forall l : list (T N), l <> [] -> Forall notnan l ->
  argmin l < length l /\
  Forall (fun x => nth (argmin l) l zero <=?! x = true) l /\
  Forall (fun x => nth (argmin l) l zero <?! x = true) (firstn (argmin l) l).
Proof. exact @np_argmin_spec. Qed.
Print Assumptions C09_np_argmin_spec.
(* NaN behaviour: the first NaN wins (needs only "comparisons with a NaN are false") *)
Theorem C09_np_argmax_nan : forall N : Num, NanUnordered N ->
  forall (pre : list (T N)) x post, Forall notnan pre -> isnan x = true -> argmax (pre ++ x :: post) = length pre.
Proof. exact @np_argmax_nan. Qed.
Print Assumptions C09_np_argmax_nan.
Theorem C09_np_argmin_nan : forall N : Num, NanUnordered N ->
  forall (pre : list (T N)) x post, Forall notnan pre -> isnan x = true -> argmin (pre ++ x :: post) = length pre.
Proof. exact @np_argmin_nan. Qed.
Print Assumptions C09_np_argmin_nan.
(* the boolean predicates the judge uses characterise the two functions, NaN included *)
Theorem C09_first_argmax_b_iff : forall N : Num, TotalPreorderOn (@notnan N) -> NanUnordered N ->
  forall (l : list (T N)) k, l <> [] -> (first_argmax_b l k = true <-> k = argmax l).
Proof. exact @first_argmax_b_iff. Qed.
Print Assumptions C09_first_argmax_b_iff.
Theorem C09_first_argmin_b_iff : forall N : Num, TotalPreorderOn (@notnan N) -> NanUnordered N ->
  forall (l : list (T N)) k, l <> [] -> (first_argmin_b l k = true <-> k = argmin l).
Proof. exact @first_argmin_b_iff. Qed.
Print Assumptions C09_first_argmin_b_iff.
(* binary64 satisfies both hypotheses *)
Theorem C09_float_nan_unordered : NanUnordered FloatNum.
Proof. exact float_nan_unordered. Qed.
Print Assumptions C09_float_nan_unordered.

(* ------------------------------------------------------------------ curvature *)
Theorem C09_curvature_knee_interior : forall (N : Num) (curv : list (T N)) k,
  curvature_knee curv = Some k -> 1 <= k /\ k + 2 <= length curv.
Proof. exact @curvature_knee_interior. Qed.
Print Assumptions C09_curvature_knee_interior.
Theorem C09_curvature_knee_spec : forall N : Num, TotalPreorderOn (@notnan N) ->
  forall curv : list (T N), 3 <= length curv -> Forall notnan (interior curv) ->
  exists k, curvature_knee curv = Some k /\ 1 <= k /\ k + 2 <= length curv /\
            k = 1 + argmax (interior curv) /\ first_max (interior curv) (k - 1).
Proof. exact @curvature_knee_spec. Qed.
Print Assumptions C09_curvature_knee_spec.
Theorem C09_curvature_holds_float : forall curv : list float,
  3 <= length curv -> @curvature_holds FloatNum curv (@curvature_knee FloatNum curv) = 0%Z.
Proof. exact curvature_holds_float. Qed.
Print Assumptions C09_curvature_holds_float.
Theorem C09_curvature_holds_unique : forall N : Num, TotalPreorderOn (@notnan N) -> NanUnordered N ->
  forall (curv : list (T N)) o, 3 <= length curv -> curvature_holds curv o = 0%Z -> o = curvature_knee curv.
Proof. exact @curvature_holds_unique. Qed.
Print Assumptions C09_curvature_holds_unique.

(* ------------------------------------------------------------------ DFDT *)
Theorem C09_dfdt_get_knee_spec : forall N : Num, TotalPreorderOn (@notnan N) ->
  forall (grad : list (T N)) t, 3 <= length grad -> Forall notnan (interior (dfdt_diff grad t)) ->
  exists k, dfdt_get_knee grad t = Some k /\ 1 <= k /\ k + 2 <= length grad /\
            k = 1 + argmin (interior (dfdt_diff grad t)) /\ first_min (interior (dfdt_diff grad t)) (k - 1).
Proof. exact @dfdt_get_knee_spec. Qed.
Print Assumptions C09_dfdt_get_knee_spec.
Theorem C09_dfdt_knee_interior : forall (N : Num) (grad : list (T N)) (iso : nat -> option (T N)) k,
  dfdt_knee grad iso = Some k -> 1 <= k /\ k + 2 <= length grad.
Proof. exact @dfdt_knee_interior. Qed.
Print Assumptions C09_dfdt_knee_interior.
(* the loop returns within n iterations; its successive knees are the stated recursion *)
Theorem C09_dfdt_knee_total : forall (N : Num) (grad : list (T N)) (iso : nat -> option (T N)),
  3 <= length grad -> (forall c, iso c <> None) ->
  exists ks k, dfdt_knee_res grad iso = Ok ks /\ dfdt_knee grad iso = Some k /\ In k ks /\
               1 <= length ks <= length grad /\
               dfdt_chain_b (dfdt_exact_at grad iso) (length grad) 0 0 ks = true /\
               Forall (fun k0 => 1 <= k0 /\ k0 + 2 <= length grad) ks /\ SI (removelast ks).
Proof. exact @dfdt_knee_total. Qed.
Print Assumptions C09_dfdt_knee_total.
Theorem C09_dfdt_get_knee_holds_float : forall (grad : list float) (t : float),
  3 <= length grad -> @dfdt_get_knee_holds FloatNum grad t (@dfdt_get_knee FloatNum grad t) = 0%Z.
Proof. exact dfdt_get_knee_holds_float. Qed.
Print Assumptions C09_dfdt_get_knee_holds_float.
Theorem C09_dfdt_knee_holds_float : forall (grad : list float) (iso : nat -> option float),
  3 <= length grad -> (forall c, iso c <> None) ->
  @dfdt_knee_holds FloatNum grad iso (@dfdt_knee_res FloatNum grad iso) = 0%Z.
Proof. exact dfdt_knee_holds_float. Qed.
Print Assumptions C09_dfdt_knee_holds_float.

(* ------------------------------------------------------------------ Menger *)
Theorem C09_menger_knee_interior : forall N : Num, TotalPreorderOn (@notnan N) -> isnan (@zero N) = false ->
  forall (mc : list (T N)) k, menger_knee mc = Some k -> 0 <= k /\ k + 2 <= length mc + 2.
Proof. exact @menger_knee_interior. Qed.
Print Assumptions C09_menger_knee_interior.
Theorem C09_menger_knee_interior_float : forall (mc : list float) k,
  @menger_knee FloatNum mc = Some k -> 0 <= k /\ k + 2 <= length mc + 2.
Proof. exact menger_knee_interior_float. Qed.
Print Assumptions C09_menger_knee_interior_float.
Theorem C09_menger_knee_spec : forall N : Num, TotalPreorderOn (@notnan N) -> isnan (@zero N) = false ->
  forall mc : list (T N), Forall notnan mc ->
  exists k, menger_knee mc = Some k /\ k + 2 <= length mc + 2 /\
            k = argmax (menger_padded mc) /\ first_max (menger_padded mc) k.
Proof. exact @menger_knee_spec. Qed.
Print Assumptions C09_menger_knee_spec.
Theorem C09_menger_holds_float : forall mc : list float, @menger_holds FloatNum mc (@menger_knee FloatNum mc) = 0%Z.
Proof. exact menger_holds_float. Qed.
Print Assumptions C09_menger_holds_float.

(* ------------------------------------------------------------------ L-method *)
Theorem C09_lmethod_get_knee_range : forall (N : Num) (err : nat -> oval (T N)) m k,
  lm_get_knee err m = OVal k -> 3 <= m /\ 2 <= k <= Nat.max 2 (m - 3).
Proof. exact @lm_get_knee_range. Qed.
Print Assumptions C09_lmethod_get_knee_range.
(* first strict minimum of the two-line error over the split points 2 .. m-3 *)
Theorem C09_lmethod_get_knee_spec : forall (N : Num) (err : nat -> oval (T N)),
  TotalPreorderOn (@notnan N) -> NanUnordered N ->
  forall m k, lm_get_knee err m = OVal k -> lm_first_min_b err m k = true.
Proof. exact @lm_get_knee_spec. Qed.
Print Assumptions C09_lmethod_get_knee_spec.
Theorem C09_lmethod_first_min_unique : forall (N : Num) (err : nat -> oval (T N)), TotalPreorderOn (@notnan N) ->
  forall m k1 k2, lm_first_min_b err m k1 = true -> lm_first_min_b err m k2 = true -> k1 = k2.
Proof. exact @lm_first_min_b_unique. Qed.
Print Assumptions C09_lmethod_first_min_unique.
(* the refinement loops, for ANY scan oracle that answers within 2 .. max 2 (m-3) on m points *)
Theorem C09_lmethod_refine_adjusted_total : forall (scan : nat -> oval nat) (n limit : nat),
  (forall m k, scan m = OVal k -> 2 <= k <= Nat.max 2 (m - 3)) ->
  2 <= n -> within (lm_refine scan n limit RefAdjusted) (n + 3).
Proof. exact lmethod_refine_adjusted_total. Qed.
Print Assumptions C09_lmethod_refine_adjusted_total.
Theorem C09_lmethod_refine_original_total : forall (scan : nat -> oval nat) (n limit : nat),
  (forall m k, scan m = OVal k -> 2 <= k <= Nat.max 2 (m - 3)) ->
  2 <= n -> within (lm_refine scan n limit RefOriginal) n.
Proof. exact lmethod_refine_original_total. Qed.
Print Assumptions C09_lmethod_refine_original_total.
Theorem C09_lmethod_refine_none_total : forall (scan : nat -> oval nat) (n limit : nat),
  within (lm_refine scan n limit RefNone) 1.
Proof. exact lmethod_refine_none_total. Qed.
Print Assumptions C09_lmethod_refine_none_total.
Theorem C09_lmethod_knee_total : forall (N : Num) n (lerr : nat -> nat -> oval (T N)) it limit,
  2 <= n -> within (lmethod_knee_res n lerr it limit) (lm_iter_bound n it).
Proof. exact @lmethod_knee_total. Qed.
Print Assumptions C09_lmethod_knee_total.
Theorem C09_lmethod_knee_interior : forall (N : Num) n (lerr : nat -> nat -> oval (T N)) it limit k,
  4 <= n -> lmethod_knee n lerr it limit = Some k -> 1 <= k /\ k + 2 <= n.
Proof. exact @lmethod_knee_interior. Qed.
Print Assumptions C09_lmethod_knee_interior.
Theorem C09_lmethod_get_knee_holds_float : forall (err : nat -> oval float) m k,
  5 <= m -> @lm_get_knee FloatNum err m = OVal k -> @lm_get_knee_holds FloatNum err m (Some k) = 0%Z.
Proof. exact lm_get_knee_holds_float. Qed.
Print Assumptions C09_lmethod_get_knee_holds_float.
Theorem C09_lmethod_knee_holds_float : forall n (lerr : nat -> nat -> oval float) it limit,
  5 <= n ->
  (forall m, 3 <= m <= n -> Forall (fun i => oval_is_val (lerr m i) = true) (lm_cands m)) ->
  @lmethod_knee_holds FloatNum n lerr it limit (@lmethod_knee_res FloatNum n lerr it limit) = 0%Z.
Proof. exact lmethod_knee_holds_float. Qed.
Print Assumptions C09_lmethod_knee_holds_float.

(* ------------------------------------------------------------------ L-method with the criterion DERIVED in the model
   (lm_error: end-point / least-squares residuals, length ratios, rmse / rss combination; the only oracle is np.polyfit's
   residual `polyres`, about which nothing is assumed) *)
Theorem C09_lmethod_get_knee_derived_range : forall (N : Num) (xs ys : list (T N)) polyres fit cost k,
  lm_get_knee_derived xs ys polyres fit cost = OVal k -> 3 <= length xs /\ 2 <= k <= Nat.max 2 (length xs - 3).
Proof. exact @lm_get_knee_derived_range. Qed.
Print Assumptions C09_lmethod_get_knee_derived_range.
Theorem C09_lmethod_get_knee_derived_spec : forall (N : Num) (xs ys : list (T N)) polyres,
  TotalPreorderOn (@notnan N) -> NanUnordered N -> forall fit cost k,
  lm_get_knee_derived xs ys polyres fit cost = OVal k ->
  lm_first_min_b (lm_error xs ys polyres fit cost (length xs)) (length xs) k = true.
Proof. exact @lm_get_knee_derived_spec. Qed.
Print Assumptions C09_lmethod_get_knee_derived_spec.
Theorem C09_lmethod_knee_derived_total : forall (N : Num) (xs ys : list (T N)) polyres fit it limit,
  2 <= length xs -> within (lmethod_knee_res_derived xs ys polyres fit it limit) (lm_iter_bound (length xs) it).
Proof. exact @lmethod_knee_derived_total. Qed.
Print Assumptions C09_lmethod_knee_derived_total.
Theorem C09_lmethod_knee_derived_interior : forall (N : Num) (xs ys : list (T N)) polyres fit it limit k,
  4 <= length xs -> res_knee (lmethod_knee_res_derived xs ys polyres fit it limit) = Some k -> 1 <= k /\ k + 2 <= length xs.
Proof. exact @lmethod_knee_derived_interior. Qed.
Print Assumptions C09_lmethod_knee_derived_interior.
Theorem C09_lmethod_knee_holds_derived_float : forall (xs ys : list float) (polyres : nat -> nat -> oval float) fit it limit,
  5 <= length xs ->
  (forall m, 3 <= m <= length xs ->
     Forall (fun i => oval_is_val (@lm_error FloatNum xs ys polyres fit CostRmse m i) = true) (lm_cands m)) ->
  @lmethod_knee_holds FloatNum (length xs) (@lm_error FloatNum xs ys polyres fit CostRmse) it limit
                      (@lmethod_knee_res_derived FloatNum xs ys polyres fit it limit) = 0%Z.
Proof. exact lmethod_knee_holds_derived_float. Qed.
Print Assumptions C09_lmethod_knee_holds_derived_float.
(* with end-point lines and RSS the derived criterion is a value at every split point of the prefix *)
Theorem C09_lm_error_point_rss_val : forall (N : Num) (xs ys : list (T N)) polyres m i,
  i < m -> exists v, lm_error xs ys polyres FitPoint CostRss m i = OVal v.
Proof. exact @lm_error_point_rss_val. Qed.
Print Assumptions C09_lm_error_point_rss_val.
(* the bit-for-bit conjunct (library composite = derived value) holds of the model's own table *)
Theorem C09_lm_table_same_refl : forall (derived : nat -> nat -> oval float) (keys : list (nat * nat)),
  Forall (fun k => derived (fst k) (snd k) <> OMissing) keys ->
  lm_table_same_b f_same derived (map (fun k => (fst k, snd k, derived (fst k) (snd k))) keys) = true.
Proof. exact lm_table_same_refl. Qed.
Print Assumptions C09_lm_table_same_refl.

(* ------------------------------------------------------------------ non-vacuity (binary64, evaluated) *)
Example C09_example_curvature :
  @curvature_knee FloatNum [0x1p+0; 0x1p-1; 0x1.8p+1; 0x1p+0; 0x1p+2]%float = Some 2 /\
  @curvature_holds FloatNum [0x1p+0; 0x1p-1; 0x1.8p+1; 0x1p+0; 0x1p+2]%float (Some 2) = 0%Z /\
  (* a NaN criterion: the first NaN wins, still interior *)
  @curvature_knee FloatNum [0x1p+0; 0x1p-1; nan; 0x1p+3; 0x1p+2]%float = Some 2.
Proof. vm_compute. auto. Qed.
Example C09_example_dfdt :
  let grad := [(-0x1p+2); (-0x1p+2); (-0x1.8p+1); (-0x1p+0); (-0x1p-1); (-0x1p-2); (-0x1p-2)]%float in
  let iso := fun c : nat => Some (if Nat.eqb c 0 then (-0x1p+1)%float else (-0x1p+0)%float) in
  @dfdt_knee_res FloatNum grad iso = Ok [2; 3; 3] /\ @dfdt_knee FloatNum grad iso = Some 3 /\
  @dfdt_knee_holds FloatNum grad iso (Ok [2; 3; 3]) = 0%Z.
Proof. vm_compute. auto. Qed.
Example C09_example_menger :
  @menger_knee FloatNum [0x1p-3; 0x1p-1; 0x1p-1; 0x0p+0]%float = Some 2 /\
  @menger_holds FloatNum [0x1p-3; 0x1p-1; 0x1p-1; 0x0p+0]%float (Some 2) = 0%Z /\
  @menger_holds FloatNum [0x1p-3; 0x1p-1; 0x1p-1; 0x0p+0]%float (Some 3) = 3%Z.
Proof. vm_compute. auto. Qed.
(* scan oracles in range on which `adjusted` needs 4 iterations and `original` 3 *)
Example C09_example_refine :
  let scan1 := fun m : nat => OVal (if m <? 7 then 2 else if m <? 11 then 4 else 6) in
  let scan2 := fun m : nat => OVal (if m <? 7 then 2 else if m <? 14 then 4 else 6) in
  lm_refine scan1 12 3 RefAdjusted = Ok [6; 4; 2; 2] /\
  lm_refine scan2 20 3 RefOriginal = Ok [6; 4; 4] /\
  lm_refine scan1 12 3 RefNone = Ok [6].
Proof. vm_compute. auto. Qed.
Example C09_example_lmethod :
  let lerr := fun m i : nat => OVal (if Nat.eqb i 3 then 0x1p-2 else 0x1p+0)%float in
  @lmethod_knee_res FloatNum 8 lerr RefAdjusted 4 = Ok [3; 3] /\
  @lmethod_knee_holds FloatNum 8 lerr RefAdjusted 4 (Ok [3; 3]) = 0%Z /\
  @lmethod_knee_holds FloatNum 8 lerr RefAdjusted 4 (Ok [4; 4]) = 4%Z.
Proof. vm_compute. auto. Qed.
Example C09_example_derived :
  let xs := [0x0p+0; 0x1p+0; 0x1p+1; 0x1.8p+1; 0x1p+2; 0x1.4p+2; 0x1.8p+2]%float in
  let ys := [0x1p+3; 0x1p+2; 0x1p+1; 0x1p+0; 0x1p+0; 0x1p+0; 0x1p+0]%float in
  let nores := fun a b : nat => @OMissing float in
  @lm_get_knee_derived FloatNum xs ys nores FitPoint CostRmse = OVal 2 /\
  @lmethod_knee_res_derived FloatNum xs ys nores FitPoint RefAdjusted 4 = Ok [2; 2] /\
  oval_is_val (@lm_error FloatNum xs ys nores FitPoint CostRss 7 3) = true /\
  @lm_error FloatNum xs ys (fun a b => ORaise) FitBest CostRss 7 3 = ORaise /\
  @lmethod_knee_holds FloatNum 7 (@lm_error FloatNum xs ys nores FitPoint CostRmse) RefAdjusted 4 (Ok [2; 2]) = 0%Z.
Proof. vm_compute. auto. Qed.
