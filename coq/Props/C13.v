(* temporary stub *)
Theorem C13_stub : True. Proof. exact I. Qed.
Print Assumptions C13_stub.
