(* Props/C13.v — property C13: the worst-knee and corner filters implement exactly their selection rules.
   Only statements, each closed by `exact`, with its assumptions printed. *)
From Coq Require Import List Arith Bool PrimFloat.
From Knee Require Import Num NumFloat NpList OrdLaws Model.Filters Proofs.FiltersFacts.
Import ListNotations.
Local Open Scope num_scope.

(* Tier S: the loop of filter_worst_knees = the declarative greedy running-minimum subsequence (defined by recursion
   on prefixes); this equation is the predicate the implementation's output is judged with *)
Theorem C13_worst_is_running_min : forall (N : Num) (pts : list (@point N)) ks,
  filter_worst pts ks = running_min_spec (height pts) ks.
Proof. exact (fun N pts => @worst_is_running_min N (height pts)). Qed.
Print Assumptions C13_worst_is_running_min.

(* Tier S, read forwards: the first knee is kept, then each knee whose height is <= the lowest (most recently) kept so far *)
Theorem C13_worst_snoc : forall (N : Num) (h : nat -> T N) pre k,
  filter_worst_h h (pre ++ [k]) =
    match filter_worst_h h pre with
    | [] => [k]
    | kept => if h k <=?! h (last kept k) then kept ++ [k] else kept
    end.
Proof. exact @worst_snoc. Qed.
Print Assumptions C13_worst_snoc.

(* Tier S: order-preserving sublist that starts with the first knee *)
Theorem C13_worst_sublist : forall (N : Num) (h : nat -> T N) ks,
  sublistb (filter_worst_h h ks) ks = true /\ hd_error (filter_worst_h h ks) = hd_error ks.
Proof. exact @worst_sublist. Qed.
Print Assumptions C13_worst_sublist.

(* idempotent — Tier S (stronger than the Tier O asked for: no order law is needed, NaN heights included) *)
Theorem C13_worst_idempotent : forall (N : Num) (h : nat -> T N) ks,
  filter_worst_h h (filter_worst_h h ks) = filter_worst_h h ks.
Proof. exact @worst_idempotent. Qed.
Print Assumptions C13_worst_idempotent.

(* Tier O: when the heights form a total preorder a knee is kept iff its height is <= that of EVERY earlier knee *)
Theorem C13_worst_is_prefix_min : forall (N : Num) (h : nat -> T N) (P : T N -> Prop),
  TotalPreorderOn P -> forall ks, (forall k, In k ks -> P (h k)) ->
  filter_worst_h h ks = prefix_min_spec h ks.
Proof. exact @worst_is_prefix_min. Qed.
Print Assumptions C13_worst_is_prefix_min.

(* ... in particular on binary64 heights that are not NaN *)
Theorem C13_worst_is_prefix_min_float : forall (pts : list (float * float)) ks,
  (forall k, In k ks -> f_isnan (@height FloatNum pts k) = false) ->
  @filter_worst FloatNum pts ks = @prefix_min_spec FloatNum (@height FloatNum pts) ks.
Proof. exact worst_is_prefix_min_float. Qed.
Print Assumptions C13_worst_is_prefix_min_float.

(* Tier S: filter and selector return order-preserving sublists; a knee's membership is decided by the code's own
   comparison of t with the IoU computed from the knee's neighbours IN THE CURVE; knees at either end of the curve
   are kept by the filter and dropped by the selector *)
Theorem C13_corner_membership : forall (N : Num) (pts : list (@point N)) (t : T N) ks k,
  (In k (filter_corner pts ks t) <->
     In k ks /\ (has_nb (length pts) k = false \/ (corner_iou pts k <?! t) = true)) /\
  (In k (select_corner pts ks t) <->
     In k ks /\ has_nb (length pts) k = true /\ (t <=?! corner_iou pts k) = true).
Proof. exact @corner_membership. Qed.
Print Assumptions C13_corner_membership.

Theorem C13_corner_sublists : forall (N : Num) (pts : list (@point N)) (t : T N) ks,
  sublistb (filter_corner pts ks t) ks = true /\ sublistb (select_corner pts ks t) ks = true.
Proof. exact @corner_sublists. Qed.
Print Assumptions C13_corner_sublists.

(* Tier S: the rule of a single call, as a boolean predicate (judges each call of the same-object multi-call stream) *)
Theorem C13_corner_call_rules : forall (N : Num) (pts : list (@point N)) (t : T N) ks,
  filter_rule_holdsb pts ks t (filter_corner pts ks t) = true /\
  select_rule_holdsb pts ks t (select_corner pts ks t) = true.
Proof. exact @corner_call_rules. Qed.
Print Assumptions C13_corner_call_rules.

(* Tier S: both are idempotent (the decision never depends on the other knees) *)
Theorem C13_corner_idempotent : forall (N : Num) (pts : list (@point N)) (t : T N) ks,
  filter_corner pts (filter_corner pts ks t) t = filter_corner pts ks t /\
  select_corner pts (select_corner pts ks t) t = select_corner pts ks t.
Proof. exact @corner_idempotent. Qed.
Print Assumptions C13_corner_idempotent.

(* Tier O on the compared values: where `p < t` is the negation of `p >= t` (no NaN) filter and selector partition the
   knee list: both sublists, every knee in exactly one, selected iff t <= IoU, end knees in the filter.
   corner_holdsb is the predicate the implementation's outputs are judged with *)
Theorem C13_corner_partition : forall (N : Num) (pts : list (@point N)) (t : T N) ks,
  (forall k, In k ks -> has_nb (length pts) k = true ->
     (corner_iou pts k <?! t) = negb (t <=?! corner_iou pts k)) ->
  corner_holdsb pts ks t (filter_corner pts ks t) (select_corner pts ks t) = true.
Proof. exact @corner_partition. Qed.
Print Assumptions C13_corner_partition.

Theorem C13_corner_complement : forall (N : Num) (pts : list (@point N)) (t : T N) ks,
  (forall k, In k ks -> has_nb (length pts) k = true ->
     (corner_iou pts k <?! t) = negb (t <=?! corner_iou pts k)) ->
  select_corner pts ks t = filter (fun k => negb (corner_keepb pts t k)) ks.
Proof. exact @corner_complement. Qed.
Print Assumptions C13_corner_complement.

(* ... in particular on binary64 whenever t and the IoUs are not NaN *)
Theorem C13_corner_partition_float : forall (pts : list (float * float)) (t : float) ks,
  f_isnan t = false ->
  (forall k, In k ks -> has_nb (length pts) k = true -> f_isnan (@corner_iou FloatNum pts k) = false) ->
  @corner_holdsb FloatNum pts ks t (@filter_corner FloatNum pts ks t) (@select_corner FloatNum pts ks t) = true.
Proof. exact corner_partition_float. Qed.
Print Assumptions C13_corner_partition_float.

(* non-vacuity.  Heights 4, 4 (tie: kept, <=), 5 (dropped), 3.5, 3, 3 (tie: kept).
   IoUs of knees 1..6: 0, 0.5, 0.25, 1/12, 0, 0.5 — at t = 0.25 knee 3 is exactly on the threshold and goes to the
   selector (>=); at the next double above it stays in the filter; knees 0 and 7 (curve ends) stay in the filter *)
Definition ex_pts : list (float * float) := [(0,9); (1,4); (2,4); (3,5); (4,3.5); (6,3); (7,3); (8,0)]%float.
Example C13_example :
  @filter_worst FloatNum ex_pts [1; 2; 3; 4; 6; 7] = [1; 2; 4; 6; 7] /\
  @running_min_spec FloatNum (@height FloatNum ex_pts) [1; 2; 3; 4; 6; 7] = [1; 2; 4; 6; 7] /\
  @prefix_min_spec FloatNum (@height FloatNum ex_pts) [1; 2; 3; 4; 6; 7] = [1; 2; 4; 6; 7] /\
  @corner_iou FloatNum ex_pts 3 = 0.25%float /\
  @filter_corner FloatNum ex_pts [0; 1; 2; 3; 4; 6; 7] 0.25%float = [0; 1; 4; 7] /\
  @select_corner FloatNum ex_pts [0; 1; 2; 3; 4; 6; 7] 0.25%float = [2; 3; 6] /\
  @filter_corner FloatNum ex_pts [0; 1; 2; 3; 4; 6; 7] 0x1.0000000000001p-2%float = [0; 1; 3; 4; 7] /\
  @select_corner FloatNum ex_pts [0; 1; 2; 3; 4; 6; 7] 0x1.0000000000001p-2%float = [2; 6] /\
  @corner_holdsb FloatNum ex_pts [0; 1; 2; 3; 4; 6; 7] 0.25%float [0; 1; 4; 7] [2; 3; 6] = true /\
  @corner_holdsb FloatNum ex_pts [0; 1; 2; 3; 4; 6; 7] 0.25%float [0; 1; 3; 4; 7] [2; 6] = false /\
  @worst_holdsb FloatNum ex_pts [1; 2; 3; 4; 6; 7] [1; 2; 4; 6; 7] [1; 2; 4; 6; 7] = true /\
  @worst_holdsb FloatNum ex_pts [1; 2; 3; 4; 6; 7] [1; 4; 6] [1; 4; 6] = false.
Proof. vm_compute. repeat split. Qed.
