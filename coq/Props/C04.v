(* Props/C04.v — property C04: threshold RDP (rdp.rdp) keeps a segment only if it fits and splits only where
   it must.  Only statements, each closed by `exact`, with its assumptions printed.

   Quantification: every Num instance N (in particular binary64 with every rounding / NaN / overflow), every
   oracle valuation dist / segcost (= whatever the library's distance and cost primitives return on sub-arrays),
   both accept/reject senses (r2), every threshold t and every n >= 2, under
     Hdom   : curved (trivial cost) = false     (the property's threshold domain: t > 0, resp. t <= 1 for R2)
     Hshape : len(distance_points(points[l:r], ..)) = r - l   for 3-or-more-point sub-arrays.
   Tier S unless marked Tier O. *)
From Coq Require Import List Arith Bool PrimFloat.
From Knee Require Import Num NumFloat NpList OrdLaws FloatOrder Model.Mapping Model.Rdp
  Proofs.ListFacts Proofs.MappingFacts Proofs.SegFacts Proofs.RdpFacts Proofs.RdpUnique Proofs.RdpCostFacts Model.Metrics Model.LinearFit Model.RdpCost Run.RdpTables.
Import ListNotations.
Local Open Scope num_scope.

(* every retained segment that has interior points was evaluated and is on the accepting side of t *)
Theorem C04_rdp_kept_fit : forall (N : Num) (dist : nat -> nat -> list (T N)) (segcost : nat -> nat -> T N)
    (r2 : bool) (t : T N) (n : nat),
  curved r2 t (trivial_cost r2) = false ->
  (forall l r, l + 3 <= r -> r <= n -> length (dist l r) = r - l) ->
  2 <= n ->
  forall red rem vis, rdp dist segcost r2 t n = Some (red, rem, vis) ->
  forall a b, In (a, b) (pairs red) -> 2 <= b - a -> curved r2 t (segcost a (b + 1)) = false.
Proof. exact @rdp_kept_fit. Qed.
Print Assumptions C04_rdp_kept_fit.

(* the retained set is the recursive partition: Expl (inductive, RdpFacts.v) and its executable form *)
Theorem C04_rdp_split_explained : forall (N : Num) (dist : nat -> nat -> list (T N)) (segcost : nat -> nat -> T N)
    (r2 : bool) (t : T N) (n : nat),
  curved r2 t (trivial_cost r2) = false ->
  (forall l r, l + 3 <= r -> r <= n -> length (dist l r) = r - l) ->
  2 <= n ->
  forall red rem vis, rdp dist segcost r2 t n = Some (red, rem, vis) ->
  Expl dist segcost r2 t red 0 (n - 1) /\ explb dist segcost r2 t n red 0 (n - 1) = true.
Proof. exact @rdp_split_explained. Qed.
Print Assumptions C04_rdp_split_explained.

(* the boolean the judge evaluates is the inductive predicate *)
Theorem C04_explb_sound : forall (N : Num) (dist : nat -> nat -> list (T N)) (segcost : nat -> nat -> T N)
    (r2 : bool) (t : T N) fuel S l r,
  explb dist segcost r2 t fuel S l r = true -> Expl dist segcost r2 t S l r.
Proof. exact @explb_sound. Qed.
Print Assumptions C04_explb_sound.
Theorem C04_explb_complete : forall (N : Num) (dist : nat -> nat -> list (T N)) (segcost : nat -> nat -> T N)
    (r2 : bool) (t : T N) S l r,
  Expl dist segcost r2 t S l r -> forall fuel, r - l < fuel -> explb dist segcost r2 t fuel S l r = true.
Proof. exact @explb_complete. Qed.
Print Assumptions C04_explb_complete.

(* the split index is strictly inside the range whatever the distances are (NaN included) *)
Theorem C04_split_interior : forall (N : Num) (d : list (T N)), 3 <= length d -> 1 <= split d <= length d - 2.
Proof. exact @split_interior. Qed.
Print Assumptions C04_split_interior.

(* Tier O: on totally pre-ordered non-NaN interior distances no interior point is farther than the split point *)
Theorem C04_split_is_argmax : forall (N : Num), TotalPreorderOn (@notnan N) ->
  forall (d : list (T N)) (z : T N), 3 <= length d -> Forall notnan (interior d) ->
  forall j, 1 <= j <= length d - 2 -> nth j d z <=?! nth (split d) d z = true.
Proof. exact @split_is_argmax. Qed.
Print Assumptions C04_split_is_argmax.
(* ... in particular for binary64 (Tier O discharged by FloatOrder.float_total_preorder) *)
Theorem C04_split_is_argmax_float : forall (d : list float) (z : float), 3 <= length d ->
  Forall (@notnan FloatNum) (interior d) ->
  forall j, 1 <= j <= length d - 2 -> PrimFloat.leb (nth j d z) (nth (@split FloatNum d) d z) = true.
Proof. exact (@split_is_argmax FloatNum float_total_preorder). Qed.
Print Assumptions C04_split_is_argmax_float.

(* Tier O reading of the whole explanation: every split is at an interior maximum of its range *)
Theorem C04_expl_max : forall (N : Num) (dist : nat -> nat -> list (T N)) (segcost : nat -> nat -> T N)
    (r2 : bool) (t : T N) (n : nat),
  (forall l r, l + 3 <= r -> r <= n -> length (dist l r) = r - l) ->
  TotalPreorderOn (@notnan N) ->
  (forall l r, l + 3 <= r -> r <= n -> Forall notnan (interior (dist l r))) ->
  forall S l r, r + 1 <= n -> Expl dist segcost r2 t S l r -> ExplMax dist segcost r2 t S l r.
Proof. exact @expl_max. Qed.
Print Assumptions C04_expl_max.

(* the statement in the form the correspondence run uses: the judge's predicate C04_code (well-formed output,
   removed table = rows, kept segments fit, retained set explained) is 0 on the model's output *)
Theorem C04_rdp_code : forall (N : Num) (dist : nat -> nat -> list (T N)) (segcost : nat -> nat -> T N)
    (r2 : bool) (t : T N) (n : nat),
  curved r2 t (trivial_cost r2) = false ->
  (forall l r, l + 3 <= r -> r <= n -> length (dist l r) = r - l) ->
  2 <= n ->
  C04_code dist segcost r2 t n (without_iters (rdp dist segcost r2 t n)) = 0.
Proof. exact @rdp_C04_code. Qed.
Print Assumptions C04_rdp_code.

(* the predicate pins the output down: an output that passes C04_code IS the model's output (so "holds" on the
   implementation's output implies agreement with the model: the retained set is THE recursive partition) *)
Theorem C04_code_characterises : forall (N : Num) (dist : nat -> nat -> list (T N)) (segcost : nat -> nat -> T N)
    (r2 : bool) (t : T N) (n : nat),
  curved r2 t (trivial_cost r2) = false ->
  (forall l r, l + 3 <= r -> r <= n -> length (dist l r) = r - l) ->
  2 <= n ->
  forall red rem, C04_code dist segcost r2 t n (Some (red, rem)) = 0 ->
  exists vis, rdp dist segcost r2 t n = Some (red, rem, vis).
Proof. exact @C04_code_unique. Qed.
Print Assumptions C04_code_characterises.

(* non-vacuity: rdp.rdp(np.array([[0,1],[1,3],[2,2],[3,5],[4,1],[5,2]]), 0.25) (shortest distance, smape) with the
   library's own distance / cost values on the three sub-arrays that are visited; the hypotheses hold, the model
   returns what the implementation returns ([0 3 4 5], [[0,2],[3,0],[4,0]]) in 5 <= 2*6-3 iterations, the predicate
   accepts it and rejects an over-retaining, an under-retaining and a wrongly split output, and "did not return" *)
Example C04_example :
  let dt : dtab := [(0, 6, [0x0.0p+0%float; 0x1.c3da00d7ba4e0p+0%float; 0x1.2d3c008fd1895p-1%float; 0x1.aabfab7668d7ep+1%float; 0x1.91a556151761cp-1%float; 0x0.0p+0%float]);
     (3, 6, [0x0.0p+0%float; 0x1.6a09e667f3bcdp+0%float; 0x0.0p+0%float])] in
  let ct : ctab := [(0, 6, 0x1.dfe21982cad3cp-2%float); (0, 4, 0x1.ad2d2d2d2d2d4p-3%float); (3, 6, 0x1.7b425ed097b43p-2%float)] in
  let t := 0x1p-2%float in
  @curved FloatNum false t (@trivial_cost FloatNum false) = false /\
  shape_ok dt = true /\
  @rdp FloatNum (dist_of dt) (cost_from ct) false t 6 =
    Some ([0; 3; 4; 5], [(0, 2); (3, 0); (4, 0)], [(0, 6); (0, 4); (3, 6); (3, 5); (4, 6)]) /\
  @C04_code FloatNum (dist_of dt) (cost_from ct) false t 6 (Some ([0; 3; 4; 5], [(0, 2); (3, 0); (4, 0)])) = 0 /\
  @C04_code FloatNum (dist_of dt) (cost_from ct) false t 6 (Some ([0; 1; 3; 4; 5], [(0, 0); (1, 1); (3, 0); (4, 0)])) = 5 /\
  @C04_code FloatNum (dist_of dt) (cost_from ct) false t 6 (Some ([0; 3; 5], [(0, 2); (3, 1)])) = 4 /\
  @C04_code FloatNum (dist_of dt) (cost_from ct) false t 6 (Some ([0; 2; 4; 5], [(0, 1); (2, 1); (4, 0)])) = 5 /\
  @C04_code FloatNum (dist_of dt) (cost_from ct) false t 6 None = 1.
Proof. vm_compute. repeat split. Qed.

(* ---- the same statements with the segment cost DERIVED in the model from the points (Model/RdpCost.v: end-point line of
        points[l:r] as linear_fit computes it, fitted values m*x+b, the metric rdp.compute_cost_coef dispatches to; smape, rpd,
        rmspe, R2 computed, rmsle an oracle).  This is the instance the correspondence run evaluates; the library's own composite
        rdp.compute_cost_coef(points[l:r], lf.linear_fit_points(points[l:r]), cost) is compared with derived_cost bit for bit as an
        extra conjunct of the judge. ---- *)
Theorem C04_rdp_code_derived : forall (N : Num) (P : list (@pt N)) (eps : T N) (rmsle_cost : nat -> nat -> T N)
    (dist : nat -> nat -> list (T N)) (m : metric) (t : T N) (n : nat),
  curved (metric_is_r2 m) t (trivial_cost (metric_is_r2 m)) = false ->
  (forall l r, l + 3 <= r -> r <= n -> length (dist l r) = r - l) ->
  2 <= n ->
  C04_code dist (derived_cost P eps rmsle_cost m) (metric_is_r2 m) t n
    (without_iters (rdp dist (derived_cost P eps rmsle_cost m) (metric_is_r2 m) t n)) = 0.
Proof. exact @rdp_C04_code_derived. Qed.
Print Assumptions C04_rdp_code_derived.

Theorem C04_rdp_kept_fit_derived : forall (N : Num) (P : list (@pt N)) (eps : T N) (rmsle_cost : nat -> nat -> T N)
    (dist : nat -> nat -> list (T N)) (m : metric) (t : T N) (n : nat),
  curved (metric_is_r2 m) t (trivial_cost (metric_is_r2 m)) = false ->
  (forall l r, l + 3 <= r -> r <= n -> length (dist l r) = r - l) ->
  2 <= n ->
  forall red rem vis, rdp dist (derived_cost P eps rmsle_cost m) (metric_is_r2 m) t n = Some (red, rem, vis) ->
  forall a b, In (a, b) (pairs red) -> 2 <= b - a ->
  curved (metric_is_r2 m) t (derived_cost P eps rmsle_cost m a (b + 1)) = false.
Proof. exact @rdp_kept_fit_derived. Qed.
Print Assumptions C04_rdp_kept_fit_derived.

Theorem C04_code_characterises_derived : forall (N : Num) (P : list (@pt N)) (eps : T N) (rmsle_cost : nat -> nat -> T N)
    (dist : nat -> nat -> list (T N)) (m : metric) (t : T N) (n : nat),
  curved (metric_is_r2 m) t (trivial_cost (metric_is_r2 m)) = false ->
  (forall l r, l + 3 <= r -> r <= n -> length (dist l r) = r - l) ->
  2 <= n ->
  forall red rem, C04_code dist (derived_cost P eps rmsle_cost m) (metric_is_r2 m) t n (Some (red, rem)) = 0 ->
  exists vis, rdp dist (derived_cost P eps rmsle_cost m) (metric_is_r2 m) t n = Some (red, rem, vis).
Proof. exact @C04_code_unique_derived. Qed.
Print Assumptions C04_code_characterises_derived.

(* non-vacuity of the derived instance: the points of C04_example; the derived smape cost of the three visited ranges is
   bit-identical to what rdp.compute_cost_coef returned (the table of C04_example), and the model run on derived costs gives
   the same output *)
Example C04_example_derived :
  let P : list (float * float) := [(0, 1); (1, 3); (2, 2); (3, 5); (4, 1); (5, 2)]%float in
  let ct : ctab := [(0, 6, 0x1.dfe21982cad3cp-2%float); (0, 4, 0x1.ad2d2d2d2d2d4p-3%float); (3, 6, 0x1.7b425ed097b43p-2%float)] in
  let dt : dtab := [(0, 6, [0x0.0p+0%float; 0x1.c3da00d7ba4e0p+0%float; 0x1.2d3c008fd1895p-1%float; 0x1.aabfab7668d7ep+1%float; 0x1.91a556151761cp-1%float; 0x0.0p+0%float]);
     (3, 6, [0x0.0p+0%float; 0x1.6a09e667f3bcdp+0%float; 0x0.0p+0%float])] in
  cost_match MSmape P ct = true /\
  @rdp FloatNum (dist_of dt) (segcost_of MSmape P []) false 0x1p-2%float 6 =
    Some ([0; 3; 4; 5], [(0, 2); (3, 0); (4, 0)], [(0, 6); (0, 4); (3, 6); (3, 5); (4, 6)]) /\
  cost_match MRpd P ct = false.
Proof. vm_compute. repeat split. Qed.
