(* Props/C14.v — property C14: even-point insertion returns the documented candidates, height-filtered.
   Only statements, each closed by `exact`, with its assumptions printed.
   Model: Model/EvenPoints.v (postprocessing.add_points_even, add_points_even_knees, generic over the arithmetic N).
   The specification `even_spec segs knees extremes` is: the running-minimum filter `rmf` (filter_worst_knees) of the
   sorted duplicate-free union (np_unique) of the knees, of the points l + j*((r-l) div c), j = 1..c, c = ceil(w/(2 tx)),
   of every segment (l, r) of `segs` with normalised width w > 2 tx and normalised height > ty, and (if requested)
   of 0 and n-1.  None = the code raises (a zero divisor / ceil of a non-finite value / a zero count). *)
From Coq Require Import List Arith Bool ZArith Reals PrimFloat.
From Knee Require Import Num NumFloat NumR NpList Model.Mapping Model.EvenPoints Proofs.ListFacts Proofs.MappingFacts
  Proofs.EvenPointsFacts Proofs.EvenPointsReal.
Import ListNotations.

(* Tier S — add_points_even equals its specification over the retained segments consecutive(reduced), with the
   knees mapped back to curve indices reduced[k]; for every arithmetic, every curve, every thresholds *)
Theorem C14_even_spec :
  forall (N : Num) (xs ys : list (T N)) (tx ty : T N) (n : nat) (red knees : list nat) (ext : bool),
  WF n red -> ND knees -> Forall (fun k => k < length red) knees ->
  add_points_even xs ys tx ty red (rows red) knees ext = even_spec_reduced xs ys tx ty red knees ext.
Proof. exact @even_spec_thm. Qed.
Print Assumptions C14_even_spec.

(* Tier S — the knees-as-markers variant: the same over the gaps curve start .. first knee, consecutive knees,
   last knee .. curve end; NO hypothesis — the empty knee set included (then the gaps are (0,n-1) and (n-1,n-1)) *)
Theorem C14_even_knees_spec :
  forall (N : Num) (xs ys : list (T N)) (tx ty : T N) (knees : list nat) (ext : bool),
  add_points_even_knees xs ys tx ty knees ext = even_spec_knees xs ys tx ty knees ext.
Proof. exact @even_knees_spec_thm. Qed.
Print Assumptions C14_even_knees_spec.

(* the gaps are the consecutive pairs of 0 :: knees ++ [n-1] whenever there is a knee *)
Theorem C14_knee_gaps : forall nl knees,
  (knees <> [] -> knee_gaps nl knees = consecutive (0 :: knees ++ [nl])) /\ knee_gaps nl [] = [(0, nl); (nl, nl)].
Proof. exact (fun nl knees => conj (knee_gaps_consecutive nl knees) (knee_gaps_nil nl)). Qed.
Print Assumptions C14_knee_gaps.

(* Tier S — every returned index is a valid curve index, for all inputs and every arithmetic *)
Theorem C14_even_valid :
  forall (N : Num) (xs ys : list (T N)) (tx ty : T N) (red knees : list nat) (ext : bool) (res : list nat),
  WF (length xs) red -> 1 <= length xs -> ND knees -> Forall (fun k => k < length red) knees ->
  add_points_even xs ys tx ty red (rows red) knees ext = Some res -> Forall (fun k => k < length xs) res.
Proof. exact @even_valid_thm. Qed.
Print Assumptions C14_even_valid.

Theorem C14_even_knees_valid :
  forall (N : Num) (xs ys : list (T N)) (tx ty : T N) (knees : list nat) (ext : bool) (res : list nat),
  1 <= length xs -> ND knees -> Forall (fun k => k < length xs) knees ->
  add_points_even_knees xs ys tx ty knees ext = Some res -> Forall (fun k => k < length xs) res.
Proof. exact @even_knees_valid_thm. Qed.
Print Assumptions C14_even_knees_valid.

(* the candidates of a segment never pass its right end: l + j * ((r-l) div c) <= r *)
Theorem C14_candidates_within :
  forall (N : Num) (xs : list (T N)) (tx : T N) (l r : nat) (p : list nat),
  l <= r -> spec_points xs tx l r = Some p -> Forall (fun x => x <= r) p.
Proof. exact @spec_points_bound. Qed.
Print Assumptions C14_candidates_within.

(* Tier S — completion reduces to two facts about the arithmetic: the spans are non-zero and every qualifying
   segment gets a non-zero candidate count *)
Theorem C14_even_total :
  forall (N : Num) (xs ys : list (T N)) (tx ty : T N) (segs : list (nat * nat)) (knees : list nat) (ext : bool),
  eqb (span_x xs) zero = false -> eqb (span_y ys) zero = false ->
  (forall l r, In (l, r) segs -> qualifies xs ys tx ty l r = Some true ->
               exists c, count xs tx l r = Some c /\ c <> 0%Z) ->
  exists res, even_spec xs ys tx ty segs knees ext = Some res.
Proof. exact @even_spec_total. Qed.
Print Assumptions C14_even_total.

(* Tier A — over the reals both facts hold on every non-flat curve with tx > 0 (a qualifying segment has
   w/(2 tx) > 1, so its count is at least 2) *)
Theorem C14_even_completes_R :
  forall (xs ys : list R) (tx ty : R) (segs : list (nat * nat)) (knees : list nat) (ext : bool),
  (0 < tx)%R -> @span_x RNum xs <> 0%R -> @span_y RNum ys <> 0%R ->
  exists res, @even_spec RNum xs ys tx ty segs knees ext = Some res.
Proof. exact even_completes_R. Qed.
Print Assumptions C14_even_completes_R.

(* non-vacuity on binary64: 9 points, reduction {0,4,8}, knee at reduced position 1 (curve index 4) *)
Definition ex_xs : list (T FloatNum) := [0; 1; 2; 3; 4; 5; 6; 7; 8]%float.
Definition ex_ys : list (T FloatNum) := [9; 7; 5; 4; 3; 2.5; 2; 1.5; 1]%float.
Example C14_example :
  WFb 9 [0; 4; 8] = true /\
  add_points_even ex_xs ex_ys 0.125%float 0.125%float [0; 4; 8] (rows [0; 4; 8]) [1] true = Some [0; 2; 4; 6; 8] /\
  even_spec_reduced ex_xs ex_ys 0.125%float 0.125%float [0; 4; 8] [1] true = Some [0; 2; 4; 6; 8] /\
  add_points_even ex_xs ex_ys 0.0625%float 0.125%float [0; 4; 8] (rows [0; 4; 8]) [1] false = Some [1; 2; 3; 4; 5; 6; 7; 8] /\
  add_points_even_knees ex_xs ex_ys 0.125%float 0.125%float [4] false = Some [2; 4; 6; 8] /\
  even_spec_knees ex_xs ex_ys 0.125%float 0.125%float [4] false = Some [2; 4; 6; 8] /\
  add_points_even_knees ex_xs ex_ys 0.125%float 0.125%float [] false = Some [2; 4; 6; 8] /\
  add_points_even ex_xs ex_ys 0.125%float 0.125%float [0; 4; 8] (rows [0; 4; 8]) [] false = Some [2; 4; 6; 8].
Proof. vm_compute. repeat split; reflexivity. Qed.
