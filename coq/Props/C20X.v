(* Props/C20X.v — refinement of the public functions that no property C01-C19 models (DESIGN.md 2.8) to the pure Gallina
   functions of Model/Extras.v: the structural theorems that make those models meaningful.  The same statements are part of
   Props/C20.v as C20_refine_*; this file exists so that `./check C20X` (harness/c20x.py, Run/JudgeC20X.v) runs stand-alone.
   Only statements, each closed by `exact`, with its assumptions printed.  Tier S (every N : Num, every per-window R2 / slope
   function r2f / slf, every sorting permutation) except *_min (Tier O) and *_float (the FloatNum instance the judge runs). *)
From Coq Require Import List Arith Bool Permutation PrimFloat.
From Knee Require Import Num NumFloat NpList OrdLaws FloatOrder Model.Metrics Model.LinearFit Model.Geometry Model.Extras
                         Model.ExtrasZ Model.ExtrasKneedle
                         Proofs.ListFacts Proofs.GeometryFacts Proofs.ExtrasFacts Proofs.ExtrasZFacts Proofs.ExtrasKFacts.
Import ListNotations.
Local Open Scope num_scope.

(* get_neighbourhood: the loop is a structural recursion on a - 1 - b (it runs at most that often); the result (j, r, s) has
   b <= j <= a-1, r and s are the R2 / slope of the window [j : a+1] (1.0 by fiat for the two-point window), every window between
   j and a is straighter than t, and j is maximal: j = b, or the next window is not straighter than t (or t >= 1 and j = a-1) *)
Theorem C20X_get_nb_spec : forall (N : Num) (r2f slf : nat -> T N) (t : T N) (same : T N -> T N -> bool),
  (forall v, same v v = true) -> forall a b, b <= a - 1 -> gn_specb r2f slf t same a b (get_nb r2f slf t a b) = 0.
Proof. exact (@get_nb_spec). Qed.
Print Assumptions C20X_get_nb_spec.

Theorem C20X_get_neighbourhood_spec : forall (N : Num) (same : T N -> T N -> bool), (forall v, same v v = true) ->
  forall (x y : list (T N)) a b t, b <= a - 1 ->
  gn_specb (seg_r2 x y a) (seg_slope x y a) t same a b (get_neighbourhood x y a b t) = 0.
Proof. exact (@get_neighbourhood_spec). Qed.
Print Assumptions C20X_get_neighbourhood_spec.

Theorem C20X_get_neighbourhood_range : forall (N : Num) (x y : list (T N)) a b t, b <= a - 1 ->
  let j := fst (fst (get_neighbourhood x y a b t)) in b <= j /\ j <= a - 1.
Proof. exact (@get_neighbourhood_range). Qed.
Print Assumptions C20X_get_neighbourhood_range.

(* get_neighbourhood_binary TERMINATES for every b <= a, whatever the R2 values are: fuel (a-b+1)^2 + 1 suffices (the pair
   (right - b, right - i) decreases lexicographically), more fuel never changes the answer, and the result lies in [b, a-1] *)
Theorem C20X_binary_terminates : forall (N : Num) (r2f : nat -> T N) (t : T N) a b, b <= a ->
  exists r, get_nb_binary r2f t a b = Some r /\ b <= r /\ (r <= a - 1 \/ r = b).
Proof. exact (@gnb_terminates). Qed.
Print Assumptions C20X_binary_terminates.
Theorem C20X_binary_fuel_mono : forall (N : Num) (r2f : nat -> T N) (t : T N) b fuel i rgt r,
  gnb_loop r2f t fuel i rgt b = Some r -> gnb_loop r2f t (S fuel) i rgt b = Some r.
Proof. exact (@gnb_loop_mono). Qed.
Print Assumptions C20X_binary_fuel_mono.
Theorem C20X_get_neighbourhood_binary : forall (N : Num) (x y : list (T N)) a b t, b <= a ->
  exists r, get_neighbourhood_binary x y a b t = Some r /\ gnb_specb a b r = 0.
Proof. exact (@get_neighbourhood_binary_terminates). Qed.
Print Assumptions C20X_get_neighbourhood_binary.

(* get_neighbourhood_fast: defined; from the binary search's index i0 the linear search runs at most a - i0 times and returns the
   first window at or after i0 that is not less straight than t (or the single point a), with its own R2 / slope *)
Theorem C20X_get_neighbourhood_fast_spec : forall (N : Num) (same : T N -> T N -> bool), (forall v, same v v = true) ->
  forall (x y : list (T N)) a b t, b <= a ->
  exists i0 res, get_neighbourhood_binary x y a b t = Some i0 /\ gnb_specb a b i0 = 0 /\
                 get_neighbourhood_fast x y a b t = Some res /\
                 gnf_specb (seg_r2 x y a) (seg_slope x y a) t same a i0 res = 0.
Proof. exact (@get_neighbourhood_fast_spec). Qed.
Print Assumptions C20X_get_neighbourhood_fast_spec.

Theorem C20X_points_wrappers : forall (N : Num) (P : list (@pt N)) a b t,
  get_neighbourhood_points P a b t = get_neighbourhood (xs P) (ys P) a b t /\
  get_neighbourhood_fast_points P a b t = get_neighbourhood_fast (xs P) (ys P) a b t.
Proof. exact (fun N P a b t => conj (@get_neighbourhood_points_eq N P a b t) (@get_neighbourhood_fast_points_eq N P a b t)). Qed.
Print Assumptions C20X_points_wrappers.

(* accuracy_knee / accuracy_trace: one row per knee, and the five numbers are NumPy means of the per-knee lists
   (|dx| / total_x, |dy| / total_y, |slope| / max |slope|, r2 / max r2 [clipped at 0 for accuracy_trace], and slope * dy [* r2]);
   an empty knee set raises *)
Theorem C20X_accuracy_knee_average : forall (N : Num) (P : list (@pt N)) (knees : list nat), knees <> [] -> chain 0 knees ->
  exists rows r, ak_rows (xs P) (ys P) 0 knees = Some rows /\ length rows = length knees /\
                 accuracy_knee P knees = Some r /\ is_average_of false (total_of (xs P)) (total_of (ys P)) rows r.
Proof. exact (@accuracy_knee_average). Qed.
Print Assumptions C20X_accuracy_knee_average.
Theorem C20X_accuracy_trace_average : forall (N : Num) (P : list (@pt N)) (knees : list nat), knees <> [] ->
  let rows := at_rows (xs P) (ys P) 0 knees in
  length rows = length knees /\
  exists r, accuracy_trace P knees = Some r /\ is_average_of true (total_of (xs P)) (total_of (ys P)) rows r.
Proof. exact (@accuracy_trace_average). Qed.
Print Assumptions C20X_accuracy_trace_average.
Theorem C20X_accuracy_empty : forall (N : Num) (P : list (@pt N)), accuracy_knee P [] = None /\ accuracy_trace P [] = None.
Proof. exact (@accuracy_empty). Qed.
Print Assumptions C20X_accuracy_empty.

(* slope_ranking: for EVERY permutation np.argsort may return on the |slope| keys, the result is rank / (m-1) with `ranks` the
   inverse permutation — one per knee, a permutation of 0..m-1 that orders the keys (C17_rank_perm) *)
Theorem C20X_slope_ranking_of_spec : forall (N : Num) (same : T N -> T N -> bool), (forall v, same v v = true) ->
  forall (keys : list (T N)) (temp : list nat), 2 <= length keys -> sorts keys temp ->
  let ranks := rank_of_perm temp in
  @slope_ranking_of N temp = map (fun v => ofN v /! ofN (length keys - 1)) ranks /\
  length (@slope_ranking_of N temp) = length keys /\
  Permutation ranks (seq 0 (length keys)) /\
  sr_okb same keys ranks (@slope_ranking_of N temp) = true.
Proof. exact (@slope_ranking_of_spec). Qed.
Print Assumptions C20X_slope_ranking_of_spec.
Theorem C20X_slope_ranking_length : forall (N : Num) (P : list (@pt N)) (knees : list nat) t r,
  slope_ranking P knees t = Some r -> length r = length knees.
Proof. exact (@slope_ranking_length). Qed.
Print Assumptions C20X_slope_ranking_length.
Theorem C20X_slope_ranking_small : forall (N : Num) (P : list (@pt N)) t k,
  slope_ranking P [] t = None /\ slope_ranking P [k] t = Some [one].
Proof. exact (@slope_ranking_small). Qed.
Print Assumptions C20X_slope_ranking_small.
(* the executable model's stable sort is one of those permutations on non-NaN doubles (Tier O, C17_rank_model) *)
Theorem C20X_slope_ranking_model_float : forall (keys : list float), Forall (@notnan FloatNum) keys ->
  sorts (N := FloatNum) keys (@argsort_stable FloatNum keys).
Proof. exact (@argsort_stable_sorts FloatNum (@notnan FloatNum) float_total_preorder). Qed.
Print Assumptions C20X_slope_ranking_model_float.

(* linear_hv_residuals is one of the two residuals, chosen by `y_residuals <= x_residuals` ... *)
Theorem C20X_hv_choice : forall (N : Num) (x y : list (T N)),
  (linear_hv_residuals x y = hv_yres x y /\ hv_yres x y <=?! hv_xres x y = true) \/
  (linear_hv_residuals x y = hv_xres x y /\ hv_yres x y <=?! hv_xres x y = false).
Proof. exact (@linear_hv_residuals_choice). Qed.
Print Assumptions C20X_hv_choice.
(* ... hence the smaller one wherever the two residuals are comparable (Tier O) *)
Theorem C20X_hv_min : forall (N : Num) (P : T N -> Prop), TotalPreorderOn P ->
  forall (same : T N -> T N -> bool), (forall v, same v v = true) ->
  forall x y : list (T N), P (hv_yres x y) -> P (hv_xres x y) ->
  linear_hv_residuals x y <=?! hv_yres x y = true /\ linear_hv_residuals x y <=?! hv_xres x y = true /\
  hv_okb same x y (linear_hv_residuals x y) = true.
Proof. exact (@linear_hv_residuals_min). Qed.
Print Assumptions C20X_hv_min.
Theorem C20X_hv_min_float : forall x y : list float,
  @notnan FloatNum (@hv_yres FloatNum x y) -> @notnan FloatNum (@hv_xres FloatNum x y) ->
  @hv_okb FloatNum f_same x y (@linear_hv_residuals FloatNum x y) = true.
Proof. exact (fun x y Hy Hx => proj2 (proj2 (@linear_hv_residuals_min FloatNum (@notnan FloatNum) float_total_preorder f_same f_same_refl x y Hy Hx))). Qed.
Print Assumptions C20X_hv_min_float.

(* linear_fit_transform: shapes; vertical = True returns the axis / fitted values whose residual is linear_hv_residuals *)
Theorem C20X_fit_transform_vertical : forall (N : Num) (x y : list (T N)),
  exists ax fit, linear_fit_transform x y true = (Some ax, fit) /\
                 residuals ax fit = linear_hv_residuals x y /\
                 ((ax = y /\ fit = linear_transform x (linear_fit x y)) \/ (ax = x /\ fit = linear_transform y (linear_fit y x))).
Proof. exact (@linear_fit_transform_vertical). Qed.
Print Assumptions C20X_fit_transform_vertical.
Theorem C20X_fit_transform_shape : forall (N : Num) (x y : list (T N)) v, length x = length y ->
  let '(ax, fit) := linear_fit_transform x y v in
  length fit = length x /\ match ax with None => v = false | Some a => v = true /\ length a = length x end.
Proof. exact (@linear_fit_transform_shape). Qed.
Print Assumptions C20X_fit_transform_shape.

(* angle: atan (an oracle: libm) of (m1-m2)/(1+m1*m2); ZeroDivisionError exactly for Python floats with 1 + m1*m2 == 0 *)
Theorem C20X_angle_defined : forall (N : Num) (atan : T N -> T N) (pyfloat : bool) (c1 c2 : @coef N),
  (angle atan pyfloat c1 c2 = None <-> (pyfloat = true /\ (one +! snd c1 *! snd c2) =?! zero = true)) /\
  (forall v, angle atan pyfloat c1 c2 = Some v -> v = atan ((snd c1 -! snd c2) /! (one +! snd c1 *! snd c2))).
Proof. exact (@angle_defined). Qed.
Print Assumptions C20X_angle_defined.

(* zmethod.knees2: for EVERY oracle valuation (second derivative, z-scores, percentiles) the fixed-point loop terminates — a round only
   removes candidates, so |filtered candidates| + 1 rounds suffice — and the result is an order-preserving sub-selection of the
   filtered candidates, strictly increasing and inside the array, a fixed point of the round, reached by repeating the round *)
Theorem C20X_knees2_spec : forall (N : Num) (P : list (@Filters.point N)) dx dy mode yd2 z q,
  exists r, knees2 P dx dy mode yd2 z q = Some r /\ knees2_okb P dx dy mode yd2 z q r = 0.
Proof. exact (@knees2_spec). Qed.
Print Assumptions C20X_knees2_spec.
Theorem C20X_knees2_loop_total : forall (N : Num) (P : list (@Filters.point N)) (x_step y_step : T N) fuel cands, length cands < fuel ->
  exists r h, k2_loop P x_step y_step fuel cands = Some r /\ r = filter h cands /\ k2_round P x_step y_step r = r.
Proof. exact (@k2_loop_total). Qed.
Print Assumptions C20X_knees2_loop_total.
Theorem C20X_knees2_fuel_mono : forall (N : Num) (P : list (@Filters.point N)) (x_step y_step : T N) fuel cands r,
  k2_loop P x_step y_step fuel cands = Some r -> k2_loop P x_step y_step (S fuel) cands = Some r.
Proof. exact (@k2_loop_mono). Qed.
Print Assumptions C20X_knees2_fuel_mono.

(* kneedle.knees (native multi-knee): for EVERY oracle valuation (smoothed curve Ds, selected peaks per concavity) the result is strictly
   increasing and holds exactly the members of the two per-concavity selections (all peaks of the difference curve for PeakDetection.All) *)
Theorem C20X_kneedle_knees_spec : forall (N : Num) (pts Ds : list (@Uts.pt N)) (p : peakdet) (sel_ccw sel_cw : list nat),
  let cd := DetectorsFormula.kneedle_direction pts in
  let out := kneedle_knees pts Ds p sel_ccw sel_cw in
  SI out /\
  (forall k, In k out <-> In k (knees_cc Ds cd DetectorsFormula.Counterclockwise p sel_ccw) \/ In k (knees_cc Ds cd DetectorsFormula.Clockwise p sel_cw)) /\
  kneedle_knees_okb pts Ds p sel_ccw sel_cw out = 0.
Proof. exact (@kneedle_knees_spec). Qed.
Print Assumptions C20X_kneedle_knees_spec.

(* non-vacuity, evaluated on doubles: a 6-point curve with a corner at index 3 *)
Example C20X_example :
  let x := [0; 1; 2; 3; 4; 5]%float in let y := [10; 8; 6; 4; 3.5; 3]%float in
  @get_neighbourhood FloatNum x y 3 0 0.9%float = (0, 1%float, (-2)%float) /\
  @get_neighbourhood FloatNum x y 5 0 0.9%float = (3, 1%float, (-0.5)%float) /\
  @gn_specb FloatNum (@seg_r2 FloatNum x y 5) (@seg_slope FloatNum x y 5) 0.9%float f_same 5 0 (@get_neighbourhood FloatNum x y 5 0 0.9%float) = 0 /\
  @get_neighbourhood_binary FloatNum x y 5 0 0.9%float = Some 2 /\
  @get_neighbourhood_fast FloatNum x y 5 0 0.9%float = Some (3, 1%float, (-0.5)%float) /\
  @slope_ranking FloatNum (combine x y) [3; 5] 0.9%float = Some [1; 0]%float /\
  @accuracy_trace FloatNum (combine x y) [3; 5] = Some (0.5, 0.5, 0.625, 1, 1.1200000000000001)%float /\
  @hv_okb FloatNum f_same x y (@linear_hv_residuals FloatNum x y) = true.
Proof. vm_compute. repeat split; reflexivity. Qed.
