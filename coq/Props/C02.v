(* Props/C02.v — property C02: recursive multi-knee detection terminates, is well-formed and self-similar.
   Only statements, each closed by `exact`, with its assumptions printed.  All Tier S: for every numeric
   signature N (doubles with every rounding / NaN included), every cost mode, every valuation of the oracles
   `straight l r` (the straightness the code computes for points[l:r]) and `knee1 l r` (the detector's answer on
   points[l:r]), every t1, t2; the only hypothesis is the detector's range fact on slices that pass the size gate:
     knee_in_range knee1 t2 lo n  :=  forall l r k, r <= n -> t2 < r - l -> knee1 l r = Some k -> lo <= k /\ k + 2 <= r - l *)
From Coq Require Import List Arith PrimFloat.
From Knee Require Import Num NumFloat NpList Proofs.ListFacts Model.MultiKnee Proofs.MultiKneeFacts.
Import ListNotations.

(* termination with the model's own fuel within max 1 (2n-1) <= 2n pops; strictly increasing; every index in [lo, n-2];
   the result is the recursive specification *)
Theorem C02_total : forall (N : Num) cost (straight : nat -> nat -> T N) knee1 t1 t2 lo n,
  knee_in_range knee1 t2 lo n ->
  exists ks tr, multi_knee cost straight knee1 t1 t2 n = Some (ks, tr) /\
                length tr <= Nat.max 1 (2 * n - 1) /\ (1 <= n -> length tr <= 2 * n) /\
                SI ks /\ Forall (fun i => lo <= i /\ i + 2 <= n) ks /\
                ks = mk_spec cost straight knee1 t1 t2 0 n.
Proof. exact @mk_total. Qed.
Print Assumptions C02_total.

(* empty when the curve has at most t2 points *)
Theorem C02_empty_small : forall (N : Num) cost (straight : nat -> nat -> T N) knee1 t1 t2 lo n,
  knee_in_range knee1 t2 lo n -> n <= t2 ->
  mk_knees (multi_knee cost straight knee1 t1 t2 n) = Some [].
Proof. exact @mk_empty_small. Qed.
Print Assumptions C02_empty_small.

(* empty when the whole curve is not `curved` (end-point-line SMAPE below t1; R2 not below t1 in r2 mode) *)
Theorem C02_empty_straight : forall (N : Num) cost (straight : nat -> nat -> T N) knee1 t1 t2 lo n,
  knee_in_range knee1 t2 lo n -> mk_curved cost straight t1 0 n = false ->
  mk_knees (multi_knee cost straight knee1 t1 t2 n) = Some [].
Proof. exact @mk_empty_straight. Qed.
Print Assumptions C02_empty_straight.

(* otherwise, with k the detector's answer on the whole curve: result = result on points[:k+1] ++ [k] ++ (k+1 +) result on points[k+1:]
   (shift2 a f l r = f (l+a) (r+a): the oracles of the slice points[a:]) *)
Theorem C02_decomp : forall (N : Num) cost (straight : nat -> nat -> T N) knee1 t1 t2 lo n,
  knee_in_range knee1 t2 lo n -> forall k,
  mk_step cost straight knee1 t1 t2 0 n = Some k ->
  exists kl kr,
    mk_knees (multi_knee cost straight knee1 t1 t2 (k + 1)) = Some kl /\
    mk_knees (multi_knee cost (shift2 (k + 1) straight) (shift2 (k + 1) knee1) t1 t2 (n - (k + 1))) = Some kr /\
    mk_knees (multi_knee cost straight knee1 t1 t2 n) = Some (kl ++ [k] ++ map (fun i => i + (k + 1)) kr).
Proof. exact @mk_decomp. Qed.
Print Assumptions C02_decomp.

(* all of the above as the boolean predicate that Run/JudgeC02.v evaluates on the implementation's outputs *)
Theorem C02_holds : forall (N : Num) cost (straight : nat -> nat -> T N) knee1 t1 t2 lo n,
  knee_in_range knee1 t2 lo n ->
  mk_holds lo n (mk_step cost straight knee1 t1 t2 0 n) (mk_obs (multi_knee cost straight knee1 t1 t2 n))
           (mk_subL cost straight knee1 t1 t2 n) (mk_subR cost straight knee1 t1 t2 n) = 0.
Proof. exact @mk_holds_model. Qed.
Print Assumptions C02_holds.

(* the stack loop equals the recursive specification's unfolding (the fact behind the decomposition) *)
Theorem C02_spec_unfold : forall (N : Num) cost (straight : nat -> nat -> T N) knee1 t1 t2 lo n,
  step_in_range cost straight knee1 t1 t2 lo n -> forall l r, r <= n ->
  mk_spec cost straight knee1 t1 t2 l r =
    match mk_step cost straight knee1 t1 t2 l r with
    | Some k => mk_spec cost straight knee1 t1 t2 l (k + l + 1) ++ [k + l] ++ mk_spec cost straight knee1 t1 t2 (k + l + 1) r
    | None => []
    end.
Proof. exact @mk_spec_unfold. Qed.
Print Assumptions C02_spec_unfold.

(* non-vacuity: an oracle valuation meeting the hypothesis for every n (the detector answers the middle of any slice of
   more than 3 points), and the model evaluated on it on doubles: 12 points, t1 = 0.5 <= straightness 1.0 *)
Theorem C02_example_in_range : forall n, knee_in_range ex_knee1 3 1 n.
Proof. exact ex_knee1_in_range. Qed.
Print Assumptions C02_example_in_range.

Example C02_example :
  mk_obs (multi_knee (N := FloatNum) MkSmape (fun _ _ => 1%float) ex_knee1 0.5%float 3 12) = Some ([2; 3; 6; 9], 9) /\
  mk_subL (N := FloatNum) MkSmape (fun _ _ => 1%float) ex_knee1 0.5%float 3 12 = Some [2; 3] /\
  mk_subR (N := FloatNum) MkSmape (fun _ _ => 1%float) ex_knee1 0.5%float 3 12 = Some [2] /\
  mk_obs (multi_knee (N := FloatNum) MkSmape (fun _ _ => 1%float) ex_knee1 2%float 3 12) = Some ([], 1).
Proof. vm_compute. auto. Qed.
