(* Props/C02.v — property C02: recursive multi-knee detection terminates, is well-formed and self-similar.
   Only statements, each closed by `exact`, with its assumptions printed.  All Tier S: for every numeric
   signature N (doubles with every rounding / NaN included), every cost mode, every valuation of the oracles
   `straight l r` (the straightness the code computes for points[l:r]) and `knee1 l r` (the detector's answer on
   points[l:r]), every t1, t2; the only hypothesis is the detector's range fact on slices that pass the size gate:
     knee_in_range knee1 t2 lo n  :=  forall l r k, r <= n -> t2 < r - l -> knee1 l r = Some k -> lo <= k /\ k + 2 <= r - l *)
From Coq Require Import List Arith PrimFloat.
From Knee Require Import Num NumFloat NpList OrdLaws Proofs.ListFacts Model.MultiKnee Proofs.MultiKneeFacts.
From Knee Require Import Model.Uts Model.Detectors Proofs.DetectorsFacts Proofs.MultiKneeDetectors.
From Coq Require Import Reals.
From Knee Require Import NumR Model.Metrics Model.LinearFit Model.MultiKneeStraight Proofs.MultiKneeStraightFacts Proofs.MultiKneeStraightReal.
Import ListNotations.

(* termination with the model's own fuel within max 1 (2n-1) <= 2n pops; strictly increasing; every index in [lo, n-2];
   the result is the recursive specification *)
Theorem C02_total : forall (N : Num) cost (straight : nat -> nat -> T N) knee1 t1 t2 lo n,
  knee_in_range knee1 t2 lo n ->
  exists ks tr, multi_knee cost straight knee1 t1 t2 n = Some (ks, tr) /\
                length tr <= Nat.max 1 (2 * n - 1) /\ (1 <= n -> length tr <= 2 * n) /\
                SI ks /\ Forall (fun i => lo <= i /\ i + 2 <= n) ks /\
                ks = mk_spec cost straight knee1 t1 t2 0 n.
Proof. exact @mk_total. Qed.
Print Assumptions C02_total.

(* empty when the curve has at most t2 points *)
Theorem C02_empty_small : forall (N : Num) cost (straight : nat -> nat -> T N) knee1 t1 t2 lo n,
  knee_in_range knee1 t2 lo n -> n <= t2 ->
  mk_knees (multi_knee cost straight knee1 t1 t2 n) = Some [].
Proof. exact @mk_empty_small. Qed.
Print Assumptions C02_empty_small.

(* empty when the whole curve is not `curved` (end-point-line SMAPE below t1; R2 not below t1 in r2 mode) *)
Theorem C02_empty_straight : forall (N : Num) cost (straight : nat -> nat -> T N) knee1 t1 t2 lo n,
  knee_in_range knee1 t2 lo n -> mk_curved cost straight t1 0 n = false ->
  mk_knees (multi_knee cost straight knee1 t1 t2 n) = Some [].
Proof. exact @mk_empty_straight. Qed.
Print Assumptions C02_empty_straight.

(* otherwise, with k the detector's answer on the whole curve: result = result on points[:k+1] ++ [k] ++ (k+1 +) result on points[k+1:]
   (shift2 a f l r = f (l+a) (r+a): the oracles of the slice points[a:]) *)
Theorem C02_decomp : forall (N : Num) cost (straight : nat -> nat -> T N) knee1 t1 t2 lo n,
  knee_in_range knee1 t2 lo n -> forall k,
  mk_step cost straight knee1 t1 t2 0 n = Some k ->
  exists kl kr,
    mk_knees (multi_knee cost straight knee1 t1 t2 (k + 1)) = Some kl /\
    mk_knees (multi_knee cost (shift2 (k + 1) straight) (shift2 (k + 1) knee1) t1 t2 (n - (k + 1))) = Some kr /\
    mk_knees (multi_knee cost straight knee1 t1 t2 n) = Some (kl ++ [k] ++ map (fun i => i + (k + 1)) kr).
Proof. exact @mk_decomp. Qed.
Print Assumptions C02_decomp.

(* all of the above as the boolean predicate that Run/JudgeC02.v evaluates on the implementation's outputs *)
Theorem C02_holds : forall (N : Num) cost (straight : nat -> nat -> T N) knee1 t1 t2 lo n,
  knee_in_range knee1 t2 lo n ->
  mk_holds lo n (mk_step cost straight knee1 t1 t2 0 n) (mk_obs (multi_knee cost straight knee1 t1 t2 n))
           (mk_subL cost straight knee1 t1 t2 n) (mk_subR cost straight knee1 t1 t2 n) = 0.
Proof. exact @mk_holds_model. Qed.
Print Assumptions C02_holds.

(* the stack loop equals the recursive specification's unfolding (the fact behind the decomposition) *)
Theorem C02_spec_unfold : forall (N : Num) cost (straight : nat -> nat -> T N) knee1 t1 t2 lo n,
  step_in_range cost straight knee1 t1 t2 lo n -> forall l r, r <= n ->
  mk_spec cost straight knee1 t1 t2 l r =
    match mk_step cost straight knee1 t1 t2 l r with
    | Some k => mk_spec cost straight knee1 t1 t2 l (k + l + 1) ++ [k + l] ++ mk_spec cost straight knee1 t1 t2 (k + l + 1) r
    | None => []
    end.
Proof. exact @mk_spec_unfold. Qed.
Print Assumptions C02_spec_unfold.

(* ---- per-detector corollaries: the range hypothesis discharged from the C09 detector models (Model/Detectors.v; Kneedle's peak
   selection from Model/Uts.v).  The criterion arrays are oracles keyed by the slice; hypotheses are their shapes only.
   C02_conclusion cost straight knee1 t1 t2 lo n :=
     (exists ks tr, multi_knee cost straight knee1 t1 t2 n = Some (ks, tr) /\ length tr <= Nat.max 1 (2 * n - 1) /\ SI ks /\
                    Forall (fun i => lo <= i /\ i + 2 <= n) ks /\ ks = mk_spec cost straight knee1 t1 t2 0 n) /\
     mk_holds lo n (mk_step ... 0 n) (mk_obs (multi_knee ... n)) (mk_subL ... n) (mk_subR ... n) = 0      (Tier S unless said) *)
Theorem C02_curvature : forall (N : Num) cost (straight : nat -> nat -> T N) t1 t2 n (curv : nat -> nat -> list (T N)),
  (forall l r, r <= n -> t2 < r - l -> length (curv l r) = r - l) ->
  C02_conclusion cost straight (fun l r => curvature_knee (curv l r)) t1 t2 1 n.
Proof. exact @mk_curvature. Qed.
Print Assumptions C02_curvature.

Theorem C02_dfdt : forall (N : Num) cost (straight : nat -> nat -> T N) t1 t2 n
    (grad : nat -> nat -> list (T N)) (iso : nat -> nat -> nat -> option (T N)),
  (forall l r, r <= n -> t2 < r - l -> length (grad l r) = r - l) ->
  C02_conclusion cost straight (fun l r => dfdt_knee (grad l r) (iso l r)) t1 t2 1 n.
Proof. exact @mk_dfdt. Qed.
Print Assumptions C02_dfdt.

(* Menger: Tier O (np.argmax([0] + curvatures + [0]) avoids the last index only for an ordered best) ... *)
Theorem C02_menger : forall (N : Num) cost (straight : nat -> nat -> T N) t1 t2 n (mc : nat -> nat -> list (T N)),
  TotalPreorderOn (@notnan N) -> isnan (@zero N) = false ->
  (forall l r, r <= n -> t2 < r - l -> length (mc l r) + 2 = r - l) ->
  C02_conclusion cost straight (fun l r => menger_knee (mc l r)) t1 t2 0 n.
Proof. exact @mk_menger. Qed.
Print Assumptions C02_menger.

(* ... and closed on binary64 *)
Theorem C02_menger_float : forall cost (straight : nat -> nat -> float) t1 t2 n (mc : nat -> nat -> list float),
  (forall l r, r <= n -> t2 < r - l -> length (mc l r) + 2 = r - l) ->
  @C02_conclusion FloatNum cost straight (fun l r => @menger_knee FloatNum (mc l r)) t1 t2 0 n.
Proof. exact mk_menger_float. Qed.
Print Assumptions C02_menger_float.

(* L-method: t2 >= 3 (lmethod.knee returns the last index of a 3-point slice, on which the real loop never stops) *)
Theorem C02_lmethod : forall (N : Num) cost (straight : nat -> nat -> T N) t1 t2 n
    (lerr : nat -> nat -> nat -> nat -> oval (T N)) it limit,
  3 <= t2 ->
  C02_conclusion cost straight (fun l r => lmethod_knee (r - l) (lerr l r) it limit) t1 t2 1 n.
Proof. exact @mk_lmethod. Qed.
Print Assumptions C02_lmethod.

(* Kneedle: the highest strict peak of the difference curve dd, or None *)
Theorem C02_kneedle : forall (N : Num) cost (straight : nat -> nat -> T N) t1 t2 n (dd : nat -> nat -> list (T N)),
  (forall l r, r <= n -> t2 < r - l -> length (dd l r) = r - l) ->
  C02_conclusion cost straight (fun l r => highest_peak (dd l r) (all_peaks (dd l r))) t1 t2 1 n.
Proof. exact @mk_kneedle. Qed.
Print Assumptions C02_kneedle.

(* the range hypothesis cannot be dropped: if the detector answers the last index of the curve (lmethod.knee on 3 points,
   menger.knee on 1 point: the cases t2 < detector minimum) the loop re-pushes the same range and no fuel suffices *)
Theorem C02_range_needed : forall (N : Num) cost (straight : nat -> nat -> T N) knee1 t1 t2 l r k,
  mk_step cost straight knee1 t1 t2 l r = Some k -> k + 1 = r - l ->
  forall fuel st ks tr, mk_loop cost straight knee1 t1 t2 fuel ((l, r) :: st) ks tr = None.
Proof. exact @mk_loop_last_index_diverges. Qed.
Print Assumptions C02_range_needed.

(* ---- the closed model: the straightness is DERIVED from the points (Model/MultiKneeStraight.v), the detector is the only oracle.
   mk_straight eps P cost l r := let pt := slice P l r in let c := linear_fit_points pt in
                                 match cost with MkR2 => linear_r2_points pt c R2classic | _ => smape_points pt c eps end
   (end-point line m = (y0 - yn)/(x0 - xn), b = y0 - m*x0, (0,0) iff x0 - xn = 0; fitted values x*m + b; SMAPE with the numba
   left-fold mean; R2 with NumPy's pairwise sums — the formula layer's definitions, validated bit-for-bit by C16 and, on every
   visited range, by this check's holds conjunct 8);  multi_knee_pts eps P cost knee1 t1 t2 := multi_knee cost (mk_straight eps P cost) knee1 t1 t2 (length P) *)
Theorem C02_total_points : forall (N : Num) (eps : T N) cost (P : list (T N * T N)) knee1 t1 t2 lo,
  knee_in_range knee1 t2 lo (length P) ->
  exists ks tr, multi_knee_pts eps P cost knee1 t1 t2 = Some (ks, tr) /\
                length tr <= Nat.max 1 (2 * length P - 1) /\ (1 <= length P -> length tr <= 2 * length P) /\
                SI ks /\ Forall (fun i => lo <= i /\ i + 2 <= length P) ks /\
                ks = mk_spec cost (mk_straight eps P cost) knee1 t1 t2 0 (length P).
Proof. exact @mk_total_pts. Qed.
Print Assumptions C02_total_points.

Theorem C02_empty_small_points : forall (N : Num) (eps : T N) cost (P : list (T N * T N)) knee1 t1 t2 lo,
  knee_in_range knee1 t2 lo (length P) -> length P <= t2 ->
  mk_knees (multi_knee_pts eps P cost knee1 t1 t2) = Some [].
Proof. exact @mk_empty_small_pts. Qed.
Print Assumptions C02_empty_small_points.

(* "its endpoint-line SMAPE is below t1": the comparison the code makes is t1 <= smape, so `below` is its negation *)
Theorem C02_empty_smape_points : forall (N : Num) (eps : T N) cost (P : list (T N * T N)) knee1 t1 t2 lo,
  knee_in_range knee1 t2 lo (length P) -> cost <> MkR2 -> 2 < length P ->
  Num.leb t1 (smape_points P (linear_fit_points P) eps) = false ->
  mk_knees (multi_knee_pts eps P cost knee1 t1 t2) = Some [].
Proof. exact @mk_empty_smape_pts. Qed.
Print Assumptions C02_empty_smape_points.

Theorem C02_empty_r2_points : forall (N : Num) (eps : T N) cost (P : list (T N * T N)) knee1 t1 t2 lo,
  knee_in_range knee1 t2 lo (length P) -> cost = MkR2 -> 2 < length P ->
  Num.ltb (linear_r2_points P (linear_fit_points P) R2classic) t1 = false ->
  mk_knees (multi_knee_pts eps P cost knee1 t1 t2) = Some [].
Proof. exact @mk_empty_r2_pts. Qed.
Print Assumptions C02_empty_r2_points.

(* self-similarity on the points: points[:k+1] = firstn (k+1) P and points[k+1:] = skipn (k+1) P, each with the straightness
   derived from ITS OWN points; the detector oracle of the right slice is the same table shifted *)
Theorem C02_decomp_points : forall (N : Num) (eps : T N) cost (P : list (T N * T N)) knee1 t1 t2 lo,
  knee_in_range knee1 t2 lo (length P) -> forall k,
  mk_step cost (mk_straight eps P cost) knee1 t1 t2 0 (length P) = Some k ->
  exists kl kr,
    mk_knees (multi_knee_pts eps (firstn (k + 1) P) cost knee1 t1 t2) = Some kl /\
    mk_knees (multi_knee_pts eps (skipn (k + 1) P) cost (shift2 (k + 1) knee1) t1 t2) = Some kr /\
    mk_knees (multi_knee_pts eps P cost knee1 t1 t2) = Some (kl ++ [k] ++ map (fun i => i + (k + 1)) kr).
Proof. exact @mk_decomp_pts. Qed.
Print Assumptions C02_decomp_points.

(* the judged predicate on the closed model (what Run/JudgeC02.v evaluates with eps = 1e-16 on binary64) *)
Theorem C02_holds_points : forall (N : Num) (eps : T N) cost (P : list (T N * T N)) knee1 t1 t2 lo,
  knee_in_range knee1 t2 lo (length P) ->
  mk_holds lo (length P) (mk_step cost (mk_straight eps P cost) knee1 t1 t2 0 (length P))
           (mk_obs (multi_knee_pts eps P cost knee1 t1 t2))
           (mk_subL cost (mk_straight eps P cost) knee1 t1 t2 (length P))
           (mk_subR cost (mk_straight eps P cost) knee1 t1 t2 (length P)) = 0.
Proof. exact (fun N eps cost P knee1 t1 t2 lo => @mk_holds_model N cost (mk_straight eps P cost) knee1 t1 t2 lo (length P)). Qed.
Print Assumptions C02_holds_points.

(* Tier A (reals): an exactly straight curve y = m*x + b — whatever the offset and the span of its abscissae, as long as the two
   end abscissae differ — has end-point-line SMAPE 0, and multi-knee detection returns NO knee for every t1 > 0, every detector
   (any oracle inside its range), every t2, every eps *)
Theorem C02_straight_line_smape : forall (b m eps : R) (P : list (R * R)),
  P <> [] -> hd 0%R (map fst P) <> last (map fst P) 0%R -> on_line b m P ->
  @smape_points RNum P (@linear_fit_points RNum P) eps = 0%R.
Proof. exact straight_line_smape. Qed.
Print Assumptions C02_straight_line_smape.

Theorem C02_straight_line_empty : forall (b m eps : R) (P : list (R * R)) cost knee1 (t1 : R) t2 lo,
  cost <> MkR2 -> 2 < length P -> hd 0%R (map fst P) <> last (map fst P) 0%R -> on_line b m P -> (0 < t1)%R ->
  knee_in_range knee1 t2 lo (length P) ->
  mk_knees (@multi_knee_pts RNum eps P cost knee1 t1 t2) = Some [].
Proof. exact mk_straight_line_empty. Qed.
Print Assumptions C02_straight_line_empty.

(* non-vacuity: an oracle valuation meeting the hypothesis for every n (the detector answers the middle of any slice of
   more than 3 points), and the model evaluated on it on doubles: 12 points, t1 = 0.5 <= straightness 1.0 *)
Theorem C02_example_in_range : forall n, knee_in_range ex_knee1 3 1 n.
Proof. exact ex_knee1_in_range. Qed.
Print Assumptions C02_example_in_range.

Example C02_example :
  mk_obs (multi_knee (N := FloatNum) MkSmape (fun _ _ => 1%float) ex_knee1 0.5%float 3 12) = Some ([2; 3; 6; 9], 9) /\
  mk_subL (N := FloatNum) MkSmape (fun _ _ => 1%float) ex_knee1 0.5%float 3 12 = Some [2; 3] /\
  mk_subR (N := FloatNum) MkSmape (fun _ _ => 1%float) ex_knee1 0.5%float 3 12 = Some [2] /\
  mk_obs (multi_knee (N := FloatNum) MkSmape (fun _ _ => 1%float) ex_knee1 2%float 3 12) = Some ([], 1).
Proof. vm_compute. auto. Qed.

(* the closed model evaluated on binary64: 5 samples of an exactly straight line at x = 1.7e9 + [0, 1] (the end abscissae differ
   by less than 1e-9 of their magnitude): derived SMAPE 0, no knee at t1 = 0.001; a bent curve at the same offset: one knee *)
Example C02_example_points :
  let eps := 0x1.cd2b297d889bcp-54%float in
  let line := [(1700000000%float, 0%float); (1700000000.25%float, 4%float); (1700000000.5%float, 8%float);
               (1700000000.75%float, 12%float); (1700000001%float, 16%float)] in
  let bent := [(1700000000%float, 0%float); (1700000000.25%float, 4%float); (1700000000.5%float, 8%float);
               (1700000000.75%float, 8%float); (1700000001%float, 8%float)] in
  mk_straight (N := FloatNum) eps line MkSmape 0 5 = 0%float /\
  mk_obs (multi_knee_pts (N := FloatNum) eps line MkSmape ex_knee1 0.001%float 3) = Some ([], 1) /\
  mk_obs (multi_knee_pts (N := FloatNum) eps bent MkSmape ex_knee1 0.001%float 3) = Some ([2], 3).
Proof. vm_compute. auto. Qed.
