(* Props/C01.v — property C01: every simplifier terminates after a number of refinement steps linear in n and returns a
   well-formed (reduced, removed).  Only statements, each closed by `exact`, with its assumptions printed.

   All theorems are Tier S: they quantify over every Num instance N (binary64 with every rounding / NaN / overflow
   included) and every oracle valuation (dist, segcost, prio, gcost = whatever the library's primitives return), every
   threshold / size parameter, every n >= 2, under the shape fact len(distance_points(points[l:r], ..)) = r - l and, for
   threshold RDP, the property's threshold domain (curved (trivial cost) = false: t > 0, resp. t <= 1 for R2).
   Threshold RDP: Model/Rdp.v + Proofs/RdpFacts.v.  Fixed-size family: Model/RdpFixed.v + Proofs/RdpFixedFacts.v
   (the fixed-size topic's files), imported here verbatim. *)
From Coq Require Import List Arith Bool PrimFloat.
From Knee Require Import Num NumFloat NpList Model.Mapping Model.Rdp Model.RdpFixed
  Proofs.ListFacts Proofs.MappingFacts Proofs.SegFacts Proofs.RdpFacts Proofs.RdpFixedFacts Proofs.C01Facts Proofs.RdpCostFacts Model.Metrics Model.LinearFit Model.RdpCost Run.RdpTables.
Import ListNotations.

(* ---- threshold RDP (rdp.rdp) ---- *)

(* the loop returns within fuel 2n after at most 2n-3 iterations (length vis = number of pops); the index list is
   strictly increasing from 0 to n-1; the removed table has one row (left index, dropped interior points) per retained
   segment; retained + dropped = n *)
Theorem C01_rdp_total : forall (N : Num) (dist : nat -> nat -> list (T N)) (segcost : nat -> nat -> T N)
    (r2 : bool) (t : T N) (n : nat),
  Rdp.curved r2 t (trivial_cost r2) = false ->
  (forall l r, l + 3 <= r -> r <= n -> length (dist l r) = r - l) ->
  2 <= n ->
  exists red rem vis, rdp dist segcost r2 t n = Some (red, rem, vis) /\ length vis <= 2 * n - 3 /\
    WF n red /\ rem = rows red /\ length red + dropped rem = n.
Proof. exact @rdp_total. Qed.
Print Assumptions C01_rdp_total.

(* the same in the boolean form the correspondence run evaluates on the implementation's output *)
Theorem C01_rdp_code : forall (N : Num) (dist : nat -> nat -> list (T N)) (segcost : nat -> nat -> T N)
    (r2 : bool) (t : T N) (n : nat),
  Rdp.curved r2 t (trivial_cost r2) = false ->
  (forall l r, l + 3 <= r -> r <= n -> length (dist l r) = r - l) ->
  2 <= n ->
  match rdp dist segcost r2 t n with
  | Some (red, rem, vis) => C01_code n (2 * n - 3) 1 (Some (red, rem)) [length vis] = 0
  | None => False
  end.
Proof. exact @rdp_C01_code. Qed.
Print Assumptions C01_rdp_code.

(* the split index is strictly inside whatever the distances are (NaN included): the lemma the pinned code's
   np.argmax(d) falsified (defects D1 / D2) *)
Theorem C01_split_interior : forall (N : Num) (d : list (T N)), 3 <= length d -> 1 <= split d <= length d - 2.
Proof. exact @RdpFacts.split_interior. Qed.
Print Assumptions C01_split_interior.
(* ... and its counterpart for the guarded split of the fixed-size family (middle point when every distance < eps) *)
Theorem C01_split_guarded_interior : forall (N : Num) (eps : T N) (d : list (T N)),
  3 <= length d -> 1 <= split_guarded eps d <= length d - 2.
Proof. exact @RdpFixedFacts.split_interior. Qed.
Print Assumptions C01_split_guarded_interior.

(* what the judged predicate means *)
Theorem C01_code_meaning : forall n bound acts red rem iters,
  C01_code n bound acts (Some (red, rem)) iters = 0 <->
  WF n red /\ rem = rows red /\ length red + dropped rem = n /\ length iters <= acts /\ Forall (fun k => k <= bound) iters.
Proof. exact C01_code_iff. Qed.
Print Assumptions C01_code_meaning.

(* ---- fixed-size family (rdp_fixed, grdp, mp_grdp, min_point_rdp): fuel n suffices, i.e. (C01_*_iters below) every loop
        activation performs at most n-1 iterations; the output is well-formed with removed = rows ---- *)
Theorem C01_rdp_fixed_total : forall (N : Num) (n : nat) (eps : T N) (dist : nat -> nat -> list (T N)) (prio : nat -> nat -> T N),
  2 <= n -> (forall l r, l + 3 <= r -> r <= n -> length (dist l r) = r - l) ->
  forall fuel k, n <= fuel ->
  exists red, rdp_fixed n eps dist prio fuel k = Some (red, rows red) /\ WF n red.
Proof. exact @rdp_fixed_total. Qed.
Print Assumptions C01_rdp_fixed_total.

Theorem C01_grdp_total : forall (N : Num) (n : nat) (eps : T N) (dist : nat -> nat -> list (T N)) (prio : nat -> nat -> T N),
  2 <= n -> (forall l r, l + 3 <= r -> r <= n -> length (dist l r) = r - l) ->
  forall (gcost : list nat -> T N) (is_r2 : bool) (t : T N) (fuel : nat), n <= fuel ->
  exists red, grdp n eps dist prio gcost is_r2 t fuel = Some (red, rows red) /\ WF n red.
Proof. exact @grdp_total. Qed.
Print Assumptions C01_grdp_total.

Theorem C01_mp_grdp_total : forall (N : Num) (n : nat) (eps : T N) (dist : nat -> nat -> list (T N)) (prio : nat -> nat -> T N),
  2 <= n -> (forall l r, l + 3 <= r -> r <= n -> length (dist l r) = r - l) ->
  forall (gcost : list nat -> T N) (is_r2 : bool) (t : T N) (fuel m : nat), n <= fuel ->
  exists red, mp_grdp n eps dist prio gcost is_r2 t fuel m = Some (red, rows red) /\ WF n red.
Proof. exact @mp_grdp_total. Qed.
Print Assumptions C01_mp_grdp_total.

Theorem C01_min_point_rdp_total : forall (N : Num) (n : nat) (eps : T N) (dist : nat -> nat -> list (T N)) (prio : nat -> nat -> T N)
    (gcost : list nat -> T N),
  2 <= n -> (forall l r, l + 3 <= r -> r <= n -> length (dist l r) = r - l) ->
  forall (fuel : nat) (ts : list (T N)) (m : nat), n <= fuel ->
  exists red, min_point_rdp n eps dist prio gcost fuel ts m = Some (red, rows red) /\ WF n red.
Proof. exact @min_point_rdp_total. Qed.
Print Assumptions C01_min_point_rdp_total.

(* fuel = iterations + 1: a loop activation that returns with fuel f has performed fewer than f iterations (one retained
   index per iteration) *)
Theorem C01_rdp_fixed_iters : forall (N : Num) (eps : T N) (dist : nat -> nat -> list (T N)) (prio : nat -> nat -> T N)
    fuel len stack reduced out,
  _rdp_fixed eps dist prio fuel len stack reduced = Some out ->
  length reduced <= length out < length reduced + fuel.
Proof. exact @rdp_fixed_loop_iters. Qed.
Print Assumptions C01_rdp_fixed_iters.
Theorem C01_grdp_iters : forall (N : Num) (eps : T N) (dist : nat -> nat -> list (T N)) (prio : nat -> nat -> T N)
    (gcost : list nat -> T N) is_r2 t fuel cv stack reduced red st,
  _grdp_loop eps dist prio gcost is_r2 t fuel cv stack reduced = Some (red, st) ->
  length reduced <= length red < length reduced + fuel.
Proof. exact @grdp_loop_iters. Qed.
Print Assumptions C01_grdp_iters.

(* a well-formed reduction with its own table passes the judged predicate for any iteration record within the bounds *)
Theorem C01_code_of_WF : forall n bound acts red iters, 1 <= n -> WF n red ->
  length iters <= acts -> Forall (fun k => k <= bound) iters ->
  C01_code n bound acts (Some (red, rows red)) iters = 0.
Proof. exact C01_code_WF. Qed.
Print Assumptions C01_code_of_WF.

(* non-vacuity (same instance as Props/C04.v: rdp.rdp on [[0,1],[1,3],[2,2],[3,5],[4,1],[5,2]], t = 0.25, the
   library's own distance / cost values): the hypotheses hold; the model returns after 5 <= 2*6-3 iterations; the
   predicate accepts the implementation's output with its observed iteration count, and rejects "did not return",
   a duplicated index (the shape of defect D2), a wrong removed table and an iteration count above the bound *)
Example C01_example :
  let dt : dtab := [(0, 6, [0x0.0p+0%float; 0x1.c3da00d7ba4e0p+0%float; 0x1.2d3c008fd1895p-1%float; 0x1.aabfab7668d7ep+1%float; 0x1.91a556151761cp-1%float; 0x0.0p+0%float]);
     (3, 6, [0x0.0p+0%float; 0x1.6a09e667f3bcdp+0%float; 0x0.0p+0%float])] in
  let ct : ctab := [(0, 6, 0x1.dfe21982cad3cp-2%float); (0, 4, 0x1.ad2d2d2d2d2d4p-3%float); (3, 6, 0x1.7b425ed097b43p-2%float)] in
  let t := 0x1p-2%float in
  @Rdp.curved FloatNum false t (@trivial_cost FloatNum false) = false /\
  shape_ok dt = true /\
  @rdp FloatNum (dist_of dt) (cost_from ct) false t 6 =
    Some ([0; 3; 4; 5], [(0, 2); (3, 0); (4, 0)], [(0, 6); (0, 4); (3, 6); (3, 5); (4, 6)]) /\
  C01_code 6 (2 * 6 - 3) 1 (Some ([0; 3; 4; 5], [(0, 2); (3, 0); (4, 0)])) [5] = 0 /\
  C01_code 6 (2 * 6 - 3) 1 None [89051] = 1 /\
  C01_code 3 (3 - 1) 1 (Some ([0; 2; 2], [(0, 1); (2, 0)])) [1] = 2 /\
  C01_code 6 (2 * 6 - 3) 1 (Some ([0; 3; 4; 5], [(0, 3); (3, 1); (4, 1)])) [5] = 3 /\
  C01_code 6 (2 * 6 - 3) 1 (Some ([0; 3; 4; 5], [(0, 2); (3, 0); (4, 0)])) [10] = 5.
Proof. vm_compute. repeat split. Qed.

(* threshold RDP with the segment cost derived in the model from the points (Model/RdpCost.v; smape, rpd, rmspe, R2 computed
   from the end-point line and the metric, rmsle an oracle): the instance the correspondence run evaluates *)
Theorem C01_rdp_code_derived : forall (N : Num) (P : list (@pt N)) (eps : T N) (rmsle_cost : nat -> nat -> T N)
    (dist : nat -> nat -> list (T N)) (m : metric) (t : T N) (n : nat),
  Rdp.curved (metric_is_r2 m) t (trivial_cost (metric_is_r2 m)) = false ->
  (forall l r, l + 3 <= r -> r <= n -> length (dist l r) = r - l) ->
  2 <= n ->
  match rdp dist (derived_cost P eps rmsle_cost m) (metric_is_r2 m) t n with
  | Some (red, rem, vis) => C01_code n (2 * n - 3) 1 (Some (red, rem)) [length vis] = 0
  | None => False
  end.
Proof. exact @rdp_C01_code_derived. Qed.
Print Assumptions C01_rdp_code_derived.
