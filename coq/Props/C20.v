(* Props/C20.v — property C20: public functions are pure, deterministic, layout-independent and fully linked.
   STATIC half (every name, every attribute of an imported module / class / ufunc, every intra-package call
   signature used anywhere in the package resolves): the checker of Model/Linking.v is proved sound AND complete
   for the declarative relation `Resolves`; the per-run theorem
       linked : check_program_w waived facts = true
   lives in the GENERATED file run/C20.<pid>/gen/LinkFactsGen.v (facts re-translated from the current source by
   harness/linkfacts.py on every run; proved by vm_compute; reflexivity; its assumptions are printed and audited
   there) and is combined with C20_check_sound_waived below into `linked_resolves`.
   DYNAMIC half (purity / determinism / layout and dtype independence): tested, judged by `dyn_holds`, whose
   meaning is C20_dyn_judge_spec; not proved (no Gallina model can exhibit the CPython / NumPy runtime).
   Only statements, each closed by `exact`, with its assumptions printed.  Tier S throughout. *)
From Coq Require Import List String Bool Arith ZArith.
From Knee Require Import Model.Linking Proofs.LinkingFacts.
Import ListNotations.
Local Open Scope string_scope.

(* the statement of DESIGN.md 4/C20: if the checker accepts the facts, every reference of every module resolves *)
Theorem C20_check_sound : forall p, check_program p = true -> forall ref, In ref (refs p) -> Resolves p ref.
Proof. exact check_sound. Qed.
Print Assumptions C20_check_sound.

(* ... and it accepts whenever they all do: a rejection is never an artefact of the checker *)
Theorem C20_check_complete : forall p, (forall ref, In ref (refs p) -> Resolves p ref) -> check_program p = true.
Proof. exact check_complete. Qed.
Print Assumptions C20_check_complete.

(* reference by reference: the boolean verdict IS the declarative relation (LEGB lookup, table walk, argument binding) *)
Theorem C20_check_decides : forall p ref, check_lref p ref = true <-> Resolves p ref.
Proof. exact check_lref_iff. Qed.
Print Assumptions C20_check_decides.

(* with open findings excused by name: every reference resolves or is a named (module, scope, diagnosis) *)
Theorem C20_check_sound_waived : forall ws p, check_program_w ws p = true ->
  forall ref, In ref (refs p) -> Resolves p ref \/ Waived ws p ref.
Proof. exact check_sound_w. Qed.
Print Assumptions C20_check_sound_waived.

(* the replay is exact: what `failing_refs` reports are the references of the program that do not resolve *)
Theorem C20_failing_refs_exact : forall p ref, In ref (failing_refs p) <-> In ref (refs p) /\ ~ Resolves p ref.
Proof. exact failing_refs_spec. Qed.
Print Assumptions C20_failing_refs_exact.

(* what the harness reads back from coqc: no failing position iff the program checks *)
Theorem C20_failing_idx_nil : forall p, failing_idx p = [] <-> check_program p = true.
Proof. exact failing_idx_nil. Qed.
Print Assumptions C20_failing_idx_nil.

(* the triples the harness reads back (position in `refs`, source line, diagnosis) are exactly the references that
   do not resolve: each printed triple is one, and each one is printed *)
Theorem C20_failing_idx_sound : forall p i ln d, In (i, ln, d) (failing_idx p) ->
  exists ref, nth_error (refs p) i = Some ref /\ ~ Resolves p ref /\ ln = lref_line ref /\ d = diagnose_lref p ref.
Proof. exact failing_idx_sound. Qed.
Print Assumptions C20_failing_idx_sound.

Theorem C20_failing_idx_complete : forall p ref, In ref (refs p) -> ~ Resolves p ref ->
  exists i, In (i, lref_line ref, diagnose_lref p ref) (failing_idx p) /\ nth_error (refs p) i = Some ref.
Proof. exact failing_idx_complete. Qed.
Print Assumptions C20_failing_idx_complete.

(* the arity check is CPython's argument binding: count, duplicates, unexpected / doubly bound keywords, missing parameters *)
Theorem C20_arity_spec : forall sg npos kws, arity_ok sg npos kws = true <-> ArityOK sg npos kws.
Proof. exact arity_ok_iff. Qed.
Print Assumptions C20_arity_spec.

(* dynamic half, the judge's predicate: nothing mutated, no NameError / AttributeError / arity TypeError on a valid input,
   and every re-presentation or re-execution gives the base result, bit for bit *)
Theorem C20_dyn_judge_spec : forall t0 u0 r0 rest,
  dyn_holds ((t0, u0, r0) :: rest) = 0 <->
  Forall (fun tur => snd (fst tur) = true /\ link_exc (snd tur) = false /\ snd tur = r0) ((t0, u0, r0) :: rest).
Proof. exact dyn_holds_spec. Qed.
Print Assumptions C20_dyn_judge_spec.

(* non-vacuity: a two-module program in the shape of the package; the repaired and the defective forms of
   D6 (`ccw`), D9 (`ema.linear`), D14 (3 of 4 arguments) and a local shadowing that must NOT be reported *)
Definition ex_sig4 : fsig :=
  {| fs_pos := [("points", false); ("segment_errors", false); ("cost", false); ("cache", false)];
     fs_posonly := 0; fs_vararg := false; fs_kwonly := []; fs_varkw := false |}.
Definition ex_hull (callee : string) : module :=
  {| m_name := "pkg.hull";
     m_globals := [("np", EStatic "numpy"); ("_ccw", EFunc {| fs_pos := [("a", false); ("b", false); ("c", false)]; fs_posonly := 0;
                                                               fs_vararg := false; fs_kwonly := []; fs_varkw := false |})];
     m_scopes := [{| sc_name := "lower"; sc_chain := [[("points", EOpaque); ("stack", EOpaque); ("np", EOpaque)]];
                     sc_refs := [(128, RCall callee [] 3 [] false false); (129, RAttr "stack" ["pop"]);
                                 (130, RAttr "np" ["no_such_attribute"]); (131, RCall "len" [] 1 [] false false)] |}] |}.
Definition ex_eval (attr : string) (nargs : nat) : module :=
  {| m_name := "pkg.eval";
     m_globals := [("ema", EStatic "uts.ema"); ("hull", EStatic "pkg.hull"); ("compute_cost", EFunc ex_sig4)];
     m_scopes := [{| sc_name := "legacy"; sc_chain := [[("y", EOpaque)]];
                     sc_refs := [(117, RCall "ema" [attr] 2 [] false false); (831, RCall "compute_cost" [] nargs [] false false);
                                 (832, RCall "hull" ["_ccw"] 2 ["c"] false false)] |}] |}.
Definition ex_prog (callee attr : string) (nargs : nat) : program :=
  {| p_modules := [ex_hull callee; ex_eval attr nargs];
     p_ext := [("uts.ema", {| t_own := [("ema_linear", EOpaque)]; t_bases := [] |}); ("numpy", {| t_own := [("sum", EOpaque)]; t_bases := [] |})];
     p_builtins := ["len"; "range"] |}.
Example C20_example :
  check_program (ex_prog "_ccw" "ema_linear" 4) = true /\
  map (fun ref => (snd (fst ref), diagnose_lref (ex_prog "ccw" "linear" 3) ref)) (failing_refs (ex_prog "ccw" "linear" 3))
    = [(128, 1); (117, 2); (831, 3)] /\
  check_program_w [("pkg.eval", "legacy", 3)] (ex_prog "_ccw" "ema_linear" 3) = true /\
  dyn_holds [(0, true, [1; 2]%Z); (2, true, [1; 2]%Z)] = 0 /\ dyn_holds [(0, true, [1; 2]%Z); (2, true, [1; 3]%Z)] = 2 /\
  dyn_holds [(0, true, [1]%Z); (3, false, [1]%Z)] = 23 /\
  dyn_holds [(0, true, [7; 1; 6]%Z); (2, true, [7; 1; 6]%Z)] = 40 /\ dyn_holds [(0, true, [7; 0; 6]%Z); (1, true, [7; 0; 6]%Z)] = 0.
Proof. vm_compute. repeat split; reflexivity. Qed.
