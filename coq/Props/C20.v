(* Props/C20.v — property C20: public functions are pure, deterministic, layout-independent and fully linked.
   STATIC half (every name, every attribute of an imported module / class / ufunc, every intra-package call
   signature used anywhere in the package resolves): the checker of Model/Linking.v is proved sound AND complete
   for the declarative relation `Resolves`; the per-run theorem
       linked : check_program_w waived facts = true
   lives in the GENERATED file run/C20.<pid>/gen/LinkFactsGen.v (facts re-translated from the current source by
   harness/linkfacts.py on every run; proved by vm_compute; reflexivity; its assumptions are printed and audited
   there) and is combined with C20_check_sound_waived below into `linked_resolves`.
   DYNAMIC half (purity / determinism / layout and dtype independence): tested, judged by `dyn_holds`, whose
   meaning is C20_dyn_judge_spec; not proved (no Gallina model can exhibit the CPython / NumPy runtime).
   Only statements, each closed by `exact`, with its assumptions printed.  Tier S throughout. *)
From Coq Require Import List String Bool Arith ZArith.
From Knee Require Import Model.Linking Proofs.LinkingFacts.
Import ListNotations.
Local Open Scope string_scope.

(* the statement of DESIGN.md 4/C20: if the checker accepts the facts, every reference of every module resolves *)
Theorem C20_check_sound : forall p, check_program p = true -> forall ref, In ref (refs p) -> Resolves p ref.
Proof. exact check_sound. Qed.
Print Assumptions C20_check_sound.

(* ... and it accepts whenever they all do: a rejection is never an artefact of the checker *)
Theorem C20_check_complete : forall p, (forall ref, In ref (refs p) -> Resolves p ref) -> check_program p = true.
Proof. exact check_complete. Qed.
Print Assumptions C20_check_complete.

(* reference by reference: the boolean verdict IS the declarative relation (LEGB lookup, table walk, argument binding) *)
Theorem C20_check_decides : forall p ref, check_lref p ref = true <-> Resolves p ref.
Proof. exact check_lref_iff. Qed.
Print Assumptions C20_check_decides.

(* with open findings excused by name: every reference resolves or is a named (module, scope, diagnosis) *)
Theorem C20_check_sound_waived : forall ws p, check_program_w ws p = true ->
  forall ref, In ref (refs p) -> Resolves p ref \/ Waived ws p ref.
Proof. exact check_sound_w. Qed.
Print Assumptions C20_check_sound_waived.

(* the replay is exact: what `failing_refs` reports are the references of the program that do not resolve *)
Theorem C20_failing_refs_exact : forall p ref, In ref (failing_refs p) <-> In ref (refs p) /\ ~ Resolves p ref.
Proof. exact failing_refs_spec. Qed.
Print Assumptions C20_failing_refs_exact.

(* what the harness reads back from coqc: no failing position iff the program checks *)
Theorem C20_failing_idx_nil : forall p, failing_idx p = [] <-> check_program p = true.
Proof. exact failing_idx_nil. Qed.
Print Assumptions C20_failing_idx_nil.

(* the triples the harness reads back (position in `refs`, source line, diagnosis) are exactly the references that
   do not resolve: each printed triple is one, and each one is printed *)
Theorem C20_failing_idx_sound : forall p i ln d, In (i, ln, d) (failing_idx p) ->
  exists ref, nth_error (refs p) i = Some ref /\ ~ Resolves p ref /\ ln = lref_line ref /\ d = diagnose_lref p ref.
Proof. exact failing_idx_sound. Qed.
Print Assumptions C20_failing_idx_sound.

Theorem C20_failing_idx_complete : forall p ref, In ref (refs p) -> ~ Resolves p ref ->
  exists i, In (i, lref_line ref, diagnose_lref p ref) (failing_idx p) /\ nth_error (refs p) i = Some ref.
Proof. exact failing_idx_complete. Qed.
Print Assumptions C20_failing_idx_complete.

(* the arity check is CPython's argument binding: count, duplicates, unexpected / doubly bound keywords, missing parameters *)
Theorem C20_arity_spec : forall sg npos kws, arity_ok sg npos kws = true <-> ArityOK sg npos kws.
Proof. exact arity_ok_iff. Qed.
Print Assumptions C20_arity_spec.

(* dynamic half, the judge's predicate: nothing mutated, no NameError / AttributeError / arity TypeError on a valid input,
   and every re-presentation or re-execution gives the base result, bit for bit *)
Theorem C20_dyn_judge_spec : forall t0 u0 r0 rest,
  dyn_holds ((t0, u0, r0) :: rest) = 0 <->
  Forall (fun tur => snd (fst tur) = true /\ link_exc (snd tur) = false /\ snd tur = r0) ((t0, u0, r0) :: rest).
Proof. exact dyn_holds_spec. Qed.
Print Assumptions C20_dyn_judge_spec.

(* non-vacuity: a two-module program in the shape of the package; the repaired and the defective forms of
   D6 (`ccw`), D9 (`ema.linear`), D14 (3 of 4 arguments) and a local shadowing that must NOT be reported *)
Definition ex_sig4 : fsig :=
  {| fs_pos := [("points", false); ("segment_errors", false); ("cost", false); ("cache", false)];
     fs_posonly := 0; fs_vararg := false; fs_kwonly := []; fs_varkw := false |}.
Definition ex_hull (callee : string) : module :=
  {| m_name := "pkg.hull";
     m_globals := [("np", EStatic "numpy"); ("_ccw", EFunc {| fs_pos := [("a", false); ("b", false); ("c", false)]; fs_posonly := 0;
                                                               fs_vararg := false; fs_kwonly := []; fs_varkw := false |})];
     m_scopes := [{| sc_name := "lower"; sc_chain := [[("points", EOpaque); ("stack", EOpaque); ("np", EOpaque)]];
                     sc_refs := [(128, RCall callee [] 3 [] false false); (129, RAttr "stack" ["pop"]);
                                 (130, RAttr "np" ["no_such_attribute"]); (131, RCall "len" [] 1 [] false false)] |}] |}.
Definition ex_eval (attr : string) (nargs : nat) : module :=
  {| m_name := "pkg.eval";
     m_globals := [("ema", EStatic "uts.ema"); ("hull", EStatic "pkg.hull"); ("compute_cost", EFunc ex_sig4)];
     m_scopes := [{| sc_name := "legacy"; sc_chain := [[("y", EOpaque)]];
                     sc_refs := [(117, RCall "ema" [attr] 2 [] false false); (831, RCall "compute_cost" [] nargs [] false false);
                                 (832, RCall "hull" ["_ccw"] 2 ["c"] false false)] |}] |}.
Definition ex_prog (callee attr : string) (nargs : nat) : program :=
  {| p_modules := [ex_hull callee; ex_eval attr nargs];
     p_ext := [("uts.ema", {| t_own := [("ema_linear", EOpaque)]; t_bases := [] |}); ("numpy", {| t_own := [("sum", EOpaque)]; t_bases := [] |})];
     p_builtins := ["len"; "range"] |}.
Example C20_example :
  check_program (ex_prog "_ccw" "ema_linear" 4) = true /\
  map (fun ref => (snd (fst ref), diagnose_lref (ex_prog "ccw" "linear" 3) ref)) (failing_refs (ex_prog "ccw" "linear" 3))
    = [(128, 1); (117, 2); (831, 3)] /\
  check_program_w [("pkg.eval", "legacy", 3)] (ex_prog "_ccw" "ema_linear" 3) = true /\
  dyn_holds [(0, true, [1; 2]%Z); (2, true, [1; 2]%Z)] = 0 /\ dyn_holds [(0, true, [1; 2]%Z); (2, true, [1; 3]%Z)] = 2 /\
  dyn_holds [(0, true, [1]%Z); (3, false, [1]%Z)] = 23 /\
  dyn_holds [(0, true, [7; 1; 6]%Z); (2, true, [7; 1; 6]%Z)] = 40 /\ dyn_holds [(0, true, [7; 0; 6]%Z); (1, true, [7; 0; 6]%Z)] = 0.
Proof. vm_compute. repeat split; reflexivity. Qed.

(* =====================================================================================================================
   REFINEMENT of the public functions that no property C01-C19 models (DESIGN.md 2.8: evaluation.get_neighbourhood*,
   accuracy_knee, accuracy_trace; knee_ranking.slope_ranking; linear_fit.linear_hv_residuals*, linear_fit_transform*,
   angle) to the pure Gallina functions of Model/Extras.v.  "Every public function is a pure, deterministic function of its
   argument VALUES" is, for these functions too, backed by a model (a Gallina function is pure by construction) plus the
   correspondence run (kind = refine cases of harness/c20.py, built by harness/c20x.py, judged by Run/JudgeC20X.v through the
   constructor CRefine: every double bit for bit).  The theorems below are the structural facts that make those models
   meaningful; their boolean predicates (gn_specb, gnf_specb, gnb_specb, sr_okb, hv_okb) are what the implementation's outputs are
   judged with.  Tier S (every N : Num, every per-window R2 / slope function, every sorting permutation) except *_min (Tier O)
   and *_float (the FloatNum instance the judge runs). *)
From Coq Require Import List Permutation PrimFloat.
From Knee Require Import Num NumFloat NpList OrdLaws FloatOrder Model.Metrics Model.LinearFit Model.Geometry Model.Extras
                         Model.ExtrasZ Model.ExtrasKneedle
                         Proofs.ListFacts Proofs.GeometryFacts Proofs.ExtrasFacts Proofs.ExtrasZFacts Proofs.ExtrasKFacts.
Local Close Scope string_scope.
Local Open Scope nat_scope.
Local Open Scope num_scope.

(* get_neighbourhood: the loop is a structural recursion on a - 1 - b (it runs at most that often); the result (j, r, s) has
   b <= j <= a-1, r and s are the R2 / slope of the window [j : a+1] (1.0 by fiat for the two-point window), every window between
   j and a is straighter than t, and j is maximal: j = b, or the next window is not straighter than t (or t >= 1 and j = a-1) *)
Theorem C20_refine_get_nb_spec : forall (N : Num) (r2f slf : nat -> T N) (t : T N) (same : T N -> T N -> bool),
  (forall v, same v v = true) -> forall a b, b <= a - 1 -> gn_specb r2f slf t same a b (get_nb r2f slf t a b) = 0.
Proof. exact (@get_nb_spec). Qed.
Print Assumptions C20_refine_get_nb_spec.

Theorem C20_refine_get_neighbourhood_spec : forall (N : Num) (same : T N -> T N -> bool), (forall v, same v v = true) ->
  forall (x y : list (T N)) a b t, b <= a - 1 ->
  gn_specb (seg_r2 x y a) (seg_slope x y a) t same a b (get_neighbourhood x y a b t) = 0.
Proof. exact (@get_neighbourhood_spec). Qed.
Print Assumptions C20_refine_get_neighbourhood_spec.

Theorem C20_refine_get_neighbourhood_range : forall (N : Num) (x y : list (T N)) a b t, b <= a - 1 ->
  let j := fst (fst (get_neighbourhood x y a b t)) in b <= j /\ j <= a - 1.
Proof. exact (@get_neighbourhood_range). Qed.
Print Assumptions C20_refine_get_neighbourhood_range.

(* get_neighbourhood_binary TERMINATES for every b <= a, whatever the R2 values are: fuel (a-b+1)^2 + 1 suffices (the pair
   (right - b, right - i) decreases lexicographically), more fuel never changes the answer, and the result lies in [b, a-1] *)
Theorem C20_refine_binary_terminates : forall (N : Num) (r2f : nat -> T N) (t : T N) a b, b <= a ->
  exists r, get_nb_binary r2f t a b = Some r /\ b <= r /\ (r <= a - 1 \/ r = b).
Proof. exact (@gnb_terminates). Qed.
Print Assumptions C20_refine_binary_terminates.
Theorem C20_refine_binary_fuel_mono : forall (N : Num) (r2f : nat -> T N) (t : T N) b fuel i rgt r,
  gnb_loop r2f t fuel i rgt b = Some r -> gnb_loop r2f t (S fuel) i rgt b = Some r.
Proof. exact (@gnb_loop_mono). Qed.
Print Assumptions C20_refine_binary_fuel_mono.
Theorem C20_refine_get_neighbourhood_binary : forall (N : Num) (x y : list (T N)) a b t, b <= a ->
  exists r, get_neighbourhood_binary x y a b t = Some r /\ gnb_specb a b r = 0.
Proof. exact (@get_neighbourhood_binary_terminates). Qed.
Print Assumptions C20_refine_get_neighbourhood_binary.

(* get_neighbourhood_fast: defined; from the binary search's index i0 the linear search runs at most a - i0 times and returns the
   first window at or after i0 that is not less straight than t (or the single point a), with its own R2 / slope *)
Theorem C20_refine_get_neighbourhood_fast_spec : forall (N : Num) (same : T N -> T N -> bool), (forall v, same v v = true) ->
  forall (x y : list (T N)) a b t, b <= a ->
  exists i0 res, get_neighbourhood_binary x y a b t = Some i0 /\ gnb_specb a b i0 = 0 /\
                 get_neighbourhood_fast x y a b t = Some res /\
                 gnf_specb (seg_r2 x y a) (seg_slope x y a) t same a i0 res = 0.
Proof. exact (@get_neighbourhood_fast_spec). Qed.
Print Assumptions C20_refine_get_neighbourhood_fast_spec.

Theorem C20_refine_points_wrappers : forall (N : Num) (P : list (@pt N)) a b t,
  get_neighbourhood_points P a b t = get_neighbourhood (xs P) (ys P) a b t /\
  get_neighbourhood_fast_points P a b t = get_neighbourhood_fast (xs P) (ys P) a b t.
Proof. exact (fun N P a b t => conj (@get_neighbourhood_points_eq N P a b t) (@get_neighbourhood_fast_points_eq N P a b t)). Qed.
Print Assumptions C20_refine_points_wrappers.

(* accuracy_knee / accuracy_trace: one row per knee, and the five numbers are NumPy means of the per-knee lists
   (|dx| / total_x, |dy| / total_y, |slope| / max |slope|, r2 / max r2 [clipped at 0 for accuracy_trace], and slope * dy [* r2]);
   an empty knee set raises *)
Theorem C20_refine_accuracy_knee_average : forall (N : Num) (P : list (@pt N)) (knees : list nat), knees <> [] -> chain 0 knees ->
  exists rows r, ak_rows (xs P) (ys P) 0 knees = Some rows /\ length rows = length knees /\
                 accuracy_knee P knees = Some r /\ is_average_of false (total_of (xs P)) (total_of (ys P)) rows r.
Proof. exact (@accuracy_knee_average). Qed.
Print Assumptions C20_refine_accuracy_knee_average.
Theorem C20_refine_accuracy_trace_average : forall (N : Num) (P : list (@pt N)) (knees : list nat), knees <> [] ->
  let rows := at_rows (xs P) (ys P) 0 knees in
  length rows = length knees /\
  exists r, accuracy_trace P knees = Some r /\ is_average_of true (total_of (xs P)) (total_of (ys P)) rows r.
Proof. exact (@accuracy_trace_average). Qed.
Print Assumptions C20_refine_accuracy_trace_average.
Theorem C20_refine_accuracy_empty : forall (N : Num) (P : list (@pt N)), accuracy_knee P [] = None /\ accuracy_trace P [] = None.
Proof. exact (@accuracy_empty). Qed.
Print Assumptions C20_refine_accuracy_empty.

(* slope_ranking: for EVERY permutation np.argsort may return on the |slope| keys, the result is rank / (m-1) with `ranks` the
   inverse permutation — one per knee, a permutation of 0..m-1 that orders the keys (C17_rank_perm) *)
Theorem C20_refine_slope_ranking_of_spec : forall (N : Num) (same : T N -> T N -> bool), (forall v, same v v = true) ->
  forall (keys : list (T N)) (temp : list nat), 2 <= length keys -> sorts keys temp ->
  let ranks := rank_of_perm temp in
  @slope_ranking_of N temp = map (fun v => ofN v /! ofN (length keys - 1)) ranks /\
  length (@slope_ranking_of N temp) = length keys /\
  Permutation ranks (seq 0 (length keys)) /\
  sr_okb same keys ranks (@slope_ranking_of N temp) = true.
Proof. exact (@slope_ranking_of_spec). Qed.
Print Assumptions C20_refine_slope_ranking_of_spec.
Theorem C20_refine_slope_ranking_length : forall (N : Num) (P : list (@pt N)) (knees : list nat) t r,
  slope_ranking P knees t = Some r -> length r = length knees.
Proof. exact (@slope_ranking_length). Qed.
Print Assumptions C20_refine_slope_ranking_length.
Theorem C20_refine_slope_ranking_small : forall (N : Num) (P : list (@pt N)) t k,
  slope_ranking P [] t = None /\ slope_ranking P [k] t = Some [one].
Proof. exact (@slope_ranking_small). Qed.
Print Assumptions C20_refine_slope_ranking_small.
(* the executable model's stable sort is one of those permutations on non-NaN doubles (Tier O, C17_rank_model) *)
Theorem C20_refine_slope_ranking_model_float : forall (keys : list float), Forall (@notnan FloatNum) keys ->
  sorts (N := FloatNum) keys (@argsort_stable FloatNum keys).
Proof. exact (@argsort_stable_sorts FloatNum (@notnan FloatNum) float_total_preorder). Qed.
Print Assumptions C20_refine_slope_ranking_model_float.

(* linear_hv_residuals is one of the two residuals, chosen by `y_residuals <= x_residuals` ... *)
Theorem C20_refine_hv_choice : forall (N : Num) (x y : list (T N)),
  (linear_hv_residuals x y = hv_yres x y /\ hv_yres x y <=?! hv_xres x y = true) \/
  (linear_hv_residuals x y = hv_xres x y /\ hv_yres x y <=?! hv_xres x y = false).
Proof. exact (@linear_hv_residuals_choice). Qed.
Print Assumptions C20_refine_hv_choice.
(* ... hence the smaller one wherever the two residuals are comparable (Tier O) *)
Theorem C20_refine_hv_min : forall (N : Num) (P : T N -> Prop), TotalPreorderOn P ->
  forall (same : T N -> T N -> bool), (forall v, same v v = true) ->
  forall x y : list (T N), P (hv_yres x y) -> P (hv_xres x y) ->
  linear_hv_residuals x y <=?! hv_yres x y = true /\ linear_hv_residuals x y <=?! hv_xres x y = true /\
  hv_okb same x y (linear_hv_residuals x y) = true.
Proof. exact (@linear_hv_residuals_min). Qed.
Print Assumptions C20_refine_hv_min.
Theorem C20_refine_hv_min_float : forall x y : list float,
  @notnan FloatNum (@hv_yres FloatNum x y) -> @notnan FloatNum (@hv_xres FloatNum x y) ->
  @hv_okb FloatNum f_same x y (@linear_hv_residuals FloatNum x y) = true.
Proof. exact (fun x y Hy Hx => proj2 (proj2 (@linear_hv_residuals_min FloatNum (@notnan FloatNum) float_total_preorder f_same f_same_refl x y Hy Hx))). Qed.
Print Assumptions C20_refine_hv_min_float.

(* linear_fit_transform: shapes; vertical = True returns the axis / fitted values whose residual is linear_hv_residuals *)
Theorem C20_refine_fit_transform_vertical : forall (N : Num) (x y : list (T N)),
  exists ax fit, linear_fit_transform x y true = (Some ax, fit) /\
                 residuals ax fit = linear_hv_residuals x y /\
                 ((ax = y /\ fit = linear_transform x (linear_fit x y)) \/ (ax = x /\ fit = linear_transform y (linear_fit y x))).
Proof. exact (@linear_fit_transform_vertical). Qed.
Print Assumptions C20_refine_fit_transform_vertical.
Theorem C20_refine_fit_transform_shape : forall (N : Num) (x y : list (T N)) v, length x = length y ->
  let '(ax, fit) := linear_fit_transform x y v in
  length fit = length x /\ match ax with None => v = false | Some a => v = true /\ length a = length x end.
Proof. exact (@linear_fit_transform_shape). Qed.
Print Assumptions C20_refine_fit_transform_shape.

(* angle: atan (an oracle: libm) of (m1-m2)/(1+m1*m2); ZeroDivisionError exactly for Python floats with 1 + m1*m2 == 0 *)
Theorem C20_refine_angle_defined : forall (N : Num) (atan : T N -> T N) (pyfloat : bool) (c1 c2 : @coef N),
  (angle atan pyfloat c1 c2 = None <-> (pyfloat = true /\ (one +! snd c1 *! snd c2) =?! zero = true)) /\
  (forall v, angle atan pyfloat c1 c2 = Some v -> v = atan ((snd c1 -! snd c2) /! (one +! snd c1 *! snd c2))).
Proof. exact (@angle_defined). Qed.
Print Assumptions C20_refine_angle_defined.

(* zmethod.knees2: for EVERY oracle valuation (second derivative, z-scores, percentiles) the fixed-point loop terminates — a round only
   removes candidates, so |filtered candidates| + 1 rounds suffice — and the result is an order-preserving sub-selection of the
   filtered candidates, strictly increasing and inside the array, a fixed point of the round, reached by repeating the round *)
Theorem C20_refine_knees2_spec : forall (N : Num) (P : list (@Filters.point N)) dx dy mode yd2 z q,
  exists r, knees2 P dx dy mode yd2 z q = Some r /\ knees2_okb P dx dy mode yd2 z q r = 0.
Proof. exact (@knees2_spec). Qed.
Print Assumptions C20_refine_knees2_spec.
Theorem C20_refine_knees2_loop_total : forall (N : Num) (P : list (@Filters.point N)) (x_step y_step : T N) fuel cands, length cands < fuel ->
  exists r h, k2_loop P x_step y_step fuel cands = Some r /\ r = filter h cands /\ k2_round P x_step y_step r = r.
Proof. exact (@k2_loop_total). Qed.
Print Assumptions C20_refine_knees2_loop_total.
Theorem C20_refine_knees2_fuel_mono : forall (N : Num) (P : list (@Filters.point N)) (x_step y_step : T N) fuel cands r,
  k2_loop P x_step y_step fuel cands = Some r -> k2_loop P x_step y_step (S fuel) cands = Some r.
Proof. exact (@k2_loop_mono). Qed.
Print Assumptions C20_refine_knees2_fuel_mono.

(* kneedle.knees (native multi-knee): for EVERY oracle valuation (smoothed curve Ds, selected peaks per concavity) the result is strictly
   increasing and holds exactly the members of the two per-concavity selections (all peaks of the difference curve for PeakDetection.All) *)
Theorem C20_refine_kneedle_knees_spec : forall (N : Num) (pts Ds : list (@Uts.pt N)) (p : peakdet) (sel_ccw sel_cw : list nat),
  let cd := DetectorsFormula.kneedle_direction pts in
  let out := kneedle_knees pts Ds p sel_ccw sel_cw in
  SI out /\
  (forall k, In k out <-> In k (knees_cc Ds cd DetectorsFormula.Counterclockwise p sel_ccw) \/ In k (knees_cc Ds cd DetectorsFormula.Clockwise p sel_cw)) /\
  kneedle_knees_okb pts Ds p sel_ccw sel_cw out = 0.
Proof. exact (@kneedle_knees_spec). Qed.
Print Assumptions C20_refine_kneedle_knees_spec.

(* non-vacuity, evaluated on doubles: a 6-point curve with a corner at index 3 *)
Example C20_refine_example :
  let x := [0; 1; 2; 3; 4; 5]%float in let y := [10; 8; 6; 4; 3.5; 3]%float in
  @get_neighbourhood FloatNum x y 3 0 0.9%float = (0, 1%float, (-2)%float) /\
  @get_neighbourhood FloatNum x y 5 0 0.9%float = (3, 1%float, (-0.5)%float) /\
  @gn_specb FloatNum (@seg_r2 FloatNum x y 5) (@seg_slope FloatNum x y 5) 0.9%float f_same 5 0 (@get_neighbourhood FloatNum x y 5 0 0.9%float) = 0 /\
  @get_neighbourhood_binary FloatNum x y 5 0 0.9%float = Some 2 /\
  @get_neighbourhood_fast FloatNum x y 5 0 0.9%float = Some (3, 1%float, (-0.5)%float) /\
  @slope_ranking FloatNum (combine x y) [3; 5] 0.9%float = Some [1; 0]%float /\
  @accuracy_trace FloatNum (combine x y) [3; 5] = Some (0.5, 0.5, 0.625, 1, 1.1200000000000001)%float /\
  @hv_okb FloatNum f_same x y (@linear_hv_residuals FloatNum x y) = true.
Proof. vm_compute. repeat split; reflexivity. Qed.
