(* Run/RdpTables.v — finite oracle tables (association lists keyed by the absolute half-open range (l, r)) shared by
   the C01 / C04 judges. *)
From Coq Require Import ZArith List Arith Bool PrimFloat.
From Knee Require Import Num NumFloat NpList Model.Mapping Model.Rdp Model.LinearFit Model.RdpCost.
Import ListNotations.

(* oracle tables keyed by the absolute half-open range (l, r) of the sub-array points[l:r] *)
Definition dtab := list (nat * nat * list float).
Definition ctab := list (nat * nat * float).
Fixpoint lookup {A} (tab : list (nat * nat * A)) (l r : nat) : option A :=
  match tab with
  | [] => None
  | (l', r', v) :: tab' => if (l' =? l) && (r' =? r) then Some v else lookup tab' l r
  end.
Definition has {A} (tab : list (nat * nat * A)) (s : nat * nat) : bool :=
  match lookup tab (fst s) (snd s) with Some _ => true | None => false end.
Definition dist_of (dt : dtab) (l r : nat) : list float :=
  match lookup dt l r with Some d => d | None => [] end.
Definition cost_from (ct : ctab) (l r : nat) : float :=
  match lookup ct l r with Some c => c | None => nan end.
(* the shape hypothesis of the theorems, evaluated on every table entry *)
Definition shape_ok (dt : dtab) : bool :=
  forallb (fun e => length (snd e) =? snd (fst e) - fst (fst e)) dt.


(* ---- derived segment cost (Model/RdpCost.v) on binary64 ---- *)
Definition metric_eps : float := 0x1.cd2b297d889bcp-54%float.       (* the Python literal 1e-16 *)
(* the model's segcost: computed from the points for smape / rpd / rmspe / R2, the table (oracle) for rmsle *)
Definition segcost_of (m : metric) (pts : list (float * float)) (ct : ctab) : nat -> nat -> float :=
  @derived_cost FloatNum pts metric_eps (cost_from ct) m.
(* extra `holds` conjunct: every value rdp.compute_cost_coef(points[l:r], lf.linear_fit_points(points[l:r]), cost) the harness
   recorded equals the derived cost bit for bit (+0 = -0, NaN = NaN) *)
Definition cost_match (m : metric) (pts : list (float * float)) (ct : ctab) : bool :=
  negb (metric_derived m) ||
  forallb (fun e => f_same (snd e) (segcost_of m pts ct (fst (fst e)) (snd (fst e)))) ct.
