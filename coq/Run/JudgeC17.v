(* Run/JudgeC17.v — case type and judge for the C17 correspondence run (geometric and ranking primitives). *)
From Coq Require Import ZArith List Bool Arith PrimFloat.
From Knee Require Import Num NumFloat NpList Model.LinearFit Model.Geometry.
Import ListNotations.

Definition F := FloatNum.
Definition fpt : Type := (float * float)%type.
Local Open Scope float_scope.

Inductive case :=
  (* linear_fit.shortest_distance_points(P, a, b) = out  (None = exception) *)
  | CShort (P : list fpt) (a b : fpt) (out : option (list float))
  (* linear_fit.perpendicular_distance_points(P, a, b) = out *)
  | CPerp (P : list fpt) (a b : fpt) (out : option (list float))
  (* perpendicular_distance_index(P, l, r) = oidx; perpendicular_distance_points(P[l:r+1], P[l], P[r]) = opts;
     perpendicular_distance(P) = owhole *)
  | CPerpIdx (P : list fpt) (l r : nat) (oidx opts owhole : option (list float))
  (* knee_ranking.rect(p1, p2) = ra, rect(q1, q2) = rb; o = [overlap(A,B); overlap(B,A); overlap(A,A); overlap(B,B)] *)
  | CRect (p1 p2 q1 q2 : fpt) (ra rb : option (fpt * fpt)) (o : list (option float))
  (* menger_curvature on the six orders fgh, gfh, fhg, ghf, hfg, hgf *)
  | CMenger (f g h : fpt) (o : list (option float))
  (* knee_ranking.rank(a) = out *)
  | CRank (a : list float) (out : option (list nat))
  (* knee_ranking.distances(q, P) = out *)
  | CDist (q : fpt) (P : list fpt) (out : option (list float))
  (* knee_ranking.distance_to_similarity(a) = out *)
  | CSim (a : list float) (out : option (list float))
  (* o = [triangle_area([p0,p1,p2]); _ccw(p0,p1,p2); _ccw(p0,p2,p1); triangle_area([p1,p2,p0])] *)
  | CTri (p0 p1 p2 : fpt) (o : list (option float)).

(* ---- helpers ---- *)
Definition fabs := PrimFloat.abs.
Definition fsqrt := PrimFloat.sqrt.
Definition fmax (a b : float) : float := if (a <? b)%float then b else a.
Definition fing (x : float) : bool := (fabs x <=? 0x1p+150)%float.          (* finite, |x| <= 2^150 *)
Definition finp (p : fpt) : bool := fing (fst p) && fing (snd p).
Definition notnan (x : float) : bool := negb (f_isnan x).
Definition ge0 (v : float) : bool := (0 <=? v)%float.
Definition getf (o : list (option float)) (i : nat) : option float := nth i o None.
Definition present (o : list (option float)) (i : nat) : bool :=
  match getf o i with Some v => notnan v | None => false end.
Definition pred1 (o : list (option float)) (i : nat) (p : float -> bool) : bool :=
  match getf o i with Some v => p v | None => false end.
Definition pred2 (o : list (option float)) (i j : nat) (p : float -> float -> bool) : bool :=
  match getf o i, getf o j with Some v, Some w => p v w | _, _ => false end.
Definition peq (p q : fpt) : bool := (fst p =? fst q)%float && (snd p =? snd q)%float.
Definition linf (p q : fpt) : float := fmax (fabs (fst p - fst q)) (fabs (snd p - snd q)).
Definition dist2f (p q : fpt) : float := (fst p - fst q) * (fst p - fst q) + (snd p - snd q) * (snd p - snd q).
Definition on_linef (a b : fpt) (lam : float) : fpt := (fst a + lam * (fst b - fst a), snd a + lam * (snd b - snd a)).
(* |p - (a + lam (b - a))|^2 evaluated on the differences to a (translation invariant: the same textbook quantity as
   dist2f p (on_linef a b lam), without forming the foot point in absolute coordinates, where a large common offset of the
   coordinates would cost the specification itself ~1e-16 * offset of accuracy) *)
Definition dist2_line (a b p : fpt) (lam : float) : float :=
  let dx := (fst p - fst a) - lam * (fst b - fst a) in
  let dy := (snd p - snd a) - lam * (snd b - snd a) in
  dx * dx + dy * dy.

Definition cmp : Type := (float * option float * float)%type.
Definition cmp_ok (t : cmp) : bool :=
  let '(m, o, atol) := t in match o with Some v => f_close 1e-9 atol m v | None => false end.
Definition cmp_exact (t : cmp) : bool :=
  let '(m, o, _) := t in match o with Some v => f_same m v | None => false end.
Definition cmps_of_lists (atol : float) (ms : list float) (vs : option (list float)) : list cmp :=
  match vs with
  | Some vs => if Nat.eqb (length ms) (length vs) then map (fun p => (fst p, Some (snd p), atol)) (combine ms vs)
               else [(0, None, 0)]
  | None => [(0, None, 0)]
  end.
Definition firstfail (l : list (Z * bool)) : Z :=
  fold_right (fun (p : Z * bool) (acc : Z) => if snd p then acc else fst p) 0%Z l.
Definition olist_ok (n : nat) (o : option (list float)) (p : float -> bool) : bool :=
  match o with Some l => Nat.eqb (length l) n && forallb p l | None => false end.
Definition olist2 {A} (P : list A) (o : option (list float)) (p : A -> float -> bool) : bool :=
  match o with Some l => Nat.eqb (length l) (length P) && forallb (fun t => p (fst t) (snd t)) (combine P l) | None => false end.

(* scale of the differences that enter a distance computation; tolerances are relative to it *)
Definition seg_scale (P : list fpt) (a b : fpt) : float :=
  fold_left (fun acc p => fmax acc (linf p a)) P (linf b a).
Definition scale_ok (s : float) : bool := (s =? 0)%float || (0x1p-400 <=? s)%float.

(* textbook distance to the closed segment a-b: clamp the projection parameter to [0, 1] *)
Definition seg_dist_spec (a b p : fpt) : float :=
  if peq a b then fsqrt (dist2f p a)
  else
    let u := ((fst p - fst a) * (fst b - fst a) + (snd p - snd a) * (snd b - snd a)) / dist2f b a in
    let u := if (u <? 0)%float then 0 else if (1 <? u)%float then 1 else u in
    fsqrt (dist2_line a b p u).
(* textbook distance to the line through a and b: distance to the orthogonal projection *)
Definition line_dist_spec (a b p : fpt) : float :=
  let u := ((fst p - fst a) * (fst b - fst a) + (snd p - snd a) * (snd b - snd a)) / dist2f b a in
  fsqrt (dist2_line a b p u).

(* ---- per-kind domain, comparisons (agree), predicate (holds) ---- *)
Definition short_dom (P : list fpt) (a b : fpt) : bool :=
  forallb finp P && finp a && finp b && scale_ok (seg_scale P a b).
Definition short_holds (P : list fpt) (a b : fpt) (out : option (list float)) : Z :=
  let at_ := 1e-9 * seg_scale P a b in
  firstfail [
    (1%Z, olist_ok (length P) out notnan);
    (2%Z, olist_ok (length P) out ge0);
    (3%Z, olist2 P out (fun p v => f_close 1e-9 at_ (seg_dist_spec a b p) v));
    (4%Z, olist2 P out (fun p v => forallb (fun lam => (v <=? fsqrt (dist2_line a b p lam) * (1 + 1e-9) + at_)%float)
                                           [0; 0.25; 0.5; 0.75; 1]))
  ].
Definition perp_dom (P : list fpt) (a b : fpt) : bool :=
  short_dom P a b && negb (peq a b).
Definition perp_holds (P : list fpt) (a b : fpt) (out : option (list float)) : Z :=
  let at_ := 1e-9 * seg_scale P a b in
  firstfail [
    (1%Z, olist_ok (length P) out notnan);
    (2%Z, olist_ok (length P) out ge0);
    (3%Z, olist2 P out (fun p v => f_close 1e-9 at_ (line_dist_spec a b p) v));
    (4%Z, olist2 P out (fun p v => forallb (fun lam => (v <=? fsqrt (dist2_line a b p lam) * (1 + 1e-9) + at_)%float)
                                           [-1; 0; 0.5; 1; 2]))
  ].
Definition pz : fpt := (0, 0).
Definition idx_dom (P : list fpt) (l r : nat) : bool :=
  forallb finp P && Nat.leb l r && Nat.ltb r (length P)
  && scale_ok (seg_scale P (nth 0 P pz) (nth 0 P pz)).
Definition same_lists (x y : option (list float)) : bool :=
  match x, y with Some u, Some v => list_all2 f_same u v | _, _ => false end.
Definition idx_holds (P : list fpt) (l r : nat) (oidx opts owhole : option (list float)) : Z :=
  firstfail [
    (1%Z, match oidx with Some u => Nat.eqb (length u) (r - l + 1) | None => false end);
    (* the index variant is the point variant on exactly P[l..r], bit for bit *)
    (2%Z, same_lists oidx opts);
    (3%Z, match owhole with Some u => Nat.eqb (length u) (length P) | None => false end)
  ].

Definition rect_dom (p1 p2 q1 q2 : fpt) : bool := finp p1 && finp p2 && finp q1 && finp q2.
Definition rect_cmps (m : fpt * fpt) (o : option (fpt * fpt)) : list cmp :=
  match o with
  | Some (lo, hi) => [(fst (fst m), Some (fst lo), 0); (snd (fst m), Some (snd lo), 0);
                      (fst (snd m), Some (fst hi), 0); (snd (snd m), Some (snd hi), 0)]
  | None => [(0, None, 0)]
  end.
Definition farea (r : fpt * fpt) : float := (fst (snd r) - fst (fst r)) * (snd (snd r) - snd (fst r)).
Definition rect_wfb (o : option (fpt * fpt)) : bool :=
  match o with Some (lo, hi) => (fst lo <=? fst hi)%float && (snd lo <=? snd hi)%float | None => false end.
Definition rect_holds (p1 p2 q1 q2 : fpt) (ra rb : option (fpt * fpt)) (o : list (option float)) : Z :=
  let A := @rect F p1 p2 in let B := @rect F q1 q2 in
  let disjoint := (fst (snd A) <=? fst (fst B)) || (fst (snd B) <=? fst (fst A))
                  || (snd (snd A) <=? snd (fst B)) || (snd (snd B) <=? snd (fst A)) in
  firstfail [
    (1%Z, forallb (present o) [0; 1; 2; 3]%nat);
    (2%Z, rect_wfb ra && rect_wfb rb);
    (3%Z, pred2 o 0 1 f_same);                                                  (* iou_sym *)
    (4%Z, pred1 o 0 (fun v => (0 <=? v) && (v <=? 1))%float);                    (* iou_range *)
    (5%Z, pred1 o 2 (fun v => if (0 <? farea A)%float then (v =? 1)%float else (v =? 0)%float)
          && pred1 o 3 (fun v => if (0 <? farea B)%float then (v =? 1)%float else (v =? 0)%float));   (* iou_identical *)
    (6%Z, if disjoint then pred1 o 0 (fun v => (v =? 0)%float) else true)        (* iou_disjoint *)
  ].

Definition side2f (p q : fpt) : float := dist2f q p.
Definition menger_dem (f g h : fpt) : float := fsqrt (side2f f g * side2f g h * side2f h f).
Definition menger_dom (f g h : fpt) : bool :=
  finp f && finp g && finp h && (0 <? menger_dem f g h)%float && (menger_dem f g h <? infinity)%float.
(* magnitude of the summands of the cross product relative to the denominator *)
Definition menger_atol (f g h : fpt) : float :=
  let sx := fabs (fst g - fst f) + fabs (fst h - fst g) + fabs (fst f - fst h) in
  let sy := fabs (snd g - snd f) + fabs (snd h - snd g) + fabs (snd f - snd h) in
  1e-9 * (2 * sx * sy / menger_dem f g h).
Definition menger_spec (f g h : fpt) : float :=
  (* Area = |(g-f) x (h-f)| / 2: the translation-invariant form, whose summands are products of differences *)
  4 * (fabs (@ccw F f g h) / 2) / (fsqrt (side2f f g) * fsqrt (side2f g h) * fsqrt (side2f h f)).
Definition menger_perms (f g h : fpt) : list float :=
  [@menger_curvature F f g h; @menger_curvature F g f h; @menger_curvature F f h g;
   @menger_curvature F g h f; @menger_curvature F h f g; @menger_curvature F h g f].
Definition menger_holds (f g h : fpt) (o : list (option float)) : Z :=
  let at_ := menger_atol f g h in
  let cr := (fst g - fst f) * (snd h - snd g) - (snd g - snd f) * (fst h - fst g) in
  firstfail [
    (1%Z, forallb (present o) [0; 1; 2; 3; 4; 5]%nat);
    (2%Z, forallb (fun i => pred1 o i ge0) [0; 1; 2; 3; 4; 5]%nat);
    (3%Z, forallb (fun i => pred2 o 0 i (f_close 1e-9 at_)) [1; 2; 3; 4; 5]%nat);   (* symmetric *)
    (4%Z, if (cr =? 0)%float then pred1 o 0 (fun v => (v =? 0)%float) else true);   (* 0 on collinear triples *)
    (5%Z, pred1 o 0 (f_close 1e-9 at_ (menger_spec f g h)))                         (* = 4 Area / (a b c) *)
  ].

Fixpoint has_tie (l : list float) : bool :=
  match l with [] => false | x :: l' => existsb (fun y => (x =? y)%float) l' || has_tie l' end.
Definition rank_dom (a : list float) : bool := forallb notnan a.
Definition rank_agree (a : list float) (out : option (list nat)) : Z :=
  if has_tie a then 5%Z
  else match out with Some r => if nat_list_eqb (@rank F a) r then 0%Z else 1%Z | None => 1%Z end.
Definition rank_holds (a : list float) (out : option (list nat)) : Z :=
  match out with
  | None => 1%Z
  | Some r => if negb (is_perm_b (length a) r) then 1%Z else if negb (@orders_b F a r) then 2%Z else 0%Z
  end.

Definition dist_dom (q : fpt) (P : list fpt) : bool :=
  finp q && forallb finp P && scale_ok (fold_left (fun acc p => fmax acc (linf p q)) P 0).
Definition dist_holds (q : fpt) (P : list fpt) (out : option (list float)) : Z :=
  firstfail [
    (1%Z, olist_ok (length P) out notnan);
    (2%Z, olist_ok (length P) out ge0);
    (3%Z, olist2 P out (fun p v => if peq p q then (v =? 0)%float else true))
  ].

Definition sim_dom (a : list float) : bool := Nat.leb 1 (length a) && forallb (fun v => (fabs v <? infinity)%float) a.
Definition sim_holds (a : list float) (out : option (list float)) : Z :=
  match out with
  | None => 1%Z
  | Some s =>
      firstfail [
        (1%Z, Nat.eqb (length s) (length a) && forallb notnan s);
        (2%Z, forallb ge0 s);
        (3%Z, existsb (fun v => (v =? 0)%float) s);
        (4%Z, forallb (fun t => forallb (fun w => implb (fst t <=? fst w)%float (snd w <=? snd t)%float) (combine a s)) (combine a s))
      ]
  end.

Definition tri_dom (p0 p1 p2 : fpt) : bool := finp p0 && finp p1 && finp p2.
Definition tri_holds (p0 p1 p2 : fpt) (o : list (option float)) : Z :=
  let sx := fabs (fst p0) + fabs (fst p1) + fabs (fst p2) in
  let sy := fabs (snd p0) + fabs (snd p1) + fabs (snd p2) in
  let at_ := 1e-9 * (sx * sy) in
  firstfail [
    (1%Z, forallb (present o) [0; 1; 2; 3]%nat);
    (2%Z, pred2 o 1 2 (fun u v => f_same v (- u)));                     (* _ccw(a,c,b) = -_ccw(a,b,c), bit for bit *)
    (3%Z, pred2 o 0 1 (fun t c => f_close 1e-9 at_ (2 * t) c));         (* _ccw = 2 * triangle_area *)
    (4%Z, pred2 o 0 3 (f_close 1e-9 at_))                               (* cyclic invariance *)
  ].

Definition in_dom (c : case) : bool :=
  match c with
  | CShort P a b _ => short_dom P a b
  | CPerp P a b _ => perp_dom P a b
  | CPerpIdx P l r _ _ _ => idx_dom P l r
  | CRect p1 p2 q1 q2 _ _ _ => rect_dom p1 p2 q1 q2
  | CMenger f g h _ => menger_dom f g h
  | CRank a _ => rank_dom a
  | CDist q P _ => dist_dom q P
  | CSim a _ => sim_dom a
  | CTri p0 p1 p2 _ => tri_dom p0 p1 p2
  end.
Definition comparisons (c : case) : list cmp :=
  match c with
  | CShort P a b out => cmps_of_lists (1e-9 * seg_scale P a b) (@shortest_distance_points F P a b) out
  | CPerp P a b out => cmps_of_lists (1e-9 * seg_scale P a b) (@perpendicular_distance_points F P a b) out
  | CPerpIdx P l r oidx opts owhole =>
      let a := nth l P pz in let b := nth r P pz in
      cmps_of_lists (1e-9 * seg_scale (slice P l (r + 1)) a b) (@perpendicular_distance_index F P l r) oidx
      ++ cmps_of_lists (1e-9 * seg_scale P (nth 0 P pz) (nth (length P - 1) P pz)) (@perpendicular_distance F P) owhole
  | CRect p1 p2 q1 q2 ra rb o =>
      let A := @rect F p1 p2 in let B := @rect F q1 q2 in
      rect_cmps A ra ++ rect_cmps B rb
      ++ [(@rect_overlap F (fst A) (snd A) (fst B) (snd B), getf o 0, 0); (@rect_overlap F (fst B) (snd B) (fst A) (snd A), getf o 1, 0);
          (@rect_overlap F (fst A) (snd A) (fst A) (snd A), getf o 2, 0); (@rect_overlap F (fst B) (snd B) (fst B) (snd B), getf o 3, 0)]
  | CMenger f g h o =>
      map (fun t => (fst t, getf o (snd t), 0)) (combine (menger_perms f g h) [0; 1; 2; 3; 4; 5]%nat)
  | CRank a out => []
  | CDist q P out => cmps_of_lists 0 (@distances F q P) out
  | CSim a out => cmps_of_lists 0 (@distance_to_similarity F a) out
  | CTri p0 p1 p2 o =>
      [(@triangle_area F p0 p1 p2, getf o 0, 0); (@ccw F p0 p1 p2, getf o 1, 0); (@ccw F p0 p2 p1, getf o 2, 0);
       (@triangle_area F p1 p2 p0, getf o 3, 0)]
  end.
Definition holds (c : case) : Z :=
  match c with
  | CShort P a b out => short_holds P a b out
  | CPerp P a b out => perp_holds P a b out
  | CPerpIdx P l r oidx opts owhole => idx_holds P l r oidx opts owhole
  | CRect p1 p2 q1 q2 ra rb o => rect_holds p1 p2 q1 q2 ra rb o
  | CMenger f g h o => menger_holds f g h o
  | CRank a out => rank_holds a out
  | CDist q P out => dist_holds q P out
  | CSim a out => sim_holds a out
  | CTri p0 p1 p2 o => tri_holds p0 p1 p2 o
  end.
Definition agree (c : case) : Z :=
  match c with
  | CRank a out => rank_agree a out
  | _ => if forallb cmp_ok (comparisons c) then 0%Z else 1%Z
  end.
(* conjunct 20 (judged last): "equals its geometric definition to within rounding" — the implementation's value is
   within tolerance of the closed form of the theorems evaluated on doubles (the same comparison as `agree`,
   reported as a property violation with a failing input when no other law breaks) *)
Definition holds20 (c : case) : Z :=
  let h := holds c in
  if (h =? 0)%Z then (if forallb cmp_ok (comparisons c) then 0%Z else 20%Z) else h.
(* result code = 100 * agree + holds *)
Definition judge (c : case) : Z :=
  if negb (in_dom c) then 600%Z else (100 * agree c + holds20 c)%Z.
Definition judgex (c : case) : Z :=
  if negb (in_dom c) then 600%Z
  else (judge c + 1000 * Z.of_nat (length (filter cmp_exact (comparisons c)))
        + 1000000 * Z.of_nat (length (comparisons c)))%Z.

(* the model's own outputs, for replay files *)
Definition show (c : case) : list (float * option float * bool) * list nat :=
  (map (fun t => (fst (fst t), snd (fst t), cmp_ok t)) (comparisons c),
   match c with CRank a _ => @rank F a | _ => [] end).
