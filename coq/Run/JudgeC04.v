(* Run/JudgeC04.v — case type and judge for the C04 correspondence run (threshold RDP, rdp.rdp). *)
From Coq Require Import ZArith List Arith Bool PrimFloat.
From Knee Require Import Num NumFloat NpList Model.Mapping Model.Rdp Model.RdpCost Run.RdpTables.
From Knee Require Export Model.RdpCost.
Import ListNotations.

Inductive case :=
  (* rdp.rdp(points, t, distance, cost) on the n points pts returned out = (reduced, removed); None = raised / did not
     return within the time limit / returned something that is not a pair of non-negative integer arrays.
     dt: the configured distance primitive on sub-arrays (oracle).  ct: what rdp.compute_cost_coef(points[l:r],
     lf.linear_fit_points(points[l:r]), cost) returns — the model's segment cost only for rmsle; for the other four
     metrics the model derives the cost from pts (Model/RdpCost.v) and ct is compared with it (conjunct 6). *)
  | CRdp (n : nat) (m : metric) (t : float) (pts : list (float * float)) (dt : dtab) (ct : ctab)
         (out : option (list nat * list row)).

Definition run_model (n : nat) (m : metric) (t : float) (pts : list (float * float)) (dt : dtab) (ct : ctab) :=
  @rdp FloatNum (dist_of dt) (segcost_of m pts ct) (metric_is_r2 m) t n.

(* result code = 100 * agree + holds   (AGENT_GUIDE "Judge and result codes")
   holds: C04_code (1 no return, 2 not well-formed, 3 removed table, 4 a kept segment does not fit, 5 not explained),
          6 the library's composite segment cost differs from the cost derived from the points *)
Definition judge (c : case) : Z :=
  match c with
  | CRdp n m t pts dt ct out =>
      let r2 := metric_is_r2 m in
      let segcost := segcost_of m pts ct in
      let dom := (2 <=? n) && (length pts =? n) && negb (@curved FloatNum r2 t (@trivial_cost FloatNum r2)) && shape_ok dt in
      if negb dom then 600%Z else
      let agree :=
        match run_model n m t pts dt ct with
        | None => 1%Z
        | Some (red, rem, vis) =>
            let '(ck, dk) := @keys_needed FloatNum segcost r2 t vis in
            let out_keys := match out with
                            | Some (ored, _) => forallb (fun p => (snd p - fst p <? 2) || has ct (fst p, snd p + 1)) (pairs ored)
                            | None => true end in
            if negb (forallb (has ct) ck && forallb (has dt) dk && out_keys) then 4%Z
            else match out with
                 | Some (ored, orem) => if nat_list_eqb red ored && rows_eqb rem orem then 0%Z else 1%Z
                 | None => 1%Z
                 end
        end in
      let holds := match @C04_code FloatNum (dist_of dt) segcost r2 t n out with
                   | O => if cost_match m pts ct then 0%Z else 6%Z
                   | c => Z.of_nat c
                   end in
      (100 * agree + holds)%Z
  end.

(* the model's own outputs, for replay files: (reduced, removed, popped ranges) *)
Definition show (c : case) :=
  match c with CRdp n m t pts dt ct out => run_model n m t pts dt ct end.
