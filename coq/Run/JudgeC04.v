(* Run/JudgeC04.v — case type and judge for the C04 correspondence run (threshold RDP, rdp.rdp). *)
From Coq Require Import ZArith List Arith Bool PrimFloat.
From Knee Require Import Num NumFloat NpList Model.Mapping Model.Rdp Run.RdpTables.
Import ListNotations.

Inductive case :=
  (* rdp.rdp(points, t, distance, cost) on n points returned out = (reduced, removed); None = raised / did not
     return within the time limit / returned something that is not a pair of integer arrays.
     dt / ct: the library's own distance / cost primitives on sub-arrays. *)
  | CRdp (n : nat) (r2 : bool) (t : float) (dt : dtab) (ct : ctab) (out : option (list nat * list row)).

Definition run_model (n : nat) (r2 : bool) (t : float) (dt : dtab) (ct : ctab) :=
  @rdp FloatNum (dist_of dt) (cost_from ct) r2 t n.

(* result code = 100 * agree + holds   (AGENT_GUIDE "Judge and result codes") *)
Definition judge (c : case) : Z :=
  match c with
  | CRdp n r2 t dt ct out =>
      let dom := (2 <=? n) && negb (@curved FloatNum r2 t (@trivial_cost FloatNum r2)) && shape_ok dt in
      if negb dom then 600%Z else
      let agree :=
        match run_model n r2 t dt ct with
        | None => 1%Z
        | Some (red, rem, vis) =>
            let '(ck, dk) := @keys_needed FloatNum (cost_from ct) r2 t vis in
            let out_keys := match out with
                            | Some (ored, _) => forallb (fun p => (snd p - fst p <? 2) || has ct (fst p, snd p + 1)) (pairs ored)
                            | None => true end in
            if negb (forallb (has ct) ck && forallb (has dt) dk && out_keys) then 4%Z
            else match out with
                 | Some (ored, orem) => if nat_list_eqb red ored && rows_eqb rem orem then 0%Z else 1%Z
                 | None => 1%Z
                 end
        end in
      let holds := Z.of_nat (@C04_code FloatNum (dist_of dt) (cost_from ct) r2 t n out) in
      (100 * agree + holds)%Z
  end.

(* the model's own outputs, for replay files: (reduced, removed, popped ranges) *)
Definition show (c : case) :=
  match c with CRdp n r2 t dt ct out => run_model n r2 t dt ct end.
