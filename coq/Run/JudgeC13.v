(* Run/JudgeC13.v — case type and judge for the C13 correspondence run. *)
From Coq Require Import ZArith List Arith Bool PrimFloat.
From Knee Require Import Num NumFloat NpList Model.Filters.
Import ListNotations.

Inductive case :=
  (* filter_worst_knees(points, ks) = out; filter_worst_knees(points, out) = out2 (None = exception) *)
  | CWorst (pts : list (float * float)) (ks : list nat) (out out2 : option (list nat))
  (* F = filter_corner_knees(points, ks, t), S = select_corner_knees(points, ks, t),
     F2 = filter_corner_knees(points, F, t), S2 = select_corner_knees(points, S, t) *)
  | CCorner (pts : list (float * float)) (ks : list nat) (t : float) (oF oS oF2 oS2 : option (list nat))
  (* same-object stream: ONE points buffer and ONE knees array served a sequence of calls, the buffer being refilled in
     place between some of them; each step records the contents the buffer had for that call (from a separate fresh copy)
     and what the call returned; intact = after every call both arguments still held exactly those contents *)
  | CSeq (steps : list seqstep) (intact : bool)
with seqstep :=
  | SWorst (pts : list (float * float)) (ks : list nat) (out : option (list nat))
  | SFilter (pts : list (float * float)) (ks : list nat) (t : float) (out : option (list nat))
  | SSelect (pts : list (float * float)) (ks : list nat) (t : float) (out : option (list nat)).

Definition opt_list_eqb (a b : option (list nat)) : bool :=
  match a, b with
  | Some x, Some y => nat_list_eqb x y
  | None, None => true
  | _, _ => false
  end.
Definition pts_ok (pts : list (float * float)) : bool :=
  forallb (fun p => negb (f_isnan (fst p)) && negb (f_isnan (snd p))) pts.
Definition knees_ok (n : nat) (ks : list nat) : bool :=
  strictly_increasing ks && forallb (fun k => k <? n) ks.

Definition step_dom (s : seqstep) : bool :=
  match s with
  | SWorst pts ks _ => pts_ok pts && knees_ok (length pts) ks
  | SFilter pts ks t _ | SSelect pts ks t _ => pts_ok pts && knees_ok (length pts) ks && negb (f_isnan t)
  end.
Definition step_agree (s : seqstep) : bool :=
  match s with
  | SWorst pts ks out => opt_list_eqb (Some (@filter_worst FloatNum pts ks)) out
  | SFilter pts ks t out => opt_list_eqb (Some (@filter_corner FloatNum pts ks t)) out
  | SSelect pts ks t out => opt_list_eqb (Some (@select_corner FloatNum pts ks t)) out
  end.
Definition step_ran (s : seqstep) : bool :=
  match s with SWorst _ _ None | SFilter _ _ _ None | SSelect _ _ _ None => false | _ => true end.
(* the Tier S per-call predicates: C13_worst_is_running_min, C13_corner_call_rules *)
Definition step_holds (s : seqstep) : bool :=
  match s with
  | SWorst pts ks (Some o) => nat_list_eqb o (@running_min_spec FloatNum (@height FloatNum pts) ks)
  | SFilter pts ks t (Some o) => @filter_rule_holdsb FloatNum pts ks t o
  | SSelect pts ks t (Some o) => @select_rule_holdsb FloatNum pts ks t o
  | _ => false
  end.

(* result code = 100 * agree + holds.
   agree: 0 model outputs = implementation outputs, 1 differ, 6 outside the domain (NaN coordinate / threshold / IoU,
          knee list not strictly ascending or out of range)
   holds (on the IMPLEMENTATION's outputs):
     CWorst  1 output is not the greedy running-minimum subsequence, 2 not idempotent
     CCorner 1 exception, 2 sublist / partition / decision rule false, 3 filter not idempotent, 4 selector not idempotent
     CSeq    1 exception in some call, 2 some call's output breaks its rule (for the contents the buffer had at that call),
             3 an argument was rewritten in place by a call *)
Definition judge (c : case) : Z :=
  match c with
  | CWorst pts ks out out2 =>
      let m := @filter_worst FloatNum pts ks in
      let a := if opt_list_eqb (Some m) out && opt_list_eqb (Some (@filter_worst FloatNum pts m)) out2 then 0%Z else 1%Z in
      if negb (pts_ok pts && knees_ok (length pts) ks) then (600 + a)%Z else
      let h := match out, out2 with
               | Some o, Some o2 =>
                   if negb (nat_list_eqb o (@running_min_spec FloatNum (@height FloatNum pts) ks)) then 1%Z
                   else if negb (nat_list_eqb o2 o) then 2%Z else 0%Z
               | _, _ => 1%Z
               end in
      (100 * a + h)%Z
  | CCorner pts ks t oF oS oF2 oS2 =>
      let mF := @filter_corner FloatNum pts ks t in
      let mS := @select_corner FloatNum pts ks t in
      let a := if opt_list_eqb (Some mF) oF && opt_list_eqb (Some mS) oS
                  && opt_list_eqb (Some (@filter_corner FloatNum pts mF t)) oF2
                  && opt_list_eqb (Some (@select_corner FloatNum pts mS t)) oS2 then 0%Z else 1%Z in
      let dom := pts_ok pts && knees_ok (length pts) ks && negb (f_isnan t)
                 && forallb (fun k => negb (has_nb (length pts) k) || negb (f_isnan (@corner_iou FloatNum pts k))) ks in
      if negb dom then (600 + a)%Z else
      let h := match oF, oS, oF2, oS2 with
               | Some f, Some s, Some f2, Some s2 =>
                   if negb (@corner_holdsb FloatNum pts ks t f s) then 2%Z
                   else if negb (nat_list_eqb f2 f) then 3%Z
                   else if negb (nat_list_eqb s2 s) then 4%Z else 0%Z
               | _, _, _, _ => 1%Z
               end in
      (100 * a + h)%Z
  | CSeq steps intact =>
      let a := if forallb step_agree steps then 0%Z else 1%Z in
      if negb (forallb step_dom steps) then (600 + a)%Z else
      let h := if negb (forallb step_ran steps) then 1%Z
               else if negb (forallb step_holds steps) then 2%Z
               else if negb intact then 3%Z else 0%Z in
      (100 * a + h)%Z
  end.

Definition show (c : case) : list (list nat) * list float :=
  match c with
  | CWorst pts ks out out2 => ([@filter_worst FloatNum pts ks; @running_min_spec FloatNum (@height FloatNum pts) ks], [])
  | CCorner pts ks t oF oS oF2 oS2 =>
      ([@filter_corner FloatNum pts ks t; @select_corner FloatNum pts ks t], map (@corner_iou FloatNum pts) ks)
  | CSeq steps intact =>
      (map (fun s => match s with
                     | SWorst pts ks _ => @filter_worst FloatNum pts ks
                     | SFilter pts ks t _ => @filter_corner FloatNum pts ks t
                     | SSelect pts ks t _ => @select_corner FloatNum pts ks t
                     end) steps, [])
  end.
