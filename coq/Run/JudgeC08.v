(* Run/JudgeC08.v — case type and judge for the C08 correspondence run (whole pipeline, every intermediate value).
   Modelled and compared exactly, stage by stage, on the implementation's own intermediate values:
     filter_worst_knees (Model/Pipeline.v), filter_corner_knees (Model/Filters.v, C13: IoU computed in the model),
     filter_clusters (Model/ClusterFilter.v, C12) over the labels computed by the C11 model (Model/Clustering.v) and, in
     hull mode, the lower hull computed by the C18 model (Model/Hull.v) — both also compared with what the real
     clustering function / graham_scan_lower returned —, rdp.mapping (Model/Mapping.v).
   Oracle tables of the cluster stage (the library's own values): kr.smooth_ranking per multi-member cluster, the sums
   of shortest distances of hull mode. *)
From Coq Require Import ZArith List Arith Bool PrimFloat.
From Knee Require Import Num NumFloat NpList Model.Mapping Model.Pipeline Model.Filters Model.Hull Model.PipelineClosed.
From Knee Require Export Model.ClusterFilter Model.Clustering.   (* the generated case files name fmode / linkage constructors *)
From Knee Require Run.JudgeC12.                                  (* table look-ups, keys_ok, top_tie of the C12 judge *)
Import ListNotations.

(* what is recorded about the filter_clusters call: ranking mode, linkage, merge threshold, the labels the real
   clustering function returned on points_reduced[k2], graham_scan_lower(points_reduced) (hull mode only),
   kr.smooth_ranking(points_reduced, cluster, mode) per multi-member cluster (keyed by the cluster's knees),
   np.sum(lf.shortest_distance_points(...)) keyed by inclusive index ranges of the reduced curve *)
Inductive cinfo :=
  | CInfo (m : fmode) (lk : linkage) (tl : float) (labels hull : list nat)
          (scores : list (list nat * list float)) (sd : list (nat * nat * float)).

(* one run of the real pipeline on a curve of n points (xs, ys):
   (red, rem) = simplifier output; knees = <detector>.multi_knee(points[red]); k1 / k2 / k3 = outputs of
   filter_worst_knees / filter_corner_knees(.., tc) / filter_clusters; out = rdp.mapping(k3, red, rem).
   None = that stage raised (or returned something that is not a list of non-negative integers). *)
Inductive case :=
  | CPipe (n : nat) (xs ys : list float) (red : option (list nat)) (rem : list row)
          (knees k1 k2 k3 out : option (list nat)) (tc : float) (ci : cinfo).

Definition rows_eqb := list_eqb row_eqb.
Definition opt_list_eqb (a b : option (list nat)) : bool :=
  match a, b with
  | Some x, Some y => nat_list_eqb x y
  | None, None => true
  | _, _ => false
  end.

Definition F := T FloatNum.

(* the cluster stage of the model on the reduced curve pr, fed with the implementation's k2 *)
Definition model_cluster (pr : list (float * float)) (ci : cinfo) (k2 : list nat) : option (list nat) :=
  match ci with
  | CInfo m lk tl labels hull scores sd =>
      let rxs := map fst pr in
      let mhull := if is_hull m then @Hull.graham_scan_lower FloatNum pr else [] in
      @cluster_stage FloatNum (@argsort_stable FloatNum) (JudgeC12.score_of scores) mhull (JudgeC12.sd_of sd) rxs m
                     (@c11_labels FloatNum lk rxs tl) k2
  end.

(* agree code of the cluster stage: 0 equal, 1 differs (also: C11 labels or C18 hull differ from the library's),
   4 oracle key missing, 5 a ranked cluster has a tie for the top of NumPy's sort order (np.argsort is unstable on
   ties: judged on the predicate only) *)
Definition agree_cluster (pr : list (float * float)) (ci : cinfo) (k2 k3 : list nat) : Z :=
  match ci with
  | CInfo m lk tl labels hull scores sd =>
      if length k2 <=? 1 then (if nat_list_eqb k2 k3 then 0%Z else 1%Z) else
      let rxs := map fst pr in
      if negb (opt_list_eqb (@c11_labels FloatNum lk rxs tl k2) (Some labels)) then 1%Z else
      if is_hull m && negb (nat_list_eqb (@Hull.graham_scan_lower FloatNum pr) hull) then 1%Z else
      if negb (JudgeC12.keys_ok m (length rxs) k2 labels hull scores sd) then 4%Z else
      if existsb (fun c => match JudgeC12.rankings_of m rxs hull scores sd c with
                           | Some r => JudgeC12.top_tie r | None => false end)
                 (JudgeC12.clusters labels k2) then 5%Z else
      if opt_list_eqb (model_cluster pr ci k2) (Some k3) then 0%Z else 1%Z
  end.

(* result code = 100 * agree + holds (see AGENT_GUIDE) *)
Definition judge (c : case) : Z :=
  match c with
  | CPipe n xs ys red rem knees k1 k2 k3 out tc ci =>
      if negb ((2 <=? n) && (length ys =? n) && (length xs =? n)
               && forallb (fun v => negb (f_isnan v)) ys && forallb (fun v => negb (f_isnan v)) xs) then 600%Z else
      match red, knees, k1, k2, k3, out with
      | Some red, Some knees, Some k1, Some k2, Some k3, Some out =>
          let xo := fun i => nth i xs 0%float in
          let yo := fun i => nth i ys 0%float in
          let yr := @reduced_height FloatNum yo red in
          let pr := @reduced_points FloatNum xo yo red in
          let m1 := @Pipeline.filter_worst FloatNum yr knees in
          let m2 := @filter_corner FloatNum pr k1 tc in
          let a :=
            if negb (nat_list_eqb m1 k1 && nat_list_eqb m2 k2 && opt_list_eqb (mapping k3 red rem true) (Some out)) then 1%Z
            else agree_cluster pr ci k2 k3 in
          let h :=
            if negb (WFb n red && rows_eqb rem (rows red)) then 2%Z
            else if negb (strictly_increasing knees && forallb (fun i => i <? length red) knees) then 3%Z
            else if negb (subseqb k1 knees && subseqb k2 k1 && subseqb k3 k2) then 4%Z
            else if negb (@nonincb FloatNum yr k1 && @nonincb FloatNum yr k2 && @nonincb FloatNum yr k3) then 5%Z
            else if negb (nat_list_eqb out (map (fun j => nth j red 0) k3)) then 6%Z
            else if negb (strictly_increasing out && forallb (fun i => (i <? n) && existsb (Nat.eqb i) red) out
                          && @nonincb FloatNum yo out) then 7%Z
            else 0%Z in
          (100 * a + h)%Z
      | _, _, _, _, _, _ => 101%Z          (* a stage did not complete *)
      end
  end.

(* the model's outputs, for replay files: worst-knee, corner and cluster stages (each on the implementation's input
   to that stage), the labels of the C11 model, the mapped result *)
Definition show (c : case) : option (list nat) * option (list nat) * option (list nat) * option (list nat) * option (list nat) :=
  match c with
  | CPipe n xs ys red rem knees k1 k2 k3 out tc ci =>
      match red with
      | Some red =>
          let xo := fun i => nth i xs 0%float in
          let yo := fun i => nth i ys 0%float in
          let pr := @reduced_points FloatNum xo yo red in
          (option_map (@Pipeline.filter_worst FloatNum (@reduced_height FloatNum yo red)) knees,
           option_map (fun l => @filter_corner FloatNum pr l tc) k1,
           match k2 with Some l => model_cluster pr ci l | None => None end,
           match k2, ci with
           | Some l, CInfo _ lk tl _ _ _ _ => @c11_labels FloatNum lk (map fst pr) tl l
           | None, _ => None
           end,
           match k3 with Some l => mapping l red rem true | None => None end)
      | None => (None, None, None, None, None)
      end
  end.
