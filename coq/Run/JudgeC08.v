(* Run/JudgeC08.v — case type and judge for the C08 correspondence run (whole pipeline, every intermediate value). *)
From Coq Require Import ZArith List Arith Bool PrimFloat.
From Knee Require Import Num NumFloat NpList Model.Mapping Model.Pipeline.
Import ListNotations.

(* one run of the real pipeline on a curve of n points with heights ys:
   (red, rem) = simplifier output; knees = <detector>.multi_knee(points[red]); k1 / k2 / k3 = outputs of
   filter_worst_knees / filter_corner_knees / filter_clusters; out = rdp.mapping(k3, red, rem).
   None = that stage raised (or returned something that is not a list of non-negative integers). *)
Inductive case :=
  | CPipe (n : nat) (ys : list float) (red : option (list nat)) (rem : list row)
          (knees k1 k2 k3 out : option (list nat)).

Definition rows_eqb := list_eqb row_eqb.
Definition opt_list_eqb (a b : option (list nat)) : bool :=
  match a, b with
  | Some x, Some y => nat_list_eqb x y
  | None, None => true
  | _, _ => false
  end.

(* result code = 100 * agree + holds (see AGENT_GUIDE) *)
Definition judge (c : case) : Z :=
  match c with
  | CPipe n ys red rem knees k1 k2 k3 out =>
      if negb ((2 <=? n) && (length ys =? n) && forallb (fun v => negb (f_isnan v)) ys) then 600%Z else
      match red, knees, k1, k2, k3, out with
      | Some red, Some knees, Some k1, Some k2, Some k3, Some out =>
          let yo := fun i => nth i ys 0%float in
          let yr := @reduced_height FloatNum yo red in
          let m1 := @filter_worst FloatNum yr knees in
          let a := if nat_list_eqb m1 k1 && opt_list_eqb (mapping k3 red rem true) (Some out) then 0%Z else 1%Z in
          let h :=
            if negb (WFb n red && rows_eqb rem (rows red)) then 2%Z
            else if negb (strictly_increasing knees && forallb (fun i => i <? length red) knees) then 3%Z
            else if negb (subseqb k1 knees && subseqb k2 k1 && subseqb k3 k2) then 4%Z
            else if negb (@nonincb FloatNum yr k1 && @nonincb FloatNum yr k2 && @nonincb FloatNum yr k3) then 5%Z
            else if negb (nat_list_eqb out (map (fun j => nth j red 0) k3)) then 6%Z
            else if negb (strictly_increasing out && forallb (fun i => (i <? n) && existsb (Nat.eqb i) red) out
                          && @nonincb FloatNum yo out) then 7%Z
            else 0%Z in
          (100 * a + h)%Z
      | _, _, _, _, _, _ => 101%Z          (* a stage did not complete *)
      end
  end.

Definition show (c : case) : option (list nat) * option (list nat) :=
  match c with
  | CPipe n ys red rem knees k1 k2 k3 out =>
      match red, knees, k3 with
      | Some red, Some knees, Some k3 =>
          let yo := fun i => nth i ys 0%float in
          (Some (@filter_worst FloatNum (@reduced_height FloatNum yo red) knees), mapping k3 red rem true)
      | _, _, _ => (None, None)
      end
  end.
