(* Run/JudgeC15.v — case type and judge for the C15 correspondence run. *)
From Coq Require Import ZArith List Arith Bool PrimFloat.
From Knee Require Import Num NumFloat NpList.
From Knee Require Export Model.GlobalCost.
Import ListNotations.

Definition fpt := (float * float)%type.
Definition ftab := list (key * float).
(* a snapshot of the caller's dict: the (left, right) entries in insertion order and the 'tss' entry *)
Definition fdict := (ftab * option float)%type.

Inductive case :=
  (* compute_global_cost on one shared dict along `hist` (values `shared`, dict after every query `dicts`)
     and with a fresh dict per query (`fresh`); None = the call raised.  segtab / tssv: oracle tables *)
  | CHist (m : metric) (pts : list fpt) (segtab : ftab) (tssv : float)
          (hist : list (list nat)) (shared fresh : list (option float)) (dicts : list fdict)
  (* compute_global_rmse, same protocol; sqtab: oracle table of segment residual sums of squares *)
  | CRmse (pts : list fpt) (sqtab : ftab)
          (hist : list (list nat)) (shared fresh : list (option float)) (dicts : list ftab)
  (* mip(points, red) = out; fin / refs: compute_global_rmse (fresh dict) of red and of red without its i-th element *)
  | CMip (pts : list fpt) (sqtab : ftab) (red : list nat) (out : option (float * float))
         (fin : option float) (refs : list (option float))
  (* ONE call compute_global_cost(points, red, metric) — no cache argument, or a dict whose contents the caller does not
     inspect — = out; a step of a multi-call sequence on one points buffer (contents at the time of the call: pts) *)
  | CCost (m : metric) (pts : list fpt) (segtab : ftab) (tssv : float) (red : list nat) (out : option float)
  (* ONE call compute_global_rmse(points, red) = out *)
  | CRm (pts : list fpt) (sqtab : ftab) (red : list nat) (out : option float)
  (* a sequence of calls made on the SAME points ndarray (refilled in place between calls): every call is judged *)
  | CSeq (steps : list case).

Definition oracle (tab : ftab) (l r : nat) : float :=
  match lookup (l, r) tab with Some v => v | None => nan end.
Definition has_key (tab : ftab) (k : key) : bool :=
  match lookup k tab with Some _ => true | None => false end.

Definition opt_same (a b : option float) : bool :=
  match a, b with
  | Some x, Some y => f_same x y
  | None, None => true
  | _, _ => false
  end.
Definition is_some {A} (a : option A) : bool := match a with Some _ => true | None => false end.
Definition tab_same (a b : ftab) : bool :=
  list_all2 (fun x y => key_eqb (fst x) (fst y) && f_same (snd x) (snd y)) a b.
Definition dict_same (a b : fdict) : bool := tab_same (fst a) (fst b) && opt_same (snd a) (snd b).

(* a query in the property's domain: ascending breakpoints inside the curve, at least one segment *)
Definition query_ok (n : nat) (q : list nat) : bool :=
  strictly_increasing q && forallb (fun i => i <? n) q && (2 <=? length q).
Definition all_points (n : nat) (q : list nat) : bool := nat_list_eqb q (seq 0 n).
Definition finite (x : float) : bool := negb (f_isnan x) && (PrimFloat.abs x <? infinity)%float.
Definition pts_ok (pts : list fpt) : bool :=
  (2 <=? length pts) && forallb (fun p => finite (fst p) && finite (snd p)) pts.
Definition ymax (pts : list fpt) : float :=
  fold_left (fun a p => if (a <? PrimFloat.abs (snd p))%float then PrimFloat.abs (snd p) else a) pts 0%float.

(* conditioning of the end-point line y = m x + b evaluated in absolute coordinates (what compute_global_rmse does): the rounding
   error of m*x + b is about eps * |m| * max|x| <= eps * (2 ymax / min gap) * max|x|.  Tolerance comparisons of RMSE-level
   quantities against the closed formulas allow for it (a curve carried by a large x offset — time-stamps — loses that many
   digits in the implementation AND in the formula; demanding more was a false alarm of this judge, found on the `offset` family). *)
Definition xcond (pts : list fpt) : float :=
  let xmag := fold_left (fun a p => if (a <? PrimFloat.abs (fst p))%float then PrimFloat.abs (fst p) else a) pts 0%float in
  let gaps := (fix go (l : list fpt) : float :=
                 match l with
                 | p :: ((q :: _) as l') => let g := PrimFloat.abs (fst q - fst p)%float in
                                            let r := go l' in if (g <? r)%float then g else r
                 | _ => infinity
                 end) pts in
  (xmag / gaps)%float.
Definition cond_atol (pts : list fpt) : float := (0x1p-30 * ymax pts + 0x1p-47 * ymax pts * xcond pts)%float.

Definition first_false (l : list bool) : Z :=
  (fix go (l : list bool) (k : Z) : Z :=
     match l with [] => 0%Z | b :: l' => if b then go l' (k + 1)%Z else k end) l 1%Z.

Definition metric_atol (m : metric) : float :=
  match m with MRmsle => 0x1p-30%float | _ => 0x1p-60%float end.

Definition judge1 (c : case) : Z :=
  match c with
  | CHist m pts segtab tssv hist shared fresh dicts =>
      let n := length pts in
      if negb (pts_ok pts && forallb (query_ok n) hist
               && (length shared =? length hist) && (length fresh =? length hist) && (length dicts =? length hist))
      then 600%Z else
      let need := filter (fun k => negb (@seg_len n (fst k) (snd k) <=? 2)) (flat_map segments hist) in
      if negb (forallb (has_key segtab) need) then 400%Z else
      let segerr := oracle segtab in
      let run := @run_shared FloatNum n segerr tssv m (@empty_cache FloatNum) hist in
      let a :=
        if negb (list_all2 (fun r s => opt_same (Some (fst r)) s) run shared) then 1%Z
        else if negb (list_all2 (fun r d => dict_same (snd r) d) run dicts) then 1%Z
        (* the oracle tables against the closed formulas: tolerance only, never steers the model *)
        else if negb (forallb (fun e => f_close 0x1p-30 (metric_atol m)
                                          (@segerr_formula FloatNum m pts (fst (fst e)) (snd (fst e))) (snd e)) segtab) then 1%Z
        else if negb (f_close 0x1p-30 0 (@tss_formula FloatNum pts) tssv) then 1%Z
        else 0%Z in
      let spec := map (@gcost_spec FloatNum n segerr tssv m) hist in
      let h := first_false [
        forallb is_some shared && forallb is_some fresh;                        (* 1 no exception *)
        list_all2 opt_same shared fresh;                                        (* 2 cache transparency, bit for bit *)
        list_all2 (fun s v => opt_same (Some s) v) spec fresh;                  (* 3 the definition *)
        forallb (fun v => match v with Some x => negb (x <? 0)%float | None => false end) fresh;   (* 4 >= 0 *)
        list_all2 (fun q v => if all_points n q
                              then opt_same v (Some (match m with MR2 => 1%float | _ => 0%float end)) else true)
                  hist fresh                                                    (* 5 every point a breakpoint *)
      ] in
      (100 * a + h)%Z
  | CRmse pts sqtab hist shared fresh dicts =>
      let n := length pts in
      if negb (pts_ok pts && forallb (query_ok n) hist
               && (length shared =? length hist) && (length fresh =? length hist) && (length dicts =? length hist))
      then 600%Z else
      if negb (forallb (has_key sqtab) (flat_map segments hist)) then 400%Z else
      let sqerr := oracle sqtab in
      let run := @rmse_shared FloatNum n sqerr [] hist in
      let atol := cond_atol pts in
      let a :=
        if negb (list_all2 (fun r s => opt_same (Some (fst r)) s) run shared) then 1%Z
        else if negb (list_all2 (fun r d => tab_same (snd r) d) run dicts) then 1%Z
        else if negb (forallb (fun e => f_close 0x1p-30 (atol * atol)
                                          (@sqerr_formula FloatNum pts (fst (fst e)) (snd (fst e))) (snd e)) sqtab) then 1%Z
        else 0%Z in
      let h := first_false [
        forallb is_some shared && forallb is_some fresh;
        list_all2 opt_same shared fresh;
        list_all2 (fun q v => opt_same (Some (@grmse_fresh FloatNum n sqerr q)) v) hist fresh;
        forallb (fun v => match v with Some x => negb (x <? 0)%float | None => false end) fresh;
        (* RMSE against the interpolation, every point once (tolerance: the Tier-A clause) *)
        list_all2 (fun q v => match v with
                              | Some x => if (hd 1 q =? 0) && (last q 0 =? n - 1)
                                          then f_close 0x1p-30 atol (@rmse_interp FloatNum pts q) x else true
                              | None => false end) hist fresh
      ] in
      (100 * a + h)%Z
  | CMip pts sqtab red out fin refs =>
      let n := length pts in
      if negb (pts_ok pts && query_ok n red && (3 <=? length red) && (length refs =? length red - 2))
      then 600%Z else
      let qs := red :: map (fun i => delete_at i red) (seq 1 (length red - 2)) in
      if negb (forallb (has_key sqtab) (flat_map segments qs)) then 400%Z else
      let sqerr := oracle sqtab in
      let mo := @mip FloatNum n sqerr red in
      let a := match out with
               | Some (x, y) => if f_same (fst mo) x && f_same (snd mo) y then 0%Z else 1%Z
               | None => 1%Z end in
      let h := first_false [
        is_some out && is_some fin && forallb is_some refs;
        (* median over the interior breakpoints of (RMSE without it - RMSE), the RMSEs being the implementation's
           own fresh-cache values *)
        match out, fin with
        | Some (x, y), Some f =>
            let ip := map (fun r => match r with Some v => (v - f)%float | None => nan end) refs in
            let sp := @mad_of FloatNum ip in
            f_same (fst sp) x && f_same (snd sp) y
        | _, _ => false
        end
      ] in
      (100 * a + h)%Z
  | _ => 600%Z
  end.

(* a single call is judged as a one-query history; the dict it would leave is not observed, so the model's own is supplied *)
Definition lift (c : case) : case :=
  match c with
  | CCost m pts segtab tssv red out =>
      CHist m pts segtab tssv [red] [out] [out]
            (map snd (@run_shared FloatNum (length pts) (oracle segtab) tssv m (@empty_cache FloatNum) [red]))
  | CRm pts sqtab red out =>
      CRmse pts sqtab [red] [out] [out] (map snd (@rmse_shared FloatNum (length pts) (oracle sqtab) [] [red]))
  | _ => c
  end.
(* a sequence: a step whose predicate is false decides; else a disagreeing step; else agreement; 600 if no step is in the domain *)
Definition combine (codes : list Z) : Z :=
  match find (fun c => negb (c / 100 =? 6)%Z && negb (c mod 100 =? 0)%Z) codes with
  | Some c => c
  | None =>
      match find (fun c => negb (c / 100 =? 6)%Z && negb (c =? 0)%Z) codes with
      | Some c => c
      | None => if existsb (fun c => (c =? 0)%Z) codes then 0%Z else 600%Z
      end
  end.
Fixpoint judge (c : case) : Z :=
  match c with
  | CSeq steps => combine (map judge steps)
  | _ => judge1 (lift c)
  end.


(* the model's own outputs, for replay files *)
Definition show1 (c : case) : list float * list fdict :=
  match lift c with
  | CHist m pts segtab tssv hist _ _ _ =>
      let run := @run_shared FloatNum (length pts) (oracle segtab) tssv m (@empty_cache FloatNum) hist in
      (map fst run, map snd run)
  | CRmse pts sqtab hist _ _ _ =>
      let run := @rmse_shared FloatNum (length pts) (oracle sqtab) [] hist in
      (map fst run, map (fun r => (snd r, None)) run)
  | CMip pts sqtab red _ _ _ =>
      let mo := @mip FloatNum (length pts) (oracle sqtab) red in
      ([fst mo; snd mo], [])
  | _ => ([], [])
  end.
Definition show (c : case) : list (list float * list fdict) :=
  match c with
  | CSeq steps => map show1 steps
  | _ => [show1 c]
  end.
