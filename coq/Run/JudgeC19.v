(* Run/JudgeC19.v — case type and judge for the C19 correspondence run. *)
From Coq Require Import ZArith List Arith Bool PrimFloat.
From Knee Require Import Num NumFloat NpList.
From Knee Require Export Model.Scores.
Import ListNotations.

Definition fpt := (float * float)%type.
Definition dkey := (nat * nat)%type.
Definition dtab := list (dkey * float).

Inductive callkind := KCm | KMae | KMse | KRmse | KRmspe.

Inductive case :=
  (* cm(points, knees, expected, t) = cm_out (tp, fp, fn, tn); accuracy / f1score / mcc of that matrix;
     mae / mse / rmse / rmspe with strategy s; dtab: np.linalg.norm(b - a[i], axis=1)[j] for the sides the strategy picks.
     None = the call raised *)
  | CScore (pts : list fpt) (knees : list nat) (expected : list fpt) (t : float) (s : strategy) (tab : dtab)
           (cm_out : option (Z * Z * Z * Z)) (acc f1 mc : option float)
           (mae_o mse_o rmse_o rmspe_o : option float)
  (* ONE call of one function of the module (a step of a multi-call sequence on shared argument objects):
     k says which; cm_out is the matrix when k = KCm, val the float result otherwise.  pts / knees / expected are the
     contents the argument buffers held at the time of the call; tab as above, computed from fresh copies *)
  | CCall (pts : list fpt) (knees : list nat) (expected : list fpt) (t : float) (s : strategy) (tab : dtab)
          (k : callkind) (cm_out : option (Z * Z * Z * Z)) (val : option float)
  (* a sequence of calls made on the SAME ndarray objects (refilled in place between calls): every call is judged *)
  | CSeq (steps : list case).

Fixpoint dlookup (k : dkey) (tb : dtab) : option float :=
  match tb with
  | [] => None
  | (k', v) :: tb' => if (fst k =? fst k') && (snd k =? snd k') then Some v else dlookup k tb'
  end.
Definition doracle (tb : dtab) (i j : nat) : float := match dlookup (i, j) tb with Some v => v | None => nan end.

Definition opt_same (a b : option float) : bool :=
  match a, b with
  | Some x, Some y => f_same x y
  | None, None => true
  | _, _ => false
  end.
Definition is_some {A} (a : option A) : bool := match a with Some _ => true | None => false end.
Definition finite (x : float) : bool := negb (f_isnan x) && (PrimFloat.abs x <? infinity)%float.
Fixpoint increasing (l : list float) : bool :=
  match l with
  | a :: ((b :: _) as l') => (a <? b)%float && increasing l'
  | _ => true
  end.
Definition pt_eqb (p q : fpt) : bool := (fst p =? fst q)%float && (snd p =? snd q)%float.
Fixpoint distinct_nats (l : list nat) : bool :=
  match l with [] => true | a :: l' => negb (existsb (Nat.eqb a) l') && distinct_nats l' end.
Fixpoint distinct_floats (l : list float) : bool :=
  match l with [] => true | a :: l' => negb (existsb (PrimFloat.eqb a) l') && distinct_floats l' end.
Definition first_false (l : list bool) : Z :=
  (fix go (l : list bool) (k : Z) : Z :=
     match l with [] => 0%Z | b :: l' => if b then go l' (k + 1)%Z else k end) l 1%Z.
Definition nonneg_o (v : option float) : bool := match v with Some x => negb (x <? 0)%float | None => false end.
Definition in01 (v : option float) : bool := match v with Some x => (0 <=? x)%float && (x <=? 1)%float | None => false end.
Definition in11 (v : option float) : bool := match v with Some x => (-1 <=? x)%float && (x <=? 1)%float | None => false end.
Definition is_val (v : option float) (x : float) : bool := match v with Some y => (y =? x)%float | None => false end.

Definition judge_score (c : case) : Z :=
  match c with
  | CScore pts knees expected t s tab cm_out acc f1 mc mae_o mse_o rmse_o rmspe_o =>
      let n := length pts in
      let dom := (2 <=? n) && forallb (fun p => finite (fst p) && finite (snd p)) pts && increasing (map fst pts)
                 && (1 <=? length knees) && forallb (fun k => k <? n) knees
                 && (1 <=? length expected) && forallb (fun p => finite (fst p) && finite (snd p)) expected
                 && negb (f_isnan t) in
      if negb dom then 600%Z else
      let kp := @knee_points FloatNum pts knees in
      let '(a, b) := sides s kp expected in
      let keys := flat_map (fun i => map (fun j => (i, j)) (seq 0 (length b))) (seq 0 (length a)) in
      if negb (forallb (fun k => is_some (dlookup k tab)) keys) then 400%Z else
      let dist := doracle tab in
      let mo := @cm FloatNum pts knees expected t in
      let zm := (Z.of_nat (c_tp mo), Z.of_nat (c_fp mo), Z.of_nat (c_fn mo), c_tn mo) in
      let '(tp, fp, fn, tn) := match cm_out with Some q => q | None => zm end in
      let ag :=
        match cm_out with
        | Some (tp', fp', fn', tn') =>
            (tp' =? Z.of_nat (c_tp mo))%Z && (fp' =? Z.of_nat (c_fp mo))%Z && (fn' =? Z.of_nat (c_fn mo))%Z && (tn' =? c_tn mo)%Z
        | None => false end
        && opt_same acc (Some (@accuracy FloatNum tp fp fn tn))
        && opt_same f1 (Some (@f1score FloatNum tp fp fn))
        && (if (mcc_den2 tp fp fn tn <? 0)%Z then negb (is_some mc) else opt_same mc (Some (@mcc FloatNum tp fp fn tn)))
        && opt_same mae_o (Some (@mae FloatNum dist s kp expected))
        && opt_same mse_o (Some (@mse FloatNum dist s kp expected))
        && opt_same rmse_o (Some (@rmse FloatNum dist s kp expected))
        && opt_same rmspe_o (Some (@rmspe FloatNum dist s kp expected))
        (* the oracle table against its closed form: tolerance only, never steers the model *)
        && forallb (fun k => f_close 0x1p-30 0 (@dist_closed FloatNum a b (fst k) (snd k)) (dist (fst k) (snd k))) keys in
      let nE := Z.of_nat (length expected) in
      let nK := Z.of_nat (length knees) in
      let kxs := map fst kp in
      let greedy := @greedy_spec FloatNum kxs (@cm_dx FloatNum (map fst pts)) t (map fst expected) 0 [] in
      let entries_ok := (0 <=? tp)%Z && (0 <=? fp)%Z && (0 <=? fn)%Z && (0 <=? tn)%Z in
      let exact := forallb (fun p => existsb (pt_eqb p) b) a in
      let h := first_false [
        is_some cm_out && is_some acc && is_some f1 && is_some mae_o && is_some mse_o && is_some rmse_o && is_some rmspe_o;  (* 1 *)
        (tp + fn =? nE)%Z && (tp + fp =? nK)%Z && (tp + fp + fn + tn =? Z.of_nat n)%Z;            (* 2 accounting identities *)
        (tp =? Z.of_nat (length greedy))%Z;                                                      (* 3 tp = greedy count *)
        nonneg_o mae_o && nonneg_o mse_o && nonneg_o rmse_o && nonneg_o rmspe_o;                  (* 4 >= 0 *)
        match mse_o, rmse_o with Some x, Some y => f_same (PrimFloat.sqrt x) y | _, _ => false end;   (* 5 rmse = sqrt mse *)
        if exact then is_val mae_o 0 && is_val mse_o 0 && is_val rmse_o 0 && is_val rmspe_o 0 else true;   (* 6 zero on exact *)
        if entries_ok && negb (tp + tn + fp + fn =? 0)%Z then in01 acc else true;                 (* 7 *)
        if entries_ok && negb (2 * tp + fp + fn =? 0)%Z then in01 f1 else true;                   (* 8 *)
        if entries_ok && (0 <? mcc_den2 tp fp fn tn)%Z then in11 mc else true;                    (* 9 *)
        if (fp =? 0)%Z && (fn =? 0)%Z && (0 <? tp)%Z && (0 <=? tn)%Z then is_val acc 1 && is_val f1 1 else true;   (* 10 perfect *)
        if (fp =? 0)%Z && (fn =? 0)%Z && (0 <? tp)%Z && (0 <? tn)%Z then is_val mc 1 else true;     (* 11 perfect, mcc *)
        (* 12 each score = the mean per-coordinate nearest-neighbour error from the side the strategy selects
           (the declarative forms of the theorems, neighbours from the oracle table) *)
        opt_same mae_o (Some (@mean_err_spec FloatNum dist (@l1_term FloatNum) a b))
        && opt_same mse_o (Some (@mean_err_spec FloatNum dist (@l2_term FloatNum) a b))
        && opt_same rmspe_o (Some (@rmspe_spec FloatNum dist a b));
        (* 13 E exactly the knee points (distinct knees, same points in any order without repetition), t >= 0:
           the matrix is [[|K|, 0], [0, n - |K|]] *)
        if distinct_nats knees && (length expected =? length knees) && distinct_floats (map fst expected)
           && forallb (fun e => existsb (pt_eqb e) kp) expected && (0 <=? t)%float
        then (tp =? nK)%Z && (fp =? 0)%Z && (fn =? 0)%Z && (tn =? Z.of_nat n - nK)%Z else true
      ] in
      ((if ag then 0 else 100) + h)%Z
  | _ => 600%Z
  end.

Definition cm_same (mo : cmres) (q : option (Z * Z * Z * Z)) : bool :=
  match q with
  | Some (tp', fp', fn', tn') =>
      (tp' =? Z.of_nat (c_tp mo))%Z && (fp' =? Z.of_nat (c_fp mo))%Z && (fn' =? Z.of_nat (c_fn mo))%Z && (tn' =? c_tn mo)%Z
  | None => false
  end.

(* one call: the same predicates as judge_score, restricted to the function that was called *)
Definition judge_call (c : case) : Z :=
  match c with
  | CCall pts knees expected t s tab k cm_out val =>
      let n := length pts in
      let dom := (2 <=? n) && forallb (fun p => finite (fst p) && finite (snd p)) pts && increasing (map fst pts)
                 && (1 <=? length knees) && forallb (fun k => k <? n) knees
                 && (1 <=? length expected) && forallb (fun p => finite (fst p) && finite (snd p)) expected
                 && negb (f_isnan t) in
      if negb dom then 600%Z else
      let kp := @knee_points FloatNum pts knees in
      let '(a, b) := sides s kp expected in
      let keys := match k with
                  | KCm => []
                  | _ => flat_map (fun i => map (fun j => (i, j)) (seq 0 (length b))) (seq 0 (length a))
                  end in
      if negb (forallb (fun k => is_some (dlookup k tab)) keys) then 400%Z else
      let dist := doracle tab in
      let tab_ok := forallb (fun k => f_close 0x1p-30 0 (@dist_closed FloatNum a b (fst k) (snd k)) (dist (fst k) (snd k))) keys in
      let exact := forallb (fun p => existsb (pt_eqb p) b) a in
      let zero_if_exact := if exact then is_val val 0 else true in
      match k with
      | KCm =>
          let mo := @cm FloatNum pts knees expected t in
          let '(tp, fp, fn, tn) := match cm_out with Some q => q | None => (0, 0, 0, 0)%Z end in
          let nE := Z.of_nat (length expected) in
          let nK := Z.of_nat (length knees) in
          let greedy := @greedy_spec FloatNum (map fst kp) (@cm_dx FloatNum (map fst pts)) t (map fst expected) 0 [] in
          let h := first_false [
            is_some cm_out;
            (tp + fn =? nE)%Z && (tp + fp =? nK)%Z && (tp + fp + fn + tn =? Z.of_nat n)%Z;
            (tp =? Z.of_nat (length greedy))%Z;
            if distinct_nats knees && (length expected =? length knees) && distinct_floats (map fst expected)
               && forallb (fun e => existsb (pt_eqb e) kp) expected && (0 <=? t)%float
            then (tp =? nK)%Z && (fp =? 0)%Z && (fn =? 0)%Z && (tn =? Z.of_nat n - nK)%Z else true
          ] in
          ((if cm_same mo cm_out then 0 else 100) + h)%Z
      | KMae =>
          let h := first_false [is_some val; nonneg_o val; zero_if_exact;
                                opt_same val (Some (@mean_err_spec FloatNum dist (@l1_term FloatNum) a b))] in
          ((if opt_same val (Some (@mae FloatNum dist s kp expected)) && tab_ok then 0 else 100) + h)%Z
      | KMse =>
          let h := first_false [is_some val; nonneg_o val; zero_if_exact;
                                opt_same val (Some (@mean_err_spec FloatNum dist (@l2_term FloatNum) a b))] in
          ((if opt_same val (Some (@mse FloatNum dist s kp expected)) && tab_ok then 0 else 100) + h)%Z
      | KRmse =>
          (* rmse = sqrt(mse) of THESE arguments: the square root of the declarative mean squared error *)
          let h := first_false [is_some val; nonneg_o val; zero_if_exact;
                                opt_same val (Some (PrimFloat.sqrt (@mean_err_spec FloatNum dist (@l2_term FloatNum) a b)))] in
          ((if opt_same val (Some (@rmse FloatNum dist s kp expected)) && tab_ok then 0 else 100) + h)%Z
      | KRmspe =>
          let h := first_false [is_some val; nonneg_o val; zero_if_exact;
                                opt_same val (Some (@rmspe_spec FloatNum dist a b))] in
          ((if opt_same val (Some (@rmspe FloatNum dist s kp expected)) && tab_ok then 0 else 100) + h)%Z
      end
  | _ => 600%Z
  end.

(* a sequence: a step whose predicate is false decides; else a disagreeing step; else in-domain agreement; 600 if no
   step is in the domain *)
Definition combine (codes : list Z) : Z :=
  match find (fun c => negb (c / 100 =? 6)%Z && negb (c mod 100 =? 0)%Z) codes with
  | Some c => c
  | None =>
      match find (fun c => negb (c / 100 =? 6)%Z && negb (c =? 0)%Z) codes with
      | Some c => c
      | None => if existsb (fun c => (c =? 0)%Z) codes then 0%Z else 600%Z
      end
  end.

Fixpoint judge (c : case) : Z :=
  match c with
  | CScore _ _ _ _ _ _ _ _ _ _ _ _ _ _ => judge_score c
  | CCall _ _ _ _ _ _ _ _ _ => judge_call c
  | CSeq steps => combine (map judge steps)
  end.

(* the model's own outputs, for replay files *)
Definition show1 (c : case) : (nat * nat * nat * Z * list (nat * nat)) * list float :=
  match c with
  | CScore pts knees expected t s tab _ _ _ _ _ _ _ _
  | CCall pts knees expected t s tab _ _ _ =>
      let mo := @cm FloatNum pts knees expected t in
      let kp := @knee_points FloatNum pts knees in
      let dist := doracle tab in
      ((c_tp mo, c_fp mo, c_fn mo, c_tn mo, c_match mo),
       [@mae FloatNum dist s kp expected; @mse FloatNum dist s kp expected; @rmse FloatNum dist s kp expected;
        @rmspe FloatNum dist s kp expected])
  | CSeq _ => ((0, 0, 0, 0%Z, []), [])
  end.
Definition show (c : case) : list ((nat * nat * nat * Z * list (nat * nat)) * list float) :=
  match c with
  | CSeq steps => map show1 steps
  | _ => [show1 c]
  end.
