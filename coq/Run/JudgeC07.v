(* Run/JudgeC07.v — case type and judge for the C07 correspondence run. *)
From Coq Require Import ZArith List Arith Bool.
From Knee Require Import NpList Model.Mapping.
Import ListNotations.

Inductive case :=
  (* rdp.mapping(I, red, rem, sorted) returned out (None = exception) on a curve of n points *)
  | CMap (n : nat) (red : list nat) (rem : list row) (I : list nat) (sorted : bool) (out : option (list nat))
  (* a removed table `tab` obtained for the retained set `red` (from compute_removed_points or a simplifier) *)
  | CRem (n : nat) (red : list nat) (tab : list row)
  (* a simplifier returned (red, tab) on a curve of n points; compute_removed_points(points, red) = tab2;
     mapping(ix, red, tab) = out *)
  | CSimp (n : nat) (red : list nat) (tab tab2 : list row) (ix : list nat) (out : option (list nat)).

Definition opt_list_eqb (a b : option (list nat)) : bool :=
  match a, b with
  | Some x, Some y => nat_list_eqb x y
  | None, None => true
  | _, _ => false
  end.
Definition rows_eqb := list_eqb row_eqb.
(* is rem' a permutation of rows red?  (rows have pairwise distinct left indices) *)
Definition perm_rows (rem' rws : list row) : bool :=
  (length rem' =? length rws) && forallb (fun r => existsb (row_eqb r) rem') rws.

(* result code = 100 * agree + holds.
   agree: 0 model output = implementation output, 1 differs, 6 input outside the property's domain
   holds: 0 the theorem's conclusion holds of the implementation's output, k>0 conjunct k fails *)
Definition judge (c : case) : Z :=
  match c with
  | CMap n red rem ix sorted out =>
      let dom := WFb n red && nondecreasing ix && forallb (fun i => i <? length red) ix
                 && (if sorted then rows_eqb rem (rows red) else perm_rows rem (rows red)) in
      if negb dom then 600%Z else
      let a := if opt_list_eqb (mapping ix red rem sorted) out then 0%Z else 1%Z in
      let h := if opt_list_eqb out (Some (map (fun i => nth i red 0) ix)) then 0%Z else 1%Z in
      (100 * a + h)%Z
  | CRem n red tab =>
      if negb (WFb n red && (1 <=? n)) then 600%Z else
      let a := if rows_eqb (compute_removed n red) tab then 0%Z else 1%Z in
      let h := if rows_eqb tab (rows red) then
                 if (length red + fold_right (fun r s => snd r + s) 0 tab =? n) then 0%Z else 2%Z
               else 1%Z in
      (100 * a + h)%Z
  | CSimp n red tab tab2 ix out =>
      if negb (WFb n red && (1 <=? n) && nondecreasing ix && forallb (fun i => i <? length red) ix) then 600%Z else
      let a := if rows_eqb (compute_removed n red) tab2 && opt_list_eqb (mapping ix red tab true) out then 0%Z else 1%Z in
      let h := if negb (rows_eqb tab (rows red)) then 1%Z
               else if negb (rows_eqb tab2 tab) then 2%Z
               else if negb (opt_list_eqb out (Some (map (fun i => nth i red 0) ix))) then 3%Z
               else if negb (length red + fold_right (fun r s => snd r + s) 0 tab =? n) then 4%Z else 0%Z in
      (100 * a + h)%Z
  end.

(* the model's own outputs, for replay files *)
Definition show (c : case) : option (list nat) * list row :=
  match c with
  | CMap n red rem ix sorted out => (mapping ix red rem sorted, [])
  | CRem n red tab => (None, compute_removed n red)
  | CSimp n red tab tab2 ix out => (mapping ix red tab true, compute_removed n red)
  end.
